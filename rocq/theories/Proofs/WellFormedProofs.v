(** * C05 -- the text the serialiser model prints is recognised by the Spec
    grammar and closed (W3, W4).

    Plan: (A) every line printed by [prefix_lines] / [shape_lines] /
    [statement_lines] lexes to an explicit token list ([doc_toks]);
    (B) [doc_toks] is accepted by the automaton; (C) the closure checks hold
    of [doc_toks] when the shape list is closed and its labels distinct. *)
From Coq Require Import List Ascii String ZArith NArith Bool Arith Lia.
From Shexer Require Import Lib.PyStr Lib.Dict Gen.Consts Model.Tokens Model.Freq Model.Shexing Model.SerialShexc
     Model.C05Dom Spec.ShexcGrammar Proofs.WellFormedTokens Proofs.WellFormedLex.
Import ListNotations.

(** ** the tokens of the model's pieces *)
Definition iri_tok (ns : nsdict) (u : str) : token :=
  match best_ns ns u with
  | Some (n, p) => TPname p (skipn (List.length n) u)
  | None => TIri u
  end.

Definition kind_of (t : str) : kind :=
  if str_eqb t c_IRI_ELEM_TYPE then NkIri else if str_eqb t c_BNODE_ELEM_TYPE then NkBnode else NkNonlit.

Definition type_toks (ns : nsdict) (t : str) : list token :=
  if prefixb c_STARTING_CHAR_FOR_SHAPE_NAME t then
    match strip_label t with Some u => [TAt; iri_tok ns u] | None => [] end
  else if mem_str t kinds then [TKind (kind_of t)]
  else [iri_tok ns t].

Definition target_toks (z : sercfg) (prop t : str) : list token :=
  if str_eqb prop (z_tau z) then TLBrack :: type_toks (z_ns z) t ++ [TRBrack] else type_toks (z_ns z) t.

Definition card_toks (c : card) : list token :=
  match c with
  | CExact k => if N.eqb k 1 then [] else [TRepeat (dec_of_N k)]
  | CPlus => [TPlus]
  | CStar => [TStar]
  | COpt => [TOpt]
  end.

Fixpoint or_join (l : list (list token)) : list token :=
  match l with
  | [] => []
  | [x] => x
  | x :: r => x ++ [TOr] ++ or_join r
  end.

Definition stmt_toks (z : sercfg) (s : stmt) (is_last : bool) : list token :=
  (if s_inv s then [TCaret] else []) ++ [iri_tok (z_ns z) (s_prop s)] ++
  (if s_choice s then or_join (map (target_toks z (s_prop s)) (s_types s))
   else target_toks z (s_prop s) (s_type s)) ++
  card_toks (s_card s) ++ (if is_last then [] else [TSemi]).

Fixpoint stmts_toks (z : sercfg) (l : list stmt) : list token :=
  match l with
  | [] => []
  | [s] => stmt_toks z s true
  | s :: r => stmt_toks z s false ++ stmts_toks z r
  end.

Definition label_tok (ns : nsdict) (name : str) : token :=
  match strip_label name with Some u => iri_tok ns u | None => TIri [] end.

Definition shape_toks (z : sercfg) (sh : shape) : list token :=
  label_tok (z_ns z) (sh_name sh) :: TLBrace :: stmts_toks z (sh_stmts sh) ++ [TRBrace].

Definition prefix_toks (ns : nsdict) : list token :=
  flat_map (fun np : str * str => [TPrefixKw; TPname (snd np) []; TIri (fst np)]) ns.

Definition doc_toks (z : sercfg) (l : list shape) : list token :=
  prefix_toks (z_ns z) ++ flat_map (shape_toks z) l.

(** ** domain facts *)
Lemma ns_ok_entry ns n p : ns_ok ns = true -> In (n, p) ns ->
  n <> [] /\ forallb iri_char n = true /\ existsb (fun c => negb (pn_char c)) n = true /\ valid_prefix p = true.
Proof.
  unfold ns_ok. intros H Hin. apply andb_true_iff in H. destruct H as [H _].
  rewrite forallb_forall in H. specialize (H _ Hin). unfold ns_entry_ok in H. cbn [fst snd] in H.
  repeat (apply andb_true_iff in H; destruct H as [H ?]). repeat split; try assumption.
  intros ->. discriminate H.
Qed.

Lemma ns_ok_keys ns : ns_ok ns = true -> keys_nonempty ns.
Proof. intros H n p Hin. apply (ns_ok_entry ns n p H Hin). Qed.

Lemma strip_label_spec k u : strip_label k = Some u -> k = Str "%<" ++ u ++ Str ">".
Proof.
  unfold strip_label. destruct k as [|c1 [|c2 r]]; try discriminate.
  destruct (Ascii.eqb c1 "%"%char) eqn:E1; [|discriminate]. destruct (Ascii.eqb c2 "<"%char) eqn:E2; [|discriminate].
  cbn [andb]. destruct (rev r) as [|c3 ur] eqn:Er; [discriminate|].
  destruct (Ascii.eqb c3 ">"%char) eqn:E3; [|discriminate]. intros H; inversion H; subst.
  apply Ascii.eqb_eq in E1, E2, E3. subst. cbn. do 2 f_equal.
  rewrite <- (rev_involutive r), Er. reflexivity.
Qed.

Lemma strip_label_mk u : strip_label (Str "%<" ++ u ++ Str ">") = Some u.
Proof.
  cbn. rewrite rev_app_distr. cbn. rewrite rev_involutive. reflexivity.
Qed.

(** the prefixed form of an IRI whose remainder is a local name *)
Lemma best_ns_plain ns u n p :
  ns_ok ns = true -> best_ns ns u = Some (n, p) -> valid_local (skipn (List.length n) u) = true ->
  py_replace n (p ++ Str ":") u = p ++ ":"%char :: skipn (List.length n) u.
Proof.
  intros Hns Hb Hl. destruct (best_ns_spec _ _ _ _ Hb) as [Hin [Hu _]].
  destruct (ns_ok_entry _ _ _ Hns Hin) as [Hne [_ [Hex _]]].
  unfold py_replace. rewrite replace_all_prefix; [|exact Hne|apply prefixb_spec; eexists; exact Hu].
  rewrite replace_all_absent.
  - rewrite <- app_assoc. reflexivity.
  - eapply find_nat_class; [apply valid_local_pn, Hl|exact Hex].
Qed.

(** ** (A) tokens of the printed names *)
Lemma tokL_iri u : forallb iri_char u = true -> tokL (Str "<" ++ u ++ Str ">") [TIri u].
Proof. intros H. apply tokL_closed. apply (lexes_iri u H). Qed.

Lemma plain_ok_parts ns u : plain_ok ns u = true ->
  forallb iri_char u = true /\ contains (Str ":") u = true /\
  prefixb c_STARTING_CHAR_FOR_SHAPE_NAME u = false /\ local_ok ns u = true.
Proof.
  unfold plain_ok. intros H. repeat (apply andb_true_iff in H; destruct H as [H ?]).
  repeat split; try assumption. apply negb_true_iff. assumption.
Qed.

Lemma colon_not_kind u : contains (Str ":") u = true -> mem_str u kinds = false.
Proof.
  intros H. destruct (mem_str u kinds) eqn:E; [|reflexivity]. apply mem_str_In in E.
  cbn in E. destruct E as [<-|[<-|[<-|[]]]]; vm_compute in H; discriminate H.
Qed.

(** a plain IRI (predicate, datatype, class) *)
Lemma tune_plain ns u : ns_ok ns = true -> plain_ok ns u = true ->
  exists s, tune_token ns u = Some s /\ tokL s [iri_tok ns u].
Proof.
  intros Hns H. destruct (plain_ok_parts _ _ H) as [Hi [Hc [Hp Hl]]].
  unfold tune_token. rewrite Hp. fold kinds. rewrite (colon_not_kind u Hc). rewrite Hc. cbn [negb].
  unfold prefixize_opt, iri_tok, local_ok in *. destruct (best_ns ns u) as [[n p]|] eqn:E.
  - eexists. split; [reflexivity|]. rewrite (best_ns_plain _ _ _ _ Hns E Hl).
    destruct (best_ns_spec _ _ _ _ E) as [Hin _]. destruct (ns_ok_entry _ _ _ Hns Hin) as [_ [_ [_ Hvp]]].
    apply tokL_pname; assumption.
  - eexists. split; [reflexivity|]. apply tokL_iri, Hi.
Qed.

(** a shape label [%<u>] *)
Lemma prefixize_label ns k : ns_ok ns = true -> label_ok ns k = true ->
  exists s, prefixize_shape_name ns k = Some s /\ tokL s [label_tok ns k].
Proof.
  intros Hns H. unfold label_ok, label_tok in *. destruct (strip_label k) as [u|] eqn:Es; [|discriminate].
  apply strip_label_spec in Es. subst k. destruct (plain_ok_parts _ _ H) as [Hi [Hc [Hp Hl]]].
  unfold prefixize_shape_name. change (Str "%<" ++ u ++ Str ">") with ("%"%char :: (Str "<" ++ u ++ Str ">")).
  rewrite slice_from_1. unfold prefixize_cornered. rewrite remove_corners_strict_ok.
  unfold iri_tok, local_ok in *. destruct (best_ns ns u) as [[n p]|] eqn:E.
  - eexists. split; [reflexivity|]. rewrite (best_ns_plain _ _ _ _ Hns E Hl).
    destruct (best_ns_spec _ _ _ _ E) as [Hin _]. destruct (ns_ok_entry _ _ _ Hns Hin) as [_ [_ [_ Hvp]]].
    apply tokL_pname; assumption.
  - eexists. split; [reflexivity|]. apply tokL_iri, Hi.
Qed.

Lemma lexes_at : lexes (Str "@") [TAt]. Proof. reflexivity. Qed.

Lemma tokL_kind t : In t kinds -> tokL t [TKind (kind_of t)].
Proof.
  cbn. intros [<-|[<-|[<-|[]]]]; apply tokL_word; reflexivity.
Qed.

(** any value type *)
Lemma tune_type ns t : ns_ok ns = true -> type_ok ns t = true ->
  exists s, tune_token ns t = Some s /\ tokL s (type_toks ns t).
Proof.
  intros Hns H. unfold type_ok, type_toks in *.
  destruct (prefixb c_STARTING_CHAR_FOR_SHAPE_NAME t) eqn:Ep.
  - destruct (prefixize_label ns t Hns H) as [s [Hs Ht]]. unfold tune_token. rewrite Ep, Hs.
    eexists. split; [reflexivity|]. unfold label_tok in Ht. unfold label_ok in H.
    destruct (strip_label t); [|discriminate]. apply (tokL_app _ [TAt] _ _ lexes_at Ht).
  - destruct (mem_str t kinds) eqn:Ek.
    + unfold tune_token. rewrite Ep. fold kinds. rewrite Ek. eexists. split; [reflexivity|].
      apply tokL_kind, mem_str_In, Ek.
    + destruct (tune_plain ns t Hns H) as [s [Hs Ht]]. exists s. split; assumption.
Qed.

Lemma plain_type_toks ns t : plain_ok ns t = true -> type_toks ns t = [iri_tok ns t].
Proof.
  intros H. destruct (plain_ok_parts _ _ H) as [_ [Hc [Hp _]]]. unfold type_toks.
  rewrite Hp, (colon_not_kind t Hc). reflexivity.
Qed.

Lemma plain_type_ok ns t : plain_ok ns t = true -> type_ok ns t = true.
Proof.
  intros H. destruct (plain_ok_parts _ _ H) as [_ [Hc [Hp _]]]. unfold type_ok.
  rewrite Hp, (colon_not_kind t Hc). exact H.
Qed.

(** ** (A) numbers, cardinalities, frequencies *)
Lemma digit_of_is_digit m : (m < 10)%nat -> is_digit (digit_of m) = true.
Proof. intros H. do 10 (destruct m as [|m]; [reflexivity|]). lia. Qed.

Lemma dec_fuel_digits : forall f n acc, forallb is_digit acc = true -> forallb is_digit (dec_fuel f n acc) = true.
Proof.
  induction f as [|f IH]; intros n acc H; [exact H|]. cbn [dec_fuel].
  assert (Hd : forallb is_digit (digit_of (N.to_nat (n mod 10)) :: acc) = true).
  { cbn [forallb]. rewrite H, digit_of_is_digit; [reflexivity|].
    pose proof (N.mod_upper_bound n 10). lia. }
  destruct (N.eqb (n / 10) 0); [exact Hd|apply IH, Hd].
Qed.

Lemma dec_fuel_nonempty : forall f n acc, acc <> [] -> dec_fuel f n acc <> [].
Proof.
  induction f as [|f IH]; intros n acc H; [exact H|]. cbn [dec_fuel].
  destruct (N.eqb (n / 10) 0); [discriminate|apply IH; discriminate].
Qed.

Lemma dec_of_N_digits n : forallb is_digit (dec_of_N n) = true.
Proof. apply dec_fuel_digits. reflexivity. Qed.

Lemma dec_of_N_nonempty n : dec_of_N n <> [].
Proof.
  unfold dec_of_N. cbn [dec_fuel]. destruct (N.eqb (n / 10) 0); [discriminate|apply dec_fuel_nonempty; discriminate].
Qed.

Lemma digit_no_nl c : is_digit c = true -> negb (code c =? 10) = true.
Proof. all_bytes c; intros H; first [discriminate H | reflexivity]. Qed.

Lemma digits_no_nl s : forallb is_digit s = true -> no_nl s = true.
Proof.
  intros H. apply forallb_forall. intros x Hx. apply digit_no_nl. rewrite forallb_forall in H. auto.
Qed.

Lemma dec_no_nl n : no_nl (dec_of_N n) = true.
Proof. apply digits_no_nl, dec_of_N_digits. Qed.

Lemma lex_repeat_body ds : forall acc, forallb is_digit ds = true ->
  lex_run (LRepeat acc) (ds ++ ["}"%char]) = Some (LDef, [TRepeat (rev acc ++ ds)]).
Proof.
  induction ds as [|c ds IH]; intros acc H.
  - cbn. rewrite app_nil_r. reflexivity.
  - cbn [forallb] in H. apply andb_true_iff in H. destruct H as [Hc Hd].
    cbn [app lex_run lex_step]. rewrite Hc. rewrite (IH (c :: acc) Hd). cbn [rev]. rewrite <- app_assoc. reflexivity.
Qed.

Lemma lexes_repeat ds : forallb is_digit ds = true -> ds <> [] ->
  lexes ("{"%char :: ds ++ ["}"%char]) [TRepeat ds].
Proof.
  intros H Hne. destruct ds as [|c ds]; [congruence|]. cbn [forallb] in H. apply andb_true_iff in H.
  destruct H as [Hc Hd]. unfold lexes. cbn [app lex_run lex_step].
  change (lex_def "{"%char) with (Some (LBrace, @nil token)). cbv beta iota. cbn [lex_step]. rewrite Hc.
  rewrite (lex_repeat_body ds [c] Hd). reflexivity.
Qed.

Lemma lexes_card c : lexes (card_repr true c) (card_toks c).
Proof.
  destruct c as [k| | |]; try reflexivity. cbn [card_repr card_toks andb].
  destruct (N.eqb k 1); [reflexivity|].
  change (Str "{" ++ dec_of_N k ++ Str "}") with ("{"%char :: dec_of_N k ++ ["}"%char]).
  apply lexes_repeat; [apply dec_of_N_digits|apply dec_of_N_nonempty].
Qed.

Lemma card_no_nl b c : no_nl (card_repr b c) = true.
Proof.
  destruct c as [k| | |]; try reflexivity. cbn [card_repr]. destruct (b && N.eqb k 1); [reflexivity|].
  rewrite !no_nl_app, dec_no_nl. reflexivity.
Qed.

Lemma no_nl_firstn k s : no_nl s = true -> no_nl (firstn k s) = true.
Proof.
  revert s; induction k; intros s H; [reflexivity|]. destruct s; [reflexivity|]. cbn in *.
  apply andb_true_iff in H. destruct H as [-> H]. cbn. apply IHk, H.
Qed.

Lemma abs_freq_no_nl n : no_nl (abs_freq n) = true.
Proof.
  unfold abs_freq. rewrite !no_nl_app, dec_no_nl. destruct (N.eqb n 1); reflexivity.
Qed.

Lemma placeholder_no_nl cnt p : no_nl (prob_placeholder cnt p) = true.
Proof.
  unfold prob_placeholder. destruct p; rewrite !no_nl_app, ?dec_no_nl; reflexivity.
Qed.

Lemma frequency_no_nl m cnt p nocc : no_nl (serialize_frequency m cnt p nocc) = true.
Proof.
  unfold serialize_frequency, ratio_freq. destruct m; rewrite ?no_nl_app, ?placeholder_no_nl, ?abs_freq_no_nl; try reflexivity.
  unfold slice_to. rewrite no_nl_firstn; [reflexivity|apply abs_freq_no_nl].
Qed.

Lemma lexes_spaces n : lexes (spaces n) [].
Proof. apply lexes_ws. induction n; cbn; auto. Qed.

Lemma lexes_final_spaces b : lexes (final_spaces b) [].
Proof. unfold final_spaces. destruct (_ <? _)%Z; [reflexivity|apply lexes_spaces]. Qed.

Lemma lexes_nl : lexes [nlc] []. Proof. reflexivity. Qed.

Lemma lexes_app_nil a b : lexes a [] -> lexes b [] -> lexes (a ++ b) [].
Proof. intros Ha Hb. apply (lexes_app a [] b [] Ha Hb). Qed.

Lemma lexes_app_nil_l a b tb : lexes a [] -> lexes b tb -> lexes (a ++ b) tb.
Proof. intros Ha Hb. apply (lexes_app a [] b tb Ha Hb). Qed.

(** the frequency comment that ends a constraint line, with the line break *)
Lemma lexes_probability z cnt p nocc : lexes (probability_representation z cnt p nocc ++ [nlc]) [].
Proof.
  unfold probability_representation. change c_COMMENT_INI with ("#"%char :: [" "%char]). cbn [app].
  apply (lexes_comment (" "%char :: serialize_frequency (z_mode z) cnt p nocc)).
  cbn [no_nl forallb]. apply frequency_no_nl.
Qed.

Lemma lexes_comment_eq s body : s = "#"%char :: body ++ [nlc] -> no_nl body = true -> lexes s [].
Proof. intros -> H. apply lexes_comment, H. Qed.

(** a comment line *)
Lemma lexes_comment_line z cnt k : comment_ok k = true -> lexes (indent 4 ++ comment_text z cnt k ++ [nlc]) [].
Proof.
  intros Hk. apply lexes_app_nil; [reflexivity|].
  destruct k as [ch p nocc tok c|t]; [|discriminate]. cbn [comment_ok] in Hk. fold (no_nl tok) in Hk.
  unfold comment_text, probability_representation. change c_COMMENT_INI with ("#"%char :: [" "%char]).
  destruct ch.
  - apply (lexes_comment_eq _ (" "%char :: serialize_frequency (z_mode z) cnt p nocc ++ Str " with cardinality " ++ card_repr false c)).
    + cbn [app]. rewrite <- !app_assoc. reflexivity.
    + cbn [no_nl forallb]. fold (no_nl (serialize_frequency (z_mode z) cnt p nocc ++ Str " with cardinality " ++ card_repr false c)).
      rewrite !no_nl_app, frequency_no_nl, card_no_nl. reflexivity.
  - apply (lexes_comment_eq _ (" "%char :: serialize_frequency (z_mode z) cnt p nocc ++ Str " obj: " ++ tok ++ Str ". Cardinality: " ++ card_repr false c)).
    + cbn [app]. rewrite <- !app_assoc. reflexivity.
    + cbn [no_nl forallb].
      fold (no_nl (serialize_frequency (z_mode z) cnt p nocc ++ Str " obj: " ++ tok ++ Str ". Cardinality: " ++ card_repr false c)).
      rewrite !no_nl_app, frequency_no_nl, card_no_nl, Hk. reflexivity.
Qed.

Lemma lexes_comment_lines z cnt ks : forallb comment_ok ks = true ->
  lexes (List.concat (map (fun k => indent 4 ++ comment_text z cnt k ++ [nlc]) ks)) [].
Proof.
  induction ks as [|k ks IH]; cbn [forallb map List.concat]; [reflexivity|]. intros H.
  apply andb_true_iff in H. destruct H as [Hk Hks].
  apply lexes_app_nil; [apply lexes_comment_line, Hk|apply IH, Hks].
Qed.

(** ** (A) constraint lines *)
Notation gap := c_SPACES_GAP_BETWEEN_TOKENS.

Lemma gapL s toks : tokL s toks -> lexes (s ++ gap) toks.
Proof.
  intros H. change gap with ([" "%char] ++ [" "%char]). rewrite app_assoc.
  replace toks with ((toks ++ []) ++ []) by (rewrite !app_nil_r; reflexivity).
  apply lexes_app; [apply H, delim_space|reflexivity].
Qed.

Lemma lexes_gap : lexes gap []. Proof. reflexivity. Qed.

Definition target_dom (z : sercfg) (prop t : str) : bool :=
  if str_eqb prop (z_tau z) then plain_ok (z_ns z) t else type_ok (z_ns z) t.

Lemma target_lex z prop t : ns_ok (z_ns z) = true -> target_dom z prop t = true ->
  exists s, target_element z prop t = Some s /\ lexes (s ++ gap) (target_toks z prop t).
Proof.
  intros Hns H. unfold target_dom, target_element, target_toks in *.
  destruct (str_eqb prop (z_tau z)).
  - destruct (tune_type _ _ Hns (plain_type_ok _ _ H)) as [s [Hs Ht]]. rewrite Hs.
    eexists. split; [reflexivity|].
    change (Str "[" ++ s ++ Str "]") with ("["%char :: (s ++ ["]"%char])). cbn [app].
    apply (lexes_app ["["%char] [TLBrack] ((s ++ ["]"%char]) ++ gap) (type_toks (z_ns z) t ++ [TRBrack])); [reflexivity|].
    replace (type_toks (z_ns z) t ++ [TRBrack]) with ((type_toks (z_ns z) t ++ [TRBrack]) ++ []) by apply app_nil_r.
    apply lexes_app; [apply Ht, delim_rbrack|apply lexes_gap].
  - destruct (tune_type _ _ Hns H) as [s [Hs Ht]]. rewrite Hs. eexists. split; [reflexivity|]. apply gapL, Ht.
Qed.

Lemma lexes_base inv_s ti prop tp mid tm card tc semi ts :
  lexes inv_s ti -> lexes (prop ++ gap) tp -> lexes (mid ++ gap) tm -> lexes card tc -> lexes semi ts ->
  lexes (inv_s ++ prop ++ gap ++ mid ++ gap ++ card ++ semi) (ti ++ tp ++ tm ++ tc ++ ts).
Proof.
  intros H1 H2 H3 H4 H5. apply lexes_app; [exact H1|]. rewrite (app_assoc prop). apply lexes_app; [exact H2|].
  rewrite (app_assoc mid). apply lexes_app; [exact H3|]. apply lexes_app; assumption.
Qed.

Lemma lexes_inv (b : bool) : lexes (if b then Str "^" ++ gap else []) (if b then [TCaret] else []).
Proof. destruct b; reflexivity. Qed.

Lemma lexes_semi (b : bool) : lexes (if b then [] else Str ";") (if b then [] else [TSemi]).
Proof. destruct b; reflexivity. Qed.

Lemma lexes_line_end base tb : lexes base tb -> lexes (indent 1 ++ base ++ [nlc]) tb.
Proof.
  intros H. apply lexes_app_nil_l; [reflexivity|].
  replace tb with (tb ++ []) by apply app_nil_r. apply lexes_app; [exact H|apply lexes_nl].
Qed.

Lemma lexes_line_end_prob z cnt p nocc base tb : lexes base tb ->
  lexes (indent 1 ++ (base ++ final_spaces base ++ probability_representation z cnt p nocc) ++ [nlc]) tb.
Proof.
  intros H. apply lexes_app_nil_l; [reflexivity|]. rewrite <- !app_assoc.
  replace tb with (tb ++ []) by apply app_nil_r. apply lexes_app; [exact H|].
  apply lexes_app_nil; [apply lexes_final_spaces|apply lexes_probability].
Qed.

(** the targets of a choice statement *)
Lemma targets_lex z prop types : ns_ok (z_ns z) = true -> forallb (target_dom z prop) types = true ->
  exists targets, all_some (map (target_element z prop) types) = Some targets /\
    Forall2 (fun s t => lexes (s ++ gap) (target_toks z prop t)) targets types.
Proof.
  intros Hns. induction types as [|t types IH]; cbn [forallb map all_some]; intros H.
  - exists []. split; [reflexivity|constructor].
  - apply andb_true_iff in H. destruct H as [Ht Hts]. destruct (target_lex z prop t Hns Ht) as [s [Hs Hl]].
    destruct (IH Hts) as [targets [Ha Hf]]. rewrite Hs, Ha. eexists. split; [reflexivity|]. constructor; assumption.
Qed.

Lemma join_or_lex z prop targets types :
  Forall2 (fun s t => lexes (s ++ gap) (target_toks z prop t)) targets types -> types <> [] ->
  lexes (join (gap ++ Str "OR" ++ gap) targets ++ gap) (or_join (map (target_toks z prop) types)).
Proof.
  induction 1 as [|s t targets types Hs Hf IH]; [congruence|]. intros _.
  destruct Hf as [|s2 t2 targets2 types2 Hs2 Hf2].
  - cbn [join map or_join]. exact Hs.
  - change (join (gap ++ Str "OR" ++ gap) (s :: s2 :: targets2))
      with (s ++ (gap ++ Str "OR" ++ gap) ++ join (gap ++ Str "OR" ++ gap) (s2 :: targets2)).
    change (or_join (map (target_toks z prop) (t :: t2 :: types2)))
      with (target_toks z prop t ++ [TOr] ++ or_join (map (target_toks z prop) (t2 :: types2))).
    rewrite <- !app_assoc. rewrite (app_assoc s gap). apply lexes_app; [exact Hs|].
    rewrite (app_assoc (Str "OR") gap). apply lexes_app; [reflexivity|].
    apply IH. discriminate.
Qed.

Lemma stmt_ok_parts z s : stmt_ok z s = true ->
  plain_ok (z_ns z) (s_prop s) = true /\ s_types s <> [] /\
  forallb (target_dom z (s_prop s)) (s_types s) = true /\ forallb comment_ok (s_comments s) = true.
Proof.
  unfold stmt_ok. intros H. apply andb_true_iff in H. destruct H as [H H4].
  apply andb_true_iff in H. destruct H as [H H3]. apply andb_true_iff in H. destruct H as [H1 H2].
  split; [exact H1|]. split; [|split; [|exact H4]].
  - intros E. rewrite E in H2. discriminate.
  - unfold target_dom. destruct (str_eqb (s_prop s) (z_tau z)); exact H3.
Qed.

(** W3, constraint and comment lines: the lines of one statement *)
Lemma statement_lexes z cnt s is_last : ns_ok (z_ns z) = true -> stmt_ok z s = true ->
  exists ls, statement_lines z cnt s is_last = Some ls /\ lexes (List.concat ls) (stmt_toks z s is_last).
Proof.
  intros Hns Hs. destruct (stmt_ok_parts z s Hs) as [Hp [Hne [Hty Hco]]].
  destruct (tune_plain _ _ Hns Hp) as [prop [Hprop Hpl]].
  unfold statement_lines, stmt_toks. rewrite Hprop.
  change (Str (String (ascii_of_nat 10) EmptyString)) with [nlc].
  pose proof (lexes_comment_lines z cnt (s_comments s) Hco) as Hcl.
  destruct (s_choice s).
  - destruct (targets_lex z (s_prop s) (s_types s) Hns Hty) as [targets [Ha Hf]]. rewrite Ha.
    eexists. split; [reflexivity|]. cbn [List.concat].
    rewrite <- (app_nil_r (_ ++ _ ++ _ ++ card_toks _ ++ _)). apply lexes_app; [|exact Hcl].
    apply lexes_line_end. apply lexes_base.
    + apply lexes_inv.
    + apply gapL, Hpl.
    + apply join_or_lex; assumption.
    + apply lexes_card.
    + apply lexes_semi.
  - assert (Ht : target_dom z (s_prop s) (s_type s) = true).
    { unfold s_type. destruct (s_types s) as [|t ts]; [congruence|]. cbn in Hty. apply andb_true_iff in Hty. tauto. }
    destruct (target_lex z (s_prop s) (s_type s) Hns Ht) as [target [Htg Htl]]. rewrite Htg.
    eexists. split; [reflexivity|]. cbn [List.concat].
    rewrite <- (app_nil_r (_ ++ _ ++ _ ++ card_toks _ ++ _)). apply lexes_app; [|exact Hcl].
    assert (Hb : lexes ((if s_inv s then Str "^" ++ gap else []) ++ prop ++ gap ++ target ++ gap ++
                        card_repr true (s_card s) ++ (if is_last then [] else Str ";"))
                       ((if s_inv s then [TCaret] else []) ++ [iri_tok (z_ns z) (s_prop s)] ++
                        target_toks z (s_prop s) (s_type s) ++ card_toks (s_card s) ++
                        (if is_last then [] else [TSemi]))).
    { apply lexes_base; [apply lexes_inv|apply gapL, Hpl|exact Htl|apply lexes_card|apply lexes_semi]. }
    destruct (s_card s); try (apply lexes_line_end, Hb);
      (destruct (z_disable_comments z); [apply lexes_line_end, Hb|apply lexes_line_end_prob, Hb]).
Qed.

(** ** (A) shapes, prefix lines, the document *)
Lemma statements_lines_cons2 z cnt s s2 r :
  statements_lines z cnt (s :: s2 :: r) =
  match statement_lines z cnt s false, statements_lines z cnt (s2 :: r) with
  | Some a, Some b => Some (a ++ b)
  | _, _ => None
  end.
Proof. reflexivity. Qed.

Lemma stmts_toks_cons2 z s s2 r : stmts_toks z (s :: s2 :: r) = stmt_toks z s false ++ stmts_toks z (s2 :: r).
Proof. reflexivity. Qed.

Lemma statements_lexes z cnt l : ns_ok (z_ns z) = true -> forallb (stmt_ok z) l = true ->
  exists ls, statements_lines z cnt l = Some ls /\ lexes (List.concat ls) (stmts_toks z l).
Proof.
  intros Hns. induction l as [|s l IH]; intros H.
  - exists []. split; reflexivity.
  - cbn [forallb] in H. apply andb_true_iff in H. destruct H as [Hs Hl]. destruct l as [|s2 r].
    + destruct (statement_lexes z cnt s true Hns Hs) as [ls [H1 H2]]. exists ls. split; assumption.
    + destruct (statement_lexes z cnt s false Hns Hs) as [a [Ha1 Ha2]]. destruct (IH Hl) as [b [Hb1 Hb2]].
      rewrite statements_lines_cons2, stmts_toks_cons2, Ha1, Hb1. eexists. split; [reflexivity|].
      rewrite concat_app. apply lexes_app; assumption.
Qed.

Lemma lexes_header z name tok n : tokL name [tok] -> lexes (name ++ [] ++ instance_count z n ++ [nlc]) [tok].
Proof.
  intros H. cbn [app].
  assert (H0 : lexes (name ++ [nlc]) [tok]) by (apply (H nlc [] delim_nl)).
  assert (H1 : lexes (name ++ (Str "   # " ++ dec_of_N n ++ Str " instance" ++ (if N.eqb n 1 then [] else Str "s") ++ Str ".") ++ [nlc]) [tok]).
  { change (Str "   # ") with ([" "%char] ++ Str "  " ++ Str "# "). rewrite <- !app_assoc. rewrite (app_assoc name).
    apply (lexes_app _ [tok] _ []); [apply (H " "%char [] delim_space)|].
    apply lexes_app_nil; [reflexivity|]. cbn [Str list_ascii_of_string app].
    apply (lexes_comment_eq _ (" "%char :: dec_of_N n ++ Str " instance" ++ (if N.eqb n 1 then [] else Str "s") ++ Str ".")).
    - cbn [app]. rewrite <- !app_assoc. reflexivity.
    - cbn [no_nl forallb]. fold (no_nl (dec_of_N n ++ Str " instance" ++ (if N.eqb n 1 then [] else Str "s") ++ Str ".")).
      rewrite !no_nl_app, dec_no_nl. destruct (N.eqb n 1); reflexivity. }
  unfold instance_count. destruct (z_mode z); [exact H0| |]; (destruct (z_disable_comments z); [exact H0|exact H1]).
Qed.

Lemma shape_ok_parts z sh : shape_ok z sh = true ->
  label_ok (z_ns z) (sh_name sh) = true /\ forallb (stmt_ok z) (sh_stmts sh) = true.
Proof. unfold shape_ok. intros H. apply andb_true_iff in H. exact H. Qed.

(** W3, header line, braces, body: the lines of one shape *)
Lemma shape_lexes z sh : ns_ok (z_ns z) = true -> shape_ok z sh = true ->
  exists ls, shape_lines z sh [] [] = Some ls /\ lexes (List.concat ls) (shape_toks z sh).
Proof.
  intros Hns H. destruct (shape_ok_parts z sh H) as [Hl Hs].
  destruct (prefixize_label _ _ Hns Hl) as [name [Hn1 Hn2]].
  destruct (statements_lexes z (sh_n sh) (sh_stmts sh) Hns Hs) as [body [Hb1 Hb2]].
  unfold shape_lines. rewrite Hn1, Hb1. eexists. split; [reflexivity|].
  change nl with [nlc]. rewrite !concat_app. cbn [List.concat]. unfold shape_toks.
  change (label_tok (z_ns z) (sh_name sh) :: TLBrace :: stmts_toks z (sh_stmts sh) ++ [TRBrace])
    with (([label_tok (z_ns z) (sh_name sh)] ++ [TLBrace] ++ []) ++ stmts_toks z (sh_stmts sh) ++ ([TRBrace] ++ [] ++ [] ++ [])).
  apply lexes_app; [|apply lexes_app; [exact Hb2|]].
  - apply lexes_app; [apply lexes_header, Hn2|]. apply lexes_app; reflexivity.
  - apply lexes_app; [reflexivity|]. apply lexes_app; [reflexivity|]. apply lexes_app; reflexivity.
Qed.

Lemma shapes_lexes z l : ns_ok (z_ns z) = true -> forallb (shape_ok z) l = true ->
  exists ls, shapes_lines z l = Some ls /\ lexes (List.concat ls) (flat_map (shape_toks z) l).
Proof.
  intros Hns. induction l as [|sh l IH]; cbn [forallb shapes_lines flat_map]; intros H.
  - exists []. split; reflexivity.
  - apply andb_true_iff in H. destruct H as [Hs Hl]. destruct (shape_lexes z sh Hns Hs) as [a [Ha1 Ha2]].
    destruct (IH Hl) as [b [Hb1 Hb2]]. rewrite Ha1, Hb1. eexists. split; [reflexivity|].
    rewrite concat_app. apply lexes_app; assumption.
Qed.

(** W3, prefix line *)
Lemma prefix_line_lexes n p : ns_entry_ok (n, p) = true ->
  lexes (Str "PREFIX " ++ p ++ Str ": <" ++ n ++ Str ">" ++ [nlc]) [TPrefixKw; TPname p []; TIri n].
Proof.
  unfold ns_entry_ok. cbn [fst snd]. intros H. apply andb_true_iff in H. destruct H as [H Hp].
  apply andb_true_iff in H. destruct H as [H _]. apply andb_true_iff in H. destruct H as [_ Hn].
  apply (lexes_app (Str "PREFIX ") [TPrefixKw] _ [TPname p []; TIri n]); [reflexivity|].
  replace (p ++ Str ": <" ++ n ++ Str ">" ++ [nlc]) with (((p ++ [":"%char]) ++ [" "%char]) ++ ("<"%char :: n ++ [">"%char]) ++ [nlc])
    by (cbn [Str list_ascii_of_string app]; rewrite <- !app_assoc; reflexivity).
  apply (lexes_app _ [TPname p []] _ [TIri n]).
  - apply (tokL_pname p [] Hp eq_refl " "%char [] delim_space).
  - apply (lexes_app _ [TIri n] _ []); [apply lexes_iri, Hn|apply lexes_nl].
Qed.

Lemma prefix_lines_lexes ns : forallb ns_entry_ok ns = true ->
  lexes (List.concat (prefix_lines ns)) (prefix_toks ns).
Proof.
  unfold prefix_lines, prefix_toks. change nl with [nlc]. intros H. rewrite concat_app.
  rewrite <- (app_nil_r (flat_map _ ns)). apply lexes_app; [|reflexivity].
  induction ns as [|[n p] ns IH]; cbn [forallb map List.concat flat_map fst snd] in *; [reflexivity|].
  apply andb_true_iff in H. destruct H as [H1 H2].
  apply (lexes_app _ [TPrefixKw; TPname p []; TIri n]); [apply prefix_line_lexes, H1|apply IH, H2].
Qed.

Lemma C05_dom_parts z l : C05_dom z l = true ->
  ns_ok (z_ns z) = true /\ forallb (shape_ok z) l = true.
Proof. unfold C05_dom. intros H. apply andb_true_iff in H. exact H. Qed.

(** the whole document lexes to [doc_toks]; in particular the serialiser
    raises no ValueError on the domain *)
Theorem render_lexes z l : C05_dom z l = true ->
  exists text, render z l = Some text /\ lexes text (doc_toks z l).
Proof.
  intros H. destruct (C05_dom_parts z l H) as [Hns Hl].
  destruct (shapes_lexes z l Hns Hl) as [ls [H1 H2]].
  unfold render, render_lines. rewrite H1. eexists. split; [reflexivity|].
  rewrite concat_app. unfold doc_toks. apply lexes_app; [|exact H2].
  apply prefix_lines_lexes. unfold ns_ok in Hns. apply andb_true_iff in Hns. tauto.
Qed.

(** ** (B) the automaton accepts [doc_toks]; labels and references it reads *)
Lemma iri_tok_is_iri ns u : is_iri_tok (iri_tok ns u) = true.
Proof. unfold iri_tok. destruct (best_ns ns u) as [[n p]|]; reflexivity. Qed.

Lemma label_tok_is_iri ns k : is_iri_tok (label_tok ns k) = true.
Proof. unfold label_tok. destruct (strip_label k); [apply iri_tok_is_iri|reflexivity]. Qed.

(** what the automaton does with an iri token, state by state *)
Lemma pstep_iri st t : is_iri_tok t = true ->
  pstep st t = match st with
               | PTop => Some PLabel | PHeadSet | PHeadSetIri => Some PHeadSetIri
               | PBody | PSense => Some PPred | PPred | POr | PAt => Some PVal
               | PSet | PSetIri => Some PSetIri
               | PPrefix1 => match t with TPname _ [] => Some PPrefix2 | _ => None end
               | PPrefix2 => match t with TIri _ => Some PTop | _ => None end
               | _ => None
               end.
Proof. destruct t; try discriminate; intros _; destruct st; reflexivity. Qed.

Definition type_refs (ns : nsdict) (t : str) : list token :=
  if prefixb c_STARTING_CHAR_FOR_SHAPE_NAME t then
    match strip_label t with Some u => [iri_tok ns u] | None => [] end
  else [].

(** a value atom, read after the predicate or after OR *)
Lemma type_atom ns t st : type_ok ns t = true -> st = PPred \/ st = POr ->
  prun st (type_toks ns t) = Some PVal /\ labels_from st (type_toks ns t) = [] /\
  refs_from st (type_toks ns t) = type_refs ns t.
Proof.
  intros H Hst. unfold type_ok, type_toks, type_refs in *.
  destruct (prefixb c_STARTING_CHAR_FOR_SHAPE_NAME t).
  - unfold label_ok in H. destruct (strip_label t) as [u|]; [|discriminate].
    pose proof (iri_tok_is_iri ns u) as Hi.
    destruct (iri_tok ns u); try discriminate Hi; destruct Hst as [-> | ->]; cbn; auto.
  - destruct (mem_str t kinds).
    + destruct Hst as [-> | ->]; cbn; auto.
    + pose proof (iri_tok_is_iri ns t) as Hi.
      destruct (iri_tok ns t); try discriminate Hi; destruct Hst as [-> | ->]; cbn; auto.
Qed.

Definition target_refs (z : sercfg) (prop t : str) : list token :=
  if str_eqb prop (z_tau z) then [] else type_refs (z_ns z) t.

Lemma target_atom z prop t st : target_dom z prop t = true -> st = PPred \/ st = POr ->
  prun st (target_toks z prop t) = Some PVal /\ labels_from st (target_toks z prop t) = [] /\
  refs_from st (target_toks z prop t) = target_refs z prop t.
Proof.
  intros H Hst. unfold target_dom, target_toks, target_refs in *. destruct (str_eqb prop (z_tau z)).
  - rewrite (plain_type_toks _ _ H). pose proof (iri_tok_is_iri (z_ns z) t) as Hi.
    destruct (iri_tok (z_ns z) t); try discriminate Hi; destruct Hst as [-> | ->]; cbn; auto.
  - apply type_atom; assumption.
Qed.

Lemma or_join_cons2 (x y : list token) r : or_join (x :: y :: r) = x ++ [TOr] ++ or_join (y :: r).
Proof. reflexivity. Qed.

Lemma targets_atoms z prop types : forallb (target_dom z prop) types = true -> types <> [] ->
  forall st, st = PPred \/ st = POr ->
  prun st (or_join (map (target_toks z prop) types)) = Some PVal /\
  labels_from st (or_join (map (target_toks z prop) types)) = [] /\
  refs_from st (or_join (map (target_toks z prop) types)) = flat_map (target_refs z prop) types.
Proof.
  induction types as [|t types IH]; [congruence|]. intros H _ st Hst. cbn [forallb] in H.
  apply andb_true_iff in H. destruct H as [Ht Hts]. destruct (target_atom z prop t st Ht Hst) as [A1 [A2 A3]].
  destruct types as [|t2 r].
  - cbn [map or_join flat_map]. rewrite app_nil_r. auto.
  - destruct (IH Hts ltac:(discriminate) POr (or_intror eq_refl)) as [B1 [B2 B3]].
    cbn [map] in *. rewrite or_join_cons2. cbn [flat_map].
    rewrite prun_app, A1, (labels_from_app _ _ _ _ A1), (refs_from_app _ _ _ _ A1), A2, A3.
    cbn [app prun pstep labels_from refs_from]. rewrite B1, B2, B3. auto.
Qed.

Definition stmt_refs (z : sercfg) (s : stmt) : list token :=
  if s_choice s then flat_map (target_refs z (s_prop s)) (s_types s) else target_refs z (s_prop s) (s_type s).

Definition after_card (c : card) : pstate := match card_toks c with [] => PVal | _ => PCard end.

Lemma card_run c : prun PVal (card_toks c) = Some (after_card c) /\ labels_from PVal (card_toks c) = [] /\
  refs_from PVal (card_toks c) = [].
Proof. unfold after_card. destruct c as [k| | |]; cbn; auto. destruct (N.eqb k 1); cbn; auto. Qed.

Lemma after_card_cases c : after_card c = PVal \/ after_card c = PCard.
Proof. unfold after_card. destruct (card_toks c); auto. Qed.

(** one statement, from the body state *)
Lemma stmt_run z s is_last : stmt_ok z s = true ->
  prun PBody (stmt_toks z s is_last) = Some (if is_last then after_card (s_card s) else PBody) /\
  labels_from PBody (stmt_toks z s is_last) = [] /\
  refs_from PBody (stmt_toks z s is_last) = stmt_refs z s.
Proof.
  intros Hs. destruct (stmt_ok_parts z s Hs) as [Hp [Hne [Hty _]]].
  pose proof (iri_tok_is_iri (z_ns z) (s_prop s)) as Hi.
  assert (Hmid : prun PPred (if s_choice s then or_join (map (target_toks z (s_prop s)) (s_types s))
                             else target_toks z (s_prop s) (s_type s)) = Some PVal /\
                 labels_from PPred (if s_choice s then or_join (map (target_toks z (s_prop s)) (s_types s))
                             else target_toks z (s_prop s) (s_type s)) = [] /\
                 refs_from PPred (if s_choice s then or_join (map (target_toks z (s_prop s)) (s_types s))
                             else target_toks z (s_prop s) (s_type s)) = stmt_refs z s).
  { unfold stmt_refs. destruct (s_choice s).
    - apply targets_atoms; auto.
    - apply target_atom; auto. unfold s_type. destruct (s_types s) as [|t ts]; [congruence|].
      cbn in Hty. apply andb_true_iff in Hty. tauto. }
  destruct Hmid as [M1 [M2 M3]]. destruct (card_run (s_card s)) as [C1 [C2 C3]].
  assert (Hrest : forall st, st = PBody \/ st = PSense ->
    prun st ([iri_tok (z_ns z) (s_prop s)] ++
             (if s_choice s then or_join (map (target_toks z (s_prop s)) (s_types s))
              else target_toks z (s_prop s) (s_type s)) ++ card_toks (s_card s) ++ (if is_last then [] else [TSemi]))
      = Some (if is_last then after_card (s_card s) else PBody) /\
    labels_from st ([iri_tok (z_ns z) (s_prop s)] ++
             (if s_choice s then or_join (map (target_toks z (s_prop s)) (s_types s))
              else target_toks z (s_prop s) (s_type s)) ++ card_toks (s_card s) ++ (if is_last then [] else [TSemi])) = [] /\
    refs_from st ([iri_tok (z_ns z) (s_prop s)] ++
             (if s_choice s then or_join (map (target_toks z (s_prop s)) (s_types s))
              else target_toks z (s_prop s) (s_type s)) ++ card_toks (s_card s) ++ (if is_last then [] else [TSemi])) = stmt_refs z s).
  { intros st Hst. cbn [app prun labels_from refs_from].
    assert (Hstep : pstep st (iri_tok (z_ns z) (s_prop s)) = Some PPred)
      by (destruct Hst as [-> | ->]; rewrite (pstep_iri _ _ Hi); reflexivity).
    rewrite Hstep.
    rewrite prun_app, M1, (labels_from_app _ _ _ _ M1), (refs_from_app _ _ _ _ M1), M2, M3.
    rewrite prun_app, C1, (labels_from_app _ _ _ _ C1), (refs_from_app _ _ _ _ C1), C2, C3.
    assert (Hl : labels_from (after_card (s_card s)) (if is_last then [] else [TSemi]) = [] /\
                 refs_from (after_card (s_card s)) (if is_last then [] else [TSemi]) = [] /\
                 prun (after_card (s_card s)) (if is_last then [] else [TSemi]) =
                 Some (if is_last then after_card (s_card s) else PBody)).
    { destruct is_last; [auto|]. destruct (after_card_cases (s_card s)) as [-> | ->]; cbn; auto. }
    destruct Hl as [L1 [L2 L3]]. rewrite L1, L2, L3, !app_nil_r.
    destruct Hst as [-> | ->]; auto. }
  unfold stmt_toks. destruct (s_inv s).
  - assert (T1 : prun PBody [TCaret] = Some PSense) by reflexivity.
    rewrite prun_app, T1, (labels_from_app _ _ _ _ T1), (refs_from_app _ _ _ _ T1).
    change (labels_from PBody [TCaret]) with (@nil token). change (refs_from PBody [TCaret]) with (@nil token).
    cbn [app]. apply Hrest. auto.
  - cbn [app]. apply Hrest. auto.
Qed.

Definition closable (q : pstate) : Prop := pstep q TRBrace = Some PTop /\ q <> PTop /\ q <> PAt.

Lemma stmts_run z l : forallb (stmt_ok z) l = true ->
  exists q, closable q /\ prun PBody (stmts_toks z l) = Some q /\ labels_from PBody (stmts_toks z l) = [] /\
            refs_from PBody (stmts_toks z l) = flat_map (stmt_refs z) l.
Proof.
  induction l as [|s l IH]; intros H.
  - exists PBody. repeat split; try reflexivity; discriminate.
  - cbn [forallb] in H. apply andb_true_iff in H. destruct H as [Hs Hl]. destruct l as [|s2 r].
    + destruct (stmt_run z s true Hs) as [A1 [A2 A3]]. exists (after_card (s_card s)). cbn [stmts_toks flat_map].
      rewrite app_nil_r. split; [|auto].
      destruct (after_card_cases (s_card s)) as [-> | ->]; repeat split; try reflexivity; discriminate.
    + destruct (stmt_run z s false Hs) as [A1 [A2 A3]]. destruct (IH Hl) as [q [Hq [B1 [B2 B3]]]].
      exists q. split; [exact Hq|]. rewrite stmts_toks_cons2.
      rewrite prun_app, A1, (labels_from_app _ _ _ _ A1), (refs_from_app _ _ _ _ A1), A2, A3, B1, B2, B3.
      cbn [flat_map app]. auto.
Qed.

Definition shape_refs (z : sercfg) (sh : shape) : list token := flat_map (stmt_refs z) (sh_stmts sh).

Lemma shape_run z sh : shape_ok z sh = true ->
  prun PTop (shape_toks z sh) = Some PTop /\
  labels_from PTop (shape_toks z sh) = [label_tok (z_ns z) (sh_name sh)] /\
  refs_from PTop (shape_toks z sh) = shape_refs z sh.
Proof.
  intros H. destruct (shape_ok_parts z sh H) as [_ Hs]. destruct (stmts_run z (sh_stmts sh) Hs) as [q [[Q1 [Q2 Q3]] [B1 [B2 B3]]]].
  pose proof (label_tok_is_iri (z_ns z) (sh_name sh)) as Hi. unfold shape_toks, shape_refs.
  cbn [prun labels_from refs_from]. rewrite (pstep_iri PTop _ Hi), Hi. cbn [pstep].
  rewrite prun_app, B1, (labels_from_app _ _ _ _ B1), (refs_from_app _ _ _ _ B1), B2, B3.
  destruct q; try discriminate Q1; try congruence; cbn; rewrite ?app_nil_r; auto.
Qed.

Lemma shapes_run z l : forallb (shape_ok z) l = true ->
  prun PTop (flat_map (shape_toks z) l) = Some PTop /\
  labels_from PTop (flat_map (shape_toks z) l) = map (fun sh => label_tok (z_ns z) (sh_name sh)) l /\
  refs_from PTop (flat_map (shape_toks z) l) = flat_map (shape_refs z) l.
Proof.
  induction l as [|sh l IH]; cbn [forallb flat_map map]; intros H; [auto|].
  apply andb_true_iff in H. destruct H as [Hs Hl]. destruct (shape_run z sh Hs) as [A1 [A2 A3]].
  destruct (IH Hl) as [B1 [B2 B3]].
  rewrite prun_app, A1, (labels_from_app _ _ _ _ A1), (refs_from_app _ _ _ _ A1), A2, A3, B1, B2, B3. auto.
Qed.

Lemma prefix_run ns : forallb ns_entry_ok ns = true ->
  prun PTop (prefix_toks ns) = Some PTop /\ labels_from PTop (prefix_toks ns) = [] /\ refs_from PTop (prefix_toks ns) = [].
Proof.
  unfold prefix_toks. induction ns as [|[n p] ns IH]; cbn [forallb flat_map]; intros H; [auto|].
  apply andb_true_iff in H. destruct H as [_ H]. destruct (IH H) as [B1 [B2 B3]].
  cbn [app fst snd prun pstep labels_from refs_from is_iri_tok]. auto.
Qed.

Theorem doc_run z l : C05_dom z l = true ->
  prun PTop (doc_toks z l) = Some PTop /\
  labels_from PTop (doc_toks z l) = map (fun sh => label_tok (z_ns z) (sh_name sh)) l /\
  refs_from PTop (doc_toks z l) = flat_map (shape_refs z) l.
Proof.
  intros H. destruct (C05_dom_parts z l H) as [Hns Hl]. unfold ns_ok in Hns. apply andb_true_iff in Hns.
  destruct Hns as [Hns _]. destruct (prefix_run _ Hns) as [A1 [A2 A3]]. destruct (shapes_run z l Hl) as [B1 [B2 B3]].
  unfold doc_toks. rewrite prun_app, A1, (labels_from_app _ _ _ _ A1), (refs_from_app _ _ _ _ A1), A2, A3, B1, B2, B3. auto.
Qed.

(** W3: the rendered document is recognised *)
Theorem document_recognised z l : C05_dom z l = true ->
  exists text, render z l = Some text /\ recognise text = true.
Proof.
  intros H. destruct (render_lexes z l H) as [text [Hr Hl]]. exists text. split; [exact Hr|].
  unfold recognise. rewrite (lexes_lex _ _ Hl). unfold parses. destruct (doc_run z l H) as [-> _]. reflexivity.
Qed.

(** ** (C) closure of [doc_toks] *)
Definition tok_good (ns : nsdict) (t : token) : bool :=
  match t with
  | TPrefixKw => false
  | TPname p _ => mem_str p (map snd ns)
  | _ => true
  end.

Lemma iri_tok_good ns u : tok_good ns (iri_tok ns u) = true.
Proof.
  unfold iri_tok. destruct (best_ns ns u) as [[n p]|] eqn:E; [|reflexivity]. cbn.
  apply mem_str_In. destruct (best_ns_spec _ _ _ _ E) as [Hin _]. apply in_map_iff. exists (n, p). auto.
Qed.

Lemma type_toks_good ns t : forallb (tok_good ns) (type_toks ns t) = true.
Proof.
  unfold type_toks. destruct (prefixb _ t); [destruct (strip_label t)|destruct (mem_str t kinds)];
    cbn [forallb tok_good]; rewrite ?iri_tok_good; reflexivity.
Qed.

Lemma target_toks_good z prop t : forallb (tok_good (z_ns z)) (target_toks z prop t) = true.
Proof.
  unfold target_toks. destruct (str_eqb prop (z_tau z)); [|apply type_toks_good].
  cbn [forallb tok_good]. rewrite forallb_app, type_toks_good. reflexivity.
Qed.

Lemma or_join_good ns (l : list (list token)) :
  (forall x, In x l -> forallb (tok_good ns) x = true) -> forallb (tok_good ns) (or_join l) = true.
Proof.
  induction l as [|x l IH]; intros H; [reflexivity|]. destruct l as [|y r].
  - apply H. left. reflexivity.
  - rewrite or_join_cons2, !forallb_app. rewrite (H x (or_introl eq_refl)). cbn [forallb tok_good andb].
    apply IH. intros x' Hx'. apply H. right. exact Hx'.
Qed.

Lemma card_toks_good ns c : forallb (tok_good ns) (card_toks c) = true.
Proof. destruct c as [k| | |]; try reflexivity. cbn. destruct (N.eqb k 1); reflexivity. Qed.

Lemma stmt_toks_good z s b : forallb (tok_good (z_ns z)) (stmt_toks z s b) = true.
Proof.
  unfold stmt_toks. rewrite !forallb_app. cbn [forallb]. rewrite iri_tok_good, card_toks_good.
  assert (H1 : forallb (tok_good (z_ns z)) (if s_inv s then [TCaret] else []) = true) by (destruct (s_inv s); reflexivity).
  assert (H2 : forallb (tok_good (z_ns z)) (if b then [] else [TSemi]) = true) by (destruct b; reflexivity).
  rewrite H1, H2. cbn [andb]. rewrite andb_true_r. destruct (s_choice s); [|apply target_toks_good].
  apply or_join_good. intros x Hx. apply in_map_iff in Hx. destruct Hx as [t [<- _]]. apply target_toks_good.
Qed.

Lemma stmts_toks_good z l : forallb (tok_good (z_ns z)) (stmts_toks z l) = true.
Proof.
  induction l as [|s l IH]; [reflexivity|]. destruct l as [|s2 r]; [apply stmt_toks_good|].
  rewrite stmts_toks_cons2, forallb_app, stmt_toks_good, IH. reflexivity.
Qed.

Lemma shapes_toks_good z l : forallb (tok_good (z_ns z)) (flat_map (shape_toks z) l) = true.
Proof.
  induction l as [|sh l IH]; [reflexivity|]. cbn [flat_map]. rewrite forallb_app, IH, andb_true_r.
  unfold shape_toks. cbn [forallb]. rewrite forallb_app, stmts_toks_good.
  unfold label_tok. destruct (strip_label (sh_name sh)); [rewrite iri_tok_good|]; reflexivity.
Qed.

Lemma good_decls ns ts : forallb (tok_good ns) ts = true -> decls ts = [].
Proof.
  induction ts as [|t ts IH]; [reflexivity|]. cbn [forallb]. intros H. apply andb_true_iff in H.
  destruct H as [Ht Hts]. destruct t; try discriminate Ht; cbn [decls]; apply IH, Hts.
Qed.

Lemma good_used ns ts : forallb (tok_good ns) ts = true ->
  forall b, forallb (fun p => mem_str p (map snd ns)) (used b ts) = true.
Proof.
  induction ts as [|t ts IH]; [reflexivity|]. cbn [forallb]. intros H b. apply andb_true_iff in H.
  destruct H as [Ht Hts]. destruct t; try discriminate Ht; cbn [used]; try apply IH, Hts.
  destruct b; [apply IH, Hts|]. cbn [forallb]. cbn [tok_good] in Ht. rewrite Ht. apply IH, Hts.
Qed.

Definition swap (np : str * str) : str * str := (snd np, fst np).

Lemma decls_doc z l : decls (doc_toks z l) = map swap (z_ns z).
Proof.
  unfold doc_toks, prefix_toks. induction (z_ns z) as [|[n p] ns IH].
  - cbn [flat_map app map]. apply (good_decls (z_ns z)), shapes_toks_good.
  - cbn [flat_map app map fst snd decls]. unfold swap at 1. cbn [fst snd]. f_equal. exact IH.
Qed.

Lemma used_doc z l :
  used false (doc_toks z l) = used false (flat_map (shape_toks z) l).
Proof.
  unfold doc_toks, prefix_toks. induction (z_ns z) as [|[n p] ns IH]; [reflexivity|].
  cbn [flat_map app fst snd used]. exact IH.
Qed.

Lemma nodupb_NoDup l : nodupb l = true <-> NoDup l.
Proof.
  induction l as [|x l IH]; cbn [nodupb].
  - split; [constructor|reflexivity].
  - rewrite andb_true_iff, negb_true_iff, IH. split.
    + intros [H1 H2]. constructor; [|exact H2]. intros Hc. apply mem_str_In in Hc. congruence.
    + intros H. inversion H; subst. split; [|assumption]. destruct (mem_str x l) eqn:E; [|reflexivity].
      apply mem_str_In in E. contradiction.
Qed.

Lemma lookup_swap ns n p : NoDup (map snd ns) -> In (n, p) ns -> lookup (map swap ns) p = Some n.
Proof.
  induction ns as [|[n' p'] ns IH]; [intros _ []|]. cbn [map snd]. intros Hnd Hin. inversion Hnd as [|? ? Hn Hd]; subst.
  cbn [lookup swap fst snd]. destruct (str_eqb p p') eqn:E.
  - apply str_eqb_eq in E. subst p'. destruct Hin as [Heq|Hin]; [inversion Heq; reflexivity|].
    exfalso. apply Hn. apply in_map_iff. exists (n, p). auto.
  - destruct Hin as [Heq|Hin]; [inversion Heq; subst; rewrite str_eqb_refl in E; discriminate|]. apply IH; assumption.
Qed.

Lemma ns_ok_nodup ns : ns_ok ns = true -> NoDup (map snd ns).
Proof. unfold ns_ok. intros H. apply andb_true_iff in H. apply nodupb_NoDup. tauto. Qed.

(** a printed IRI token denotes its IRI under the document's declarations *)
Lemma denot_iri_tok ns u : ns_ok ns = true -> denot (map swap ns) (iri_tok ns u) = Some u.
Proof.
  intros Hns. unfold iri_tok. destruct (best_ns ns u) as [[n p]|] eqn:E; [|reflexivity].
  destruct (best_ns_spec _ _ _ _ E) as [Hin [Hu _]]. cbn [denot].
  rewrite (lookup_swap ns n p (ns_ok_nodup ns Hns) Hin). rewrite <- Hu. reflexivity.
Qed.

Definition unlabel (k : str) : str := match strip_label k with Some u => u | None => [] end.

Lemma label_ok_unlabel ns k : label_ok ns k = true -> k = Str "%<" ++ unlabel k ++ Str ">" /\ label_tok ns k = iri_tok ns (unlabel k).
Proof.
  unfold label_ok, unlabel, label_tok. destruct (strip_label k) as [u|] eqn:E; [|discriminate]. intros _.
  split; [apply strip_label_spec, E|reflexivity].
Qed.

Lemma somes_map_all {A B} (f : A -> option B) (g : A -> B) l :
  (forall x, In x l -> f x = Some (g x)) -> somes (map f l) = map g l.
Proof.
  induction l as [|x l IH]; intros H; [reflexivity|]. cbn [map somes]. rewrite (H x (or_introl eq_refl)).
  f_equal. apply IH. intros y Hy. apply H. right. exact Hy.
Qed.

Lemma somes_In {A B} (f : A -> option B) l y : In y (somes (map f l)) -> exists x, In x l /\ f x = Some y.
Proof.
  induction l as [|x l IH]; [intros []|]. cbn [map somes]. destruct (f x) as [b|] eqn:E.
  - intros [Hb|H].
    + subst b. exists x. split; [left; reflexivity|exact E].
    + destruct (IH H) as [x' [H1 H2]]. exists x'. split; [right; exact H1|exact H2].
  - intros H. destruct (IH H) as [x' [H1 H2]]. exists x'. split; [right; exact H1|exact H2].
Qed.

Lemma label_iris_doc z l : C05_dom z l = true ->
  label_iris (doc_toks z l) = map (fun sh => unlabel (sh_name sh)) l.
Proof.
  intros H. destruct (doc_run z l H) as [_ [Hl _]]. destruct (C05_dom_parts z l H) as [Hns Hs].
  unfold label_iris. rewrite Hl, decls_doc, map_map. apply somes_map_all. intros sh Hin.
  rewrite forallb_forall in Hs. destruct (shape_ok_parts z sh (Hs sh Hin)) as [Hlab _].
  destruct (label_ok_unlabel _ _ Hlab) as [_ ->]. apply denot_iri_tok, Hns.
Qed.

(** every reference token comes from a shape-typed value of the shape list *)
Lemma type_refs_In ns t r : type_ok ns t = true -> In r (type_refs ns t) ->
  prefixb c_STARTING_CHAR_FOR_SHAPE_NAME t = true /\ r = iri_tok ns (unlabel t).
Proof.
  unfold type_ok, type_refs, unlabel, label_ok. destruct (prefixb _ t); [|intros _ []].
  destruct (strip_label t); [|discriminate]. intros _ [<-|[]]. auto.
Qed.

Lemma target_refs_In z prop t r : target_dom z prop t = true -> In r (target_refs z prop t) ->
  prefixb c_STARTING_CHAR_FOR_SHAPE_NAME t = true /\ r = iri_tok (z_ns z) (unlabel t).
Proof.
  unfold target_dom, target_refs. destruct (str_eqb prop (z_tau z)); [intros _ []|apply type_refs_In].
Qed.

Lemma stmt_refs_In z s r : stmt_ok z s = true -> In r (stmt_refs z s) ->
  exists t, In t (s_types s) /\ prefixb c_STARTING_CHAR_FOR_SHAPE_NAME t = true /\ r = iri_tok (z_ns z) (unlabel t).
Proof.
  intros Hs. destruct (stmt_ok_parts z s Hs) as [_ [Hne [Hty _]]]. rewrite forallb_forall in Hty.
  unfold stmt_refs. destruct (s_choice s).
  - intros H. apply in_flat_map in H. destruct H as [t [Ht Hr]]. exists t. split; [exact Ht|].
    apply (target_refs_In z (s_prop s) t r (Hty t Ht) Hr).
  - intros H. assert (Hin : In (s_type s) (s_types s)).
    { unfold s_type. destruct (s_types s); [congruence|left; reflexivity]. }
    exists (s_type s). split; [exact Hin|]. apply (target_refs_In z (s_prop s) _ r (Hty _ Hin) H).
Qed.

(** the list-level hypotheses (proved for the pipeline on branch b-pc, Proofs/ClosureLemmas.v) *)
Definition refs_closed (l : list shape) : Prop :=
  forall sh st k, In sh l -> In st (sh_stmts sh) -> In k (s_types st) -> is_shape_type k = true ->
                  exists sh', In sh' l /\ sh_name sh' = k.

Lemma NoDup_map_inj_on {A B} (f : A -> B) l :
  (forall x y, In x l -> In y l -> f x = f y -> x = y) -> NoDup l -> NoDup (map f l).
Proof.
  induction l as [|x l IH]; intros Hinj Hnd; [constructor|]. inversion Hnd; subst. cbn. constructor.
  - intros Hc. apply in_map_iff in Hc. destruct Hc as [y [Hy Hin]].
    assert (y = x) by (apply Hinj; [right; exact Hin|left; reflexivity|exact Hy]). subst. contradiction.
  - apply IH; [|assumption]. intros a b Ha Hb. apply Hinj; right; assumption.
Qed.

(** W4: the rendered document is closed *)
Theorem doc_closed z l : C05_dom z l = true -> refs_closed l -> NoDup (map sh_name l) ->
  closed_tokens (doc_toks z l) = true.
Proof.
  intros H Hrc Hnd. destruct (C05_dom_parts z l H) as [Hns Hs]. pose proof Hs as Hs'. rewrite forallb_forall in Hs.
  unfold closed_tokens. repeat (apply andb_true_iff; split).
  - unfold prefixes_functional. rewrite decls_doc, map_map. unfold swap. cbn [fst].
    unfold ns_ok in Hns. apply andb_true_iff in Hns. apply Hns.
  - unfold prefixes_declared. rewrite decls_doc, map_map. unfold swap. cbn [fst]. rewrite used_doc.
    apply good_used, shapes_toks_good.
  - unfold labels_distinct. rewrite (label_iris_doc z l H). apply nodupb_NoDup.
    rewrite <- (map_map sh_name unlabel). apply NoDup_map_inj_on; [|exact Hnd].
    intros x y Hx Hy Heq. apply in_map_iff in Hx, Hy. destruct Hx as [sx [<- Hsx]]. destruct Hy as [sy [<- Hsy]].
    destruct (shape_ok_parts z sx (Hs sx Hsx)) as [Lx _]. destruct (shape_ok_parts z sy (Hs sy Hsy)) as [Ly _].
    destruct (label_ok_unlabel _ _ Lx) as [-> _]. destruct (label_ok_unlabel _ _ Ly) as [Ey _].
    rewrite Ey at 1. rewrite Heq. reflexivity.
  - unfold refs_resolve. apply forallb_forall. intros r Hr. apply mem_str_In.
    rewrite (label_iris_doc z l H). unfold ref_iris in Hr. destruct (doc_run z l H) as [_ [_ Hrf]].
    rewrite Hrf, decls_doc in Hr. apply somes_In in Hr. destruct Hr as [tok [Htok Hden]].
    apply in_flat_map in Htok. destruct Htok as [sh [Hsh Htok]]. unfold shape_refs in Htok.
    apply in_flat_map in Htok. destruct Htok as [st [Hst Htok]].
    destruct (shape_ok_parts z sh (Hs sh Hsh)) as [_ Hss]. rewrite forallb_forall in Hss.
    destruct (stmt_refs_In z st tok (Hss st Hst) Htok) as [k [Hk [Hpk ->]]].
    rewrite (denot_iri_tok _ _ Hns) in Hden. inversion Hden; subst r.
    destruct (Hrc sh st k Hsh Hst Hk Hpk) as [sh' [Hin' <-]].
    apply in_map_iff. exists sh'. auto.
Qed.

Theorem document_wellformed_closed z l : C05_dom z l = true -> refs_closed l -> NoDup (map sh_name l) ->
  exists text, render z l = Some text /\ wellformed_closed text = true.
Proof.
  intros H Hrc Hnd. destruct (render_lexes z l H) as [text [Hr Hl]]. exists text. split; [exact Hr|].
  unfold wellformed_closed. rewrite (lexes_lex _ _ Hl). unfold parses. destruct (doc_run z l H) as [-> _].
  cbn [andb]. apply doc_closed; assumption.
Qed.

(** ** the whole run *)
From Shexer Require Import Model.Run.

Lemma refs_closedb_sound l : refs_closedb l = true -> refs_closed l.
Proof.
  unfold refs_closedb, refs_closed. intros H sh st k Hsh Hst Hk Hp. rewrite forallb_forall in H.
  assert (Hin : In k (shape_types l)).
  { unfold shape_types. apply in_flat_map. exists sh. split; [exact Hsh|]. apply in_flat_map. exists st.
    split; [exact Hst|]. apply filter_In. split; [exact Hk|exact Hp]. }
  specialize (H k Hin). apply mem_str_In in H. apply in_map_iff in H. destruct H as [sh' [H1 H2]]. exists sh'. auto.
Qed.

Lemma labels_nodupb_sound l : labels_nodupb l = true -> NoDup (map sh_name l).
Proof. apply nodupb_NoDup. Qed.

Definition z_of (c : rcfg) (ns : nsdict) : sercfg :=
  {| z_ns := ns; z_tau := r_tau c; z_disable_comments := r_disable_comments c; z_mode := r_mode c |}.

Theorem run_wellformed_closed fa c thr g ns shapes :
  run_shapes fa c thr g = inl (ns, shapes) -> C05_dom (z_of c ns) shapes = true ->
  refs_closed shapes -> NoDup (map sh_name shapes) ->
  exists text, run_shexc fa c thr g = inl text /\ wellformed_closed text = true.
Proof.
  intros Hr Hd Hrc Hnd. destruct (document_wellformed_closed _ _ Hd Hrc Hnd) as [text [Ht Hw]].
  exists text. split; [|exact Hw]. unfold run_shexc. rewrite Hr. unfold z_of in Ht. rewrite Ht. reflexivity.
Qed.

Theorem run_recognised fa c thr g ns shapes :
  run_shapes fa c thr g = inl (ns, shapes) -> C05_dom (z_of c ns) shapes = true ->
  exists text, run_shexc fa c thr g = inl text /\ recognise text = true.
Proof.
  intros Hr Hd. destruct (document_recognised _ _ Hd) as [text [Ht Hw]].
  exists text. split; [|exact Hw]. unfold run_shexc. rewrite Hr. unfold z_of in Ht. rewrite Ht. reflexivity.
Qed.
