(** * Proofs about the N-Triples reader model after the tokeniser repairs
    (token-end-before-dot, closing-quote-scan): [Model.NtReader.*_g], for both values of the
    switches [hs] (a token also ends at '#') and [el] (a '<' without '>' reaches the end of the
    line) of the repair comment-glued-to-dot; the [_fx] / [_fx2] readers are the instances
    [false false]. *)
From Coq Require Import List Ascii String ZArith Bool Lia Arith.
From Shexer Require Import Lib.PyStr Gen.Consts Model.NtReader Spec.NtSyntax Spec.NtDom
  Proofs.NtStrLemmas Proofs.NtProofs.
Import ListNotations.
Local Open Scope Z_scope.

(** ** [_index_of_token_end], repaired *)
Lemma is_stop_blank hs c : is_blank c = true -> is_stop hs c = true.
Proof. unfold is_stop. intros ->. reflexivity. Qed.

Lemma is_stop_hash : is_stop true "#"%char = true.
Proof. reflexivity. Qed.

Lemma first_stop_none hs s : forallb (fun c => negb (is_stop hs c)) s = true -> first_stop hs s = None.
Proof.
  induction s as [|c s IH]; intros H; [reflexivity|]. cbn [forallb first_stop] in *. apply andb_true_iff in H. destruct H as [H1 H2].
  destruct (is_stop hs c); [discriminate|]. rewrite IH by exact H2. reflexivity.
Qed.

Lemma first_stop_app hs x c z :
  forallb (fun c => negb (is_stop hs c)) x = true -> is_stop hs c = true ->
  first_stop hs (x ++ c :: z) = Some (List.length x).
Proof.
  intros H Hc. induction x as [|d x IH]; cbn [forallb first_stop app List.length] in *.
  - rewrite Hc. reflexivity.
  - apply andb_true_iff in H. destruct H as [H1 H2]. destruct (is_stop hs d); [discriminate|].
    rewrite IH by exact H2. reflexivity.
Qed.

Definition token_follow_g (hs : bool) (z : str) : Prop :=
  (exists c z', z = c :: z' /\ is_stop hs c = true) \/ z = ["."%char] \/
  (exists c z', z = "."%char :: c :: z' /\ is_stop hs c = true).

Lemma index_of_token_end_g_spec hs x d z :
  forallb (fun c => negb (is_stop hs c)) (x ++ [d]) = true -> d <> "."%char -> token_follow_g hs z ->
  index_of_token_end_g hs ((x ++ [d]) ++ z) = len (x ++ [d]).
Proof.
  intros H Hd [(c & z' & -> & Hc) | [-> | (c & z' & -> & Hc)]]; unfold index_of_token_end_g.
  - rewrite first_stop_app by assumption.
    assert (P : 0 <? Z.of_nat (List.length (x ++ [d])) = true).
    { apply Z.ltb_lt. rewrite app_length. cbn. lia. }
    rewrite P. cbn [andb].
    replace (Z.of_nat (List.length (x ++ [d])) - 1) with (len x) by (unfold len; rewrite app_length; cbn; lia).
    rewrite <- app_assoc. cbn [app]. rewrite at_idx_app.
    change (ch nt_statement_end) with "."%char.
    assert (Ascii.eqb d "." = false) as -> by (apply Ascii.eqb_neq; exact Hd). reflexivity.
  - rewrite first_stop_none.
    + change nt_statement_end with ["."%char]. rewrite suffixb_app_end. rewrite len_app. cbn. lia.
    + rewrite forallb_app, H. destruct hs; reflexivity.
  - replace ((x ++ [d]) ++ "."%char :: c :: z') with (((x ++ [d]) ++ ["."%char]) ++ c :: z')
      by (rewrite <- !app_assoc; reflexivity).
    rewrite first_stop_app; [|rewrite forallb_app, H; destruct hs; reflexivity | exact Hc].
    assert (P : 0 <? Z.of_nat (List.length ((x ++ [d]) ++ ["."%char])) = true).
    { apply Z.ltb_lt. rewrite !app_length. cbn. lia. }
    rewrite P. cbn [andb].
    replace (Z.of_nat (List.length ((x ++ [d]) ++ ["."%char])) - 1) with (len (x ++ [d]))
      by (unfold len; rewrite !app_length; cbn; lia).
    rewrite <- app_assoc. cbn [app]. rewrite at_idx_app.
    change (ch nt_statement_end) with "."%char. rewrite Ascii.eqb_refl. unfold len. rewrite !app_length. cbn. lia.
Qed.

(** [_look_for_last_index_of_uri_token] on a closed IRI: the switch [el] plays no part *)
Lemma last_index_uri_g_spec el pre u post : ~ In gt_c u ->
  last_index_uri_g el (pre ++ r_iri u ++ post) (len pre) = len pre + len (r_iri u) - 1.
Proof.
  intros H. unfold last_index_uri_g. rewrite slice_from_app. unfold r_iri.
  change s_gt with [gt_c].
  replace ((lt_c :: u ++ [gt_c]) ++ post) with ((lt_c :: u) ++ gt_c :: post)
    by (cbn [app]; rewrite <- app_assoc; reflexivity).
  rewrite (find_of_nat _ _ _ (find_nat_char_app gt_c (lt_c :: u) post
             (notin_cons gt_c lt_c u ltac:(discriminate) H))).
  assert (N : (Z.of_nat (List.length (lt_c :: u)) <? 0) = false) by (apply Z.ltb_ge; lia).
  rewrite N, andb_false_r.
  rewrite !len_app, !len_cons, len_app, len_cons, len_nil. unfold len. cbn [List.length]. lia.
Qed.

(** ** one step of [look_loop_g] *)
Lemma lookx_skip hs el f pre c post acc : is_ws c = true ->
  look_loop_g hs el (S f) (pre ++ c :: post) (len pre) acc = look_loop_g hs el f (pre ++ c :: post) (len pre + 1) acc.
Proof.
  intros H. cbn [look_loop_g]. rewrite neq_len_app, at_idx_app.
  destruct (is_ws_cases _ H) as [-> | ->]; reflexivity.
Qed.

Lemma lookx_skips hs el w : forall f pre post acc, all_ws w = true ->
  look_loop_g hs el (List.length w + f) (pre ++ w ++ post) (len pre) acc
  = look_loop_g hs el f (pre ++ w ++ post) (len pre + len w) acc.
Proof.
  induction w as [|c w IH]; intros f pre post acc H.
  - cbn [List.length app Nat.add]. rewrite len_nil, Z.add_0_r. reflexivity.
  - cbn [all_ws forallb] in H. apply andb_true_iff in H. destruct H as [Hc Hw].
    cbn [List.length Nat.add app]. rewrite (lookx_skip hs el) by exact Hc.
    replace (pre ++ c :: w ++ post) with ((pre ++ [c]) ++ w ++ post) by (rewrite <- app_assoc; reflexivity).
    replace (len pre + 1) with (len (pre ++ [c])) by (rewrite len_app; reflexivity).
    rewrite IH by exact Hw. f_equal. rewrite len_app, !len_cons, len_nil. lia.
Qed.

Lemma lookx_dot hs el f pre post acc :
  look_loop_g hs el (S f) (pre ++ "."%char :: post) (len pre) acc = Ok (rev acc).
Proof. cbn [look_loop_g]. rewrite neq_len_app, at_idx_app. reflexivity. Qed.

Lemma lookx_uri hs el f pre u post acc : ~ In gt_c u ->
  look_loop_g hs el (S f) (pre ++ r_iri u ++ post) (len pre) acc
  = look_loop_g hs el f (pre ++ r_iri u ++ post) (len pre + len (r_iri u)) (r_iri u :: acc).
Proof.
  intros H. cbn [look_loop_g].
  unfold r_iri at 1 2. rewrite neq_len_app', at_idx_app'. fold (r_iri u).
  replace (Ascii.eqb lt_c ch_uri) with true by reflexivity.
  rewrite last_index_uri_g_spec by exact H.
  rewrite slice_tok by reflexivity. f_equal. lia.
Qed.

Lemma lookx_bnode hs el f pre x d post acc :
  forallb (fun c => negb (is_stop hs c)) (("_"%char :: x) ++ [d]) = true -> d <> "."%char -> token_follow_g hs post ->
  look_loop_g hs el (S f) (pre ++ (("_"%char :: x) ++ [d]) ++ post) (len pre) acc
  = look_loop_g hs el f (pre ++ (("_"%char :: x) ++ [d]) ++ post) (len pre + len (("_"%char :: x) ++ [d]))
      ((("_"%char :: x) ++ [d]) :: acc).
Proof.
  intros H Hd T. cbn [look_loop_g].
  change (("_"%char :: x) ++ [d]) with ("_"%char :: (x ++ [d])) at 1 2.
  rewrite neq_len_app', at_idx_app'.
  change ("_"%char :: (x ++ [d])) with (("_"%char :: x) ++ [d]).
  replace (Ascii.eqb "_" ch_uri) with false by reflexivity.
  replace (Ascii.eqb "_" ch_lit) with false by reflexivity.
  replace (Ascii.eqb "_" ch_bnode) with true by reflexivity.
  assert (L : last_index_bnode_g hs (pre ++ (("_"%char :: x) ++ [d]) ++ post) (len pre)
              = len pre + len (("_"%char :: x) ++ [d]) - 1).
  { unfold last_index_bnode_g. rewrite slice_from_app. rewrite index_of_token_end_g_spec by assumption.
    rewrite !len_app. lia. }
  rewrite L. rewrite slice_tok by reflexivity. f_equal. lia.
Qed.

Lemma lookx_lit hs el f pre x post acc :
  last_index_literal_g hs (pre ++ (dq :: x) ++ post) (len pre) = Ok (len pre + len (dq :: x) - 1) ->
  look_loop_g hs el (S f) (pre ++ (dq :: x) ++ post) (len pre) acc
  = look_loop_g hs el f (pre ++ (dq :: x) ++ post) (len pre + len (dq :: x)) ((dq :: x) :: acc).
Proof.
  intros L. cbn [look_loop_g].
  rewrite neq_len_app', at_idx_app'.
  replace (Ascii.eqb dq ch_uri) with false by reflexivity.
  replace (Ascii.eqb dq ch_lit) with true by reflexivity.
  rewrite L. rewrite slice_tok by reflexivity. f_equal. lia.
Qed.

Lemma look_loop_g_mono hs el : forall f L i acc r, look_loop_g hs el f L i acc = Ok r ->
  forall f', (f <= f')%nat -> look_loop_g hs el f' L i acc = Ok r.
Proof.
  induction f as [|f IH]; intros L i acc r H f' Hf; [discriminate|].
  destruct f' as [|f']; [lia|]. cbn [look_loop_g] in *.
  destruct (i =? len L); [exact H|].
  destruct (at_idx L i) as [c|]; [|exact H].
  destruct (Ascii.eqb c ch_uri); [apply IH with (f' := f') in H; [exact H | lia]|].
  destruct (Ascii.eqb c ch_lit).
  { destruct (last_index_literal_g hs L i); try exact H. apply IH with (f' := f') in H; [exact H | lia]. }
  destruct (Ascii.eqb c ch_bnode); [apply IH with (f' := f') in H; [exact H | lia]|].
  destruct (Ascii.eqb c ch_dot); [exact H|].
  destruct (is_ascii_digit c); apply IH with (f' := f') in H; (exact H || lia).
Qed.

Lemma chain_fx hs el L St s1 Pt s2 Ot pd tail fuel :
  L = St ++ s1 ++ Pt ++ s2 ++ Ot ++ pd ++ "."%char :: tail ->
  all_ws s1 = true -> all_ws s2 = true -> all_ws pd = true ->
  (forall f acc, look_loop_g hs el (S f) L 0 acc = look_loop_g hs el f L (len St) (St :: acc)) ->
  (forall f acc, look_loop_g hs el (S f) L (len St + len s1) acc
                 = look_loop_g hs el f L (len St + len s1 + len Pt) (Pt :: acc)) ->
  (forall f acc, look_loop_g hs el (S f) L (len St + len s1 + len Pt + len s2) acc
                 = look_loop_g hs el f L (len St + len s1 + len Pt + len s2 + len Ot) (Ot :: acc)) ->
  (List.length L + 4 <= fuel)%nat ->
  look_loop_g hs el fuel L 0 [] = Ok [St; Pt; Ot].
Proof.
  intros EL W1 W2 W3 H1 H2 H3 Hf.
  apply look_loop_g_mono with
    (f := S (List.length s1 + S (List.length s2 + S (List.length pd + 1)))%nat).
  2:{ rewrite EL in Hf. rewrite !app_length in Hf. cbn [List.length] in Hf. lia. }
  rewrite H1.
  pose proof (fun acc => lookx_skips hs el s1 (S (List.length s2 + S (List.length pd + 1))) St
                (Pt ++ s2 ++ Ot ++ pd ++ "."%char :: tail) acc W1) as K1.
  rewrite <- EL in K1. rewrite K1. rewrite H2.
  assert (E2 : L = (St ++ s1 ++ Pt) ++ s2 ++ Ot ++ pd ++ "."%char :: tail).
  { rewrite EL. rewrite <- !app_assoc. reflexivity. }
  pose proof (fun acc => lookx_skips hs el s2 (S (List.length pd + 1)) (St ++ s1 ++ Pt)
                (Ot ++ pd ++ "."%char :: tail) acc W2) as K2.
  rewrite <- E2 in K2. rewrite !len_app in K2. rewrite !Z.add_assoc in K2. rewrite K2. rewrite H3.
  assert (E3 : L = (St ++ s1 ++ Pt ++ s2 ++ Ot) ++ pd ++ "."%char :: tail).
  { rewrite EL. rewrite <- !app_assoc. reflexivity. }
  pose proof (fun acc => lookx_skips hs el pd 1 (St ++ s1 ++ Pt ++ s2 ++ Ot) ("."%char :: tail) acc W3) as K3.
  rewrite <- E3 in K3. rewrite !len_app in K3. rewrite !Z.add_assoc in K3. rewrite K3.
  assert (E4 : L = (St ++ s1 ++ Pt ++ s2 ++ Ot ++ pd) ++ "."%char :: tail).
  { rewrite EL. rewrite <- !app_assoc. reflexivity. }
  pose proof (fun acc => lookx_dot hs el 0 (St ++ s1 ++ Pt ++ s2 ++ Ot ++ pd) tail acc) as K4.
  rewrite <- E4 in K4. rewrite !len_app in K4. rewrite !Z.add_assoc in K4. rewrite K4. reflexivity.
Qed.

(** ** the scan for the closing quote over a rendered lexical form *)
Lemma ge_len_app_false pre c post : (len (pre ++ c :: post) <=? len pre) = false.
Proof. rewrite len_app, len_cons. pose proof (len_nonneg post). apply Z.leb_gt. lia. Qed.

Definition first_not_cont (s : str) : Prop := match s with [] => True | c :: _ => is_cont c = false end.

Lemma cp_advance_one e s : is_cont e = false -> first_not_cont s -> cp_advance (e :: s) 1 = 1%nat.
Proof.
  intros He Hs. cbn [cp_advance]. rewrite He. destruct s as [|c s]; [reflexivity|].
  cbn [cp_advance]. cbn in Hs. rewrite Hs. reflexivity.
Qed.

Lemma esc_not_cont e : valid_item (IEsc e) = true -> is_cont e = false.
Proof. ascii_cases e; cbn; intros H; try reflexivity; discriminate. Qed.

Lemma hex_not_cont c : is_hex c = true -> is_cont c = false.
Proof. ascii_cases c; cbn; intros H; try reflexivity; discriminate. Qed.

Lemma ichar_step f t pre c post :
  t = pre ++ c :: post -> Ascii.eqb c dq = false -> c <> bs ->
  scan_quote (S f) t (len pre) = scan_quote f t (len pre + 1).
Proof.
  intros -> H1 H2. cbn [scan_quote]. rewrite ge_len_app_false, at_idx_app.
  change ch_lit with dq. rewrite H1. change (ch ntf_escape_char) with bs.
  assert (Ascii.eqb c bs = false) as -> by (apply Ascii.eqb_neq; exact H2). reflexivity.
Qed.

Lemma esc_step f t pre e post :
  t = pre ++ bs :: e :: post -> is_cont e = false -> first_not_cont post ->
  scan_quote (S f) t (len pre) = scan_quote f t (len pre + 2).
Proof.
  intros -> H1 H2. cbn [scan_quote]. rewrite ge_len_app_false, at_idx_app.
  change ch_lit with dq. replace (Ascii.eqb bs dq) with false by reflexivity.
  change (ch ntf_escape_char) with bs. rewrite Ascii.eqb_refl.
  replace (pre ++ bs :: e :: post) with ((pre ++ [bs]) ++ e :: post) by (rewrite <- app_assoc; reflexivity).
  replace (len pre + 1) with (len (pre ++ [bs])) by (rewrite len_app; reflexivity).
  rewrite slice_from_app. rewrite cp_advance_one by assumption. f_equal. rewrite len_app, len_cons, len_nil. lia.
Qed.

(** first byte of a rendered suffix of a well-formed lexical form *)
Lemma lex_first_not_cont its R :
  lex_utf8 false its = true -> first_not_cont (r_lex its ++ dq :: R).
Proof.
  destruct its as [|[c | e | a b c d | a b c d e f g h] its]; cbn [r_lex flat_map r_item app first_not_cont]; try reflexivity.
  cbn [lex_utf8]. rewrite orb_false_r. intros H. apply andb_true_iff in H. destruct H as [H _].
  rewrite is_cont_utf8. apply negb_true_iff in H. exact H.
Qed.

Lemma lex_utf8_weaken b its : lex_utf8 false its = true -> lex_utf8 b its = true.
Proof.
  destruct its as [|[c | e | a' b' c d | a' b' c d e f g h] its]; cbn [lex_utf8]; auto.
  intros H. apply andb_true_iff in H. destruct H as [H1 H2]. rewrite H2.
  rewrite orb_false_r in H1. rewrite H1. reflexivity.
Qed.

Ltac hex_step :=
  match goal with
  | |- scan_quote _ (?Q ++ ?x :: ?rest) (len ?Q) = _ =>
    rewrite (ichar_step _ _ Q x rest eq_refl ltac:(apply hex_not_dq; assumption) ltac:(apply hex_not_bs; assumption));
    replace (Q ++ x :: rest) with ((Q ++ [x]) ++ rest) by (rewrite <- app_assoc; reflexivity);
    replace (len Q + 1) with (len (Q ++ [x])) by (rewrite len_app; reflexivity)
  end.

Lemma scan_items its : forall after fuel P R,
  forallb valid_item its = true -> lex_utf8 after its = true ->
  (List.length (r_lex its) < fuel)%nat ->
  scan_quote fuel (P ++ r_lex its ++ dq :: R) (len P) = Ok (len P + len (r_lex its)).
Proof.
  induction its as [|it its IH]; intros after fuel P R V U Hf.
  - destruct fuel as [|f]; [cbn in Hf; lia|]. cbn [r_lex flat_map app scan_quote].
    rewrite ge_len_app_false, at_idx_app. change ch_lit with dq. rewrite Ascii.eqb_refl.
    rewrite len_nil. f_equal. lia.
  - cbn [forallb] in V. apply andb_true_iff in V. destruct V as [Vi V].
    rewrite r_lex_cons in *. rewrite app_length in Hf.
    destruct it as [c | e | a b c d | a b c d e f g h].
    + cbn [lex_utf8] in U. apply andb_true_iff in U. destruct U as [_ U].
      destruct fuel as [|f]; [lia|]. cbn [r_item app] in *. cbn [List.length] in Hf.
      rewrite (ichar_step f _ P c (r_lex its ++ dq :: R) eq_refl (ichar_not_dq _ Vi) (ichar_not_bs _ Vi)).
      replace (P ++ c :: r_lex its ++ dq :: R) with ((P ++ [c]) ++ r_lex its ++ dq :: R)
        by (rewrite <- app_assoc; reflexivity).
      replace (len P + 1) with (len (P ++ [c])) by (rewrite len_app; reflexivity).
      rewrite (IH (non_ascii c)) by (first [assumption | lia]).
      f_equal. rewrite !len_app, !len_cons, len_nil. lia.
    + cbn [lex_utf8] in U.
      destruct fuel as [|f]; [lia|]. cbn [r_item app] in *. cbn [List.length] in Hf.
      rewrite (esc_step f _ P e (r_lex its ++ dq :: R) eq_refl (esc_not_cont _ Vi) (lex_first_not_cont _ _ U)).
      replace (P ++ bs :: e :: r_lex its ++ dq :: R) with ((P ++ [bs; e]) ++ r_lex its ++ dq :: R)
        by (rewrite <- app_assoc; reflexivity).
      replace (len P + 2) with (len (P ++ [bs; e])) by (rewrite len_app; reflexivity).
      rewrite (IH false) by (first [assumption | lia]).
      f_equal. rewrite !len_app, !len_cons, len_nil. lia.
    + cbn [lex_utf8] in U.
      cbn [valid_item forallb] in Vi. repeat (apply andb_true_iff in Vi; destruct Vi as [? Vi]).
      cbn [r_item app] in *. cbn [List.length] in Hf.
      do 5 (destruct fuel as [|fuel]; [lia|]).
      rewrite (esc_step _ _ P "u"%char (a :: b :: c :: d :: r_lex its ++ dq :: R) eq_refl eq_refl
                 ltac:(cbn [first_not_cont]; apply hex_not_cont; assumption)).
      replace (P ++ bs :: "u"%char :: a :: b :: c :: d :: r_lex its ++ dq :: R)
        with ((P ++ [bs; "u"%char]) ++ a :: (b :: c :: d :: r_lex its ++ dq :: R)) by (rewrite <- app_assoc; reflexivity).
      replace (len P + 2) with (len (P ++ [bs; "u"%char])) by (rewrite len_app; reflexivity).
      do 4 hex_step.
      rewrite (IH false) by (first [assumption | lia]).
      f_equal. rewrite !len_app, !len_cons, len_nil. lia.
    + cbn [lex_utf8] in U.
      cbn [valid_item forallb] in Vi. repeat (apply andb_true_iff in Vi; destruct Vi as [? Vi]).
      cbn [r_item app] in *. cbn [List.length] in Hf.
      do 9 (destruct fuel as [|fuel]; [lia|]).
      rewrite (esc_step _ _ P "U"%char (a :: b :: c :: d :: e :: f :: g :: h :: r_lex its ++ dq :: R) eq_refl eq_refl
                 ltac:(cbn [first_not_cont]; apply hex_not_cont; assumption)).
      replace (P ++ bs :: "U"%char :: a :: b :: c :: d :: e :: f :: g :: h :: r_lex its ++ dq :: R)
        with ((P ++ [bs; "U"%char]) ++ a :: (b :: c :: d :: e :: f :: g :: h :: r_lex its ++ dq :: R))
        by (rewrite <- app_assoc; reflexivity).
      replace (len P + 2) with (len (P ++ [bs; "U"%char])) by (rewrite len_app; reflexivity).
      do 8 hex_step.
      rewrite (IH false) by (first [assumption | lia]).
      f_equal. rewrite !len_app, !len_cons, len_nil. lia.
Qed.

(** ** [_look_for_last_index_of_literal_token], repaired *)
Definition z_head (z : str) : Prop :=
  exists c z', z = c :: z' /\ (is_ws c = true \/ c = "."%char).

Lemma after_obj_head l : all_ws (predot l) = true -> z_head (after_obj l).
Proof.
  unfold after_obj. intros W. destruct (predot l) as [|c pd].
  - exists "."%char, (r_tail (comment l)). split; [reflexivity | right; reflexivity].
  - exists c, (pd ++ "."%char :: r_tail (comment l)). split; [reflexivity|]. left.
    cbn [all_ws forallb] in W. apply andb_true_iff in W. tauto.
Qed.

Lemma z_head_cases z : z_head z ->
  exists c z', z = c :: z' /\ (c = " "%char \/ c = ascii_of_nat 9 \/ c = "."%char).
Proof.
  intros (c & z' & -> & [H | ->]); exists c, z' || exists "."%char, z'; (split; [reflexivity|]); auto.
  destruct (is_ws_cases _ H); auto.
Qed.

Lemma tag_loop_spec tag : forall fuel P z,
  forallb tag_char tag = true -> z_head z -> (List.length tag < fuel)%nat ->
  tag_loop fuel (P ++ tag ++ z) (len P) = Ok (len P + len tag).
Proof.
  induction tag as [|c tag IH]; intros fuel P z T Z Hf.
  - destruct fuel as [|f]; [cbn in Hf; lia|]. cbn [app tag_loop].
    destruct (z_head_cases _ Z) as (c & z' & -> & Hc).
    rewrite ge_len_app_false, at_idx_app. rewrite len_nil, Z.add_0_r.
    destruct Hc as [-> | [-> | ->]]; reflexivity.
  - destruct fuel as [|f]; [cbn in Hf; lia|]. cbn [forallb] in T. apply andb_true_iff in T. destruct T as [Tc T].
    cbn [app tag_loop]. rewrite ge_len_app_false, at_idx_app.
    assert (A : is_alnum_py c || Ascii.eqb c (ch ntf_tag_extra_char) = true).
    { clear -Tc. revert Tc. ascii_cases c; cbn; intros H; try reflexivity; discriminate. }
    rewrite A.
    replace (P ++ c :: tag ++ z) with ((P ++ [c]) ++ tag ++ z) by (rewrite <- app_assoc; reflexivity).
    replace (len P + 1) with (len (P ++ [c])) by (rewrite len_app; reflexivity).
    rewrite IH; try assumption.
    + f_equal. rewrite len_app, !len_cons, len_nil. lia.
    + cbn [List.length] in Hf. lia.
Qed.

Lemma lil_fx hs pre lex suf z :
  forallb valid_item lex = true -> lex_utf8 false lex = true -> valid_suffix suf = true -> z_head z ->
  last_index_literal_g hs (pre ++ (dq :: r_lex lex ++ dq :: r_suffix suf) ++ z) (len pre)
  = Ok (len pre + len (dq :: r_lex lex ++ dq :: r_suffix suf) - 1).
Proof.
  intros V U VS Z. unfold last_index_literal_g.
  set (t := pre ++ (dq :: r_lex lex ++ dq :: r_suffix suf) ++ z).
  assert (E1 : t = (pre ++ [dq]) ++ r_lex lex ++ dq :: (r_suffix suf ++ z)).
  { unfold t. cbn [app]. rewrite <- !app_assoc. cbn [app]. reflexivity. }
  assert (S1 : scan_quote (List.length t + 2) t (len pre + 1) = Ok (len pre + 1 + len (r_lex lex))).
  { rewrite E1 at 2. replace (len pre + 1) with (len (pre ++ [dq])) by (rewrite len_app; reflexivity).
    apply (scan_items lex false); try assumption.
    rewrite E1. rewrite !app_length. lia. }
  rewrite S1. cbn [bind].
  set (q := len pre + 1 + len (r_lex lex)).
  assert (E2 : t = (pre ++ dq :: r_lex lex) ++ dq :: (r_suffix suf ++ z)).
  { unfold t. cbn [app]. rewrite <- !app_assoc. cbn [app]. reflexivity. }
  assert (Q : q = len (pre ++ dq :: r_lex lex)) by (unfold q; rewrite len_app, len_cons; lia).
  assert (G : (len t <=? q) = false) by (rewrite E2, Q; apply ge_len_app_false).
  rewrite G.
  assert (E3 : t = (pre ++ dq :: r_lex lex ++ [dq]) ++ r_suffix suf ++ z).
  { unfold t. cbn [app]. repeat (rewrite <- app_assoc; cbn [app]). reflexivity. }
  assert (SL : slice_from t (q + 1) = r_suffix suf ++ z).
  { rewrite E3. replace (q + 1) with (len (pre ++ dq :: r_lex lex ++ [dq])).
    - apply slice_from_app.
    - unfold q. rewrite !len_app, !len_cons, len_app, len_cons, len_nil. lia. }
  rewrite SL. destruct (z_head_cases _ Z) as (c0 & z0 & -> & Hc0).
  destruct suf as [ | tag | dt]; cbn [r_suffix valid_suffix] in *.
  - (* plain *)
    cbn [app]. assert (P1 : prefixb ntf_type_open (c0 :: z0) = false) by (destruct Hc0 as [-> | [-> | ->]]; reflexivity).
    assert (P2 : prefixb ntf_lang_char (c0 :: z0) = false) by (destruct Hc0 as [-> | [-> | ->]]; reflexivity).
    assert (P3 : prefixb ntf_type_marker (c0 :: z0) = false) by (destruct Hc0 as [-> | [-> | ->]]; reflexivity).
    rewrite P1, P2, P3. cbn [andb]. f_equal. unfold q. rewrite !len_cons, len_app, len_cons, len_nil. lia.
  - (* language tag *)
    change (Str "@" ++ tag) with (c_at :: tag). cbn [app].
    replace (prefixb ntf_type_open (c_at :: tag ++ c0 :: z0)) with false by reflexivity. cbn [andb].
    replace (prefixb ntf_lang_char (c_at :: tag ++ c0 :: z0)) with true by reflexivity.
    change (c_at :: tag ++ c0 :: z0) with ([c_at] ++ tag ++ c0 :: z0).
    assert (TL : tag_loop (List.length ([c_at] ++ tag ++ c0 :: z0) + 2) ([c_at] ++ tag ++ c0 :: z0) 1
                 = Ok (1 + len tag)).
    { apply (tag_loop_spec tag _ [c_at] (c0 :: z0)).
      - apply valid_tag_chars. exact VS.
      - exists c0, z0. split; [reflexivity|]. destruct Hc0 as [-> | [-> | ->]]; auto.
      - rewrite !app_length. cbn [List.length]. lia. }
    rewrite TL. cbn [bind]. f_equal. unfold q. rewrite !len_cons, len_app, !len_cons. lia.
  - (* datatype *)
    change (Str "^^<" ++ dt ++ Str ">") with (hat :: hat :: lt_c :: dt ++ [gt_c]).
    replace ((hat :: hat :: lt_c :: dt ++ [gt_c]) ++ c0 :: z0) with ((hat :: hat :: lt_c :: dt) ++ gt_c :: c0 :: z0)
      by (cbn [app]; rewrite <- app_assoc; reflexivity).
    replace (prefixb ntf_type_open ((hat :: hat :: lt_c :: dt) ++ gt_c :: c0 :: z0)) with true by reflexivity.
    change ntf_type_close with [gt_c].
    assert (NG : ~ In gt_c (hat :: hat :: lt_c :: dt)).
    { repeat (apply notin_cons; [discriminate|]). apply iri_no_gt. exact VS. }
    pose proof (find_nat_char_app gt_c _ (c0 :: z0) NG) as F.
    unfold contains. rewrite F. cbn [andb]. rewrite (find_of_nat _ _ _ F).
    f_equal. unfold q. rewrite of_nat_len, !len_cons, len_app, !len_cons, len_app, len_cons, len_nil. lia.
Qed.

(** ** what [C06_dom_fx] says *)
Lemma dom_fx_parts t l : C06_dom_fx t l = true ->
  rc_F3 t = false /\ rc_F4 t = false /\ rc_F5 t = false /\ rc_F7_fx t l = false.
Proof.
  unfold C06_dom_fx, root_causes_fx. cbn [forallb negb andb]. rewrite !andb_true_iff, !negb_true_iff. tauto.
Qed.

Lemma follow_fx_after_obj hs t l : all_ws (predot l) = true ->
  (match comment l with Some (w, _) => all_ws w = true | None => True end) ->
  is_bnode_obj t = true -> rc_F7_fx3 hs t l = false -> token_follow_g hs (after_obj l).
Proof.
  unfold rc_F7_fx3, rc_F7_fx, after_obj, r_tail. intros W WC B R. rewrite B in R. cbn [andb] in R.
  destruct (predot l) as [|c pd].
  - cbn [str_eqb andb app] in *. destruct (comment l) as [[w txt]|].
    + destruct w as [|c w].
      * (* "_:b.#c": only with the switch *)
        destruct hs; [|discriminate]. right. right. exists "#"%char, txt. split; [reflexivity | exact is_stop_hash].
      * right. right. exists c, (w ++ Str "#" ++ txt). split; [reflexivity|].
        cbn [all_ws forallb] in WC. apply andb_true_iff in WC. apply is_stop_blank. rewrite is_blank_ws. tauto.
    + right. left. reflexivity.
  - left. exists c, (pd ++ "."%char :: match comment l with Some (w, txt) => w ++ Str "#" ++ txt | None => [] end).
    split; [reflexivity|]. cbn [all_ws forallb] in W. apply andb_true_iff in W. apply is_stop_blank. rewrite is_blank_ws. tauto.
Qed.

Lemma follow_fx_sep hs w rest : all_ws w = true -> str_eqb w [] = false -> token_follow_g hs (w ++ rest).
Proof.
  intros W N. destruct w as [|c w]; [discriminate|]. left. exists c, (w ++ rest). split; [reflexivity|].
  cbn [all_ws forallb] in W. apply andb_true_iff in W. apply is_stop_blank. rewrite is_blank_ws. tauto.
Qed.

Lemma label_char_nonstop hs c : label_char c = true -> negb (is_stop hs c) = true.
Proof. destruct hs; ascii_cases c; cbn; intros H; try reflexivity; discriminate. Qed.

Lemma valid_label_last lab : valid_label lab = true -> exists lab' d, lab = lab' ++ [d] /\ d <> "."%char.
Proof.
  unfold valid_label. destruct lab as [|c lab]; [discriminate|]. intros H.
  apply andb_true_iff in H. destruct H as [_ H]. apply negb_true_iff in H.
  destruct (exists_last (l := c :: lab) ltac:(discriminate)) as (lab' & d & E). exists lab', d. split; [exact E|].
  rewrite E in H. rewrite last_last in H. intros ->. discriminate.
Qed.

Lemma bnode_step_fx hs el f pre lab post acc :
  valid_label lab = true -> token_follow_g hs post ->
  look_loop_g hs el (S f) (pre ++ r_bn lab ++ post) (len pre) acc
  = look_loop_g hs el f (pre ++ r_bn lab ++ post) (len pre + len (r_bn lab)) (r_bn lab :: acc).
Proof.
  intros V T. destruct (valid_label_last _ V) as (lab' & d & E & Hd).
  assert (S : r_bn lab = ("_"%char :: ":"%char :: lab') ++ [d]) by (unfold r_bn; rewrite E; reflexivity).
  rewrite S. apply lookx_bnode; try assumption.
  rewrite <- S. unfold r_bn. cbn [forallb]. replace (negb (is_stop hs "_")) with true by (destruct hs; reflexivity).
  replace (negb (is_stop hs ":")) with true by (destruct hs; reflexivity). cbn [andb].
  apply (forallb_impl label_char); [exact (label_char_nonstop hs) | apply valid_label_chars; exact V].
Qed.

(** ** the object token *)
Lemma obj_step_fx hs el s p o l pre :
  valid_obj o = true -> obj_utf8 o = true -> valid_layout l = true -> rc_F7_fx3 hs (STriple s p o) l = false ->
  forall f acc,
    look_loop_g hs el (S f) (pre ++ r_obj o ++ after_obj l) (len pre) acc
    = look_loop_g hs el f (pre ++ r_obj o ++ after_obj l) (len pre + len (r_obj o)) (r_obj o :: acc).
Proof.
  intros V U VL R7 f acc.
  destruct (layout_parts _ VL) as (W1 & N1 & W2 & N2 & W3 & WC & CC).
  destruct o as [[u | lab] | lex suf].
  - cbn [valid_obj valid_node] in V. cbn [r_obj r_node].
    change (Str "<" ++ u ++ Str ">") with (r_iri u). apply lookx_uri. apply iri_no_gt. exact V.
  - cbn [valid_obj valid_node] in V. cbn [r_obj r_node]. change (Str "_:" ++ lab) with (r_bn lab).
    apply bnode_step_fx; [exact V|]. apply (follow_fx_after_obj hs (STriple s p (ONode (NBn lab)))); auto.
  - cbn [valid_obj] in V. apply andb_true_iff in V. destruct V as [V VS]. cbn [obj_utf8] in U.
    cbn [r_obj]. apply lookx_lit.
    apply lil_fx; try assumption. apply after_obj_head. exact W3.
Qed.

Lemma subj_step_fx hs el n rest : valid_node n = true -> token_follow_g hs rest ->
  forall f acc, look_loop_g hs el (S f) (r_node n ++ rest) 0 acc
                = look_loop_g hs el f (r_node n ++ rest) (len (r_node n)) (r_node n :: acc).
Proof.
  intros V T f acc. destruct n as [u|lab]; cbn [valid_node r_node] in *.
  - change (Str "<" ++ u ++ Str ">") with (r_iri u).
    pose proof (lookx_uri hs el f [] u rest acc (iri_no_gt _ V)) as K. cbn [app] in K. rewrite len_nil in K.
    rewrite Z.add_0_l in K. exact K.
  - change (Str "_:" ++ lab) with (r_bn lab).
    pose proof (bnode_step_fx hs el f [] lab rest acc V T) as K. cbn [app] in K. rewrite len_nil in K.
    rewrite Z.add_0_l in K. exact K.
Qed.

Lemma tokens_of_line_fx hs el t l :
  valid_triple t = true -> valid_layout l = true -> rc_F7_fx3 hs t l = false ->
  look_for_tokens_g hs el (nt_line t l) = Ok [r_node (t_s t); r_iri (t_p t); r_obj (t_o t)].
Proof.
  intros V VL D. destruct t as [s p o]. cbn [t_s t_p t_o] in *.
  unfold valid_triple in V. cbn [t_s t_p t_o] in V.
  apply andb_true_iff in V. destruct V as [V Vu]. apply andb_true_iff in V. destruct V as [V Vo].
  apply andb_true_iff in V. destruct V as [Vs Vp].
  destruct (layout_parts _ VL) as (W1 & N1 & W2 & N2 & W3 & WC & CC).
  unfold look_for_tokens_g.
  apply (chain_fx hs el _ (r_node s) (sep1 l) (r_iri p) (sep2 l) (r_obj o) (predot l) (r_tail (comment l))).
  - apply nt_line_shape.
  - exact W1.
  - exact W2.
  - exact W3.
  - rewrite nt_line_shape. cbn [t_s t_p t_o]. apply subj_step_fx; [exact Vs | apply follow_fx_sep; assumption].
  - intros f acc. rewrite nt_line_shape. cbn [t_s t_p t_o].
    replace (r_node s ++ sep1 l ++ r_iri p ++ sep2 l ++ r_obj o ++ predot l ++ "."%char :: r_tail (comment l))
      with ((r_node s ++ sep1 l) ++ r_iri p ++ (sep2 l ++ r_obj o ++ predot l ++ "."%char :: r_tail (comment l)))
      by (rewrite <- !app_assoc; reflexivity).
    replace (len (r_node s) + len (sep1 l)) with (len (r_node s ++ sep1 l)) by (rewrite len_app; reflexivity).
    apply lookx_uri. apply iri_no_gt. exact Vp.
  - intros f acc. rewrite nt_line_shape. cbn [t_s t_p t_o].
    replace (r_node s ++ sep1 l ++ r_iri p ++ sep2 l ++ r_obj o ++ predot l ++ "."%char :: r_tail (comment l))
      with ((r_node s ++ sep1 l ++ r_iri p ++ sep2 l) ++ r_obj o ++ after_obj l)
      by (unfold after_obj; rewrite <- !app_assoc; reflexivity).
    replace (len (r_node s) + len (sep1 l) + len (r_iri p) + len (sep2 l))
      with (len (r_node s ++ sep1 l ++ r_iri p ++ sep2 l)) by (rewrite !len_app; lia).
    apply (obj_step_fx hs el s p); assumption.
  - unfold line_fuel. lia.
Qed.

Lemma f7_norm hs t l : rc_F7_fx3 hs t (norm_layout l) = rc_F7_fx3 hs t l.
Proof. unfold rc_F7_fx3, rc_F7_fx, norm_layout. cbn [predot comment]. destruct (comment l) as [[w txt]|]; reflexivity. Qed.

Lemma f7_fx3_false t l : rc_F7_fx3 false t l = rc_F7_fx t l.
Proof. reflexivity. Qed.

(** ** typing of the object token (unchanged [decide_literal_type]) *)
Lemma f3_plain s p lex : rc_F3 (STriple s p (OLit lex SufNone)) = false ->
  contains s_quote_hats (r_obj (OLit lex SufNone)) = false.
Proof.
  unfold rc_F3, is_plain, is_typed, otext. cbn [t_o andb orb]. rewrite orb_false_r. auto.
Qed.

Lemma f345_typed s p lex dt :
  let t := STriple s p (OLit lex (SufType dt)) in
  rc_F3 t = false -> rc_F4 t = false -> rc_F5 t = false ->
  find_nat s_quote_hats (r_obj (t_o t)) = Some (S (List.length (r_lex lex))) /\
  forallb (fun q => negb (contains q (r_obj (t_o t)))) prefix_like = true /\ has 64 dt = false.
Proof.
  intros t. unfold rc_F3, rc_F4, rc_F5, is_plain, is_typed, otext, olex, odt. cbn [t_o t andb orb].
  intros H3 H4 H5. repeat split.
  - apply negb_false_iff in H3. destruct (find_nat s_quote_hats (r_obj (OLit lex (SufType dt)))) as [n|]; [|discriminate].
    apply Nat.eqb_eq in H3. subst n. reflexivity.
  - clear -H4. revert H4. generalize prefix_like. intros pl. induction pl as [|x pl IH]; [reflexivity|].
    cbn [existsb forallb]. intros H. apply orb_false_iff in H. destruct H as [H1 H2]. rewrite H1. cbn. auto.
  - exact H5.
Qed.

Lemma process_line_fx_ok allow t l :
  valid_triple t = true -> valid_layout l = true -> C06_dom_fx t l = true ->
  exists s o, process_line_fx allow (nt_line t l) = LYield s (t_p t) o /\ k3 (s, t_p t, o) = kinded t.
Proof.
  intros V VL D. unfold process_line_fx, process_line_g. rewrite strip_line.
  destruct (dom_fx_parts _ _ D) as (R3 & R4 & R5 & R7). rewrite <- f7_fx3_false in R7.
  rewrite tokens_of_line_fx by first [assumption | apply valid_layout_norm; assumption | rewrite f7_norm; assumption].
  destruct t as [s p o]. cbn [t_s t_p t_o] in *.
  unfold valid_triple in V. cbn [t_s t_p t_o] in V.
  apply andb_true_iff in V. destruct V as [V Vu]. apply andb_true_iff in V. destruct V as [V Vo].
  apply andb_true_iff in V. destruct V as [Vs Vp].
  assert (TS : exists s', tune_token false (r_node s) = Ok s' /\ term_k s' = k_node s).
  { destruct s as [u|lab]; cbn [r_node k_node].
    - change (Str "<" ++ u ++ Str ">") with (r_iri u). rewrite tune_iri. eexists; split; reflexivity.
    - change (Str "_:" ++ lab) with ("_"%char :: ":"%char :: lab). rewrite tune_bnode. eexists; split; reflexivity. }
  destruct TS as (s' & TS & KS). cbn [tokens_result]. rewrite TS. rewrite tune_prop_iri.
  assert (TO : exists o', tune_token allow (r_obj o) = Ok o' /\ term_k o' = k_obj o).
  { destruct o as [[u | lab] | lex [ | tag | dt]]; cbn [r_obj r_node k_obj k_node dt_of r_suffix].
    - change (Str "<" ++ u ++ Str ">") with (r_iri u). rewrite tune_iri. eexists; split; reflexivity.
    - change (Str "_:" ++ lab) with ("_"%char :: ":"%char :: lab). rewrite tune_bnode. eexists; split; reflexivity.
    - pose proof (f3_plain _ _ _ R3) as QH. cbn [r_obj r_suffix] in QH.
      apply contains_false_find in QH. destruct (tune_plain allow (r_lex lex) QH) as [c E].
      rewrite E. eexists; split; reflexivity.
    - cbn [valid_obj valid_suffix] in Vo. apply andb_true_iff in Vo. destruct Vo as [_ VT].
      pose proof (valid_tag_chars _ VT) as TC.
      assert (NAt : ~ In c_at tag) by (apply (forallb_notin _ _ _ TC); reflexivity).
      assert (NQt : ~ In dq tag) by (apply (forallb_notin _ _ _ TC); reflexivity).
      change (Str "@" ++ tag) with (c_at :: tag).
      replace (dq :: r_lex lex ++ dq :: c_at :: tag) with ((dq :: r_lex lex ++ [dq]) ++ c_at :: tag)
        by (cbn [app]; rewrite <- app_assoc; reflexivity).
      destruct (tune_lang allow (r_lex lex ++ [dq]) tag NAt NQt) as [c E].
      rewrite E. eexists; split; reflexivity.
    - cbn [valid_obj valid_suffix] in Vo. apply andb_true_iff in Vo. destruct Vo as [_ VD].
      destruct (f345_typed _ _ _ _ R3 R4 R5) as (FQ & PL & AD).
      cbn [t_o r_obj r_suffix] in *. change (Str "^^<" ++ dt ++ Str ">") with (r_typed_suffix dt) in *.
      destruct (tune_typed allow (r_lex lex) dt (has_false 64 _ ltac:(lia) AD) (valid_iri_start _ VD) FQ PL) as [c E].
      rewrite E. eexists; split; reflexivity. }
  destruct TO as (o' & TO & KO). rewrite TO.
  exists s', o'. split; [reflexivity|]. unfold k3, kinded. cbn [t_s t_p t_o]. rewrite KS, KO. reflexivity.
Qed.

(** ** documents *)
Definition ok_case_fx (x : striple * layout) : Prop :=
  valid_triple (fst x) = true /\ valid_layout (snd x) = true /\ C06_dom_fx (fst x) (snd x) = true.

Lemma run_lines_fx_ok allow : forall ts acc errs, Forall ok_case_fx ts ->
  exists ys, run_lines_g (process_line_fx allow) (map (fun x => nt_line (fst x) (snd x)) ts) acc errs
             = DocDone (rev acc ++ ys) errs /\
             map k3 ys = map (fun x => kinded (fst x)) ts.
Proof.
  induction ts as [|[t l] ts IH]; intros acc errs H.
  - exists []. cbn. rewrite app_nil_r. split; reflexivity.
  - inversion H as [|? ? [V [VL D]] H']; subst. cbn [fst snd] in *. cbn [map run_lines_g fst snd].
    destruct (process_line_fx_ok allow t l V VL D) as (s & o & E & K). rewrite E.
    destruct (IH ((s, t_p t, o) :: acc) errs H') as (ys & R & M). exists ((s, t_p t, o) :: ys). split.
    + rewrite R. cbn [rev]. rewrite <- app_assoc. reflexivity.
    + cbn [map]. rewrite K, M. reflexivity.
Qed.

Lemma raw_lines_doc_valid ts :
  Forall (fun x => valid_triple (fst x) = true /\ valid_layout (snd x) = true) ts ->
  raw_string_lines (nt_doc ts) = map (fun x => nt_line (fst x) (snd x)) ts.
Proof.
  intros H. unfold raw_string_lines, nt_doc. change s_newline with [lf]. change [ascii_of_nat 10] with [lf].
  destruct ts as [|x ts]; [reflexivity|].
  rewrite split_join.
  - apply filter_all. apply forallb_forall. intros ln I. apply in_map_iff in I.
    destruct I as ([t l] & <- & _). apply line_not_blank.
  - discriminate.
  - apply Forall_forall. intros ln I. apply in_map_iff in I. destruct I as ([t l] & <- & I).
    rewrite Forall_forall in H. destruct (H _ I) as (V & VL). apply line_no_lf; assumption.
Qed.

Lemma document_partial_fx allow ts : Forall ok_case_fx ts ->
  kinded_result (read_raw_string_fx allow (nt_doc ts)) = Some (map (fun x => kinded (fst x)) ts, 0%nat).
Proof.
  intros H. unfold read_raw_string_fx, read_raw_string_g. change (process_line_g false false) with process_line_fx. rewrite raw_lines_doc_valid.
  - destruct (run_lines_fx_ok allow ts [] 0%nat H) as (ys & R & M). rewrite R. cbn [kinded_result rev app].
    rewrite M. reflexivity.
  - eapply Forall_impl; [|exact H]. intros x (A & B & _). auto.
Qed.

Lemma line_partial_fx allow t l :
  valid_triple t = true -> valid_layout l = true -> C06_dom_fx t l = true ->
  kinded_result (read_raw_string_fx allow (nt_line t l)) = Some ([kinded t], 0%nat).
Proof.
  intros V VL D. apply (document_partial_fx allow [(t, l)]). constructor; [|constructor].
  unfold ok_case_fx. cbn [fst snd]. auto.
Qed.

(** * The typing repair (literal-type-from-suffix): [decide_literal_type_fx] *)
Lemma lstrip_ns s : forallb (fun c => negb (is_space c)) s = true -> lstrip s = s.
Proof. destruct s as [|c s]; [reflexivity|]. cbn. intros H. apply andb_true_iff in H. destruct H as [H _].
  apply negb_true_iff in H. rewrite H. reflexivity. Qed.

Lemma strip_ns s : forallb (fun c => negb (is_space c)) s = true -> strip s = s.
Proof.
  intros H. unfold strip, rstrip. rewrite (lstrip_ns s H). rewrite lstrip_ns; [apply rev_involutive|].
  rewrite forallb_forall in *. intros c I. apply H. apply in_rev. exact I.
Qed.

Lemma slice_from_end s : slice_from s (len s) = [].
Proof. rewrite <- (app_nil_r s) at 1. apply slice_from_app. Qed.

Lemma rfind_quote_last a b : ~ In dq b -> rfind (Str """") (a ++ dq :: b) + 1 = len (a ++ [dq]).
Proof.
  intros H. change (Str """") with [dq]. rewrite (rfind_of_nat _ _ _ (rfind_nat_last dq a b H)).
  rewrite of_nat_len, len_app. reflexivity.
Qed.

Lemma tune_plain_fx allow rl :
  exists content, tune_token_fx allow (dq :: rl ++ [dq]) = Ok (TLit content xsd_string).
Proof.
  change (tune_token_fx allow (dq :: rl ++ [dq])) with (parse_literal_fx (dq :: rl ++ [dq])).
  unfold parse_literal_fx, decide_literal_type_fx.
  assert (R : rfind (Str """") (dq :: rl ++ [dq]) + 1 = len (dq :: rl ++ [dq])).
  { change (dq :: rl ++ [dq]) with ((dq :: rl) ++ dq :: []). rewrite rfind_quote_last by (intros []). reflexivity. }
  assert (Q0 : (rfind (Str """") (dq :: rl ++ [dq]) <? 0) = false).
  { apply Z.ltb_ge. pose proof (len_nonneg (rl ++ [dq])). rewrite len_cons in R. lia. }
  rewrite Q0, R, slice_from_end. cbn [strip rstrip lstrip rev app prefixb].
  change (prefixb ntf_lang_char []) with false. change (prefixb ntf_type_marker []) with false. cbn [negb].
  assert (AF : arroba_after_last_quotes (dq :: rl ++ [dq]) = false).
  { change (dq :: rl ++ [dq]) with ((dq :: rl) ++ dq :: []). apply arroba_false. intros []. }
  rewrite AF. cbn [bind]. eexists. reflexivity.
Qed.

Lemma tag_char_nospace c : tag_char c = true -> negb (is_space c) = true.
Proof. ascii_cases c; cbn; intros H; try reflexivity; discriminate. Qed.

Lemma iri_char_nospace c : iri_char c = true -> negb (is_space c) = true.
Proof. ascii_cases c; cbn; intros H; try reflexivity; discriminate. Qed.

Lemma tune_lang_fx allow rl tag :
  forallb tag_char tag = true ->
  exists content, tune_token_fx allow (dq :: rl ++ dq :: c_at :: tag) = Ok (TLit content rdf_langString).
Proof.
  intros TC.
  change (tune_token_fx allow (dq :: rl ++ dq :: c_at :: tag)) with (parse_literal_fx (dq :: rl ++ dq :: c_at :: tag)).
  unfold parse_literal_fx, decide_literal_type_fx.
  assert (NQ : ~ In dq (c_at :: tag)).
  { apply notin_cons; [discriminate|]. apply (forallb_notin _ _ _ TC). reflexivity. }
  assert (R : rfind (Str """") (dq :: rl ++ dq :: c_at :: tag) + 1 = len ((dq :: rl) ++ [dq])).
  { change (dq :: rl ++ dq :: c_at :: tag) with ((dq :: rl) ++ dq :: (c_at :: tag)). apply rfind_quote_last. exact NQ. }
  assert (SF : slice_from (dq :: rl ++ dq :: c_at :: tag) (len ((dq :: rl) ++ [dq])) = c_at :: tag).
  { replace (dq :: rl ++ dq :: c_at :: tag) with (((dq :: rl) ++ [dq]) ++ c_at :: tag)
      by (cbn [app]; rewrite <- app_assoc; reflexivity).
    apply slice_from_app. }
  assert (Q0 : (rfind (Str """") (dq :: rl ++ dq :: c_at :: tag) <? 0) = false).
  { apply Z.ltb_ge. pose proof R as R'. rewrite len_app, !len_cons, len_nil in R'. pose proof (len_nonneg rl). lia. }
  rewrite Q0, R, SF. rewrite strip_ns.
  - replace (prefixb ntf_lang_char (c_at :: tag)) with true by reflexivity. cbn [bind]. eexists. reflexivity.
  - cbn [forallb]. replace (negb (is_space c_at)) with true by reflexivity. cbn [andb].
    apply (forallb_impl tag_char); [exact tag_char_nospace | exact TC].
Qed.

Lemma tune_typed_fx allow rl d :
  forallb iri_char d = true ->
  exists content, tune_token_fx allow (dq :: rl ++ dq :: r_typed_suffix d) = Ok (TLit content d).
Proof.
  intros IC.
  change (tune_token_fx allow (dq :: rl ++ dq :: r_typed_suffix d))
    with (parse_literal_fx (dq :: rl ++ dq :: r_typed_suffix d)).
  unfold parse_literal_fx, decide_literal_type_fx.
  assert (NQ : ~ In dq (r_typed_suffix d)).
  { unfold r_typed_suffix. repeat (apply notin_cons; [discriminate|]). apply notin_app.
    - apply (forallb_notin _ _ _ IC). reflexivity.
    - intros [E|[]]; discriminate. }
  assert (R : rfind (Str """") (dq :: rl ++ dq :: r_typed_suffix d) + 1 = len ((dq :: rl) ++ [dq])).
  { change (dq :: rl ++ dq :: r_typed_suffix d) with ((dq :: rl) ++ dq :: r_typed_suffix d). apply rfind_quote_last. exact NQ. }
  assert (SF : slice_from (dq :: rl ++ dq :: r_typed_suffix d) (len ((dq :: rl) ++ [dq])) = r_typed_suffix d).
  { replace (dq :: rl ++ dq :: r_typed_suffix d) with (((dq :: rl) ++ [dq]) ++ r_typed_suffix d)
      by (cbn [app]; rewrite <- app_assoc; reflexivity).
    apply slice_from_app. }
  assert (Q0 : (rfind (Str """") (dq :: rl ++ dq :: r_typed_suffix d) <? 0) = false).
  { apply Z.ltb_ge. pose proof R as R'. rewrite len_app, !len_cons, len_nil in R'. pose proof (len_nonneg rl). lia. }
  rewrite Q0, R, SF. rewrite strip_ns.
  - unfold r_typed_suffix.
    replace (prefixb ntf_lang_char (hat :: hat :: lt_c :: d ++ [gt_c])) with false by reflexivity.
    replace (prefixb ntf_type_marker (hat :: hat :: lt_c :: d ++ [gt_c])) with true by reflexivity. cbn [negb].
    change (hat :: hat :: lt_c :: d ++ [gt_c]) with ([hat; hat] ++ lt_c :: d ++ [gt_c]).
    change 2 with (len [hat; hat]). rewrite slice_from_app.
    replace (first_dlt_prefix ntf_dlt_prefix_table (lt_c :: d ++ [gt_c])) with (@None (str * Z * str)) by reflexivity.
    replace (prefixb ntf_dlt_iri_open (lt_c :: d ++ [gt_c])) with true by reflexivity.
    change (lt_c :: d ++ [gt_c]) with ((lt_c :: d) ++ [gt_c]) at 1. change ntf_dlt_iri_close with [gt_c].
    rewrite suffixb_app_end. cbn [andb].
    unfold slice_cp. change (-1 =? -1) with true. cbv iota.
    change (lt_c :: d ++ [gt_c]) with ([lt_c] ++ d ++ [gt_c]). change 1 with (len [lt_c]). rewrite slice_from_app.
    rewrite drop_last_cp_gt. cbn [bind]. eexists. reflexivity.
  - unfold r_typed_suffix. cbn [forallb]. replace (negb (is_space hat)) with true by reflexivity.
    replace (negb (is_space lt_c)) with true by reflexivity. cbn [andb]. rewrite forallb_app.
    rewrite (forallb_impl iri_char _ d iri_char_nospace IC). reflexivity.
Qed.

Lemma process_line_g2_ok hs el allow t l :
  valid_triple t = true -> valid_layout l = true -> rc_F7_fx3 hs t l = false ->
  exists s o, process_line_g2 hs el allow (nt_line t l) = LYield s (t_p t) o /\ k3 (s, t_p t, o) = kinded t.
Proof.
  intros V VL R7. unfold process_line_g2. rewrite strip_line.
  rewrite tokens_of_line_fx by first [assumption | apply valid_layout_norm; assumption | rewrite f7_norm; assumption].
  destruct t as [s p o]. cbn [t_s t_p t_o] in *.
  unfold valid_triple in V. cbn [t_s t_p t_o] in V.
  apply andb_true_iff in V. destruct V as [V Vu]. apply andb_true_iff in V. destruct V as [V Vo].
  apply andb_true_iff in V. destruct V as [Vs Vp].
  assert (TS : exists s', tune_token_fx false (r_node s) = Ok s' /\ term_k s' = k_node s).
  { destruct s as [u|lab]; cbn [r_node k_node].
    - change (Str "<" ++ u ++ Str ">") with (r_iri u).
      change (tune_token_fx false (r_iri u)) with (bind (remove_corners (r_iri u)) (fun u => Ok (TIri u))).
      rewrite remove_corners_iri. eexists; split; reflexivity.
    - eexists; split; reflexivity. }
  destruct TS as (s' & TS & KS). cbn [tokens_result_fx]. rewrite TS. rewrite tune_prop_iri.
  assert (TO : exists o', tune_token_fx allow (r_obj o) = Ok o' /\ term_k o' = k_obj o).
  { destruct o as [[u | lab] | lex [ | tag | dt]]; cbn [r_obj r_node k_obj k_node dt_of r_suffix].
    - change (Str "<" ++ u ++ Str ">") with (r_iri u).
      change (tune_token_fx allow (r_iri u)) with (bind (remove_corners (r_iri u)) (fun u => Ok (TIri u))).
      rewrite remove_corners_iri. eexists; split; reflexivity.
    - eexists; split; reflexivity.
    - destruct (tune_plain_fx allow (r_lex lex)) as [c E]. rewrite E. eexists; split; reflexivity.
    - cbn [valid_obj valid_suffix] in Vo. apply andb_true_iff in Vo. destruct Vo as [_ VT].
      change (Str "@" ++ tag) with (c_at :: tag).
      destruct (tune_lang_fx allow (r_lex lex) tag (valid_tag_chars _ VT)) as [c E].
      rewrite E. eexists; split; reflexivity.
    - cbn [valid_obj valid_suffix] in Vo. apply andb_true_iff in Vo. destruct Vo as [_ VD].
      change (Str "^^<" ++ dt ++ Str ">") with (r_typed_suffix dt).
      destruct (tune_typed_fx allow (r_lex lex) dt (valid_iri_chars _ VD)) as [c E].
      rewrite E. eexists; split; reflexivity. }
  destruct TO as (o' & TO & KO). rewrite TO.
  exists s', o'. split; [reflexivity|]. unfold k3, kinded. cbn [t_s t_p t_o]. rewrite KS, KO. reflexivity.
Qed.

Definition ok_case_g2 (hs : bool) (x : striple * layout) : Prop :=
  valid_triple (fst x) = true /\ valid_layout (snd x) = true /\ C06_dom_fx3 hs (fst x) (snd x) = true.

Lemma dom_fx3_f7 hs t l : C06_dom_fx3 hs t l = true -> rc_F7_fx3 hs t l = false.
Proof. unfold C06_dom_fx3, root_causes_fx3. cbn [forallb negb andb]. rewrite andb_true_r. apply negb_true_iff. Qed.

Lemma run_lines_g2_ok hs el allow : forall ts acc errs, Forall (ok_case_g2 hs) ts ->
  exists ys, run_lines_g (process_line_g2 hs el allow) (map (fun x => nt_line (fst x) (snd x)) ts) acc errs
             = DocDone (rev acc ++ ys) errs /\
             map k3 ys = map (fun x => kinded (fst x)) ts.
Proof.
  induction ts as [|[t l] ts IH]; intros acc errs H.
  - exists []. cbn. rewrite app_nil_r. split; reflexivity.
  - inversion H as [|? ? [V [VL D]] H']; subst. cbn [fst snd] in *. cbn [map run_lines_g fst snd].
    destruct (process_line_g2_ok hs el allow t l V VL (dom_fx3_f7 _ _ _ D)) as (s & o & E & K). rewrite E.
    destruct (IH ((s, t_p t, o) :: acc) errs H') as (ys & R & M). exists ((s, t_p t, o) :: ys). split.
    + rewrite R. cbn [rev]. rewrite <- app_assoc. reflexivity.
    + cbn [map]. rewrite K, M. reflexivity.
Qed.

Lemma document_partial_g2 hs el allow ts : Forall (ok_case_g2 hs) ts ->
  kinded_result (read_raw_string_g2 hs el allow (nt_doc ts)) = Some (map (fun x => kinded (fst x)) ts, 0%nat).
Proof.
  intros H. unfold read_raw_string_g2. rewrite raw_lines_doc_valid.
  - destruct (run_lines_g2_ok hs el allow ts [] 0%nat H) as (ys & R & M). rewrite R. cbn [kinded_result rev app].
    rewrite M. reflexivity.
  - eapply Forall_impl; [|exact H]. intros x (A & B & _). auto.
Qed.

Lemma line_partial_g2 hs el allow t l :
  valid_triple t = true -> valid_layout l = true -> C06_dom_fx3 hs t l = true ->
  kinded_result (read_raw_string_g2 hs el allow (nt_line t l)) = Some ([kinded t], 0%nat).
Proof.
  intros V VL D. apply (document_partial_g2 hs el allow [(t, l)]). constructor; [|constructor].
  unfold ok_case_g2. cbn [fst snd]. auto.
Qed.

(** the reader without comment-glued-to-dot is the instance [false false]: its domain is [C06_dom_fx2] *)
Definition ok_case_fx2 (x : striple * layout) : Prop :=
  valid_triple (fst x) = true /\ valid_layout (snd x) = true /\ C06_dom_fx2 (fst x) (snd x) = true.

Lemma dom_fx3_false t l : C06_dom_fx3 false t l = C06_dom_fx2 t l.
Proof. reflexivity. Qed.

Lemma document_partial_fx2 allow ts : Forall ok_case_fx2 ts ->
  kinded_result (read_raw_string_fx2 allow (nt_doc ts)) = Some (map (fun x => kinded (fst x)) ts, 0%nat).
Proof. exact (document_partial_g2 false false allow ts). Qed.

Lemma line_partial_fx2 allow t l :
  valid_triple t = true -> valid_layout l = true -> C06_dom_fx2 t l = true ->
  kinded_result (read_raw_string_fx2 allow (nt_line t l)) = Some ([kinded t], 0%nat).
Proof. exact (line_partial_g2 false false allow t l). Qed.

(** ** with the switch [hs] there is no root cause left: the FULL statement, every valid line *)
Lemma dom_fx3_total t l : C06_dom_fx3 true t l = true.
Proof. reflexivity. Qed.

Lemma line_full_g2 el allow t l :
  valid_triple t = true -> valid_layout l = true ->
  kinded_result (read_raw_string_g2 true el allow (nt_line t l)) = Some ([kinded t], 0%nat).
Proof. intros V VL. apply line_partial_g2; [exact V | exact VL | apply dom_fx3_total]. Qed.

Lemma document_full_g2 el allow (ts : list (striple * layout)) :
  Forall (fun x => valid_triple (fst x) = true /\ valid_layout (snd x) = true) ts ->
  kinded_result (read_raw_string_g2 true el allow (nt_doc ts)) = Some (map (fun x => kinded (fst x)) ts, 0%nat).
Proof.
  intros H. apply document_partial_g2. eapply Forall_impl; [|exact H]. intros x (A & B).
  unfold ok_case_g2. auto using dom_fx3_total.
Qed.

(** ** the reader /repo has now ([nt_fixed_tok], [nt_fixed_dlt], [nt_tok_end_at_hash], [nt_uri_unclosed_to_eol]) *)
From Shexer Require Import Spec.NtDomCur.

(** one line that is not skipped, on the domain of the reader /repo has *)
Lemma process_line_cur_ok allow t l :
  valid_triple t = true -> valid_layout l = true -> C06_dom_cur t l = true ->
  exists s o, process_line_cur allow (nt_line t l) = LYield s (t_p t) o /\ k3 (s, t_p t, o) = kinded t.
Proof.
  unfold C06_dom_cur, process_line_cur. destruct nt_fixed_tok; [destruct nt_fixed_dlt|]; intros V VL D.
  - apply process_line_g2_ok; try assumption. apply dom_fx3_f7. exact D.
  - apply process_line_fx_ok; assumption.
  - apply process_line_ok; assumption.
Qed.

(** with the switch [nt_tok_end_at_hash] (on top of the earlier repairs) the domain is everything *)
Lemma dom_cur_total :
  nt_fixed_tok = true -> nt_fixed_dlt = true -> nt_tok_end_at_hash = true -> forall t l, C06_dom_cur t l = true.
Proof. intros E1 E2 E3 t l. unfold C06_dom_cur. rewrite E1, E2, E3. apply dom_fx3_total. Qed.

Lemma forallb_negb_iff rs : forallb negb rs = true <-> Forall (fun b => b = false) rs.
Proof.
  induction rs as [|b rs IH]; cbn [forallb].
  - split; [constructor | reflexivity].
  - rewrite andb_true_iff, negb_true_iff, IH. split; [intros [? ?]; constructor; auto | intros H; inversion H; auto].
Qed.

Lemma dom_cur_iff_no_root_cause t l :
  C06_dom_cur t l = true <-> Forall (fun b => b = false) (root_causes_cur t l).
Proof.
  unfold C06_dom_cur, root_causes_cur, C06_dom_fx3. destruct nt_fixed_tok; [destruct nt_fixed_dlt|];
    [apply forallb_negb_iff | apply forallb_negb_iff | apply dom_iff_no_root_cause].
Qed.

Lemma dom_grows2 t l : C06_dom_fx t l = true -> C06_dom_fx2 t l = true.
Proof.
  unfold C06_dom_fx, C06_dom_fx2, root_causes_fx, root_causes_fx2. cbn [forallb negb andb].
  rewrite !andb_true_iff. tauto.
Qed.

(** the repairs only enlarge the domain *)
Lemma dom_grows t l : C06_dom t l = true -> C06_dom_fx t l = true.
Proof.
  unfold C06_dom, C06_dom_fx, root_causes, root_causes_fx. cbn [forallb negb andb].
  rewrite !andb_true_iff, !negb_true_iff. intros (_ & _ & H3 & H4 & H5 & _ & H7 & _).
  repeat split; try assumption.
  unfold rc_F7, rc_F7_fx, glued in *. destruct (is_bnode_obj t); [|reflexivity]. cbn [andb orb] in *.
  destruct (str_eqb (predot l) []); [|reflexivity]. cbn [andb] in *.
  destruct (comment l) as [[w txt]|]; [discriminate | reflexivity].
Qed.

Lemma dom_grows3 hs t l : C06_dom_fx2 t l = true -> C06_dom_fx3 hs t l = true.
Proof.
  unfold C06_dom_fx2, C06_dom_fx3, root_causes_fx2, root_causes_fx3, rc_F7_fx3. cbn [forallb negb andb].
  rewrite !andb_true_r, !negb_true_iff. intros ->. apply andb_false_r.
Qed.
