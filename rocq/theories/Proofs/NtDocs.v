(** * Documents with comment lines and blank lines ([Spec.NtSyntax.dline], [nt_document]) read by
    the document loop [Model.NtReader.doc_loop] -- with the switch [sk]
    ([Gen.Consts.nt_skips_comment_lines]) blank lines and comment lines are skipped before a line
    is tokenised; without it every line is tokenised (finding C06-F9).  Raw string and file.
    Then the statements about the reader /repo has now ([read_raw_string_cur], [read_file_cur]). *)
From Coq Require Import List Ascii String ZArith Bool Lia Arith.
From Shexer Require Import Lib.PyStr Gen.Consts Model.NtReader Spec.NtSyntax Spec.NtDom Spec.NtDomCur
  Proofs.NtStrLemmas Proofs.NtProofs Proofs.NtProofsFx Proofs.NtTotal.
Import ListNotations.
Local Open Scope Z_scope.

(** ** what [strip()] makes of the three kinds of lines *)
Lemma ws_is_space c : is_ws c = true -> is_space c = true.
Proof. intros H. destruct (is_ws_cases _ H) as [-> | ->]; reflexivity. Qed.

Lemma lstrip_ws w : all_ws w = true -> lstrip w = [].
Proof.
  induction w as [|c w IH]; intros H; [reflexivity|]. cbn [all_ws forallb] in H. apply andb_true_iff in H.
  destruct H as [Hc Hw]. cbn [lstrip]. rewrite (ws_is_space _ Hc). apply IH. exact Hw.
Qed.

Lemma strip_blank w : all_ws w = true -> strip w = [].
Proof. intros H. unfold strip. rewrite (lstrip_ws _ H). apply rstrip_nil. Qed.

Definition hash_c : ascii := "#"%char.

Lemma strip_comment w txt : all_ws w = true -> strip (w ++ Str "#" ++ txt) = hash_c :: rstrip txt.
Proof.
  intros H. unfold strip. change (Str "#" ++ txt) with (hash_c :: txt).
  rewrite lstrip_app_ns by reflexivity. rewrite (lstrip_ws _ H). cbn [app].
  change (hash_c :: txt) with ([] ++ hash_c :: txt). rewrite rstrip_app_ns by reflexivity. reflexivity.
Qed.

Lemma nonblank_stmt t l : negb (str_eqb (strip (nt_line t l)) []) = true.
Proof. apply line_not_blank. Qed.

Lemma nonblank_comment w txt : all_ws w = true -> negb (str_eqb (strip (w ++ Str "#" ++ txt)) []) = true.
Proof. intros H. rewrite (strip_comment _ _ H). reflexivity. Qed.

Lemma blank_blank w : all_ws w = true -> negb (str_eqb (strip w) []) = false.
Proof. intros H. rewrite (strip_blank _ H). reflexivity. Qed.

Lemma skipped_stmt t l : is_skipped_line (nt_line t l) = false.
Proof.
  unfold is_skipped_line. rewrite strip_line, nt_line_shape.
  destruct (t_s t) as [u|lab]; reflexivity.
Qed.

Lemma skipped_comment w txt : all_ws w = true -> is_skipped_line (w ++ Str "#" ++ txt) = true.
Proof. intros H. unfold is_skipped_line. rewrite (strip_comment _ _ H). reflexivity. Qed.

Lemma skipped_blank w : all_ws w = true -> is_skipped_line w = true.
Proof. intros H. unfold is_skipped_line. rewrite (strip_blank _ H). reflexivity. Qed.

(** ** the lines of a document *)
Lemma dline_no_lf d : valid_dline d = true -> ~ In lf (r_dline d).
Proof.
  destruct d as [t l | w txt | w]; cbn [valid_dline r_dline]; intros H.
  - apply andb_true_iff in H. destruct H. apply line_no_lf; assumption.
  - apply andb_true_iff in H. destruct H as [Hw Ht]. apply notin_app; [apply (ws_notin _ _ Hw); reflexivity|].
    apply notin_app; [intros [E|[]]; discriminate|]. apply (forallb_notin _ _ _ Ht). reflexivity.
  - apply (ws_notin _ _ H). reflexivity.
Qed.

Lemma document_split ds : ds <> [] -> Forall (fun d => valid_dline d = true) ds ->
  split s_newline (nt_document ds) = map r_dline ds.
Proof.
  intros N H. unfold nt_document. change s_newline with [lf]. change [ascii_of_nat 10] with [lf].
  apply split_join.
  - destruct ds; [congruence | discriminate].
  - apply Forall_forall. intros ln I. apply in_map_iff in I. destruct I as (d & <- & I).
    rewrite Forall_forall in H. apply dline_no_lf. auto.
Qed.

Definition no_comment (d : dline) : Prop := rc_F9 d = false.
Definition only_stmt (d : dline) : Prop := rc_F9_file d = false.

Definition stmt_line (x : striple * layout) : str := nt_line (fst x) (snd x).

(** the raw-string line reader drops the blank lines; the switch drops the comment lines *)
Lemma kept_raw_lines sk ds :
  Forall (fun d => valid_dline d = true) ds -> (sk = true \/ Forall no_comment ds) ->
  kept_lines sk (filter (fun l => negb (str_eqb (strip l) [])) (map r_dline ds)) = map stmt_line (statements ds).
Proof.
  intros V C. induction ds as [|d ds IH]; [destruct sk; reflexivity|].
  inversion V as [|? ? Vd V']; subst.
  assert (C' : sk = true \/ Forall no_comment ds).
  { destruct C as [C | C]; [left; exact C | right; inversion C; assumption]. }
  specialize (IH V' C'). cbn [map filter statements].
  destruct d as [t l | w txt | w]; cbn [valid_dline r_dline] in *.
  - rewrite nonblank_stmt. cbn [map stmt_line fst snd]. rewrite <- IH. unfold kept_lines. destruct sk; [|reflexivity].
    cbn [filter]. rewrite skipped_stmt. reflexivity.
  - apply andb_true_iff in Vd. destruct Vd as [Hw _]. rewrite (nonblank_comment _ _ Hw).
    destruct C as [-> | C]; [|inversion C as [|? ? Cd _]; discriminate Cd].
    unfold kept_lines in *. cbn [filter]. rewrite (skipped_comment _ _ Hw). exact IH.
  - rewrite (blank_blank _ Vd). exact IH.
Qed.

Lemma raw_lines_document sk ds :
  Forall (fun d => valid_dline d = true) ds -> (sk = true \/ Forall no_comment ds) ->
  kept_lines sk (raw_string_lines (nt_document ds)) = map stmt_line (statements ds).
Proof.
  intros V C. destruct ds as [|d ds]; [destruct sk; reflexivity|].
  unfold raw_string_lines. rewrite document_split by (congruence || assumption). apply kept_raw_lines; assumption.
Qed.

(** the file line reader delivers every line but a final empty one *)
Lemma file_lines_cases (parts : list str) :
  (match rev parts with [] :: r => rev r | _ => parts end) = parts \/
  exists xs, parts = xs ++ [[]] /\ (match rev parts with [] :: r => rev r | _ => parts end) = xs.
Proof.
  destruct (rev parts) as [|[|c x] r] eqn:E; auto.
  right. exists (rev r). split; [|reflexivity].
  rewrite <- (rev_involutive parts), E. reflexivity.
Qed.

Lemma kept_file_lines_all sk ds :
  Forall (fun d => valid_dline d = true) ds -> (sk = true \/ Forall only_stmt ds) ->
  kept_lines sk (map r_dline ds) = map stmt_line (statements ds).
Proof.
  intros V C. induction ds as [|d ds IH]; [destruct sk; reflexivity|].
  inversion V as [|? ? Vd V']; subst.
  assert (C' : sk = true \/ Forall only_stmt ds).
  { destruct C as [C | C]; [left; exact C | right; inversion C; assumption]. }
  specialize (IH V' C'). cbn [map statements].
  destruct d as [t l | w txt | w]; cbn [valid_dline r_dline] in *.
  - cbn [map stmt_line fst snd]. rewrite <- IH. unfold kept_lines. destruct sk; [|reflexivity].
    cbn [filter]. rewrite skipped_stmt. reflexivity.
  - apply andb_true_iff in Vd. destruct Vd as [Hw _].
    destruct C as [-> | C]; [|inversion C as [|? ? Cd _]; discriminate Cd].
    unfold kept_lines in *. cbn [filter]. rewrite (skipped_comment _ _ Hw). exact IH.
  - destruct C as [-> | C]; [|inversion C as [|? ? Cd _]; discriminate Cd].
    unfold kept_lines in *. cbn [filter]. rewrite (skipped_blank _ Vd). exact IH.
Qed.

Lemma stmt_line_nonempty t l : nt_line t l <> [].
Proof. rewrite nt_line_shape. destruct (t_s t); discriminate. Qed.

Lemma file_lines_document sk ds :
  Forall (fun d => valid_dline d = true) ds -> (sk = true \/ Forall only_stmt ds) ->
  kept_lines sk (file_lines (nt_document ds)) = map stmt_line (statements ds).
Proof.
  intros V C. destruct ds as [|d0 ds0]; [destruct sk; reflexivity|].
  set (ds := d0 :: ds0) in *.
  unfold file_lines. rewrite document_split by (subst ds; congruence || assumption).
  destruct (file_lines_cases (map r_dline ds)) as [E | (xs & E1 & E2)].
  - rewrite E. apply kept_file_lines_all; assumption.
  - rewrite E2. rewrite <- (kept_file_lines_all sk ds V C), E1.
    destruct C as [-> | C].
    + unfold kept_lines. rewrite filter_app. cbn [filter]. change (is_skipped_line []) with true. cbn [negb].
      rewrite app_nil_r. reflexivity.
    + (* without the switch the last line is a statement: it is not empty *)
      exfalso. assert (I : In (@nil ascii) (map r_dline ds)) by (rewrite E1; apply in_or_app; right; left; reflexivity).
      apply in_map_iff in I. destruct I as (d & Ed & Id). rewrite Forall_forall in C. specialize (C d Id).
      destruct d as [t l | w txt | w]; try discriminate C. exact (stmt_line_nonempty t l Ed).
Qed.

(** ** the document loop over lines that all yield *)
Lemma run_lines_g_all_yield pl : forall (xs : list (striple * layout)) acc errs,
  Forall (fun x => exists s o, pl (stmt_line x) = LYield s (t_p (fst x)) o /\ k3 (s, t_p (fst x), o) = kinded (fst x)) xs ->
  exists ys, run_lines_g pl (map stmt_line xs) acc errs = DocDone (rev acc ++ ys) errs /\
             map k3 ys = map (fun x => kinded (fst x)) xs.
Proof.
  induction xs as [|x xs IH]; intros acc errs H.
  - exists []. cbn. rewrite app_nil_r. split; reflexivity.
  - inversion H as [|? ? (s & o & E & K) H']; subst. cbn [map run_lines_g]. rewrite E.
    destruct (IH ((s, t_p (fst x), o) :: acc) errs H') as (ys & R & M). exists ((s, t_p (fst x), o) :: ys). split.
    + rewrite R. cbn [rev]. rewrite <- app_assoc. reflexivity.
    + cbn [map]. rewrite K, M. reflexivity.
Qed.

Lemma statements_forall (P : striple -> layout -> Prop) ds :
  Forall (fun d => match d with DStmt t l => P t l | _ => True end) ds ->
  Forall (fun x => P (fst x) (snd x)) (statements ds).
Proof.
  induction ds as [|d ds IH]; intros H; [constructor|]. inversion H; subst.
  destruct d; cbn [statements]; auto.
Qed.

(** ** the generic document theorem: [pl] reads the statement lines right *)
Section DocLoop.
  Variable sk : bool.
  Variable pl : str -> line_result.
  Variable P : striple -> layout -> Prop.
  Hypothesis pl_ok : forall t l, valid_triple t = true -> valid_layout l = true -> P t l ->
    exists s o, pl (nt_line t l) = LYield s (t_p t) o /\ k3 (s, t_p t, o) = kinded t.

  Definition dline_ok (d : dline) : Prop :=
    valid_dline d = true /\ match d with DStmt t l => P t l | _ => True end.

  Lemma stmts_yield ds : Forall dline_ok ds ->
    Forall (fun x => exists s o, pl (stmt_line x) = LYield s (t_p (fst x)) o /\ k3 (s, t_p (fst x), o) = kinded (fst x))
           (statements ds).
  Proof.
    intros H. induction ds as [|d ds IH]; [constructor|]. inversion H as [|? ? [Vd Pd] H']; subst.
    destruct d as [t l | w txt | w]; cbn [statements]; auto.
    constructor; [|auto]. cbn [valid_dline] in Vd. apply andb_true_iff in Vd. destruct Vd.
    cbn [fst snd stmt_line]. apply pl_ok; assumption.
  Qed.

  Theorem doc_loop_raw ds : Forall dline_ok ds -> (sk = true \/ Forall no_comment ds) ->
    kinded_result (doc_loop sk pl (raw_string_lines (nt_document ds))) = Some (doc_kinded ds, 0%nat).
  Proof.
    intros H C. unfold doc_loop. rewrite raw_lines_document; [|eapply Forall_impl; [|exact H]; intros d [A _]; exact A | exact C].
    destruct (run_lines_g_all_yield pl (statements ds) [] 0%nat (stmts_yield ds H)) as (ys & R & M).
    rewrite R. cbn [kinded_result rev app]. rewrite M. reflexivity.
  Qed.

  Theorem doc_loop_file ds : Forall dline_ok ds -> (sk = true \/ Forall only_stmt ds) ->
    kinded_result (doc_loop sk pl (file_lines (nt_document ds))) = Some (doc_kinded ds, 0%nat).
  Proof.
    intros H C. unfold doc_loop. rewrite file_lines_document; [|eapply Forall_impl; [|exact H]; intros d [A _]; exact A | exact C].
    destruct (run_lines_g_all_yield pl (statements ds) [] 0%nat (stmts_yield ds H)) as (ys & R & M).
    rewrite R. cbn [kinded_result rev app]. rewrite M. reflexivity.
  Qed.
End DocLoop.

(** ** statement-only documents are [nt_doc] *)
Lemma nt_doc_is_document ts : nt_doc ts = nt_document (stmt_lines ts).
Proof. unfold nt_doc, nt_document, stmt_lines. rewrite map_map. reflexivity. Qed.

Lemma statements_stmt_lines ts : statements (stmt_lines ts) = ts.
Proof.
  induction ts as [|[t l] ts IH]; [reflexivity|].
  change (stmt_lines ((t, l) :: ts)) with (DStmt t l :: stmt_lines ts). cbn [statements]. rewrite IH. reflexivity.
Qed.

Lemma doc_kinded_stmt_lines ts : doc_kinded (stmt_lines ts) = map (fun x => kinded (fst x)) ts.
Proof. unfold doc_kinded. f_equal. apply statements_stmt_lines. Qed.

Lemma stmt_lines_no_comment ts : Forall no_comment (stmt_lines ts) /\ Forall only_stmt (stmt_lines ts).
Proof. split; apply Forall_forall; intros d I; apply in_map_iff in I; destruct I as (x & <- & _); reflexivity. Qed.

(** * The reader /repo has now *)
Definition dline_ok_cur (d : dline) : Prop := valid_dline d = true /\ dline_dom_cur d = true.
Definition dline_ok_file_cur (d : dline) : Prop := valid_dline d = true /\ dline_dom_file_cur d = true.

Lemma dline_ok_cur_split ds : Forall dline_ok_cur ds ->
  Forall (dline_ok (fun t l => C06_dom_cur t l = true)) ds /\ (nt_skips_comment_lines = true \/ Forall no_comment ds).
Proof.
  intros H. split.
  - eapply Forall_impl; [|exact H]. intros d [V D]. split; [exact V|]. destruct d; auto.
  - revert H. unfold dline_ok_cur, dline_dom_cur. destruct nt_skips_comment_lines; intros H; [left; reflexivity | right].
    eapply Forall_impl; [|exact H]. intros d [_ D]. destruct d; cbn [orb negb rc_F9] in *; try reflexivity; discriminate D.
Qed.

Lemma dline_ok_file_cur_split ds : Forall dline_ok_file_cur ds ->
  Forall (dline_ok (fun t l => C06_dom_cur t l = true)) ds /\ (nt_skips_comment_lines = true \/ Forall only_stmt ds).
Proof.
  intros H. split.
  - eapply Forall_impl; [|exact H]. intros d [V D]. split; [exact V|]. destruct d; auto.
  - revert H. unfold dline_ok_file_cur, dline_dom_file_cur. destruct nt_skips_comment_lines; intros H; [left; reflexivity | right].
    eapply Forall_impl; [|exact H]. intros d [_ D]. destruct d; cbn [orb negb rc_F9_file] in *; try reflexivity; discriminate D.
Qed.

Theorem document_lines_partial_cur allow ds : Forall dline_ok_cur ds ->
  kinded_result (read_raw_string_cur allow (nt_document ds)) = Some (doc_kinded ds, 0%nat).
Proof.
  intros H. destruct (dline_ok_cur_split ds H) as [A B]. unfold read_raw_string_cur.
  apply (doc_loop_raw _ _ (fun t l => C06_dom_cur t l = true) (process_line_cur_ok allow)); assumption.
Qed.

Theorem document_lines_file_partial_cur allow ds : Forall dline_ok_file_cur ds ->
  kinded_result (read_file_cur allow (nt_document ds)) = Some (doc_kinded ds, 0%nat).
Proof.
  intros H. destruct (dline_ok_file_cur_split ds H) as [A B]. unfold read_file_cur.
  apply (doc_loop_file _ _ (fun t l => C06_dom_cur t l = true) (process_line_cur_ok allow)); assumption.
Qed.

(** documents of statements (the statements of [Props/C06.v] before comment lines were modelled) *)
Lemma document_partial_cur allow (ts : list (striple * layout)) :
  Forall (fun x => valid_triple (fst x) = true /\ valid_layout (snd x) = true /\ C06_dom_cur (fst x) (snd x) = true) ts ->
  kinded_result (read_raw_string_cur allow (nt_doc ts)) = Some (map (fun x => kinded (fst x)) ts, 0%nat).
Proof.
  intros H. rewrite nt_doc_is_document, <- doc_kinded_stmt_lines. apply document_lines_partial_cur.
  apply Forall_forall. intros d I. apply in_map_iff in I. destruct I as (x & <- & I).
  rewrite Forall_forall in H. destruct (H x I) as (V & VL & D). split; cbn [valid_dline dline_dom_cur]; [|exact D].
  rewrite V, VL. reflexivity.
Qed.

Lemma document_file_partial_cur allow (ts : list (striple * layout)) :
  Forall (fun x => valid_triple (fst x) = true /\ valid_layout (snd x) = true /\ C06_dom_cur (fst x) (snd x) = true) ts ->
  kinded_result (read_file_cur allow (nt_doc ts)) = Some (map (fun x => kinded (fst x)) ts, 0%nat).
Proof.
  intros H. rewrite nt_doc_is_document, <- doc_kinded_stmt_lines. apply document_lines_file_partial_cur.
  apply Forall_forall. intros d I. apply in_map_iff in I. destruct I as (x & <- & I).
  rewrite Forall_forall in H. destruct (H x I) as (V & VL & D). split; cbn [valid_dline dline_dom_file_cur]; [|exact D].
  rewrite V, VL. reflexivity.
Qed.

Lemma line_partial_cur allow t l :
  valid_triple t = true -> valid_layout l = true -> C06_dom_cur t l = true ->
  kinded_result (read_raw_string_cur allow (nt_line t l)) = Some ([kinded t], 0%nat).
Proof.
  intros V VL D. apply (document_partial_cur allow [(t, l)]). constructor; [|constructor]. cbn [fst snd]. auto.
Qed.

Lemma line_terminates_cur allow t l :
  valid_triple t = true -> valid_layout l = true -> C06_dom_cur t l = true ->
  forall ys e, read_raw_string_cur allow (nt_line t l) <> DocHang ys e.
Proof.
  intros V VL D ys e H. pose proof (line_partial_cur allow t l V VL D) as K. rewrite H in K. discriminate.
Qed.

(** ** with every repair in /repo: no domain left *)
Lemma line_full_cur :
  nt_fixed_tok = true -> nt_fixed_dlt = true -> nt_tok_end_at_hash = true ->
  forall allow t l, valid_triple t = true -> valid_layout l = true ->
  kinded_result (read_raw_string_cur allow (nt_line t l)) = Some ([kinded t], 0%nat).
Proof. intros E1 E2 E3 allow t l V VL. apply line_partial_cur; auto using dom_cur_total. Qed.

Lemma document_full_cur :
  nt_fixed_tok = true -> nt_fixed_dlt = true -> nt_tok_end_at_hash = true ->
  forall allow (ts : list (striple * layout)),
  Forall (fun x => valid_triple (fst x) = true /\ valid_layout (snd x) = true) ts ->
  kinded_result (read_raw_string_cur allow (nt_doc ts)) = Some (map (fun x => kinded (fst x)) ts, 0%nat).
Proof.
  intros E1 E2 E3 allow ts H. apply document_partial_cur. eapply Forall_impl; [|exact H].
  intros x (A & B). auto using dom_cur_total.
Qed.

Lemma dline_dom_cur_total :
  nt_fixed_tok = true -> nt_fixed_dlt = true -> nt_tok_end_at_hash = true -> nt_skips_comment_lines = true ->
  forall d, dline_dom_cur d = true /\ dline_dom_file_cur d = true.
Proof.
  intros E1 E2 E3 E4 d. unfold dline_dom_cur, dline_dom_file_cur. rewrite E4.
  destruct d; split; auto using dom_cur_total.
Qed.

Theorem document_lines_full_cur :
  nt_fixed_tok = true -> nt_fixed_dlt = true -> nt_tok_end_at_hash = true -> nt_skips_comment_lines = true ->
  forall allow ds, Forall (fun d => valid_dline d = true) ds ->
  kinded_result (read_raw_string_cur allow (nt_document ds)) = Some (doc_kinded ds, 0%nat) /\
  kinded_result (read_file_cur allow (nt_document ds)) = Some (doc_kinded ds, 0%nat).
Proof.
  intros E1 E2 E3 E4 allow ds H. split.
  - apply document_lines_partial_cur. eapply Forall_impl; [|exact H]. intros d V. split; [exact V|].
    apply (dline_dom_cur_total E1 E2 E3 E4 d).
  - apply document_lines_file_partial_cur. eapply Forall_impl; [|exact H]. intros d V. split; [exact V|].
    apply (dline_dom_cur_total E1 E2 E3 E4 d).
Qed.

(** ** termination on every text: the skipped lines are not even tokenised *)
Theorem terminates_all_cur :
  nt_fixed_tok = true -> nt_fixed_dlt = true -> nt_uri_unclosed_to_eol = true ->
  forall allow doc ys e,
    read_raw_string_cur allow doc <> DocHang ys e /\ read_file_cur allow doc <> DocHang ys e /\
    process_line_cur allow doc <> LHang.
Proof.
  intros E1 E2 E3 allow doc ys e.
  assert (P : forall l, process_line_cur allow l <> LHang).
  { intros l. unfold process_line_cur. rewrite E1, E2, E3. apply process_line_g2_total. }
  unfold read_raw_string_cur, read_file_cur, doc_loop.
  split; [apply run_lines_g_total; exact P | split; [apply run_lines_g_total; exact P | apply P]].
Qed.

(** ** the model of the fully repaired reader: [read_raw_string_g3 sk true el] *)
Theorem document_lines_g3 sk hs el allow ds :
  Forall (fun d => valid_dline d = true /\ match d with DStmt t l => C06_dom_fx3 hs t l = true | _ => True end) ds ->
  (sk = true \/ Forall no_comment ds) ->
  kinded_result (read_raw_string_g3 sk hs el allow (nt_document ds)) = Some (doc_kinded ds, 0%nat).
Proof.
  intros H C. unfold read_raw_string_g3.
  apply (doc_loop_raw sk _ (fun t l => C06_dom_fx3 hs t l = true)); [|exact H | exact C].
  intros t l V VL D. apply process_line_g2_ok; try assumption. apply dom_fx3_f7. exact D.
Qed.

Theorem document_lines_file_g3 sk hs el allow ds :
  Forall (fun d => valid_dline d = true /\ match d with DStmt t l => C06_dom_fx3 hs t l = true | _ => True end) ds ->
  (sk = true \/ Forall only_stmt ds) ->
  kinded_result (read_file_g3 sk hs el allow (nt_document ds)) = Some (doc_kinded ds, 0%nat).
Proof.
  intros H C. unfold read_file_g3.
  apply (doc_loop_file sk _ (fun t l => C06_dom_fx3 hs t l = true)); [|exact H | exact C].
  intros t l V VL D. apply process_line_g2_ok; try assumption. apply dom_fx3_f7. exact D.
Qed.

Theorem document_lines_fx3 allow ds : Forall (fun d => valid_dline d = true) ds ->
  kinded_result (read_raw_string_fx3 allow (nt_document ds)) = Some (doc_kinded ds, 0%nat) /\
  kinded_result (read_file_fx3 allow (nt_document ds)) = Some (doc_kinded ds, 0%nat).
Proof.
  intros H.
  assert (H' : Forall (fun d => valid_dline d = true /\
                                match d with DStmt t l => C06_dom_fx3 true t l = true | _ => True end) ds).
  { eapply Forall_impl; [|exact H]. intros d V. split; [exact V|]. destruct d; auto using dom_fx3_total. }
  split; [apply document_lines_g3 | apply document_lines_file_g3]; auto.
Qed.

Lemma document_fx3 allow (ts : list (striple * layout)) :
  Forall (fun x => valid_triple (fst x) = true /\ valid_layout (snd x) = true) ts ->
  kinded_result (read_raw_string_fx3 allow (nt_doc ts)) = Some (map (fun x => kinded (fst x)) ts, 0%nat).
Proof.
  intros H. rewrite nt_doc_is_document, <- doc_kinded_stmt_lines. apply document_lines_fx3.
  apply Forall_forall. intros d I. apply in_map_iff in I. destruct I as (x & <- & I).
  rewrite Forall_forall in H. destruct (H x I) as (V & VL). cbn [valid_dline]. rewrite V, VL. reflexivity.
Qed.

Lemma line_fx3 allow t l : valid_triple t = true -> valid_layout l = true ->
  kinded_result (read_raw_string_fx3 allow (nt_line t l)) = Some ([kinded t], 0%nat).
Proof. intros V VL. apply (document_fx3 allow [(t, l)]). constructor; [|constructor]. cbn [fst snd]. auto. Qed.

Theorem terminates_g3 sk hs allow doc ys e :
  read_raw_string_g3 sk hs true allow doc <> DocHang ys e /\ read_file_g3 sk hs true allow doc <> DocHang ys e.
Proof.
  unfold read_raw_string_g3, read_file_g3, doc_loop.
  split; apply run_lines_g_total; apply process_line_g2_total.
Qed.
