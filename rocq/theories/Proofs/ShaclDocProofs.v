(** * Proofs for the SHACL half of property C05: the abstract RDF graph of the
    SHACL output ([Model.ShaclDoc.shacl_graph]) satisfies S1-S3 of
    Spec/ShaclGraphSpec.v.

    1. terms, [objects]
    2. the tree of arcs and its triples: subjects lie below their position
       ([node_triples_below]), arcs of a node ([objects_arcs_direct]), descent
       to a child ([objects_arcs_descend]), membership ([In_arcs_triples])
    3. the arcs of one property shape ([pshape_form])
    4. the node shapes of a document ([shape_node_form], [doc_nodes_form]);
       agreement with C11's [shacl_doc] ([doc_nodes_shacl_doc])
    5. S1, S2, S3
    6. the run: [run_refs_closed] (references resolve for the shapes of
       [run_shapes] under the default shapes namespace), S4 *)
From Coq Require Import List Ascii String ZArith NArith Bool Lia Permutation.
From Shexer Require Import Lib.PyStr Lib.Dict Gen.Consts Model.Tokens Model.Freq Model.Shexing
     Spec.ConstraintSpec Spec.ShaclGraphSpec Model.SerialShacl Model.ShaclDoc
     Proofs.ShaclProofs Proofs.ClosureLemmas.
Import ListNotations.

(** ** 1. terms *)
Lemma path_eqb_eq a : forall b, path_eqb a b = true <-> a = b.
Proof.
  induction a as [|x a IH]; intros [|y b]; cbn; try (split; [discriminate | discriminate]); [tauto|].
  rewrite andb_true_iff, Nat.eqb_eq, IH. split; [intros [-> ->]; reflexivity | intros H; inversion H; auto].
Qed.

Lemma term_eqb_eq a b : term_eqb a b = true <-> a = b.
Proof.
  destruct a as [i|l d|p], b as [i'|l' d'|p']; cbn; try (split; [discriminate | discriminate]).
  - rewrite str_eqb_eq. split; [intros ->; reflexivity | intros H; inversion H; reflexivity].
  - rewrite andb_true_iff, !str_eqb_eq. split; [intros [-> ->]; reflexivity | intros H; inversion H; auto].
  - rewrite path_eqb_eq. split; [intros ->; reflexivity | intros H; inversion H; reflexivity].
Qed.

Lemma term_eqb_refl a : term_eqb a a = true.
Proof. apply term_eqb_eq. reflexivity. Qed.

Lemma term_eqb_neq a b : a <> b -> term_eqb a b = false.
Proof. intros H. destruct (term_eqb a b) eqn:E; [apply term_eqb_eq in E; contradiction | reflexivity]. Qed.

Lemma str_neq a b : str_eqb a b = false -> a <> b.
Proof. apply str_eqb_neq. Qed.

(** closes a goal from a hypothesis equating two different closed strings *)
Ltac sneq :=
  match goal with
  | H : @eq str ?a ?b |- _ => exfalso; revert H; apply str_neq; vm_compute; reflexivity
  | H : @eq (list ascii) ?a ?b |- _ => exfalso; revert H; apply str_neq; vm_compute; reflexivity
  end.

Definition hits (s : term) (p : str) (t : rdf_triple) : bool :=
  term_eqb (tr_subj t) s && str_eqb (tr_pred t) p.

Lemma objects_unfold g s p : objects g s p = map tr_obj (filter (hits s p) g).
Proof. reflexivity. Qed.

Lemma objects_app a b s p : objects (a ++ b) s p = objects a s p ++ objects b s p.
Proof. unfold objects. rewrite filter_app, map_app. reflexivity. Qed.

Lemma objects_cons t g s p :
  objects (t :: g) s p = (if hits s p t then [tr_obj t] else []) ++ objects g s p.
Proof. unfold objects. cbn [filter]. fold (hits s p t). destruct (hits s p t); reflexivity. Qed.

Lemma objects_nil s p : objects [] s p = [].
Proof. reflexivity. Qed.

Lemma objects_foreign g s p : (forall t, In t g -> tr_subj t <> s) -> objects g s p = [].
Proof.
  induction g as [|t g IH]; intros H; [reflexivity|].
  rewrite objects_cons, IH by (intros t' Ht'; apply H; right; exact Ht').
  unfold hits. rewrite term_eqb_neq by (apply H; left; reflexivity). reflexivity.
Qed.

Lemma In_objects g s p o : In (s, p, o) g -> In o (objects g s p).
Proof.
  intros H. unfold objects. apply in_map_iff. exists (s, p, o). split; [reflexivity|].
  apply filter_In. split; [exact H|]. cbn. rewrite term_eqb_refl, str_eqb_refl. reflexivity.
Qed.

Lemma objects_In g s p o : In o (objects g s p) -> In (s, p, o) g.
Proof.
  unfold objects. intros H. apply in_map_iff in H. destruct H as [[[s' p'] o'] [<- H]].
  apply filter_In in H. destruct H as [H E]. cbn in E. apply andb_true_iff in E. destruct E as [E1 E2].
  apply term_eqb_eq in E1. apply str_eqb_eq in E2. cbn in *. subst. exact H.
Qed.

(** ** 2. trees *)
Lemma rnode_ind' (P : rnode -> Prop) :
  (forall i, P (RIri i)) -> (forall l d, P (RLit l d)) ->
  (forall arcs, Forall (fun a => P (snd a)) arcs -> P (RBlank arcs)) -> forall r, P r.
Proof.
  intros Hi Hl Hb. fix IH 1. intros [i|l d|arcs]; [apply Hi | apply Hl |]. apply Hb.
  induction arcs as [|[p v] arcs IHa]; constructor; [apply IH | exact IHa].
Qed.

Lemma node_triples_blank path arcs :
  node_triples path (RBlank arcs) = arcs_triples (TBlank path) path 0 arcs.
Proof.
  cbn [node_triples]. generalize 0. induction arcs as [|[p v] l IH]; intros k; [reflexivity|].
  cbn [arcs_triples]. rewrite <- IH. reflexivity.
Qed.

Lemma node_triples_leaf path r : (forall arcs, r <> RBlank arcs) -> node_triples path r = [].
Proof. destruct r; intros H; [reflexivity | reflexivity | exfalso; eapply H; reflexivity]. Qed.

Definition below (path : list nat) (s : term) : Prop := exists q, s = TBlank (path ++ q).

Lemma below_step path k s : below (path ++ [k]) s -> exists q, s = TBlank (path ++ k :: q).
Proof. intros [q ->]. exists q. rewrite <- app_assoc. reflexivity. Qed.

Lemma arcs_triples_subjects subj path :
  forall arcs, Forall (fun a : str * rnode => forall pth t, In t (node_triples pth (snd a)) -> below pth (tr_subj t)) arcs ->
  forall k t, In t (arcs_triples subj path k arcs) ->
    tr_subj t = subj \/ exists j q, k <= j /\ tr_subj t = TBlank (path ++ j :: q).
Proof.
  induction arcs as [|[p v] l IH]; intros HF k t Hin; [destruct Hin|].
  inversion HF as [|? ? Hv Hl]; subst. cbn [arcs_triples] in Hin.
  destruct Hin as [<-|Hin]; [left; reflexivity|].
  apply in_app_or in Hin. destruct Hin as [Hin|Hin].
  - right. destruct (below_step _ _ _ (Hv _ _ Hin)) as [q Hq]. exists k, q. split; [lia | exact Hq].
  - destruct (IH Hl (S k) t Hin) as [H|[j [q [Hj Hq]]]]; [left; exact H|].
    right. exists j, q. split; [lia | exact Hq].
Qed.

Lemma node_triples_below : forall r path t, In t (node_triples path r) -> below path (tr_subj t).
Proof.
  induction r as [i|l d|arcs IH] using rnode_ind'; intros path t Hin; try destruct Hin.
  rewrite node_triples_blank in Hin.
  destruct (arcs_triples_subjects (TBlank path) path arcs IH 0 t Hin) as [->|[j [q [_ ->]]]].
  - exists []. rewrite app_nil_r. reflexivity.
  - exists (j :: q). reflexivity.
Qed.

Lemma arcs_triples_subject subj path arcs k t :
  In t (arcs_triples subj path k arcs) ->
  tr_subj t = subj \/ exists j q, k <= j /\ tr_subj t = TBlank (path ++ j :: q).
Proof.
  apply arcs_triples_subjects. apply Forall_forall. intros a _ pth t'. apply node_triples_below.
Qed.

(** a subject that is not below [path] has no triple in the tree at [path] *)
Lemma objects_not_below r path s p : ~ below path s -> objects (node_triples path r) s p = [].
Proof.
  intros H. apply objects_foreign. intros t Ht E. apply H. rewrite <- E. exact (node_triples_below _ _ _ Ht).
Qed.

Lemma not_below_iri path u : ~ below path (TIri u).
Proof. intros [q H]. discriminate H. Qed.

Lemma not_below_self path k : ~ below (path ++ [k]) (TBlank path).
Proof.
  intros [q H]. injection H as H. apply (f_equal (@List.length nat)) in H.
  rewrite !app_length in H. cbn in H. lia.
Qed.

Lemma not_below_sibling path k j q : j <> k -> ~ below (path ++ [k]) (TBlank (path ++ j :: q)).
Proof.
  intros Hjk [q' H]. injection H as H. rewrite <- app_assoc in H. apply app_inv_head in H.
  cbn in H. injection H as H _. contradiction.
Qed.

(** the objects of the arcs of a node: values of the arcs with predicate [p], at their positions *)
Fixpoint direct_objects (path : list nat) (k : nat) (p : str) (arcs : list (str * rnode)) : list term :=
  match arcs with
  | [] => []
  | (q, v) :: l => (if str_eqb q p then [node_term (path ++ [k]) v] else []) ++ direct_objects path (S k) p l
  end.

(** [subj] is the owner of the arcs: an IRI, or the blank node at [path] *)
Definition owner (subj : term) (path : list nat) : Prop := (exists u, subj = TIri u) \/ subj = TBlank path.

Lemma owner_not_below subj path k : owner subj path -> ~ below (path ++ [k]) subj.
Proof. intros [[u ->]| ->]; [apply not_below_iri | apply not_below_self]. Qed.

Lemma objects_arcs_direct subj path p : owner subj path ->
  forall arcs k, objects (arcs_triples subj path k arcs) subj p = direct_objects path k p arcs.
Proof.
  intros Ho. induction arcs as [|[q v] l IH]; intros k; [reflexivity|].
  cbn [arcs_triples direct_objects]. rewrite objects_cons, objects_app, IH.
  rewrite (objects_not_below v) by (apply owner_not_below; exact Ho).
  unfold hits. cbn [tr_subj tr_pred tr_obj fst snd]. rewrite term_eqb_refl. cbn [andb app]. reflexivity.
Qed.

Lemma owner_not_child subj path j q : owner subj path -> subj <> TBlank (path ++ j :: q).
Proof.
  intros [[u ->]| ->] H; [discriminate H|]. injection H as H.
  apply (f_equal (@List.length nat)) in H. rewrite app_length in H. cbn in H. lia.
Qed.

(** descent: the triples of a node strictly below arc [j] are in the tree of arc [j] *)
Lemma objects_arcs_descend subj path p j q : owner subj path ->
  forall arcs k,
  objects (arcs_triples subj path k arcs) (TBlank (path ++ j :: q)) p =
  match (if k <=? j then nth_error arcs (j - k) else None) with
  | Some (_, v) => objects (node_triples (path ++ [j]) v) (TBlank (path ++ j :: q)) p
  | None => []
  end.
Proof.
  intros Ho. induction arcs as [|[pr v] l IH]; intros k.
  - cbn [arcs_triples]. rewrite objects_nil. destruct (k <=? j); [destruct (j - k)|]; reflexivity.
  - cbn [arcs_triples]. rewrite objects_cons, objects_app, IH.
    unfold hits at 1. cbn [tr_subj tr_pred tr_obj fst snd].
    rewrite (term_eqb_neq subj) by (apply owner_not_child; exact Ho). cbn [andb app].
    destruct (Nat.eq_dec j k) as [->|Hjk].
    + rewrite Nat.leb_refl, Nat.sub_diag. cbn [nth_error].
      replace (S k <=? k) with false by (symmetry; apply Nat.leb_gt; lia). apply app_nil_r.
    + rewrite (objects_not_below v) by (apply not_below_sibling; exact Hjk). cbn [app].
      destruct (k <=? j) eqn:Ek.
      * apply Nat.leb_le in Ek. replace (S k <=? j) with true by (symmetry; apply Nat.leb_le; lia).
        replace (j - k) with (S (j - S k)) by lia. reflexivity.
      * apply Nat.leb_gt in Ek. replace (S k <=? j) with false by (symmetry; apply Nat.leb_gt; lia). reflexivity.
Qed.

(** membership, arc by arc *)
Lemma In_arcs_triples subj path t : forall arcs k, In t (arcs_triples subj path k arcs) ->
  exists j pr v, nth_error arcs j = Some (pr, v) /\
    (t = (subj, pr, node_term (path ++ [k + j]) v) \/ In t (node_triples (path ++ [k + j]) v)).
Proof.
  induction arcs as [|[pr v] l IH]; intros k Hin; [destruct Hin|].
  cbn [arcs_triples] in Hin. destruct Hin as [<-|Hin].
  - exists 0, pr, v. rewrite Nat.add_0_r. split; [reflexivity | left; reflexivity].
  - apply in_app_or in Hin. destruct Hin as [Hin|Hin].
    + exists 0, pr, v. rewrite Nat.add_0_r. split; [reflexivity | right; exact Hin].
    + destruct (IH (S k) Hin) as [j [pr' [v' [Hn H]]]]. exists (S j), pr', v'.
      replace (k + S j) with (S k + j) by lia. split; [exact Hn | exact H].
Qed.

Lemma arcs_triples_In subj path pr v : forall arcs k j, nth_error arcs j = Some (pr, v) ->
  In (subj, pr, node_term (path ++ [k + j]) v) (arcs_triples subj path k arcs).
Proof.
  induction arcs as [|[pr' v'] l IH]; intros k [|j] H; try discriminate H; cbn [arcs_triples].
  - injection H as -> ->. rewrite Nat.add_0_r. left. reflexivity.
  - right. apply in_or_app. right. replace (k + S j) with (S k + j) by lia. apply IH. exact H.
Qed.

(** the documents *)
Lemma In_doc_triples t : forall d i0, In t (doc_triples i0 d) ->
  exists i u arcs, nth_error d i = Some (u, arcs) /\ In t (arcs_triples (TIri u) [i0 + i] 0 arcs).
Proof.
  induction d as [|[u arcs] d IH]; intros i0 Hin; [destruct Hin|].
  cbn [doc_triples] in Hin. apply in_app_or in Hin. destruct Hin as [Hin|Hin].
  - exists 0, u, arcs. rewrite Nat.add_0_r. split; [reflexivity | exact Hin].
  - destruct (IH (S i0) Hin) as [i [u' [arcs' [Hn H]]]]. exists (S i), u', arcs'.
    replace (i0 + S i) with (S i0 + i) by lia. split; [exact Hn | exact H].
Qed.

Lemma doc_triples_In t u arcs : forall d i0 i, nth_error d i = Some (u, arcs) ->
  In t (arcs_triples (TIri u) [i0 + i] 0 arcs) -> In t (doc_triples i0 d).
Proof.
  induction d as [|[u' arcs'] d IH]; intros i0 [|i] H Hin; try discriminate H; cbn [doc_triples]; apply in_or_app.
  - injection H as -> ->. rewrite Nat.add_0_r in Hin. left. exact Hin.
  - right. apply (IH (S i0) i H). replace (S i0 + i) with (i0 + S i) by lia. exact Hin.
Qed.

(** the triples of blank node [i :: q] of a document are those of shape [i] *)
Lemma objects_doc_blank p i q : forall d i0,
  objects (doc_triples i0 d) (TBlank (i :: q)) p =
  match (if i0 <=? i then nth_error d (i - i0) else None) with
  | Some (u, arcs) => objects (arcs_triples (TIri u) [i] 0 arcs) (TBlank (i :: q)) p
  | None => []
  end.
Proof.
  induction d as [|[u arcs] d IH]; intros i0.
  - cbn [doc_triples]. rewrite objects_nil. destruct (i0 <=? i); [destruct (i - i0)|]; reflexivity.
  - cbn [doc_triples]. rewrite objects_app, IH.
    destruct (Nat.eq_dec i i0) as [->|Hne].
    + rewrite Nat.leb_refl, Nat.sub_diag. cbn [nth_error].
      replace (S i0 <=? i0) with false by (symmetry; apply Nat.leb_gt; lia). apply app_nil_r.
    + assert (Hf : objects (arcs_triples (TIri u) [i0] 0 arcs) (TBlank (i :: q)) p = []).
      { apply objects_foreign. intros t Ht E.
        destruct (arcs_triples_subject _ _ _ _ _ Ht) as [H|[j [q' [_ H]]]]; rewrite E in H; [discriminate H|].
        cbn in H. injection H as H _. contradiction. }
      rewrite Hf. cbn [app].
      destruct (i0 <=? i) eqn:Ek.
      * apply Nat.leb_le in Ek. replace (S i0 <=? i) with true by (symmetry; apply Nat.leb_le; lia).
        replace (i - i0) with (S (i - S i0)) by lia. reflexivity.
      * apply Nat.leb_gt in Ek. replace (S i0 <=? i) with false by (symmetry; apply Nat.leb_gt; lia). reflexivity.
Qed.

(** the triples of an IRI subject: the arcs of the shapes with that IRI *)
Lemma objects_doc_iri p w : forall d i0,
  objects (doc_triples i0 d) (TIri w) p =
  match d with
  | [] => []
  | (u, arcs) :: d' =>
    (if str_eqb u w then direct_objects [i0] 0 p arcs else []) ++ objects (doc_triples (S i0) d') (TIri w) p
  end.
Proof.
  intros [|[u arcs] d] i0; [reflexivity|]. cbn [doc_triples]. rewrite objects_app. f_equal.
  destruct (str_eqb u w) eqn:E.
  - apply str_eqb_eq in E. subst. apply objects_arcs_direct. left. eexists; reflexivity.
  - apply objects_foreign. intros t Ht Es.
    destruct (arcs_triples_subject _ _ _ _ _ Ht) as [H|[j [q' [_ H]]]]; rewrite Es in H; [|discriminate H].
    injection H as H. subst. rewrite str_eqb_refl in E. discriminate E.
Qed.

(** ** 3. the arcs of one property shape *)

(** the arcs of a property shape other than its path *)
Inductive other_arc (st : stmt) : str * rnode -> Prop :=
| OA_type : other_arc st (RDFNS "type", RIri (SH "PropertyShape"))
| OA_kind k : other_arc st (SH "nodeKind", RIri k)
| OA_node ty u : s_types st = [ty] -> is_shape_type ty = true -> generate_shape_uri ty = Some u ->
                 other_arc st (SH "node", RIri u)
| OA_dt d : other_arc st (SH "dataType", RIri d)
| OA_min l d : other_arc st (SH "minCount", RLit l d)
| OA_max l d : other_arc st (SH "maxCount", RLit l d)
| OA_in x : other_arc st (SH "in", RBlank [(RDFNS "first", RIri x); (RDFNS "rest", RIri (RDFNS "nil"))]).

Lemma node_type_other st ty nt : s_types st = [ty] -> add_node_type ty = Some nt -> Forall (other_arc st) nt.
Proof.
  intros Et. unfold add_node_type. destruct (dget macro_dict ty) as [[k|]|].
  - intros H. injection H as <-. constructor; [exact (OA_kind st k) | constructor].
  - intros H. injection H as <-. constructor.
  - destruct (prefixb c_STARTING_CHAR_FOR_SHAPE_NAME ty) eqn:Ep.
    + destruct (generate_shape_uri ty) as [u|] eqn:Eg; [|discriminate]. intros H. injection H as <-.
      constructor; [exact (OA_node st ty u Et Ep Eg) | constructor].
    + intros H. injection H as <-. constructor; [exact (OA_dt st ty) | constructor].
Qed.

Lemma cardinality_other st v cd : add_cardinality v = Some cd -> Forall (other_arc st) cd.
Proof.
  unfold add_cardinality, add_occurs, generate_r_literal.
  change (map_rdflib_datatype c_shacl_INTEGER) with (Some rdflib_XSD_integer).
  destruct (min_occurs_from_cardinality v) as [x|], (max_occurs_from_cardinality v) as [y|];
    cbn [opt_app app]; intros H; injection H as <-; repeat constructor.
Qed.

Lemma path_form inv prop pa : add_path inv prop = Some pa ->
  exists u, generate_r_uri prop = Some u /\ pa = enc_path inv u.
Proof.
  unfold add_path, add_direct_path, add_inverse_path.
  destruct inv; destruct (generate_r_uri prop) as [u|]; try discriminate;
    intros H; injection H as <-; exists u; split; reflexivity.
Qed.

Lemma in_instance_other st ty ia : add_in_instance ty = Some ia -> Forall (other_arc st) ia.
Proof.
  unfold add_in_instance. destruct (generate_r_uri ty) as [u|]; [|discriminate].
  intros H. injection H as <-. constructor; [exact (OA_in st u) | constructor].
Qed.

Lemma type_other st : Forall (other_arc st) property_shape_type.
Proof. constructor; [exact (OA_type st) | constructor]. Qed.

(** every property shape: its path arcs ([enc_path]: a direct [sh:path], or the nested
    [sh:property [sh:inversePath p]]) between arcs of other kinds *)
Theorem pshape_form tau st parcs : shacl_arcs tau st = VOk parcs ->
  exists pre post u, generate_r_uri (s_prop st) = Some u /\
                     parcs = pre ++ enc_path (s_inv st) u ++ post /\
                     Forall (other_arc st) pre /\ Forall (other_arc st) post.
Proof.
  destruct (s_choice st) eqn:Ech; [intros H; exfalso; exact (shacl_arcs_choice_not_ok tau st parcs Ech H)|].
  unfold shacl_arcs. rewrite Ech.
  destruct (s_types st) as [|ty [|ty2 tys]] eqn:Et; try discriminate.
  destruct (str_eqb (s_prop st) tau).
  - change shacl_instantiation_steps with
      [Str "_generate_bnode"; Str "_add_bnode_property"; Str "_add_path"; Str "_add_cardinality";
       Str "_add_in_instance"].
    cbn [run_steps]. rewrite step_generate_bnode, step_bnode_property, step_path, step_cardinality, step_in_instance.
    destruct (add_path (s_inv st) (s_prop st)) as [pa|] eqn:Ep; [|discriminate].
    destruct (add_cardinality (card_value (s_card st))) as [cd|] eqn:Ec; [|discriminate].
    destruct (add_in_instance ty) as [ia|] eqn:Ei; [|discriminate].
    intros H. injection H as <-.
    destruct (path_form _ _ _ Ep) as [u [Hu ->]].
    exists property_shape_type, (cd ++ ia), u. split; [exact Hu|]. split.
    + cbn [app]. rewrite !app_nil_r. reflexivity.
    + split; [apply type_other|]. apply Forall_app. split; [eapply cardinality_other; exact Ec | eapply in_instance_other; exact Ei].
  - change shacl_regular_steps with
      [Str "_generate_bnode"; Str "_add_bnode_property"; Str "_add_node_type"; Str "_add_cardinality";
       Str "_add_path"].
    cbn [run_steps]. rewrite step_generate_bnode, step_bnode_property, step_node_type, step_cardinality, step_path.
    destruct (add_node_type ty) as [nt|] eqn:En; [|discriminate].
    destruct (add_cardinality (card_value (s_card st))) as [cd|] eqn:Ec; [|discriminate].
    destruct (add_path (s_inv st) (s_prop st)) as [pa|] eqn:Ep; [|discriminate].
    intros H. injection H as <-.
    destruct (path_form _ _ _ Ep) as [u [Hu ->]].
    exists (property_shape_type ++ nt ++ cd), [], u. split; [exact Hu|]. split.
    + cbn [app]. rewrite !app_nil_r, <- !app_assoc. reflexivity.
    + split; [|constructor]. apply Forall_app. split; [apply type_other|]. apply Forall_app.
      split; [eapply node_type_other; [exact Et | exact En] | eapply cardinality_other; exact Ec].
Qed.

(** *** what such a list of arcs contributes to the graph *)
Lemma direct_objects_app path p a : forall k b,
  direct_objects path k p (a ++ b) = direct_objects path k p a ++ direct_objects path (k + List.length a) p b.
Proof.
  induction a as [|[q v] a IH]; intros k b.
  - cbn. rewrite Nat.add_0_r. reflexivity.
  - cbn [app direct_objects List.length]. rewrite IH, <- app_assoc. replace (S k + List.length a) with (k + S (List.length a)) by lia.
    reflexivity.
Qed.

Definition path_pred (p : str) : Prop := p = SH "path" \/ p = SH "property" \/ p = SH "inversePath".

Lemma other_arc_not_path st a p : other_arc st a -> path_pred p -> str_eqb (fst a) p = false.
Proof. intros Ha [->|[->| ->]]; inversion Ha; subst; vm_compute; reflexivity. Qed.

Lemma direct_objects_other st path p : path_pred p ->
  forall l k, Forall (other_arc st) l -> direct_objects path k p l = [].
Proof.
  intros Hp. induction l as [|[q v] l IH]; intros k HF; [reflexivity|].
  inversion HF as [|? ? Ha Hl]; subst. cbn [direct_objects]. rewrite (IH _ Hl).
  pose proof (other_arc_not_path _ _ _ Ha Hp) as E. cbn [fst] in E. rewrite E. reflexivity.
Qed.

Lemma nth_error_mid {A} (a : list A) x b : nth_error (a ++ x :: b) (List.length a) = Some x.
Proof. induction a as [|y a IH]; [reflexivity | exact IH]. Qed.

(** S2 for one property shape, inside its own tree *)
Lemma pshape_one_path_local st pre post u inv path :
  Forall (other_arc st) pre -> Forall (other_arc st) post ->
  let parcs := pre ++ enc_path inv u ++ post in
  let b := TBlank path in
  let g := node_triples path (RBlank parcs) in
  (inv = false /\ objects g b (SH "path") = [TIri u] /\ objects g b (SH "property") = []) \/
  (inv = true /\ objects g b (SH "path") = [] /\
   objects g b (SH "property") = [TBlank (path ++ [List.length pre])] /\
   objects g (TBlank (path ++ [List.length pre])) (SH "inversePath") = [TIri u]).
Proof.
  intros Hpre Hpost parcs b g. subst b g. set (b := TBlank path). set (g := node_triples path (RBlank parcs)).
  assert (Hown : owner b path) by (right; reflexivity).
  assert (Hd : forall p, path_pred p ->
            objects g b p = direct_objects path (List.length pre) p (enc_path inv u)).
  { intros p Hp. unfold g. rewrite node_triples_blank, (objects_arcs_direct b path p Hown). unfold parcs.
    rewrite !direct_objects_app. cbn [Nat.add].
    rewrite (direct_objects_other st path p Hp pre 0 Hpre), (direct_objects_other st path p Hp post _ Hpost).
    rewrite app_nil_r. reflexivity. }
  destruct inv.
  - right. split; [reflexivity|].
    rewrite (Hd (SH "path")) by (left; reflexivity). rewrite (Hd (SH "property")) by (right; left; reflexivity).
    split; [reflexivity|]. split; [reflexivity|].
    unfold g. rewrite node_triples_blank. fold b.
    rewrite (objects_arcs_descend b path (SH "inversePath") (List.length pre) [] Hown parcs 0).
    cbn [Nat.leb]. rewrite Nat.sub_0_r. unfold parcs. cbn [enc_path app]. rewrite nth_error_mid.
    rewrite node_triples_blank. rewrite objects_arcs_direct by (right; reflexivity). reflexivity.
  - left. split; [reflexivity|].
    rewrite (Hd (SH "path")) by (left; reflexivity). rewrite (Hd (SH "property")) by (right; left; reflexivity).
    split; reflexivity.
Qed.

(** every triple of a property shape's tree: an arc of another kind with its value, or one of the path / list arcs *)
Definition structural_preds : list str :=
  [SH "path"; SH "property"; SH "inversePath"; RDFNS "first"; RDFNS "rest"].

Lemma pshape_triples st pre post u inv path t :
  Forall (other_arc st) pre -> Forall (other_arc st) post ->
  In t (node_triples path (RBlank (pre ++ enc_path inv u ++ post))) ->
  (exists a pth, other_arc st a /\ tr_pred t = fst a /\ tr_obj t = node_term pth (snd a)) \/
  mem_str (tr_pred t) structural_preds = true.
Proof.
  intros Hpre Hpost Hin. rewrite node_triples_blank in Hin.
  destruct (In_arcs_triples _ _ _ _ _ Hin) as [j [pr [v [Hn Ht]]]].
  apply nth_error_In in Hn.
  assert (Hoth : forall a : str * rnode, other_arc st a -> a = (pr, v) ->
            (exists a pth, other_arc st a /\ tr_pred t = fst a /\ tr_obj t = node_term pth (snd a)) \/
            mem_str (tr_pred t) structural_preds = true).
  { intros a Ha Ea. subst a. destruct Ht as [->|Ht].
    - left. exists (pr, v), (path ++ [0 + j]). split; [exact Ha | split; reflexivity].
    - right. inversion Ha; subst; try (destruct Ht; fail).
      rewrite node_triples_blank in Ht. cbn in Ht.
      destruct Ht as [<-|[<-|[]]]; vm_compute; reflexivity. }
  apply in_app_or in Hn. destruct Hn as [Hn|Hn].
  { rewrite Forall_forall in Hpre. exact (Hoth _ (Hpre _ Hn) eq_refl). }
  apply in_app_or in Hn. destruct Hn as [Hn|Hn].
  - right. destruct inv; cbn [enc_path] in Hn; destruct Hn as [E|[]]; injection E as <- <-.
    + destruct Ht as [->|Ht]; [vm_compute; reflexivity|].
      rewrite node_triples_blank in Ht. cbn in Ht. destruct Ht as [<-|[]]. vm_compute. reflexivity.
    + destruct Ht as [->|Ht]; [vm_compute; reflexivity | destruct Ht].
  - rewrite Forall_forall in Hpost. exact (Hoth _ (Hpost _ Hn) eq_refl).
Qed.

(** ** 4. the node shapes of a document *)
Lemma generate_shape_uri_label u : generate_shape_uri (Str "%<" ++ u ++ Str ">") = Some u.
Proof.
  unfold generate_shape_uri. change c_shacl_EXPECTED_SHAPE_BEGINING with (Str "%<").
  change c_shacl_EXPECTED_SHAPE_ENDING with [">"%char].
  replace (prefixb (Str "%<") (Str "%<" ++ u ++ Str ">")) with true by reflexivity.
  change (Str "%<" ++ u ++ Str ">") with ((Str "%<" ++ u) ++ [">"%char]) at 1.
  rewrite suffixb_close. cbn [andb]. rewrite slice_shape_name. reflexivity.
Qed.

Lemma sstep_generate z tau sh : shape_step z tau sh (Str "_generate_shape_uri") =
  Some (match generate_shape_uri (sh_name sh) with Some _ => inl [] | None => inr GValueError end).
Proof. reflexivity. Qed.
Lemma sstep_uri z tau sh : shape_step z tau sh (Str "_add_shape_uri") =
  Some (inl [(RDFNS "type", RIri (SH "NodeShape"))]).
Proof. reflexivity. Qed.
Lemma sstep_target z tau sh : shape_step z tau sh (Str "_add_target_class") =
  Some (inl [(SH "targetClass", RIri (target_class_obj (sh_class sh)))]).
Proof. reflexivity. Qed.
Lemma sstep_min_iri z tau sh : shape_step z tau sh (Str "_add_min_iri") =
  Some (if d_detect z then
          match d_pat z (sh_class sh) with
          | None => inr GKeyError
          | Some None => inl []
          | Some (Some stem) => inl [(SH "pattern", literal_iri_pattern stem)]
          end
        else inl []).
Proof. reflexivity. Qed.
Lemma sstep_constraints z tau sh : shape_step z tau sh (Str "_add_shape_constraints") =
  Some (match of_vres (vres_all (map (shacl_view tau) (sh_stmts sh))) with
        | inl ps => inl (map (fun p => (SH "property", p)) ps)
        | inr e => inr e
        end).
Proof. reflexivity. Qed.

Definition node_arcs (cls : str) (pat : list (str * rnode)) (ps : list rnode) : list (str * rnode) :=
  (RDFNS "type", RIri (SH "NodeShape")) :: (SH "targetClass", RIri cls) :: pat ++ map (fun p => (SH "property", p)) ps.

(** [_add_shape], in one piece *)
Lemma shape_node_eq z tau sh :
  shape_node z tau sh =
  match generate_shape_uri (sh_name sh) with
  | None => inr GValueError
  | Some u =>
    match (if d_detect z then
             match d_pat z (sh_class sh) with
             | None => inr GKeyError
             | Some None => inl []
             | Some (Some stem) => inl [(SH "pattern", literal_iri_pattern stem)]
             end
           else inl []) with
    | inr e => inr e
    | inl pat =>
      match of_vres (vres_all (map (shacl_view tau) (sh_stmts sh))) with
      | inr e => inr e
      | inl ps => inl (u, node_arcs (target_class_obj (sh_class sh)) pat ps)
      end
    end
  end.
Proof.
  unfold shape_node.
  change shacl_add_shape_steps with
    [Str "_generate_shape_uri"; Str "_add_shape_uri"; Str "_add_target_class"; Str "_add_min_iri";
     Str "_add_shape_constraints"].
  cbn [run_shape_steps]. rewrite sstep_generate, sstep_uri, sstep_target, sstep_min_iri, sstep_constraints.
  destruct (generate_shape_uri (sh_name sh)) as [u|]; [|reflexivity].
  destruct (d_detect z); [destruct (d_pat z (sh_class sh)) as [[stem|]|]|];
    try reflexivity; destruct (of_vres (vres_all (map (shacl_view tau) (sh_stmts sh)))) as [ps|e]; try reflexivity;
    unfold node_arcs; cbn [app]; rewrite ?app_nil_r; reflexivity.
Qed.

(** with [detect_minimal_iri] off this is C11's [shacl_shape] / [shacl_doc] *)
Lemma shape_node_shacl_shape tau sh : shape_node no_patterns tau sh = of_vres (shacl_shape tau sh).
Proof.
  rewrite shape_node_eq. unfold shacl_shape. cbn [d_detect no_patterns].
  destruct (generate_shape_uri (sh_name sh)) as [u|]; [|reflexivity].
  destruct (vres_all (map (shacl_view tau) (sh_stmts sh))); reflexivity.
Qed.

Theorem doc_nodes_shacl_doc tau l : doc_nodes no_patterns tau l = of_vres (shacl_doc tau l).
Proof.
  unfold shacl_doc. induction l as [|sh l IH]; [reflexivity|].
  cbn [doc_nodes map vres_all]. rewrite shape_node_shacl_shape, IH.
  destruct (shacl_shape tau sh); try reflexivity. destruct (vres_all (map (shacl_shape tau) l)); reflexivity.
Qed.

Definition view_rel (tau : str) (st : stmt) (p : rnode) : Prop :=
  exists parcs, shacl_arcs tau st = VOk parcs /\ p = RBlank parcs.

Lemma vres_all_views tau : forall stmts ps,
  vres_all (map (shacl_view tau) stmts) = VOk ps -> Forall2 (view_rel tau) stmts ps.
Proof.
  induction stmts as [|st l IH]; intros ps H; cbn [map vres_all] in H.
  - injection H as <-. constructor.
  - unfold shacl_view at 1 in H. destruct (shacl_arcs tau st) as [parcs| | | |] eqn:Ea; try discriminate.
    destruct (vres_all (map (shacl_view tau) l)) as [r| | | |]; try discriminate. injection H as <-.
    constructor; [exists parcs; split; [exact Ea | reflexivity] | apply IH; reflexivity].
Qed.

Definition shape_rel (z : dcfg) (tau : str) (sh : shape) (n : str * list (str * rnode)) : Prop :=
  generate_shape_uri (sh_name sh) = Some (fst n) /\
  exists pat ps, snd n = node_arcs (target_class_obj (sh_class sh)) pat ps /\
                 (pat = [] \/ exists stem, pat = [(SH "pattern", literal_iri_pattern stem)]) /\
                 Forall2 (view_rel tau) (sh_stmts sh) ps.

Lemma shape_node_form z tau sh n : shape_node z tau sh = inl n -> shape_rel z tau sh n.
Proof.
  rewrite shape_node_eq. destruct (generate_shape_uri (sh_name sh)) as [u|] eqn:Eu; [|discriminate].
  set (pt := if d_detect z then _ else _). destruct pt as [pat|e] eqn:Ept; [|discriminate].
  destruct (vres_all (map (shacl_view tau) (sh_stmts sh))) as [ps| | | |] eqn:Ev; try discriminate.
  cbn [of_vres]. intros H. injection H as <-. split; [exact Eu|]. exists pat, ps. split; [reflexivity|]. split.
  - unfold pt in Ept. destruct (d_detect z); [destruct (d_pat z (sh_class sh)) as [[stem|]|]|];
      try discriminate; injection Ept as <-; [right; eexists; reflexivity | left; reflexivity | left; reflexivity].
  - apply vres_all_views. exact Ev.
Qed.

Lemma doc_nodes_form z tau : forall l d, doc_nodes z tau l = inl d -> Forall2 (shape_rel z tau) l d.
Proof.
  induction l as [|sh l IH]; intros d H; cbn [doc_nodes] in H.
  - injection H as <-. constructor.
  - destruct (shape_node z tau sh) as [n|e] eqn:En; [|discriminate].
    destruct (doc_nodes z tau l) as [d'|e]; [|discriminate]. injection H as <-.
    constructor; [apply shape_node_form; exact En | apply IH; reflexivity].
Qed.

Lemma Forall2_nth_r {A B} (R : A -> B -> Prop) l l' : Forall2 R l l' ->
  forall i y, nth_error l' i = Some y -> exists x, nth_error l i = Some x /\ R x y.
Proof.
  induction 1 as [|a b l l' Hab _ IH]; intros [|i] y H; try discriminate H.
  - injection H as <-. exists a. split; [reflexivity | exact Hab].
  - exact (IH i y H).
Qed.

Lemma Forall2_nth_l {A B} (R : A -> B -> Prop) l l' : Forall2 R l l' ->
  forall i x, nth_error l i = Some x -> exists y, nth_error l' i = Some y /\ R x y.
Proof.
  induction 1 as [|a b l l' Hab _ IH]; intros [|i] x H; try discriminate H.
  - injection H as <-. exists b. split; [reflexivity | exact Hab].
  - exact (IH i x H).
Qed.

(** the arcs of a node shape, by position *)
Lemma node_arcs_nth cls pat ps k pr v : nth_error (node_arcs cls pat ps) k = Some (pr, v) ->
  (pr = RDFNS "type" /\ v = RIri (SH "NodeShape")) \/
  (pr = SH "targetClass" /\ v = RIri cls) \/
  (In (pr, v) pat) \/
  (exists j, k = 2 + List.length pat + j /\ pr = SH "property" /\ nth_error ps j = Some v).
Proof.
  destruct k as [|[|k]]; cbn [node_arcs nth_error]; intros H.
  - injection H as <- <-. left. split; reflexivity.
  - injection H as <- <-. right. left. split; reflexivity.
  - right. right. destruct (Nat.lt_ge_cases k (List.length pat)) as [Hlt|Hge].
    + left. rewrite nth_error_app1 in H by exact Hlt. apply nth_error_In in H. exact H.
    + right. rewrite nth_error_app2 in H by exact Hge. rewrite nth_error_map in H.
      destruct (nth_error ps (k - List.length pat)) as [p|] eqn:Ep; [|discriminate]. cbn in H. injection H as <- <-.
      exists (k - List.length pat). split; [cbn; lia | split; [reflexivity | exact Ep]].
Qed.

(** every triple of the graph: an arc of a node shape, or a triple of a property shape's tree *)
Inductive triple_origin (z : dcfg) (tau : str) (shapes : list shape) (d : list (str * list (str * rnode)))
          (t : rdf_triple) : Prop :=
| TO_type i sh u arcs : nth_error shapes i = Some sh -> nth_error d i = Some (u, arcs) -> shape_rel z tau sh (u, arcs) ->
    t = (TIri u, RDFNS "type", TIri (SH "NodeShape")) -> triple_origin z tau shapes d t
| TO_target i sh u arcs : nth_error shapes i = Some sh -> nth_error d i = Some (u, arcs) -> shape_rel z tau sh (u, arcs) ->
    t = (TIri u, SH "targetClass", TIri (target_class_obj (sh_class sh))) -> triple_origin z tau shapes d t
| TO_pattern i sh u arcs stem : nth_error shapes i = Some sh -> nth_error d i = Some (u, arcs) -> shape_rel z tau sh (u, arcs) ->
    t = (TIri u, SH "pattern", TLit (Str "^" ++ stem) []) -> triple_origin z tau shapes d t
| TO_pshape i sh u arcs k j st parcs :
    nth_error shapes i = Some sh -> nth_error d i = Some (u, arcs) -> shape_rel z tau sh (u, arcs) ->
    nth_error (sh_stmts sh) j = Some st -> nth_error arcs k = Some (SH "property", RBlank parcs) ->
    shacl_arcs tau st = VOk parcs ->
    (t = (TIri u, SH "property", TBlank [i; k]) \/ In t (node_triples [i; k] (RBlank parcs))) ->
    triple_origin z tau shapes d t.

Lemma triple_cases z tau shapes d t : Forall2 (shape_rel z tau) shapes d ->
  In t (doc_triples 0 d) -> triple_origin z tau shapes d t.
Proof.
  intros HF Hin. destruct (In_doc_triples _ _ _ Hin) as [i [u [arcs [Hd Ha]]]]. cbn [Nat.add] in Ha.
  destruct (Forall2_nth_r _ _ _ HF i _ Hd) as [sh [Hs Hrel]].
  destruct (In_arcs_triples _ _ _ _ _ Ha) as [k [pr [v [Hk Ht]]]]. cbn [Nat.add app] in Ht.
  pose proof Hrel as Hrel'. destruct Hrel' as [Hu [pat [ps [Harcs [Hpat Hps]]]]]. cbn [fst snd] in Hu, Harcs.
  rewrite Harcs in Hk. destruct (node_arcs_nth _ _ _ _ _ _ Hk) as [[-> ->]|[[-> ->]|[Hp|[j [Hj [-> Hv]]]]]].
  - destruct Ht as [->|[]]. eapply TO_type; eauto.
  - destruct Ht as [->|[]]. eapply TO_target; eauto.
  - destruct Hpat as [->|[stem ->]]; [destruct Hp|]. destruct Hp as [E|[]]. injection E as <- <-.
    destruct Ht as [->|[]]. eapply (TO_pattern z tau shapes d _ i sh u arcs stem); eauto.
  - destruct (Forall2_nth_r _ _ _ Hps j _ Hv) as [st [Hst [parcs [Hparcs ->]]]].
    rewrite <- Harcs in Hk. eapply (TO_pshape z tau shapes d t i sh u arcs k j st parcs); eauto.
Qed.

(** ** 5. S1, S2, S3 *)
Lemma objects_doc_pshape d i u arcs k pr v q p :
  nth_error d i = Some (u, arcs) -> nth_error arcs k = Some (pr, v) ->
  objects (doc_triples 0 d) (TBlank (i :: k :: q)) p = objects (node_triples [i; k] v) (TBlank (i :: k :: q)) p.
Proof.
  intros Hd Hk. rewrite objects_doc_blank. cbn [Nat.leb]. rewrite Nat.sub_0_r, Hd.
  change (TBlank (i :: k :: q)) with (TBlank ([i] ++ k :: q)).
  rewrite (objects_arcs_descend (TIri u) [i] p k q) by (left; eexists; reflexivity).
  cbn [Nat.leb]. rewrite Nat.sub_0_r, Hk. reflexivity.
Qed.

Lemma node_shape_intro d i u cls pat ps :
  nth_error d i = Some (u, node_arcs cls pat ps) -> node_shape (doc_triples 0 d) (TIri u).
Proof.
  intros Hd. unfold node_shape. eapply (doc_triples_In _ u _ d 0 i Hd).
  exact (arcs_triples_In (TIri u) [0 + i] (RDFNS "type") (RIri (SH "NodeShape")) (node_arcs cls pat ps) 0 0 eq_refl).
Qed.

(** no triple of a property shape's tree types anything [sh:NodeShape] *)
Lemma pshape_no_node_shape tau st parcs path s :
  shacl_arcs tau st = VOk parcs ->
  ~ In (s, RDFNS "type", TIri (SH "NodeShape")) (node_triples path (RBlank parcs)).
Proof.
  intros Ha Hin. destruct (pshape_form _ _ _ Ha) as [pre [post [u [_ [-> [Hpre Hpost]]]]]].
  destruct (pshape_triples st pre post u (s_inv st) path _ Hpre Hpost Hin) as [[a [pth [Hoa [Hp Ho]]]]|Hm].
  - cbn [tr_pred tr_obj fst snd] in Hp, Ho. inversion Hoa; subst; cbn [fst snd node_term] in *; try sneq.
    injection Ho as Ho. sneq.
  - cbn [tr_pred fst snd] in Hm. vm_compute in Hm. discriminate Hm.
Qed.

Section Graph.
  Variables (z : dcfg) (tau : str) (shapes : list shape) (d : list (str * list (str * rnode))).
  Hypothesis HF : Forall2 (shape_rel z tau) shapes d.
  Let g := doc_triples 0 d.

  Lemma no_blank_node_shape q : ~ node_shape g (TBlank q).
  Proof.
    unfold node_shape. intros Hin. destruct (triple_cases z tau shapes d _ HF Hin) as
      [i sh u arcs _ _ _ E|i sh u arcs _ _ _ E|i sh u arcs stem _ _ _ E|i sh u arcs k j st parcs _ _ _ _ _ Ha [E|Hn]];
      try discriminate E.
    exact (pshape_no_node_shape _ _ _ _ _ Ha Hn).
  Qed.

  (** S2 *)
  Theorem graph_one_path : property_shapes_one_path g.
  Proof.
    intros n b Hn Hin. destruct (triple_cases z tau shapes d _ HF Hin) as
      [i sh u arcs _ _ _ E|i sh u arcs _ _ _ E|i sh u arcs stem _ _ _ E|i sh u arcs k j st parcs Hs Hd Hrel Hst Hk Ha [E|Hnest]].
    - injection E as _ E _. sneq.
    - injection E as _ E _. sneq.
    - injection E as _ E _. sneq.
    - injection E as -> ->.
      destruct (pshape_form _ _ _ Ha) as [pre [post [w [_ [Hparcs [Hpre Hpost]]]]]].
      assert (Hobj : forall q p, objects g (TBlank (i :: k :: q)) p =
                                 objects (node_triples [i; k] (RBlank parcs)) (TBlank (i :: k :: q)) p).
      { intros q p. exact (objects_doc_pshape d i u arcs k _ _ q p Hd Hk). }
      pose proof (pshape_one_path_local st pre post w (s_inv st) [i; k] Hpre Hpost) as Hl. cbn zeta in Hl.
      rewrite <- Hparcs in Hl. unfold one_path.
      destruct Hl as [[_ [H1 H2]]|[_ [H1 [H2 H3]]]].
      + left. exists w. rewrite !(Hobj []). split; assumption.
      + right. rewrite !(Hobj []). split; [exact H1|].
        exists (TBlank ([i; k] ++ [List.length pre])), w. split; [exact H2|].
        change (TBlank ([i; k] ++ [List.length pre])) with (TBlank (i :: k :: [List.length pre])).
        rewrite Hobj. exact H3.
    - exfalso. destruct (node_triples_below _ _ _ Hnest) as [q Hq]. cbn [tr_subj fst] in Hq. subst n.
      exact (no_blank_node_shape _ Hn).
  Qed.

  (** S3, first half: the nodes typed [sh:NodeShape] are the shapes' IRIs *)
  Lemma graph_node_shape_iff n :
    node_shape g n <-> exists i sh u arcs, nth_error shapes i = Some sh /\ nth_error d i = Some (u, arcs) /\ n = TIri u.
  Proof.
    split.
    - intros Hin. unfold node_shape in Hin. destruct (triple_cases z tau shapes d _ HF Hin) as
        [i sh u arcs Hs Hd _ E|i sh u arcs _ _ _ E|i sh u arcs stem _ _ _ E|i sh u arcs k j st parcs _ _ _ _ _ Ha [E|Hn]].
      + injection E as ->. exists i, sh, u, arcs. auto.
      + injection E as _ E _. sneq.
      + injection E as _ E _. sneq.
      + injection E as _ E _. sneq.
      + exfalso. exact (pshape_no_node_shape _ _ _ _ _ Ha Hn).
    - intros [i [sh [u [arcs [Hs [Hd ->]]]]]].
      destruct (Forall2_nth_l _ _ _ HF i sh Hs) as [n' [Hd' Hrel]]. rewrite Hd in Hd'. injection Hd' as <-.
      destruct Hrel as [_ [pat [ps [Harcs _]]]]. cbn [snd] in Harcs. subst arcs.
      exact (node_shape_intro d i u _ _ _ Hd).
  Qed.

  (** S1: the objects of [sh:node] arcs *)
  Lemma graph_node_objects s o : In (s, SH "node", o) g ->
    exists sh st ty u, In sh shapes /\ In st (sh_stmts sh) /\ s_types st = [ty] /\ is_shape_type ty = true /\
                       generate_shape_uri ty = Some u /\ o = TIri u.
  Proof.
    intros Hin. destruct (triple_cases z tau shapes d _ HF Hin) as
      [i sh u arcs _ _ _ E|i sh u arcs _ _ _ E|i sh u arcs stem _ _ _ E|i sh u arcs k j st parcs Hs _ _ Hst _ Ha [E|Hn]].
    - injection E as _ E _. sneq.
    - injection E as _ E _. sneq.
    - injection E as _ E _. sneq.
    - injection E as _ E _. sneq.
    - destruct (pshape_form _ _ _ Ha) as [pre [post [w [_ [-> [Hpre Hpost]]]]]].
      destruct (pshape_triples st pre post w (s_inv st) [i; k] _ Hpre Hpost Hn) as [[a [pth [Hoa [Hp Ho]]]]|Hm].
      + cbn [tr_pred tr_obj fst snd] in Hp, Ho. inversion Hoa; subst; cbn [fst snd node_term] in *; try sneq.
        exists sh, st, ty, u0. split; [eapply nth_error_In; exact Hs|]. split; [eapply nth_error_In; exact Hst|]. auto.
      + cbn [tr_pred fst snd] in Hm. vm_compute in Hm. discriminate Hm.
  Qed.
End Graph.

(** *** IRI subjects *)
Lemma objects_doc_iri_absent p w : forall d i0, ~ In w (map fst d) -> objects (doc_triples i0 d) (TIri w) p = [].
Proof.
  induction d as [|[u arcs] d IH]; intros i0 Hn; [reflexivity|].
  rewrite objects_doc_iri. rewrite IH by (intros H; apply Hn; right; exact H).
  destruct (str_eqb u w) eqn:E; [|reflexivity]. apply str_eqb_eq in E. exfalso. apply Hn. left. exact E.
Qed.

Lemma objects_doc_iri_unique p w arcs : forall d i i0, NoDup (map fst d) -> nth_error d i = Some (w, arcs) ->
  objects (doc_triples i0 d) (TIri w) p = direct_objects [i0 + i] 0 p arcs.
Proof.
  induction d as [|[u a] d IH]; intros [|i] i0 Hnd Hn; try discriminate Hn; rewrite objects_doc_iri;
    cbn [map fst] in Hnd; inversion Hnd as [|? ? Hnotin Hnd']; subst.
  - injection Hn as -> ->. rewrite str_eqb_refl, Nat.add_0_r, objects_doc_iri_absent by exact Hnotin. apply app_nil_r.
  - cbn [nth_error] in Hn. assert (Hne : str_eqb u w = false).
    { apply str_eqb_neq. intros ->. apply Hnotin. apply in_map_iff. exists (w, arcs). split; [reflexivity|].
      eapply nth_error_In. exact Hn. }
    rewrite Hne, (IH i (S i0) Hnd' Hn). cbn [app]. replace (S i0 + i) with (i0 + S i) by lia. reflexivity.
Qed.

Lemma direct_objects_map_prop path p : str_eqb (SH "property") p = false ->
  forall ps k, direct_objects path k p (map (fun x => (SH "property", x)) ps) = [].
Proof.
  intros E. induction ps as [|x ps IH]; intros k; [reflexivity|]. cbn [map direct_objects]. rewrite E, IH. reflexivity.
Qed.

Lemma direct_objects_node_arcs path c pat ps :
  (pat = [] \/ exists stem, pat = [(SH "pattern", literal_iri_pattern stem)]) ->
  direct_objects path 0 (RDFNS "type") (node_arcs c pat ps) = [TIri (SH "NodeShape")] /\
  direct_objects path 0 (SH "targetClass") (node_arcs c pat ps) = [TIri c].
Proof.
  intros Hpat. unfold node_arcs. cbn [direct_objects].
  change (str_eqb (RDFNS "type") (RDFNS "type")) with true.
  change (str_eqb (SH "targetClass") (RDFNS "type")) with false.
  change (str_eqb (RDFNS "type") (SH "targetClass")) with false.
  change (str_eqb (SH "targetClass") (SH "targetClass")) with true.
  rewrite !direct_objects_app, !direct_objects_map_prop by reflexivity.
  destruct Hpat as [->|[stem ->]]; cbn [direct_objects app node_term].
  - split; reflexivity.
  - change (str_eqb (SH "pattern") (RDFNS "type")) with false.
    change (str_eqb (SH "pattern") (SH "targetClass")) with false. split; reflexivity.
Qed.

Lemma doc_fst z tau : forall shapes d, Forall2 (shape_rel z tau) shapes d ->
  forall f L, names_iris_by f shapes L -> map fst d = map fst L.
Proof.
  induction 1 as [|sh n shapes d Hrel _ IH]; intros f L HL; inversion HL as [|? uc ? L' [Hn _] HL']; subst; [reflexivity|].
  cbn [map]. f_equal; [|apply (IH f); exact HL'].
  destruct Hrel as [Hg _]. rewrite Hn, generate_shape_uri_label in Hg. injection Hg as Hg. symmetry. exact Hg.
Qed.

(** ** the theorems, for [detect_minimal_iri] on or off *)
Theorem shacl_gen_one_path z ns tau shapes g :
  shacl_graph_gen z ns tau shapes = inl g -> property_shapes_one_path g.
Proof.
  unfold shacl_graph_gen. destruct (doc_nodes z tau shapes) as [d|e] eqn:Ed; [|discriminate].
  intros H. injection H as <-. exact (graph_one_path z tau shapes d (doc_nodes_form _ _ _ _ Ed)).
Qed.

Theorem shacl_gen_node_objects_declared_by f z ns tau shapes L g :
  shacl_graph_gen z ns tau shapes = inl g -> names_iris_by f shapes L -> ClosureLemmas.refs_closed shapes ->
  node_objects_declared g (map fst L).
Proof.
  unfold shacl_graph_gen. destruct (doc_nodes z tau shapes) as [d|e] eqn:Ed; [|discriminate].
  intros H. injection H as <-. pose proof (doc_nodes_form _ _ _ _ Ed) as HF. intros HL Hrc s o Hin.
  destruct (graph_node_objects z tau shapes d HF s o Hin) as [sh [st [ty [u [Hsh [Hst [Hty [Hshape [Hgen ->]]]]]]]]].
  destruct (Hrc sh st ty Hsh Hst) as [sh' [Hsh' Hname]]; [rewrite Hty; left; reflexivity | exact Hshape |].
  apply In_nth_error in Hsh'. destruct Hsh' as [i' Hi'].
  destruct (Forall2_nth_l _ _ _ HL i' sh' Hi') as [[u' c'] [HLi [Hn _]]]. cbn [fst] in Hn.
  assert (Eu : u' = u).
  { rewrite <- Hname, Hn, generate_shape_uri_label in Hgen. injection Hgen as ->. reflexivity. }
  subst u'. exists u. split; [apply in_map_iff; exists (u, c'); split; [reflexivity | eapply nth_error_In; exact HLi]|].
  split; [reflexivity|].
  apply (graph_node_shape_iff z tau shapes d HF).
  destruct (Forall2_nth_l _ _ _ HF i' sh' Hi') as [[u'' arcs] [Hd [Hgen' _]]]. cbn [fst] in Hgen'.
  rewrite Hn, generate_shape_uri_label in Hgen'. injection Hgen' as <-.
  exists i', sh', u, arcs. auto.
Qed.

Theorem shacl_gen_node_objects_declared z ns tau shapes L g :
  shacl_graph_gen z ns tau shapes = inl g -> names_iris shapes L -> ClosureLemmas.refs_closed shapes ->
  node_objects_declared g (map fst L).
Proof. exact (shacl_gen_node_objects_declared_by (fun c => c) z ns tau shapes L g). Qed.

Theorem shacl_gen_node_shapes_iff_by f z ns tau shapes L g :
  shacl_graph_gen z ns tau shapes = inl g -> names_iris_by f shapes L ->
  forall n, node_shape g n <-> exists u c, In (u, c) L /\ n = TIri u.
Proof.
  unfold shacl_graph_gen. destruct (doc_nodes z tau shapes) as [d|e] eqn:Ed; [|discriminate].
  intros H. injection H as <-. pose proof (doc_nodes_form _ _ _ _ Ed) as HF. intros HL n.
  rewrite (graph_node_shape_iff z tau shapes d HF). split.
  - intros [i [sh [u [arcs [Hs [Hd ->]]]]]].
    destruct (Forall2_nth_l _ _ _ HL i sh Hs) as [[u' c'] [HLi [Hn _]]]. cbn [fst] in Hn.
    destruct (Forall2_nth_l _ _ _ HF i sh Hs) as [n' [Hd' [Hg _]]]. rewrite Hd in Hd'. injection Hd' as <-.
    cbn [fst] in Hg. rewrite Hn, generate_shape_uri_label in Hg. injection Hg as ->.
    exists u, c'. split; [eapply nth_error_In; exact HLi | reflexivity].
  - intros [u [c [Hin ->]]]. apply In_nth_error in Hin. destruct Hin as [i HLi].
    destruct (Forall2_nth_r _ _ _ HL i _ HLi) as [sh [Hs [Hn _]]]. cbn [fst] in Hn.
    destruct (Forall2_nth_l _ _ _ HF i sh Hs) as [[u' arcs] [Hd [Hg _]]]. cbn [fst] in Hg.
    rewrite Hn, generate_shape_uri_label in Hg. injection Hg as <-. exists i, sh, u, arcs. auto.
Qed.

Theorem shacl_gen_node_shapes_iff z ns tau shapes L g :
  shacl_graph_gen z ns tau shapes = inl g -> names_iris shapes L ->
  forall n, node_shape g n <-> exists u c, In (u, c) L /\ n = TIri u.
Proof. exact (shacl_gen_node_shapes_iff_by (fun c => c) z ns tau shapes L g). Qed.

(** S3, second half: each node shape is typed once and has exactly one [sh:targetClass], the IRI
    [_add_target_class] makes of the class key of its shape ([target_class_obj]) *)
Theorem shacl_gen_node_shapes_exact_by z ns tau shapes L g :
  shacl_graph_gen z ns tau shapes = inl g -> names_iris_by target_class_obj shapes L -> NoDup (map fst L) ->
  node_shapes_exact g L.
Proof.
  intros Hg HL Hnd. split; [exact (shacl_gen_node_shapes_iff_by _ z ns tau shapes L g Hg HL)|].
  revert Hg. unfold shacl_graph_gen. destruct (doc_nodes z tau shapes) as [d|e] eqn:Ed; [|discriminate].
  intros H. injection H as <-. pose proof (doc_nodes_form _ _ _ _ Ed) as HF.
  intros u c Hin. apply In_nth_error in Hin. destruct Hin as [i HLi].
  destruct (Forall2_nth_r _ _ _ HL i _ HLi) as [sh [Hs [Hn Hc]]]. cbn [fst snd] in Hn, Hc.
  destruct (Forall2_nth_l _ _ _ HF i sh Hs) as [[u' arcs] [Hd [Hgen [pat [ps [Harcs [Hpat _]]]]]]].
  cbn [fst snd] in Hgen, Harcs. rewrite Hn, generate_shape_uri_label in Hgen. injection Hgen as <-. subst arcs.
  assert (Hndd : NoDup (map fst d)) by (rewrite (doc_fst z tau shapes d HF _ L HL); exact Hnd).
  rewrite !(objects_doc_iri_unique _ u _ d i 0 Hndd Hd). rewrite Hc.
  exact (direct_objects_node_arcs [0 + i] c pat ps Hpat).
Qed.

Lemma names_iris_by_class shapes L :
  (forall sh, In sh shapes -> target_class_obj (sh_class sh) = sh_class sh) ->
  names_iris shapes L -> names_iris_by target_class_obj shapes L.
Proof.
  intros Hc HL. induction HL as [|sh uc shapes L [Hn Hcl] _ IH]; constructor.
  - split; [exact Hn|]. rewrite (Hc sh (or_introl eq_refl)). exact Hcl.
  - apply IH. intros sh' Hin. apply Hc. right. exact Hin.
Qed.

(** the statement with "its class" read as the class key itself: whenever [_add_target_class] leaves
    the keys of the list as they are (no key in corners, or the text that does not touch the key) *)
Theorem shacl_gen_node_shapes_exact z ns tau shapes L g :
  (forall sh, In sh shapes -> target_class_obj (sh_class sh) = sh_class sh) ->
  shacl_graph_gen z ns tau shapes = inl g -> names_iris shapes L -> NoDup (map fst L) ->
  node_shapes_exact g L.
Proof.
  intros Hc Hg HL. exact (shacl_gen_node_shapes_exact_by z ns tau shapes L g Hg (names_iris_by_class shapes L Hc HL)).
Qed.

(** *** [detect_minimal_iri] off: composition with C11 *)
Theorem shacl_graph_of_doc ns tau shapes :
  shacl_graph ns tau shapes =
  match of_vres (shacl_doc tau shapes) with inl d => inl (doc_triples 0 d) | inr e => inr e end.
Proof. unfold shacl_graph, shacl_graph_gen. rewrite doc_nodes_shacl_doc. reflexivity. Qed.

Lemma names_iris_exists ns tau : forall shapes, forallb (C11_dom_shape ns tau) shapes = true ->
  exists L, names_iris_by target_class_obj shapes L.
Proof.
  induction shapes as [|sh l IH]; intros H; [exists []; constructor|].
  cbn [forallb] in H. apply andb_true_iff in H. destruct H as [Hsh Hl].
  destruct (IH Hl) as [L HL]. unfold C11_dom_shape in Hsh. rewrite !andb_true_iff in Hsh.
  destruct Hsh as [[_ Hn] _]. apply shape_ref_form in Hn. destruct Hn as [i Hi].
  exists ((i, target_class_obj (sh_class sh)) :: L). constructor; [split; [exact Hi | reflexivity] | exact HL].
Qed.

(** on C11's domain the graph exists, is the flattening of C11's document -- which C11 relates to the
    ShExC text -- and its node shapes are listed by some [L] *)
Theorem shacl_graph_total ns tau shapes : forallb (C11_dom_shape ns tau) shapes = true ->
  exists cs d L, shex_doc_view ns tau shapes = VOk cs /\ shacl_doc tau shapes = VOk d /\
                 same_doc d (enc_doc (map retarget cs)) /\ shacl_graph ns tau shapes = inl (doc_triples 0 d) /\
                 names_iris_by target_class_obj shapes L.
Proof.
  intros H. destruct (docs_agree ns tau shapes H) as [cs [d [H1 [H2 H3]]]].
  destruct (names_iris_exists ns tau shapes H) as [L HL]. exists cs, d, L.
  split; [exact H1|]. split; [exact H2|]. split; [exact H3|]. split; [|exact HL].
  rewrite shacl_graph_of_doc, H2. reflexivity.
Qed.

(** *** the computable version of S1 is implied by S1 (for refutations by computation) *)
Lemma node_objects_declaredb_complete g labels :
  node_objects_declared g labels -> node_objects_declaredb g labels = true.
Proof.
  intros H. unfold node_objects_declaredb. apply forallb_forall. intros [[s p] o] Hin. cbn [tr_pred tr_obj fst snd].
  destruct (str_eqb p (SH "node")) eqn:E; [|reflexivity]. cbn [negb orb].
  apply str_eqb_eq in E. subst p. destruct (H s o Hin) as [u [Hu [-> Hns]]].
  apply andb_true_iff. split; [apply mem_str_In; exact Hu|].
  apply existsb_exists. exists (TIri u, RDFNS "type", TIri (SH "NodeShape")). split; [exact Hns|].
  cbn [tr_subj tr_pred tr_obj fst snd]. rewrite !term_eqb_refl, str_eqb_refl. reflexivity.
Qed.

Lemma one_pathb_sound g b : one_pathb g b = true -> one_path g b.
Proof.
  unfold one_pathb, one_path.
  destruct (objects g b (SH "path")) as [|[p| |] [|]] eqn:E1; destruct (objects g b (SH "property")) as [|n [|]] eqn:E2;
    try discriminate.
  - destruct (objects g n (SH "inversePath")) as [|[p| |] [|]] eqn:E3; try discriminate.
    intros _. right. split; [reflexivity|]. exists n, p. split; [reflexivity | exact E3].
  - intros _. left. exists p. split; reflexivity.
Qed.

(** distinct labels, distinct IRIs *)
Lemma names_iris_NoDup f shapes L : names_iris_by f shapes L -> NoDup (map sh_name shapes) -> NoDup (map fst L).
Proof.
  intros HL. assert (E : map sh_name shapes = map (fun u => Str "%<" ++ u ++ Str ">") (map fst L)).
  { induction HL as [|sh uc shapes L [Hn _] _ IH]; [reflexivity|]. cbn [map]. rewrite Hn, IH. reflexivity. }
  rewrite E. apply NoDup_map_inv.
Qed.

(** S1-S3 together on C11's domain: the graph exists and is well-formed *)
Theorem shacl_graph_wellformed ns tau shapes :
  forallb (C11_dom_shape ns tau) shapes = true -> refs_closed shapes -> NoDup (map sh_name shapes) ->
  exists g L, shacl_graph ns tau shapes = inl g /\ names_iris_by target_class_obj shapes L /\
              node_objects_declared g (map fst L) /\ property_shapes_one_path g /\ node_shapes_exact g L.
Proof.
  intros Hdom Hrc Hnd. destruct (shacl_graph_total ns tau shapes Hdom) as [cs [d [L [_ [_ [_ [Hg HL]]]]]]].
  exists (doc_triples 0 d), L. split; [exact Hg|]. split; [exact HL|].
  split; [exact (shacl_gen_node_objects_declared_by _ _ _ _ _ _ _ Hg HL Hrc)|].
  split; [exact (shacl_gen_one_path _ _ _ _ _ Hg)|].
  exact (shacl_gen_node_shapes_exact_by _ _ _ _ _ _ Hg HL (names_iris_NoDup _ _ _ HL Hnd)).
Qed.

(** *** the statements of this section with "the class" read as the class key itself: for shape lists
    whose class keys [_add_target_class] leaves as they are (no key in corners -- every class-based
    extraction --, or the text of the method that does not touch the key) *)
Lemma names_iris_of_by shapes L :
  (forall sh, In sh shapes -> target_class_obj (sh_class sh) = sh_class sh) ->
  names_iris_by target_class_obj shapes L -> names_iris shapes L.
Proof.
  intros Hc HL. induction HL as [|sh uc shapes L [Hn Hcl] _ IH]; constructor.
  - split; [exact Hn|]. rewrite <- (Hc sh (or_introl eq_refl)). exact Hcl.
  - apply IH. intros sh' Hin. apply Hc. right. exact Hin.
Qed.

Theorem shacl_graph_total_class ns tau shapes : forallb (C11_dom_shape ns tau) shapes = true ->
  (forall sh, In sh shapes -> target_class_obj (sh_class sh) = sh_class sh) ->
  exists cs d L, shex_doc_view ns tau shapes = VOk cs /\ shacl_doc tau shapes = VOk d /\
                 same_doc d (enc_doc cs) /\ shacl_graph ns tau shapes = inl (doc_triples 0 d) /\
                 names_iris shapes L.
Proof.
  intros H Hc. destruct (docs_agree_class ns tau shapes H Hc) as [cs [d [H1 [H2 H3]]]].
  destruct (names_iris_exists ns tau shapes H) as [L HL]. exists cs, d, L.
  split; [exact H1|]. split; [exact H2|]. split; [exact H3|]. split; [|exact (names_iris_of_by shapes L Hc HL)].
  rewrite shacl_graph_of_doc, H2. reflexivity.
Qed.

Theorem shacl_graph_wellformed_class ns tau shapes :
  forallb (C11_dom_shape ns tau) shapes = true -> refs_closed shapes -> NoDup (map sh_name shapes) ->
  (forall sh, In sh shapes -> target_class_obj (sh_class sh) = sh_class sh) ->
  exists g L, shacl_graph ns tau shapes = inl g /\ names_iris shapes L /\
              node_objects_declared g (map fst L) /\ property_shapes_one_path g /\ node_shapes_exact g L.
Proof.
  intros Hdom Hrc Hnd Hc. destruct (shacl_graph_wellformed ns tau shapes Hdom Hrc Hnd) as [g [L [Hg [HL [H1 [H2 H3]]]]]].
  exists g, L. split; [exact Hg|]. split; [exact (names_iris_of_by shapes L Hc HL)|]. auto.
Qed.
