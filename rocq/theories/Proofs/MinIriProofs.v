(** * Proofs for C17 (stems): [lcp] is the greatest common prefix, the fold
    computes the greatest common prefix of the list (order-independent), the
    reversed search finds the last separator, the acceptance rule. *)
From Coq Require Import List Ascii String ZArith Bool Lia Permutation.
From Shexer Require Import Lib.PyStr Lib.Dict Gen.Consts Model.MinIri Spec.MinIriSpec.
Import ListNotations.
Local Open Scope Z_scope.

(** ** constants of the code the proofs depend on (a changed constant breaks here) *)
Lemma sentinel_is : c_MINIMAL_IRI_INIT = Str "%".
Proof. reflexivity. Qed.
Lemma sep_chars_are : c_SEP_CHARS = Str ":/#".
Proof. reflexivity. Qed.
Lemma min_len_is : c_min_iri_min_len = 3.
Proof. reflexivity. Qed.
Lemma rule_is_bare : c_min_iri_rule_bare = true.
Proof. reflexivity. Qed.
(** the blank-node marker of the first test, when the source carries that test
    (either value of the generated flag) *)
Lemma bnode_prefix_is : c_min_iri_skips_bnode_prefix = true -> c_min_iri_bnode_prefix = Str "_:".
Proof. intros E. first [ vm_compute in E; discriminate E | reflexivity ]. Qed.

Lemma bare_scheme_consts :
  c_BARE_SCHEME_EXCL = Str ":/#" /\ c_BARE_SCHEME_COLON = Str ":" /\ c_BARE_SCHEME_MAX_SLASHES = 2%nat.
Proof. repeat split; reflexivity. Qed.

(** ** prefixes *)
Lemma prefix_refl s : prefix s s.
Proof. exists []. now rewrite app_nil_r. Qed.

Lemma prefix_nil s : prefix [] s.
Proof. now exists s. Qed.

Lemma prefix_trans a b c : prefix a b -> prefix b c -> prefix a c.
Proof. intros [r ->] [r' ->]. exists (r ++ r'). now rewrite app_assoc. Qed.

Lemma prefix_length a b : prefix a b -> (List.length a <= List.length b)%nat.
Proof. intros [r ->]. rewrite app_length. lia. Qed.

Lemma prefix_cons a s t : prefix s t -> prefix (a :: s) (a :: t).
Proof. intros [r ->]. now exists r. Qed.

Lemma prefix_cons_inv a b s t : prefix (a :: s) (b :: t) -> a = b /\ prefix s t.
Proof. intros [r H]. cbn in H. inversion H; subst. split; [reflexivity | now exists r]. Qed.

Lemma prefix_comparable a b c :
  prefix a c -> prefix b c -> (List.length a <= List.length b)%nat -> prefix a b.
Proof.
  intros [r ->] [r' H] L. symmetry in H. apply app_eq_app in H. destruct H as [l [[-> _] | [-> _]]].
  - exists l. reflexivity.
  - rewrite app_length in L. assert (l = []) by (destruct l; [reflexivity | cbn in L; lia]).
    subst. rewrite app_nil_r. apply prefix_refl.
Qed.

Lemma prefix_antisym a b : prefix a b -> prefix b a -> a = b.
Proof.
  intros [r ->] H. apply prefix_length in H. rewrite app_length in H.
  assert (r = []) by (destruct r; [reflexivity | cbn in H; lia]). subst. now rewrite app_nil_r.
Qed.

Lemma prefix_In a b c : prefix a b -> In c a -> In c b.
Proof. intros [r ->] H. apply in_or_app. now left. Qed.

Lemma prefixb_prefix p s : prefixb p s = true <-> prefix p s.
Proof. apply prefixb_spec. Qed.

(** ** [pylen] *)
Lemma pylen_app a b : pylen (a ++ b) = pylen a + pylen b.
Proof. unfold pylen. rewrite filter_app, app_length. lia. Qed.

Lemma pylen_nonneg a : 0 <= pylen a.
Proof. unfold pylen. lia. Qed.

Lemma pylen_prefix a b : prefix a b -> pylen a <= pylen b.
Proof. intros [r ->]. rewrite pylen_app. pose proof (pylen_nonneg r). lia. Qed.

(** ** [longest_common_prefix] *)
Lemma lcp_eq_loop a b : lcp a b = lcp_loop a b.
Proof.
  unfold lcp. destruct a as [|x a]; [reflexivity|]. destruct b as [|y b]; [reflexivity|].
  reflexivity.
Qed.

Lemma lcp_loop_prefix_l a b : prefix (lcp_loop a b) a.
Proof.
  revert b; induction a as [|x a IH]; intros b; cbn; [apply prefix_nil|].
  destruct b as [|y b]; [apply prefix_nil|].
  destruct (Ascii.eqb x y); [apply prefix_cons, IH | apply prefix_nil].
Qed.

Lemma lcp_loop_prefix_r a b : prefix (lcp_loop a b) b.
Proof.
  revert b; induction a as [|x a IH]; intros b; cbn; [apply prefix_nil|].
  destruct b as [|y b]; [apply prefix_nil|].
  destruct (Ascii.eqb x y) eqn:E; [|apply prefix_nil].
  apply Ascii.eqb_eq in E. subst. apply prefix_cons, IH.
Qed.

Lemma lcp_loop_greatest a b p : prefix p a -> prefix p b -> prefix p (lcp_loop a b).
Proof.
  revert a b; induction p as [|c p IH]; intros a b Ha Hb; [apply prefix_nil|].
  destruct a as [|x a]; [destruct Ha as [r Hr]; discriminate|].
  destruct b as [|y b]; [destruct Hb as [r Hr]; discriminate|].
  apply prefix_cons_inv in Ha. apply prefix_cons_inv in Hb. destruct Ha as [-> Ha], Hb as [-> Hb].
  cbn. rewrite Ascii.eqb_refl. apply prefix_cons, IH; assumption.
Qed.

(** [lcp] is the greatest common prefix of its two arguments *)
Lemma lcp_spec a b :
  prefix (lcp a b) a /\ prefix (lcp a b) b /\ forall p, prefix p a -> prefix p b -> prefix p (lcp a b).
Proof.
  rewrite lcp_eq_loop. split; [apply lcp_loop_prefix_l|]. split; [apply lcp_loop_prefix_r|].
  intros p. apply lcp_loop_greatest.
Qed.

(** ** the fold computes the greatest common prefix of the list *)
Definition is_gcp (g : str) (l : list str) : Prop :=
  common_prefix g l /\ forall p, common_prefix p l -> prefix p g.

Lemma is_gcp_unique g g' l : is_gcp g l -> is_gcp g' l -> g = g'.
Proof. intros [C G] [C' G']. apply prefix_antisym; auto. Qed.

Lemma not_sentinel g i : prefix g i -> ~ prefix (Str "%") i -> str_eqb g c_MINIMAL_IRI_INIT = false.
Proof.
  intros P N. apply str_eqb_neq. intros E. rewrite sentinel_is in E. subst. contradiction.
Qed.

Lemma fold_gcp l : forall l0 g,
  l0 <> [] -> is_gcp g l0 -> (forall i, In i (l0 ++ l) -> ~ prefix (Str "%") i) ->
  is_gcp (fold_left update_min_iri l g) (l0 ++ l).
Proof.
  induction l as [|i l IH]; intros l0 g NE [C G] NS; cbn.
  - rewrite app_nil_r. split; assumption.
  - replace (l0 ++ i :: l) with ((l0 ++ [i]) ++ l) in * by (rewrite <- app_assoc; reflexivity).
    apply IH; [destruct l0; discriminate | | assumption].
    unfold update_min_iri.
    destruct l0 as [|j l0]; [contradiction|].
    rewrite (not_sentinel g j); [| apply C; now left | apply NS; apply in_or_app; left; apply in_or_app; left; now left].
    destruct (lcp_spec i g) as [Pi [Pg Gr]].
    split.
    + intros k Hk. apply in_app_or in Hk. destruct Hk as [Hk | [<- | []]]; [|assumption].
      eapply prefix_trans; [exact Pg | apply C, Hk].
    + intros p Hp. apply Gr.
      * apply Hp. apply in_or_app. right. now left.
      * apply G. intros k Hk. apply Hp. apply in_or_app. now left.
Qed.

Lemma fold_min_iri_gcp iris : well_formed_ids iris -> is_gcp (fold_min_iri iris) iris.
Proof.
  intros [NE NS]. destruct iris as [|i0 l]; [contradiction|].
  unfold fold_min_iri. cbn [fold_left]. unfold update_min_iri at 2. rewrite str_eqb_refl.
  change (i0 :: l) with ([i0] ++ l). apply fold_gcp; [discriminate | | exact NS].
  split.
  - intros k [<- | []]. apply prefix_refl.
  - intros p Hp. apply Hp. now left.
Qed.

Lemma common_prefix_perm s l l' : Permutation l l' -> common_prefix s l -> common_prefix s l'.
Proof. intros P C i Hi. apply C. eapply Permutation_in; [apply Permutation_sym, P | exact Hi]. Qed.

Lemma well_formed_perm l l' : Permutation l l' -> well_formed_ids l -> well_formed_ids l'.
Proof.
  intros P [NE NS]. split.
  - intros ->. apply Permutation_sym, Permutation_nil in P. contradiction.
  - intros i Hi. apply NS. eapply Permutation_in; [apply Permutation_sym, P | exact Hi].
Qed.

(** the slot does not depend on the order in which the instances are met *)
Lemma fold_min_iri_perm l l' :
  Permutation l l' -> well_formed_ids l -> fold_min_iri l = fold_min_iri l'.
Proof.
  intros P W. pose proof (fold_min_iri_gcp l W) as [C G].
  pose proof (fold_min_iri_gcp l' (well_formed_perm _ _ P W)) as [C' G'].
  apply prefix_antisym.
  - apply G'. eapply common_prefix_perm; eassumption.
  - apply G. eapply common_prefix_perm; [apply Permutation_sym|]; eassumption.
Qed.

(** ** the reversed search finds the last separator *)
Lemma is_sep_char_spec c : is_sep_char c = true <-> is_sep c.
Proof.
  unfold is_sep_char, is_sep. rewrite sep_chars_are. cbn.
  rewrite !orb_true_iff, !Ascii.eqb_eq. intuition discriminate.
Qed.

Lemma search_sep_some b : forall k, search_sep b = Some k ->
  exists pre c post, b = pre ++ c :: post /\ List.length pre = k /\ is_sep c /\ sep_free pre.
Proof.
  induction b as [|x b IH]; intros k H; cbn [search_sep] in H; [discriminate|].
  destruct (is_sep_char x) eqn:E.
  - inversion H; subst. exists [], x, b. split; [reflexivity|]. split; [reflexivity|].
    split; [now apply is_sep_char_spec | intros c []].
  - destruct (search_sep b) as [k'|]; [|discriminate]. inversion H; subst.
    destruct (IH k' eq_refl) as (pre & c & post & -> & L & S & F).
    exists (x :: pre), c, post. repeat split; [cbn; now rewrite L | assumption |].
    intros d [<- | Hd]; [|now apply F].
    intros Hs. apply is_sep_char_spec in Hs. congruence.
Qed.

Lemma search_sep_none b : search_sep b = None -> sep_free b.
Proof.
  induction b as [|x b IH]; intros H; cbn [search_sep] in H; [intros c []|].
  destruct (is_sep_char x) eqn:E; [discriminate|].
  destruct (search_sep b); [discriminate|].
  intros d [<- | Hd]; [|now apply IH].
  intros Hs. apply is_sep_char_spec in Hs. congruence.
Qed.

Lemma ends_with_sep_In p : ends_with_sep p -> exists c, In c p /\ is_sep c.
Proof. intros (s0 & c & -> & S). exists c. split; [apply in_or_app; right; now left | assumption]. Qed.

Lemma last_in_tail (p0 a x : str) d : p0 ++ [d] = a ++ x -> x <> [] -> In d x.
Proof.
  intros H NE. apply (f_equal (@rev ascii)) in H. rewrite rev_unit, rev_app_distr in H.
  destruct (rev x) as [|y rx] eqn:E.
  - apply (f_equal (@rev ascii)) in E. rewrite rev_involutive in E. cbn in E. contradiction.
  - cbn in H. inversion H; subst. apply in_rev. rewrite E. now left.
Qed.

(** [cand] is the prefix of [l] that ends at the last separator of [l] *)
Definition last_sep_prefix (l cand : str) : Prop :=
  prefix cand l /\ ends_with_sep cand /\ forall p, prefix p l -> ends_with_sep p -> prefix p cand.

Lemma cand_spec l k : search_sep (rev l) = Some k -> last_sep_prefix l (rev (skipn k (rev l))).
Proof.
  intros H. destruct (search_sep_some _ _ H) as (pre & c & post & E & L & S & F).
  assert (El : l = (rev post ++ [c]) ++ rev pre).
  { rewrite <- (rev_involutive l), E, rev_app_distr. cbn. reflexivity. }
  assert (Ec : rev (skipn k (rev l)) = rev post ++ [c]).
  { rewrite E, <- L, skipn_app, skipn_all, Nat.sub_diag. cbn. reflexivity. }
  rewrite Ec. split; [exists (rev pre); exact El|]. split; [exists (rev post), c; auto|].
  intros p [r Hp] (p0 & d & -> & Sd). rewrite El in Hp.
  apply app_eq_app in Hp. destruct Hp as [x [[Hx _] | [Hx Hr]]].
  - exists x. exact Hx.
  - destruct x as [|y x]; [rewrite app_nil_r in Hx; rewrite Hx; apply prefix_refl|].
    exfalso. assert (In d (y :: x)) by (eapply last_in_tail; [exact Hx | discriminate]).
    apply (F d); [|assumption]. apply in_rev. rewrite Hr. apply in_or_app. now left.
Qed.

Lemma no_cand l : search_sep (rev l) = None -> forall p, prefix p l -> ~ ends_with_sep p.
Proof.
  intros H p P E. apply search_sep_none in H.
  destruct (ends_with_sep_In _ E) as (c & Hc & Sc).
  apply (H c); [|assumption]. apply in_rev. rewrite rev_involutive. eapply prefix_In; eassumption.
Qed.

(** ** [_BARE_SCHEME.fullmatch] decides "is a bare scheme" *)
Lemma is_sepb_spec c : is_sepb c = true <-> is_sep c.
Proof. unfold is_sepb, is_sep. rewrite !orb_true_iff, !Ascii.eqb_eq. tauto. Qed.

Lemma span_scheme_spec s : forall a b, span_scheme s = (a, b) ->
  s = a ++ b /\ sep_free a.
Proof.
  induction s as [|c s IH]; intros a b H; cbn in H.
  - inversion H. split; [reflexivity | intros c []].
  - destruct (is_sepb c) eqn:E.
    + inversion H. split; [reflexivity | intros d []].
    + destruct (span_scheme s) as [a' b'] eqn:Es. inversion H; subst.
      destruct (IH a' b eq_refl) as [-> F]. split; [reflexivity|].
      intros d [<- | Hd]; [|now apply F]. intros S. apply is_sepb_spec in S. congruence.
Qed.

Lemma span_scheme_app sch c r : sep_free sch -> is_sep c -> span_scheme (sch ++ c :: r) = (sch, c :: r).
Proof.
  intros F S. induction sch as [|x sch IH]; cbn.
  - apply is_sepb_spec in S. now rewrite S.
  - destruct (is_sepb x) eqn:E.
    + apply is_sepb_spec in E. exfalso. apply (F x); [now left | assumption].
    + rewrite IH; [reflexivity|]. intros d Hd. apply F. now right.
Qed.

Lemma bare_schemeb_spec s : bare_schemeb s = true <-> bare_scheme s.
Proof.
  unfold bare_schemeb, bare_scheme. split.
  - destruct (span_scheme s) as [a b] eqn:E. apply span_scheme_spec in E. destruct E as [-> F].
    destruct a as [|x a]; [discriminate|]. rewrite !orb_true_iff, !str_eqb_eq.
    intros H. exists (x :: a). split; [discriminate|]. split; [assumption|].
    destruct H as [[-> | ->] | ->]; auto.
  - intros (sch & NE & F & H).
    assert (S : is_sep ":"%char) by (now left).
    destruct H as [-> | [-> | ->]]; cbn [Str list_ascii_of_string];
      rewrite (span_scheme_app sch _ _ F S); destruct sch; try contradiction; reflexivity.
Qed.

Lemma in_excl_is_sepb c : in_excl c = is_sepb c.
Proof.
  unfold in_excl, is_sepb. destruct bare_scheme_consts as (-> & _ & _). cbn.
  destruct (Ascii.eqb c ":"), (Ascii.eqb c "/"), (Ascii.eqb c "#"); reflexivity.
Qed.

Lemma span_not_excl_scheme s : span_not_excl s = span_scheme s.
Proof. induction s as [|c s IH]; cbn [span_not_excl span_scheme]; [reflexivity|]. now rewrite in_excl_is_sepb, IH. Qed.

(** the model of the regular expression agrees with the reference definition *)
Lemma bare_scheme_match_b s : bare_scheme_match s = bare_schemeb s.
Proof.
  unfold bare_scheme_match, bare_schemeb, opt_slashes. rewrite span_not_excl_scheme.
  destruct bare_scheme_consts as (_ & -> & ->).
  destruct (span_scheme s) as [sch rest]. destruct sch as [|x sch].
  - destruct rest; reflexivity.
  - destruct rest as [|c [|a [|b [|d r]]]]; cbn.
    + reflexivity.
    + destruct (Ascii.eqb c ":"); reflexivity.
    + destruct (Ascii.eqb c ":"), (Ascii.eqb a "/"); reflexivity.
    + destruct (Ascii.eqb c ":"), (Ascii.eqb a "/"), (Ascii.eqb b "/"); reflexivity.
    + destruct (Ascii.eqb c ":"), (Ascii.eqb a "/"), (Ascii.eqb b "/"), (Ascii.eqb d "/");
        cbn; rewrite ?andb_false_r; reflexivity.
Qed.

Lemma bare_scheme_match_spec s : bare_scheme_match s = true <-> bare_scheme s.
Proof. rewrite bare_scheme_match_b. apply bare_schemeb_spec. Qed.

(** ** "bare scheme" is downward closed among separator-terminated prefixes *)
Lemma prefix_of_slashes t sl :
  In sl [[]; Str "/"; Str "//"] -> prefix t sl -> In t [[]; Str "/"; Str "//"].
Proof.
  intros Hs [r Hr]. cbn in Hs.
  destruct Hs as [<- | [<- | [<- | []]]].
  - destruct t; [now left | discriminate].
  - destruct t as [|a t]; [now left|]. cbn in Hr. injection Hr as Ha Ht. subst a.
    destruct t; [right; now left | discriminate].
  - destruct t as [|a t]; [now left|]. cbn in Hr. injection Hr as Ha Ht. subst a.
    destruct t as [|b t]; [right; now left|]. cbn in Ht. injection Ht as Hb Ht. subst b.
    destruct t; [right; right; now left | discriminate].
Qed.

Lemma bare_scheme_down cand p :
  bare_scheme cand -> prefix p cand -> ends_with_sep p -> bare_scheme p.
Proof.
  intros (sch & NE & F & H) P E.
  assert (exists sl, In sl [[]; Str "/"; Str "//"] /\ cand = (sch ++ Str ":") ++ sl) as (sl & Hsl & ->).
  { destruct H as [-> | [-> | ->]].
    - exists []. split; [now left | now rewrite app_nil_r].
    - exists (Str "/"). split; [right; now left | now rewrite <- app_assoc].
    - exists (Str "//"). split; [right; right; now left | now rewrite <- app_assoc]. }
  destruct (Nat.le_gt_cases (List.length p) (List.length sch)) as [Le | Gt].
  - exfalso. assert (Pp : prefix p sch).
    { eapply prefix_comparable; [exact P | exists (Str ":" ++ sl); now rewrite <- app_assoc | exact Le]. }
    destruct (ends_with_sep_In _ E) as (c & Hc & Sc). apply (F c); [eapply prefix_In; eassumption | assumption].
  - assert (Pq : prefix (sch ++ Str ":") p).
    { eapply prefix_comparable; [exists sl; reflexivity | exact P |]. rewrite app_length. cbn. lia. }
    destruct Pq as [t ->]. destruct P as [r Hr]. rewrite <- (app_assoc (sch ++ Str ":") t r) in Hr. apply app_inv_head in Hr.
    assert (Ht : In t [[]; Str "/"; Str "//"]) by (eapply prefix_of_slashes; [exact Hsl | exists r; exact Hr]).
    exists sch. split; [assumption|]. split; [assumption|]. cbn in Ht.
    destruct Ht as [<- | [<- | [<- | []]]]; rewrite <- ?app_assoc, ?app_nil_r; auto.
Qed.

(** ** [determine] *)
Lemma determine_cut_some l s : determine_cut l = Some s ->
  last_sep_prefix l s /\ 3 <= pylen s /\ ~ bare_scheme s.
Proof.
  unfold determine_cut. rewrite min_len_is.
  destruct (search_sep (rev l)) as [k|] eqn:Hs; [|discriminate].
  destruct (pylen _ <? 3) eqn:H3; [discriminate|].
  unfold scheme_test. rewrite rule_is_bare.
  destruct (bare_scheme_match _) eqn:Hb; [discriminate|].
  intros H; inversion H; subst. split; [now apply cand_spec|]. apply Z.ltb_ge in H3. split; [assumption|].
  intros B. apply bare_scheme_match_spec in B. congruence.
Qed.

Lemma determine_cut_none l : determine_cut l = None ->
  forall p, prefix p l -> ends_with_sep p -> 3 <= pylen p -> bare_scheme p.
Proof.
  unfold determine_cut. rewrite min_len_is.
  destruct (search_sep (rev l)) as [k|] eqn:Hs.
  - pose proof (cand_spec _ _ Hs) as (Pc & Ec & Mx). set (cand := rev (skipn k (rev l))) in *.
    destruct (pylen cand <? 3) eqn:H3.
    + intros _ p P E L. apply Z.ltb_lt in H3. pose proof (pylen_prefix _ _ (Mx p P E)). lia.
    + unfold scheme_test. rewrite rule_is_bare.
      destruct (bare_scheme_match cand) eqn:Hb; [|discriminate].
      intros _ p P E L. apply bare_scheme_match_spec in Hb.
      apply (bare_scheme_down cand); [assumption | apply Mx; assumption | assumption].
  - intros _ p P E _. exfalso. eapply no_cand; eassumption.
Qed.

(** the first test ([bnode_prefix_test]): present or not, what [determine]
    answers in terms of the cut *)
Lemma bnode_prefix_test_true l :
  bnode_prefix_test l = true <-> c_min_iri_skips_bnode_prefix = true /\ bnode_id l.
Proof.
  unfold bnode_prefix_test, bnode_id. rewrite andb_true_iff. split.
  - intros [F P]. split; [exact F|]. rewrite (bnode_prefix_is F) in P. now apply prefixb_prefix.
  - intros [F P]. split; [exact F|]. rewrite (bnode_prefix_is F). now apply prefixb_prefix.
Qed.

Lemma determine_some l s : determine l = Some s ->
  determine_cut l = Some s /\ (c_min_iri_skips_bnode_prefix = true -> ~ bnode_id l).
Proof.
  unfold determine. destruct (bnode_prefix_test l) eqn:T; [discriminate|].
  intros H. split; [exact H|]. intros F B.
  assert (T' : bnode_prefix_test l = true) by (apply bnode_prefix_test_true; split; assumption). congruence.
Qed.

Lemma determine_none l : determine l = None ->
  determine_cut l = None \/ (c_min_iri_skips_bnode_prefix = true /\ bnode_id l).
Proof.
  unfold determine. destruct (bnode_prefix_test l) eqn:T.
  - intros _. right. now apply bnode_prefix_test_true.
  - intros H. now left.
Qed.

(** with the first test absent, [determine] is the cut *)
Lemma determine_no_guard l : c_min_iri_skips_bnode_prefix = false -> determine l = determine_cut l.
Proof. intros F. unfold determine, bnode_prefix_test. rewrite F. reflexivity. Qed.

(** what the function guarantees, with the first test: nothing is answered for
    a common prefix that starts with the blank-node marker; any other answer is
    the cut *)
Lemma determine_guarded l : c_min_iri_skips_bnode_prefix = true ->
  (bnode_id l -> determine l = None) /\ (~ bnode_id l -> determine l = determine_cut l).
Proof.
  intros F. unfold determine. split.
  - intros B. assert (T : bnode_prefix_test l = true) by (apply bnode_prefix_test_true; split; assumption).
    now rewrite T.
  - intros NB. destruct (bnode_prefix_test l) eqn:T; [|reflexivity].
    apply bnode_prefix_test_true in T. destruct T as [_ B]. contradiction.
Qed.

(** ** blank-node identifiers and stems *)
Lemma pylen_le_length s : pylen s <= Z.of_nat (List.length s).
Proof.
  unfold pylen. induction s as [|c s IH]; cbn [filter List.length]; [lia|].
  destruct (negb (is_cont c)); cbn [List.length]; lia.
Qed.

(** a common prefix of three characters of a list that holds a blank-node
    identifier starts with the marker itself *)
Lemma common_prefix_bnode s iris i :
  common_prefix s iris -> 3 <= pylen s -> In i iris -> bnode_id i -> bnode_id s.
Proof.
  intros C L Hi B. unfold bnode_id in *. pose proof (pylen_le_length s) as Ls.
  eapply prefix_comparable; [exact B | apply C, Hi |]. cbn. lia.
Qed.

Lemma bnode_common_prefix s iris i : bnode_id s -> common_prefix s iris -> In i iris -> bnode_id i.
Proof. intros B C Hi. unfold bnode_id in *. eapply prefix_trans; [exact B | apply C, Hi]. Qed.

Lemma bnode_idb_spec i : bnode_idb i = true <-> bnode_id i.
Proof. unfold bnode_idb, bnode_id. apply prefixb_prefix. Qed.

(** ** the stem, in the shape of a stem: every well-formed list, either text of
    the function.  What is printed has the shape of a stem and no
    separator-terminated common prefix is longer; nothing printed: no common
    prefix has the shape of a stem -- or (only with the first test) every
    instance is a blank node. *)
Theorem stem_some_shaped iris s :
  well_formed_ids iris -> stem iris = Some s ->
  stem_shaped s iris /\ forall s', stem_shaped s' iris -> (List.length s' <= List.length s)%nat.
Proof.
  intros W H. unfold stem in H. pose proof (fold_min_iri_gcp iris W) as [C G].
  apply determine_some in H. destruct H as [H _].
  apply determine_cut_some in H. destruct H as ((P & E & Mx) & L & NH).
  split.
  - repeat split; try assumption. intros i Hi. eapply prefix_trans; [exact P | apply C, Hi].
  - intros s' (C' & E' & _ & _). apply prefix_length, Mx; [apply G, C' | exact E'].
Qed.

Theorem stem_none_shaped iris :
  well_formed_ids iris -> stem iris = None ->
  forall s, stem_shaped s iris ->
    c_min_iri_skips_bnode_prefix = true /\ forall i, In i iris -> bnode_id i.
Proof.
  intros W H s (C' & E' & L' & NB). unfold stem in H. pose proof (fold_min_iri_gcp iris W) as [C G].
  apply determine_none in H. destruct H as [H | [F B]].
  - exfalso. apply NB. eapply determine_cut_none; [exact H | apply G, C' | exact E' | exact L'].
  - split; [exact F|]. intros i Hi. eapply bnode_common_prefix; [exact B | exact C | exact Hi].
Qed.

(** a printed stem never starts with the blank-node marker when the first test
    is there *)
Lemma stem_some_not_bnode iris s :
  c_min_iri_skips_bnode_prefix = true -> well_formed_ids iris -> stem iris = Some s -> ~ bnode_id s.
Proof.
  intros F W H B. unfold stem in H. pose proof (fold_min_iri_gcp iris W) as [C G].
  apply determine_some in H. destruct H as [H NBl]. apply determine_cut_some in H. destruct H as ((P & _) & _).
  apply (NBl F). unfold bnode_id in *. eapply prefix_trans; eassumption.
Qed.

(** ** the stem: the property's own wording, on [C17_dom] *)
Theorem stem_some iris s : C17_dom iris -> stem iris = Some s -> is_longest s iris.
Proof.
  intros [W D] H. destruct (stem_some_shaped iris s W H) as [Sh Mx].
  assert (NB : forall i, In i iris -> ~ bnode_id i).
  { intros i Hi B. destruct Sh as (C & _ & L & _).
    pose proof (common_prefix_bnode s iris i C L Hi B) as Bs.
    destruct (Bool.bool_dec c_min_iri_skips_bnode_prefix true) as [F | F].
    - exact (stem_some_not_bnode iris s F W H Bs).
    - apply Bool.not_true_is_false in F.
      destruct (D F) as (j & Hj & NBj). apply NBj. eapply bnode_common_prefix; eassumption. }
  split; [split; assumption|].
  intros s' [Sh' _]. apply Mx, Sh'.
Qed.

Theorem stem_none iris : C17_dom iris -> stem iris = None -> forall s, ~ admissible s iris.
Proof.
  intros [W D] H s [Sh NB]. destruct (stem_none_shaped iris W H s Sh) as [_ B].
  destruct W as [NE _]. destruct iris as [|i l]; [contradiction|].
  apply (NB i); [now left | apply B; now left].
Qed.

(** on the domain, a class with a blank-node instance gets no stem *)
Theorem stem_bnode_none iris :
  C17_dom iris -> (exists i, In i iris /\ bnode_id i) -> stem iris = None.
Proof.
  intros D (i & Hi & B). destruct (stem iris) as [s|] eqn:H; [|reflexivity].
  destruct (stem_some iris s D H) as [[_ NB] _]. exfalso. exact (NB i Hi B).
Qed.

(** a printed stem is moreover the longest separator-terminated common prefix
    (the scheme clause never makes the code fall back to a shorter stem) *)
Theorem stem_some_prefix_sep iris s :
  well_formed_ids iris -> stem iris = Some s ->
  common_prefix s iris /\ ends_with_sep s /\ 3 <= pylen s /\
  forall s', common_prefix s' iris -> ends_with_sep s' -> (List.length s' <= List.length s)%nat.
Proof.
  intros W H. unfold stem in H. pose proof (fold_min_iri_gcp iris W) as [C G].
  apply determine_some in H. destruct H as [H _].
  apply determine_cut_some in H. destruct H as ((P & E & Mx) & L & NH).
  repeat split; try assumption.
  - intros i Hi. eapply prefix_trans; [exact P | apply C, Hi].
  - intros s' C' E'. apply prefix_length, Mx; [apply G, C' | exact E'].
Qed.

Theorem stem_perm l l' : Permutation l l' -> well_formed_ids l -> stem l = stem l'.
Proof. intros P W. unfold stem. now rewrite (fold_min_iri_perm l l' P W). Qed.

(** ** the boolean domain predicate is sound *)
Lemma well_formed_idsb_sound iris : well_formed_idsb iris = true -> well_formed_ids iris.
Proof.
  unfold well_formed_idsb. destruct iris as [|i0 l]; [discriminate|].
  rewrite forallb_forall. intros NS. split; [discriminate|].
  intros i Hi P. specialize (NS i Hi). apply prefixb_prefix in P. rewrite P in NS. discriminate.
Qed.

Theorem C17_domb_at_sound guard iris : C17_domb_at guard iris = true -> C17_dom_at guard iris.
Proof.
  unfold C17_domb_at, C17_dom_at. rewrite andb_true_iff. intros [W D].
  split; [now apply well_formed_idsb_sound|]. intros ->. cbn [orb] in D.
  apply existsb_exists in D. destruct D as (i & Hi & N). exists i. split; [exact Hi|].
  intros B. apply bnode_idb_spec in B. rewrite B in N. discriminate.
Qed.

Theorem C17_domb_sound iris : C17_domb iris = true -> C17_dom iris.
Proof. apply C17_domb_at_sound. Qed.

(** the domain, for either text: with the first test every well-formed list *)
Lemma C17_dom_guarded iris :
  c_min_iri_skips_bnode_prefix = true -> (C17_dom iris <-> well_formed_ids iris).
Proof.
  intros F. unfold C17_dom, C17_dom_at. rewrite F. split; [intros [W _]; exact W | intros W; split; [exact W | discriminate]].
Qed.

Lemma C17_dom_unguarded iris :
  c_min_iri_skips_bnode_prefix = false ->
  (C17_dom iris <-> well_formed_ids iris /\ exists i, In i iris /\ ~ bnode_id i).
Proof.
  intros F. unfold C17_dom, C17_dom_at. rewrite F. split; intros [W D]; (split; [exact W | auto]).
Qed.
