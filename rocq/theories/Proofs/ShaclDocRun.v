(** * The SHACL graph of a whole run (S4 of the SHACL half of C05).

    [run_profile_refs_closed]: for the tracker's own instance dictionary the
    class profile only holds shape references to classes that are keys of
    the profile -- the premise [profile_refs_closed] of
    Proofs/ClosureLemmas.v -- provided no property, datatype or class IRI of
    the graph starts with the shape marker ([sentinel_free], EndToEnd2).  The
    profile-level cleaning never removes a referenced class: a referenced
    class has an instance, hence its typing feature.
    [run_refs_closed]: with the default shapes namespace the references of the
    shapes of [run_shapes] resolve.
    [run_shacl_graph]: S1-S3 for the SHACL graph of a run. *)
From Coq Require Import List Ascii String ZArith NArith Bool Lia Permutation.
From Shexer Require Import Lib.PyStr Lib.Dict Gen.Consts Spec.Rdf Model.Tracker Model.Profiler
  Model.Tokens Model.Freq Model.FreqInst Model.Shexing Model.Run Spec.Counts
  Spec.ConstraintSpec Spec.ShaclGraphSpec Model.SerialShacl Model.ShaclDoc.
From Shexer Require Import Proofs.DictLemmas Proofs.ProfileChar Proofs.EndToEnd Proofs.EndToEnd2
  Proofs.ClosureLemmas Proofs.ShaclDocProofs.
From Shexer Require Proofs.ShaclProofs.
Import ListNotations.
Local Open Scope N_scope.

(** a key with the shape marker contributed by a triple is a shape label of a tracked node *)
Lemma contrib_shape_key dir tau (I : insts) t i p k :
  sentinel_free tau t = true -> In k (contrib dir tau I t i p) -> is_shape_type k = true ->
  exists id, In k (shape_labels I id).
Proof.
  unfold sentinel_free. intros Hs Hk Hty. apply andb_true_iff in Hs. destruct Hs as [Hp Ho].
  assert (NS : forall x, no_sentinel x = true -> x = k -> False).
  { intros x Hx ->. unfold no_sentinel in Hx. unfold is_shape_type in Hty. rewrite Hty in Hx. discriminate Hx. }
  assert (ET : forall n, elem_type n = k -> False).
  { intros n E. apply (NS (elem_type n)); [unfold elem_type; destruct (nk n); reflexivity | exact E]. }
  destruct dir; cbn [contrib] in Hk.
  - destruct (str_eqb (nid (ts t)) i && str_eqb (tp t) p); [|destruct Hk].
    unfold keys_direct in Hk. destruct (to t) as [o|ct dt].
    + destruct (str_eqb (tp t) tau).
      * apply andb_true_iff in Ho. destruct Ho as [Ho _].
        destruct Hk as [E|Hk]; [exfalso; exact (NS _ Ho E)|].
        destruct (_ || _); [exists (nid o); exact Hk | destruct Hk].
      * destruct Hk as [E|Hk]; [exfalso; exact (ET _ E) | exists (nid o); exact Hk].
    + destruct (str_eqb (tp t) tau); [destruct Hk|]. destruct Hk as [E|[]]. exfalso. exact (NS _ Ho E).
  - destruct (to t) as [o|ct dt]; [|destruct Hk].
    destruct (str_eqb (nid o) i && str_eqb (tp t) p); [|destruct Hk].
    unfold keys_inverse in Hk. destruct (str_eqb (tp t) tau).
    + apply andb_true_iff in Ho. destruct Ho as [_ Ho].
      destruct Hk as [E|Hk]; [exfalso; exact (NS _ Ho E)|].
      destruct (str_eqb _ _); [exists (nid (ts t)); exact Hk | destruct Hk].
    + destruct Hk as [E|Hk]; [exfalso; exact (ET _ E)|].
      destruct (nk (ts t)); [exists (nid (ts t)); exact Hk | destruct Hk].
Qed.

Theorem run_profile_refs_closed c g ins P C ID :
  forallb (sentinel_free (r_tau c)) g = true ->
  track (r_tau c) (tmode_of c) (r_cap c) g = inl ins ->
  profile (pcfg_of c) ins g = inl (P, C, ID) ->
  profile_refs_closed P.
Proof.
  intros Hfree Ht Hp.
  destruct (track_insts_ok _ _ _ _ _ Ht) as [ND _].
  pose proof (track_classes _ _ _ _ _ Ht) as Hlist.
  rewrite profile_result in Hp.
  destruct (annotate_all (p_tau (pcfg_of c)) (p_inverse (pcfg_of c)) g (adapt ins)) as [ID'|err] eqn:HA; [|discriminate].
  destruct (raw_profile (pcfg_of c) ins ID') as [P1 C0] eqn:HR.
  injection Hp as HP _ _.
  set (ks := if r_remove_empty c
             then shapes_to_remove (r_inverse c) (orig_labels (pcfg_of c)) P1 else []).
  assert (EP : P = remove_iteration ks P1).
  { unfold ks. destruct (r_remove_empty c); [symmetry; exact HP|]. rewrite remove_iteration_nil. symmetry. exact HP. }
  clear HP.
  destruct (profile_counts_char (pcfg_of c) ins g ID' P1 C0 ND HA HR) as (KP1 & _ & NDP1 & _ & HB).
  pose proof (profile_entries_char (pcfg_of c) ins g ID' P1 C0 ND HA HR) as HE.
  cbn [p_tau p_inverse pcfg_of] in HB, HE.
  intros c0 e k Hce (p & m & cd & Hpm & Hk) Hty.
  rewrite EP in Hce. apply In_remove_iteration in Hce. destruct Hce as (e1 & Hce1 & -> & Hc0).
  pose proof (In_dget_NoDup P1 c0 e1 NDP1 Hce1) as Hget.
  destruct (HE c0 e1 Hget) as (W & HD & _ & HI).
  destruct W as (_ & W2 & _ & W4).
  assert (Hocc : exists dir card, 0 < occ dir (r_tau c) ins g c0 p k card).
  { destruct Hpm as [Hpm|Hpm]; cbn [clean_entry c_direct c_inverse] in Hpm;
      destruct (In_remove_keys_pdict _ _ _ _ _ _ Hpm Hk) as (m1 & Hp1 & Hk1 & _).
    - unfold pdict_ne in W2. rewrite Forall_forall in W2. destruct (W2 _ Hp1) as [_ Wm]. cbn [snd] in Wm.
      rewrite Forall_forall in Wm. pose proof (Wm _ Hk1) as Wc. cbn [snd] in Wc.
      destruct cd as [|[card n] cd']; [contradiction|].
      destruct (HD p m1 k _ card n Hp1 Hk1 (or_introl eq_refl)) as [-> Hpos]. exists Direct, card. exact Hpos.
    - destruct (r_inverse c) eqn:Einv.
      + destruct (HI eq_refl) as [HIa _].
        unfold pdict_ne in W4. rewrite Forall_forall in W4. destruct (W4 _ Hp1) as [_ Wm]. cbn [snd] in Wm.
        rewrite Forall_forall in Wm. pose proof (Wm _ Hk1) as Wc. cbn [snd] in Wc.
        destruct cd as [|[card n] cd']; [contradiction|].
        destruct (HIa p m1 k _ card n Hp1 Hk1 (or_introl eq_refl)) as [-> Hpos]. exists Inverse, card. exact Hpos.
      + destruct (HB c0 e1 Hget) as (_ & _ & RI). rewrite RI in Hp1. destruct Hp1. }
  destruct Hocc as (dir & card & Hpos).
  destruct (proj1 (occ_pos_iff dir (r_tau c) ins g c0 p k) (ex_intro _ card Hpos)) as (i & cs & _ & _ & Hc).
  unfold cnt in Hc. apply sumN_pos_ex in Hc. destruct Hc as [x [Hx Hx0]].
  apply in_map_iff in Hx. destruct Hx as [t [<- Htg]].
  rewrite count_in_count_str in Hx0. apply count_str_pos in Hx0.
  rewrite forallb_forall in Hfree.
  destruct (contrib_shape_key dir _ ins t i p k (Hfree t Htg) Hx0 Hty) as [id Hlab].
  unfold shape_labels in Hlab. apply in_map_iff in Hlab. destruct Hlab as [c' [<- Hc']].
  exists c'. split; [|reflexivity].
  unfold classes_of in Hc'. destruct (dget ins id) as [cs'|] eqn:Eid; [|destruct Hc'].
  apply dget_In in Eid.
  assert (Hconc : In c' (List.concat (map snd ins))).
  { apply in_concat. exists cs'. split; [|exact Hc']. apply in_map_iff. exists (id, cs'). split; [reflexivity | exact Eid]. }
  assert (Hck : In c' (dkeys P1)).
  { rewrite KP1. unfold class_keys. rewrite uniq_first_first_occ. apply In_first_occ. apply in_or_app. right. exact Hconc. }
  rewrite EP, dkeys_remove_iteration. apply filter_In. split; [exact Hck|].
  unfold not_in. apply negb_true_iff. apply mem_str_false. intros Hks.
  unfold ks in Hks. destruct (r_remove_empty c); [|destruct Hks].
  apply In_shapes_to_remove in Hks. destruct Hks as (e' & He' & _ & Hnf).
  pose proof (In_dget_NoDup P1 c' e' NDP1 He') as Hget'.
  destruct (HE c' e' Hget') as (_ & _ & Hd' & _).
  assert (Hne : c_direct e' <> []).
  { apply Hd'. exists (r_tau c), c', (CKn 1). rewrite (occ_typing _ _ _ _ Hlist).
    rewrite class_count_concat. apply count_str_pos. exact Hconc. }
  unfold has_features in Hnf. destruct (c_direct e'); [contradiction | discriminate Hnf].
Qed.

Theorem run_refs_closed fa c thr g ns shapes :
  r_shapes_ns c = c_SHAPES_DEFAULT_NAMESPACE ->
  forallb (sentinel_free (r_tau c)) g = true ->
  run_shapes fa c thr g = inl (ns, shapes) -> refs_closed shapes.
Proof.
  intros Hns Hfree H. destruct (run_shapes_decompose fa c thr g ns shapes H) as (I & P & C & ID & _ & Ht & Hp & Hs).
  eapply (shex_refs_closed fa (scfg_of c ns) thr P C shapes); [|exact Hns | exact Hs].
  exact (run_profile_refs_closed c g I P C ID Hfree Ht Hp).
Qed.

(** S4: the SHACL graph of a run ([detect_minimal_iri] off).  [L] pairs every shape's IRI with the
    IRI [_add_target_class] makes of its class key ([target_class_obj]) *)
Theorem run_shacl_graph fa c thr g ns shapes tr L :
  r_shapes_ns c = c_SHAPES_DEFAULT_NAMESPACE ->
  forallb (sentinel_free (r_tau c)) g = true ->
  run_shapes fa c thr g = inl (ns, shapes) ->
  shacl_graph ns (r_tau c) shapes = inl tr -> names_iris_by target_class_obj shapes L ->
  node_objects_declared tr (map fst L) /\ property_shapes_one_path tr /\
  (forall n, node_shape tr n <-> exists u cl, In (u, cl) L /\ n = TIri u) /\
  (NoDup (map fst L) -> node_shapes_exact tr L).
Proof.
  intros Hns Hfree Hrun Hg HL.
  pose proof (run_refs_closed fa c thr g ns shapes Hns Hfree Hrun) as Hrc.
  split; [exact (shacl_gen_node_objects_declared_by _ _ _ _ _ _ _ Hg HL Hrc)|].
  split; [exact (shacl_gen_one_path _ _ _ _ _ Hg)|].
  split; [exact (shacl_gen_node_shapes_iff_by _ _ _ _ _ _ _ Hg HL)|].
  intros Hnd. exact (shacl_gen_node_shapes_exact_by _ _ _ _ _ _ Hg HL Hnd).
Qed.

(** *** class-based runs: no class key is written in corners when no class IRI of the graph and no
    requested target class is, hence [sh:targetClass] names the class key itself, whichever text
    [_add_target_class] has *)
Definition classes_plain (c : rcfg) (g : graph) : Prop :=
  (forall t o, In t g -> tp t = r_tau c -> to t = ON o -> cornered (nid o) = false) /\
  (forall l x, r_targets c = Some l -> In x l -> cornered x = false).

Theorem run_classes_plain fa c thr g ns shapes :
  classes_plain c g -> run_shapes fa c thr g = inl (ns, shapes) ->
  forall sh, In sh shapes -> target_class_obj (sh_class sh) = sh_class sh.
Proof.
  intros [Hg Ht] Hrun sh Hsh. apply ShaclProofs.target_class_obj_plain.
  destruct (e2e_header fa c thr g ns shapes Hrun) as (I & Htr & Hcl & _).
  destruct (Hcl sh Hsh) as [Hin _]. unfold class_keys in Hin.
  rewrite uniq_first_first_occ in Hin. repeat apply (proj1 (In_first_occ _ _)) in Hin. apply in_app_or in Hin.
  destruct Hin as [Hin|Hin].
  - unfold targets_of, pcfg_of in Hin. cbn [p_targets] in Hin.
    destruct (r_targets c) as [l|] eqn:El; [|destruct Hin]. exact (Ht l _ eq_refl Hin).
  - apply in_concat in Hin. destruct Hin as [cs [Hcs Hc]]. apply in_map_iff in Hcs. destruct Hcs as [[i cs'] [<- Hi]].
    pose proof (track_classes _ _ _ _ _ Htr) as Hlist. rewrite Forall_forall in Hlist.
    destruct (Hlist _ Hi _ Hc) as (t & o & Htg & _ & Htp & Hto & <-). exact (Hg t o Htg Htp Hto).
Qed.

(** the statement with [names_iris] ("its class" = the class key of the shape) *)
Theorem run_shacl_graph_class fa c thr g ns shapes tr L :
  r_shapes_ns c = c_SHAPES_DEFAULT_NAMESPACE ->
  forallb (sentinel_free (r_tau c)) g = true -> classes_plain c g ->
  run_shapes fa c thr g = inl (ns, shapes) ->
  shacl_graph ns (r_tau c) shapes = inl tr -> names_iris shapes L ->
  node_objects_declared tr (map fst L) /\ property_shapes_one_path tr /\
  (forall n, node_shape tr n <-> exists u cl, In (u, cl) L /\ n = TIri u) /\
  (NoDup (map fst L) -> node_shapes_exact tr L).
Proof.
  intros Hns Hfree Hpl Hrun Hg HL.
  apply (run_shacl_graph fa c thr g ns shapes tr L Hns Hfree Hrun Hg).
  apply names_iris_by_class; [|exact HL]. exact (run_classes_plain fa c thr g ns shapes Hpl Hrun).
Qed.
