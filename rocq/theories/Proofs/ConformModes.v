(** * C03, T1 (two runs): all-compliant mode ON versus OFF.

    If the run with the mode on succeeds, the run with the mode off succeeds
    too, with the same shapes and the same statements in the same order; a
    cardinality differs only where the ON run relaxed it. *)
From Coq Require Import List Ascii String ZArith NArith Bool Lia.
From Shexer Require Import Lib.PyStr Lib.Dict Gen.Consts Model.Profiler Model.Tokens Model.Freq Model.Shexing
     Model.C03Dom Proofs.ConformProofs.
Import ListNotations.

Definition with_ac (b : bool) (c : scfg) : scfg :=
  {| x_tau := x_tau c; x_inverse := x_inverse c; x_shapes_ns := x_shapes_ns c; x_ns := x_ns c;
     x_remove_empty := x_remove_empty c; x_discard_useless := x_discard_useless c;
     x_keep_less_specific := x_keep_less_specific c; x_all_compliant := b;
     x_disable_or := x_disable_or c; x_allow_redundant_or := x_allow_redundant_or c;
     x_allow_opt := x_allow_opt c; x_disable_exact := x_disable_exact c;
     x_disable_comments := x_disable_comments c |}.

(** [s0]: statement of the OFF run, [s1]: of the ON run *)
Definition relaxed_from (cfg : scfg) (s0 s1 : stmt) : Prop :=
  s_inv s1 = s_inv s0 /\ s_prop s1 = s_prop s0 /\ s_types s1 = s_types s0 /\ s_choice s1 = s_choice s0 /\
  s_nocc s1 = s_nocc s0 /\
  (s_card s1 = s_card s0 \/
   exists c, s_card s1 = relax_card cfg c /\ s_card s0 = gen_card cfg c).

Definition shape_rel (cfg : scfg) (sh0 sh1 : shape) : Prop :=
  sh_name sh0 = sh_name sh1 /\ sh_class sh0 = sh_class sh1 /\ sh_n sh0 = sh_n sh1 /\
  Forall2 (relaxed_from cfg) (sh_stmts sh0) (sh_stmts sh1).

(** the selection does not look at the mode *)
Lemma class_selected_ac fa cfg b thr counts ce :
  class_selected fa (with_ac b cfg) thr counts ce = class_selected fa cfg thr counts ce.
Proof. destruct cfg. reflexivity. Qed.

Lemma post_ac cfg b s : post (with_ac b cfg) s = post cfg s.
Proof. reflexivity. Qed.

Lemma relax_ac fa cfg b cnt s : relax fa (with_ac b cfg) cnt s = relax fa cfg cnt s.
Proof. reflexivity. Qed.

Lemma map_err_Forall2 {A B E} (f : A -> B + E) l out :
  map_err f l = inl out -> Forall2 (fun x y => f x = inl y) l out.
Proof.
  revert out; induction l as [|x l IH]; cbn; intros out H.
  - inversion H; constructor.
  - destruct (f x) as [y|e] eqn:Ef; [|discriminate].
    destruct (map_err f l) as [ys|e]; [|discriminate]. inversion H; subst. constructor; [exact Ef | apply IH; reflexivity].
Qed.

Lemma Forall2_impl {A B} (R R' : A -> B -> Prop) l0 l1 :
  (forall x y, R x y -> R' x y) -> Forall2 R l0 l1 -> Forall2 R' l0 l1.
Proof. intros H. induction 1; constructor; auto. Qed.

Lemma Forall2_map_both {A B C D} (R : C -> D -> Prop) (f : A -> C) (g : B -> D) l0 l1 :
  Forall2 (fun x y => R (f x) (g y)) l0 l1 -> Forall2 R (map f l0) (map g l1).
Proof. induction 1; cbn; constructor; assumption. Qed.

Lemma tune_on_off fa cfg cnt v out1 :
  tune fa (with_ac true cfg) cnt v = inl out1 ->
  exists out0, tune fa (with_ac false cfg) cnt v = inl out0 /\ Forall2 (relaxed_from cfg) out0 out1.
Proof.
  rewrite !tune_eq. destruct v as [|a v]; [intros H; inversion H; exists []; split; [reflexivity | constructor]|].
  cbn [x_all_compliant with_ac]. set (l0 := sort_desc fa cnt (a :: v)).
  destruct (map_err (relax fa (with_ac true cfg) cnt) l0) as [l1|e] eqn:E; [|discriminate].
  intros H; inversion H; subst. exists (map (post (with_ac false cfg)) l0). split; [reflexivity|].
  apply Forall2_map_both. apply map_err_Forall2 in E.
  eapply Forall2_impl; [|exact E]. intros x y Hr. cbn beta in Hr. rewrite relax_ac in Hr. rewrite !post_ac.
  pose proof (post_fields cfg x) as (P1 & P2 & P3 & P4 & P5 & P6 & P7).
  pose proof (post_fields cfg y) as (Q1 & Q2 & Q3 & Q4 & Q5 & Q6 & Q7).
  apply relax_spec in Hr. destruct Hr as [[_ ->] | (_ & R1 & R2 & R3 & R4 & R5 & R6)].
  - repeat split; try reflexivity. left. reflexivity.
  - unfold relaxed_from. repeat split; try congruence.
    right. exists (s_card x). split; [rewrite Q7, R5; apply gen_card_relax | exact P7].
Qed.

Lemma shex_class_on_off fa cfg thr counts ce sh1 :
  shex_class fa (with_ac true cfg) thr counts ce = inl sh1 ->
  exists sh0, shex_class fa (with_ac false cfg) thr counts ce = inl sh0 /\ shape_rel cfg sh0 sh1.
Proof.
  rewrite !shex_class_eq, !class_selected_ac.
  destruct (class_selected fa cfg thr counts ce) as [sel|e]; [|discriminate].
  destruct (tune fa (with_ac true cfg) _ sel) as [st1|e] eqn:E1; [|discriminate].
  intros H; inversion H; subst. destruct (tune_on_off _ _ _ _ _ E1) as [st0 [E0 HF]]. rewrite E0.
  eexists. split; [reflexivity|]. repeat split; cbn. exact HF.
Qed.

(** ** lists related element-wise *)
Lemma Forall2_filter_agree {A B} (R : A -> B -> Prop) (p : A -> bool) (q : B -> bool) l0 l1 :
  Forall2 R l0 l1 -> (forall x y, R x y -> p x = q y) -> Forall2 R (filter p l0) (filter q l1).
Proof.
  intros H Hpq. induction H as [|x y l0 l1 Hxy H IH]; cbn; [constructor|].
  rewrite (Hpq x y Hxy). destruct (q y); [constructor; assumption | exact IH].
Qed.

Lemma Forall2_existsb_agree {A B} (R : A -> B -> Prop) (p : A -> bool) (q : B -> bool) l0 l1 :
  Forall2 R l0 l1 -> (forall x y, R x y -> p x = q y) -> existsb p l0 = existsb q l1.
Proof.
  intros H Hpq. induction H as [|x y l0 l1 Hxy H IH]; cbn; [reflexivity|]. rewrite (Hpq x y Hxy), IH. reflexivity.
Qed.

Lemma Forall2_map_eq {A B C} (R : A -> B -> Prop) (f : A -> C) (g : B -> C) l0 l1 :
  Forall2 R l0 l1 -> (forall x y, R x y -> f x = g y) -> map f l0 = map g l1.
Proof.
  intros H Hfg. induction H as [|x y l0 l1 Hxy H IH]; cbn; [reflexivity|]. rewrite (Hfg x y Hxy), IH. reflexivity.
Qed.

Lemma map_err_rel {A B A' B' E} (R : A -> B -> Prop) (R' : A' -> B' -> Prop)
      (f0 : A -> A' + E) (f1 : B -> B' + E) l0 l1 o1 :
  Forall2 R l0 l1 ->
  (forall x y y', R x y -> f1 y = inl y' -> exists x', f0 x = inl x' /\ R' x' y') ->
  map_err f1 l1 = inl o1 -> exists o0, map_err f0 l0 = inl o0 /\ Forall2 R' o0 o1.
Proof.
  intros H Hf. revert o1. induction H as [|x y l0 l1 Hxy H IH]; cbn; intros o1 Ho.
  - inversion Ho; subst. exists []. split; [reflexivity | constructor].
  - destruct (f1 y) as [y'|e] eqn:Ey; [|discriminate].
    destruct (map_err f1 l1) as [ys|e]; [|discriminate]. inversion Ho; subst.
    destruct (Hf x y y' Hxy Ey) as [x' [Ex Hr]]. destruct (IH ys eq_refl) as [xs [Exs Hrs]].
    rewrite Ex, Exs. exists (x' :: xs). split; [reflexivity | constructor; assumption].
Qed.

Lemma relaxed_type cfg s0 s1 : relaxed_from cfg s0 s1 -> s_type s0 = s_type s1.
Proof. intros (_ & _ & H & _). unfold s_type. rewrite H. reflexivity. Qed.

Lemma prune_shape_rel cfg names sh0 sh1 sh1' :
  shape_rel cfg sh0 sh1 -> prune_shape names sh1 = inl sh1' ->
  exists sh0', prune_shape names sh0 = inl sh0' /\ shape_rel cfg sh0' sh1'.
Proof.
  intros (N1 & N2 & N3 & HF). unfold prune_shape.
  rewrite (Forall2_existsb_agree _ (fun st => s_choice st) (fun st => s_choice st) _ _ HF)
    by (intros x y (_ & _ & _ & H & _); symmetry; exact H).
  destruct (existsb (fun st => s_choice st) (sh_stmts sh1)); [discriminate|].
  intros H; inversion H; subst. eexists. split; [reflexivity|]. repeat split; cbn; try assumption.
  assert (HK : Forall2 (relaxed_from cfg)
                 (filter (fun st => negb (mem_str (s_type st) names)) (sh_stmts sh0))
                 (filter (fun st => negb (mem_str (s_type st) names)) (sh_stmts sh1))).
  { apply Forall2_filter_agree; [exact HF|]. intros x y Hxy. rewrite (relaxed_type _ _ _ Hxy). reflexivity. }
  apply Forall2_app; apply Forall2_filter_agree; try exact HK;
    intros x y (Hi & _); rewrite Hi; reflexivity.
Qed.

Lemma empty_names_rel cfg L0 L1 : Forall2 (shape_rel cfg) L0 L1 -> empty_names L0 = empty_names L1.
Proof.
  intros H. unfold empty_names. apply (Forall2_map_eq (shape_rel cfg)).
  - apply Forall2_filter_agree; [exact H|]. intros x y (_ & _ & _ & HF). destruct HF; reflexivity.
  - intros x y (Hn & _). exact Hn.
Qed.

Lemma clean_shapes_rel cfg fuel : forall L0 L1 L1',
  Forall2 (shape_rel cfg) L0 L1 -> clean_shapes fuel L1 = inl L1' ->
  exists L0', clean_shapes fuel L0 = inl L0' /\ Forall2 (shape_rel cfg) L0' L1'.
Proof.
  induction fuel as [|f IH]; intros L0 L1 L1' HF H; cbn [clean_shapes] in *.
  - inversion H; subst. exists L0. split; [reflexivity | exact HF].
  - rewrite (empty_names_rel cfg L0 L1 HF). destruct (empty_names L1) as [|n names].
    + inversion H; subst. exists L0. split; [reflexivity | exact HF].
    + destruct (map_err (prune_shape (n :: names)) (filter _ L1)) as [l1|e] eqn:E; [|discriminate].
      assert (HF' : Forall2 (shape_rel cfg)
                      (filter (fun s => negb (mem_str (sh_name s) (n :: names))) L0)
                      (filter (fun s => negb (mem_str (sh_name s) (n :: names))) L1)).
      { apply Forall2_filter_agree; [exact HF|]. intros x y (Hn & _). rewrite Hn. reflexivity. }
      destruct (map_err_rel (shape_rel cfg) (shape_rel cfg) (prune_shape (n :: names)) (prune_shape (n :: names))
                            _ _ l1 HF') as [l0 [E0 HF0]]; [|exact E|].
      * intros x y y' Hxy Hy. eapply prune_shape_rel; eassumption.
      * rewrite E0. apply (IH l0 l1 L1' HF0 H).
Qed.

Lemma Forall2_len {A B} (R : A -> B -> Prop) l0 l1 : Forall2 R l0 l1 -> List.length l0 = List.length l1.
Proof. induction 1; cbn; congruence. Qed.

Lemma Forall2_eq_refl {A} (l : list A) : Forall2 (fun x y => x = y) l l.
Proof. induction l; constructor; auto. Qed.

(** T1, two runs *)
Theorem mode_on_off fa cfg thr P C L1 :
  shex fa (with_ac true cfg) thr P C = inl L1 ->
  exists L0, shex fa (with_ac false cfg) thr P C = inl L0 /\ Forall2 (shape_rel cfg) L0 L1.
Proof.
  unfold shex. cbn [x_remove_empty with_ac].
  destruct (map_err (shex_class fa (with_ac true cfg) thr C) P) as [l1|e] eqn:E1; [|discriminate].
  pose proof (Forall2_eq_refl P) as HP.
  destruct (map_err_rel (fun x y : str * centry => x = y) (shape_rel cfg)
                        (shex_class fa (with_ac false cfg) thr C) (shex_class fa (with_ac true cfg) thr C)
                        P P l1 HP) as [l0 [E0 HF]]; [|exact E1|].
  - intros x y y' -> Hy. apply shex_class_on_off. exact Hy.
  - rewrite E0. destruct (x_remove_empty cfg).
    + intros H. apply (clean_shapes_rel cfg _ l0 l1 L1 HF).
      assert (Hlen : List.length l0 = List.length l1) by (eapply Forall2_len; exact HF).
      rewrite Hlen. exact H.
    + intros H; inversion H; subst. exists l0. split; [reflexivity | exact HF].
Qed.

(** corollary in the words of the property: for every statement of the OFF run
    the ON run has, at the same position, the same statement with the same
    cardinality unless it is one the ON run relaxed to '?' / '*' *)
Corollary mode_off_same_cards fa cfg thr P C L1 :
  shex fa (with_ac true cfg) thr P C = inl L1 ->
  exists L0, shex fa (with_ac false cfg) thr P C = inl L0 /\
    Forall2 (fun sh0 sh1 =>
      sh_name sh0 = sh_name sh1 /\
      Forall2 (fun s0 s1 => s_inv s1 = s_inv s0 /\ s_prop s1 = s_prop s0 /\ s_types s1 = s_types s0 /\
                            (s_card s1 = s_card s0 \/ s_card s1 = COpt \/ s_card s1 = CStar))
              (sh_stmts sh0) (sh_stmts sh1)) L0 L1.
Proof.
  intros H. destruct (mode_on_off _ _ _ _ _ _ H) as [L0 [E HF]]. exists L0. split; [exact E|].
  eapply Forall2_impl; [|exact HF]. intros sh0 sh1 (Hn & _ & _ & HS). split; [exact Hn|].
  eapply Forall2_impl; [|exact HS]. intros s0 s1 (A1 & A2 & A3 & _ & _ & Hc).
  repeat split; try assumption. destruct Hc as [Hc | [c [Hc _]]]; [left; exact Hc | right].
  rewrite Hc. unfold relax_card. destruct (_ && _); [left | right]; reflexivity.
Qed.
