(** * C10: the instances dictionary built by the model denotes what the
    specification says (lemmas; the statements are in Props/C10.v). *)
From Coq Require Import List Ascii String ZArith NArith Bool Lia.
From Shexer Require Import Lib.PyStr Lib.Dict Gen.Consts Spec.Rdf Spec.Selectors
     Model.Tracker Model.Selectors Model.SelectorsDom Proofs.SelectorStrings Proofs.SelectorParse.
Import ListNotations.

(** ** [labels_of] under the dictionary updates of the trackers *)

Lemma labels_dupd_same d k x :
  labels_of (dupd d k [] (fun l => l ++ x)) k = labels_of d k ++ x.
Proof.
  unfold labels_of, dupd. destruct (dget d k) as [v|] eqn:E; rewrite dget_dset_same; reflexivity.
Qed.

Lemma labels_dupd_other d k k' x :
  k <> k' -> labels_of (dupd d k [] (fun l => l ++ x)) k' = labels_of d k'.
Proof.
  intros Hne. unfold labels_of, dupd. destruct (dget d k) as [v|]; rewrite dget_dset_other by assumption; reflexivity.
Qed.

Lemma labels_dupd d k k' x :
  labels_of (dupd d k [] (fun l => l ++ x)) k' = labels_of d k' ++ (if str_eqb k k' then x else []).
Proof.
  destruct (str_eqb k k') eqn:E.
  - apply str_eqb_eq in E. subst. apply labels_dupd_same.
  - apply str_eqb_neq in E. rewrite labels_dupd_other by assumption. rewrite app_nil_r. reflexivity.
Qed.

Lemma labels_dupd_gen d k k' f :
  labels_of (dupd d k [] f) k' = if str_eqb k k' then f (labels_of d k') else labels_of d k'.
Proof.
  destruct (str_eqb k k') eqn:E.
  - apply str_eqb_eq in E. subst k'. unfold labels_of, dupd.
    destruct (dget d k) as [v|] eqn:Ek; rewrite dget_dset_same; reflexivity.
  - apply str_eqb_neq in E. unfold labels_of, dupd.
    destruct (dget d k) as [v|]; rewrite dget_dset_other by assumption; reflexivity.
Qed.

(** keys stay distinct *)
Lemma dset_keys_mem {V} (d : dict V) k v v' : dget d k = Some v' -> map fst (dset d k v) = map fst d.
Proof.
  induction d as [|[k0 v0] d IH]; cbn; [discriminate|].
  destruct (str_eqb k k0) eqn:E; cbn; [reflexivity|]. intros H. rewrite IH by assumption. reflexivity.
Qed.

Lemma dupd_keys_nodup {V} (d : dict V) k dflt f : NoDup (map fst d) -> NoDup (map fst (dupd d k dflt f)).
Proof.
  intros H. unfold dupd. destruct (dget d k) as [v|] eqn:E.
  - rewrite (dset_keys_mem _ _ _ _ E). assumption.
  - rewrite dset_notin by (apply dget_None_notin; assumption). rewrite map_app. cbn.
    apply NoDup_snoc; [assumption | apply dget_None_notin; assumption].
Qed.

(** every label stored in a dictionary *)
Lemma all_classes_dset d k v y :
  In y (all_classes_in (dset d k v)) -> In y (all_classes_in d) \/ In y v.
Proof.
  unfold all_classes_in. induction d as [|[k0 v0] d IH]; cbn.
  - rewrite app_nil_r. auto.
  - destruct (str_eqb k k0); cbn; rewrite !in_app_iff; [tauto|].
    intros [H|H]; [tauto|]. destruct (IH H); tauto.
Qed.

Lemma labels_in_all d k y : In y (labels_of d k) -> In y (all_classes_in d).
Proof.
  unfold labels_of. destruct (dget d k) as [v|] eqn:E; [|intros []].
  intros H. apply dget_In in E. unfold all_classes_in. apply in_flat_map. exists (k, v). auto.
Qed.

Lemma all_classes_dupd d k x y :
  In y (all_classes_in (dupd d k [] (fun l => l ++ x))) -> In y (all_classes_in d) \/ In y x.
Proof.
  unfold dupd. destruct (dget d k) as [v|] eqn:E; intros H; apply all_classes_dset in H.
  - destruct H as [H|H]; [auto|]. apply in_app_iff in H. destruct H; [|auto].
    left. apply (labels_in_all d k). unfold labels_of. rewrite E. assumption.
  - destruct H as [H|H]; [auto|]. cbn in H. auto.
Qed.

Lemma all_classes_dupd_gen d k f y :
  In y (all_classes_in (dupd d k [] f)) -> In y (all_classes_in d) \/ In y (f (labels_of d k)).
Proof.
  unfold dupd, labels_of. destruct (dget d k) as [v|] eqn:E; intros H; apply all_classes_dset in H; tauto.
Qed.

(** ** the pure tracker *)

Definition class_contrib (tau : str) (m : tmode) (k : str) (G : graph) : list str :=
  flat_map (fun t => if relevant tau m t && str_eqb (nid (ts t)) k
                     then match to t with ON o => [nid o] | OL _ _ => [] end
                     else []) G.

Lemma track_plain_char tau m G :
  forall d,
    (forall t, In t G -> relevant tau m t = true -> exists o, to t = ON o) ->
    exists d', track_plain tau m G d = inl d' /\
               (forall k, labels_of d' k = labels_of d k ++ class_contrib tau m k G) /\
               (NoDup (map fst d) -> NoDup (map fst d')) /\
               (forall y, In y (all_classes_in d') ->
                          In y (all_classes_in d) \/ exists t o, In t G /\ relevant tau m t = true /\ to t = ON o /\ y = nid o).
Proof.
  induction G as [|t G IH]; intros d Hobj.
  - exists d. cbn. repeat split; auto. intros k. rewrite app_nil_r. reflexivity.
  - cbn [track_plain]. destruct (relevant tau m t) eqn:R.
    + destruct (Hobj t (or_introl eq_refl) R) as [o Ho]. unfold annotate. rewrite Ho.
      destruct (IH (dupd d (nid (ts t)) [] (fun cs => cs ++ [nid o]))) as [d' [Hd' [Hl [Hn Ha]]]].
      { intros t' Ht'. apply Hobj. right. assumption. }
      exists d'. split; [assumption|]. split; [|split].
      * intros k. rewrite Hl, labels_dupd. unfold class_contrib. cbn [flat_map]. rewrite R, Ho. cbn [andb].
        rewrite <- app_assoc. reflexivity.
      * intros Hnd. apply Hn. apply dupd_keys_nodup. assumption.
      * intros y Hy. destruct (Ha y Hy) as [H|[t' [o' [Ht' H]]]].
        -- apply all_classes_dupd in H. destruct H as [H|[H|[]]]; [auto|]. right. exists t, o. subst. cbn. auto.
        -- right. exists t', o'. cbn. tauto.
    + destruct (IH d) as [d' [Hd' [Hl [Hn Ha]]]].
      { intros t' Ht'. apply Hobj. right. assumption. }
      exists d'. split; [assumption|]. split; [|split]; auto.
      * intros k. rewrite Hl. unfold class_contrib. cbn [flat_map]. rewrite R. reflexivity.
      * intros y Hy. destruct (Ha y Hy) as [H|[t' [o' [Ht' H]]]]; [auto|]. right. exists t', o'. cbn. tauto.
Qed.

(** ** the shape-map tracker *)

Definition targets_contrib (k label : str) (nodes : list str) : list str :=
  flat_map (fun n => if str_eqb n k then [label] else []) nodes.

(** [add_label] with the membership test of the code (flag_dedup) *)
Lemma labels_add_label d n label k :
  labels_of (add_label d n label) k =
  if str_eqb n k
  then (if mem_str label (labels_of d k) then labels_of d k else labels_of d k ++ [label])
  else labels_of d k.
Proof. unfold add_label. rewrite labels_dupd_gen, flag_dedup. reflexivity. Qed.

Lemma In_add_label d n label k key :
  In key (labels_of (add_label d n label) k) <->
  In key (labels_of d k) \/ (n = k /\ key = label).
Proof.
  rewrite labels_add_label. destruct (str_eqb n k) eqn:E.
  - apply str_eqb_eq in E. subst k. destruct (mem_str label (labels_of d n)) eqn:M.
    + apply mem_str_In in M. split; [auto|]. intros [H|[_ ->]]; assumption.
    + rewrite in_app_iff. cbn [In]. split; [intros [H|[H|[]]]; auto | intros [H|[_ ->]]; auto].
  - apply str_eqb_neq in E. split; [auto | intros [H|[H _]]; [assumption | contradiction]].
Qed.

Lemma NoDup_add_label d n label k : NoDup (labels_of d k) -> NoDup (labels_of (add_label d n label) k).
Proof.
  intros H. rewrite labels_add_label. destruct (str_eqb n k); [|assumption].
  destruct (mem_str label (labels_of d k)) eqn:M; [assumption|].
  apply NoDup_snoc; [assumption|]. intros Hin. apply mem_str_In in Hin. congruence.
Qed.

Lemma fold_add_label nodes : forall d label k key,
  In key (labels_of (fold_left (fun acc n => add_label acc n label) nodes d) k) <->
  In key (labels_of d k) \/ In key (targets_contrib k label nodes).
Proof.
  induction nodes as [|n nodes IH]; intros d label k key; cbn [fold_left].
  - unfold targets_contrib. cbn. tauto.
  - rewrite IH, In_add_label. unfold targets_contrib. cbn [flat_map]. rewrite in_app_iff.
    destruct (str_eqb n k) eqn:E.
    + apply str_eqb_eq in E. cbn [In]. intuition (subst; auto).
    + apply str_eqb_neq in E. cbn [In]. intuition congruence.
Qed.

Lemma fold_add_label_nodup nodes : forall d label k,
  NoDup (labels_of d k) -> NoDup (labels_of (fold_left (fun acc n => add_label acc n label) nodes d) k).
Proof.
  induction nodes as [|n nodes IH]; intros d label k H; cbn [fold_left]; [assumption|].
  apply IH. apply NoDup_add_label. assumption.
Qed.

Lemma fold_add_label_all nodes : forall d label y,
  In y (all_classes_in (fold_left (fun acc n => add_label acc n label) nodes d)) ->
  In y (all_classes_in d) \/ y = label.
Proof.
  induction nodes as [|n nodes IH]; intros d label y; cbn; [auto|].
  intros H. apply IH in H. destruct H as [H|H]; [|auto].
  unfold add_label in H. apply all_classes_dupd_gen in H. destruct H as [H|H]; [auto|].
  destruct (c_sm_dedup_labels && mem_str label (labels_of d n)).
  - left. apply (labels_in_all d n). assumption.
  - apply in_app_iff in H. destruct H as [H|[H|[]]]; [left; apply (labels_in_all d n); assumption | auto].
Qed.

Definition item_contrib (orc : oracles) (G : graph) (k : str) (it : pitem) : list str :=
  match sel_targets orc G (pi_sel it) with
  | Ok nodes => targets_contrib k (pi_label it) nodes
  | Err _ => []
  end.

Lemma track_items_char orc G items :
  forall d,
    (forall it, In it items -> pi_sel it <> PSNone) ->
    exists d', track_items orc G items d = Ok d' /\
               (forall k key, In key (labels_of d' k) <->
                              In key (labels_of d k) \/ In key (flat_map (item_contrib orc G k) items)) /\
               (forall k, NoDup (labels_of d k) -> NoDup (labels_of d' k)) /\
               (forall y, In y (all_classes_in d') -> In y (all_classes_in d) \/ In y (map pi_label items)).
Proof.
  induction items as [|it items IH]; intros d Hne.
  - exists d. cbn. repeat split; auto. intros [H|[]]; assumption.
  - cbn [track_items]. unfold solve_item.
    assert (exists nodes, sel_targets orc G (pi_sel it) = Ok nodes) as [nodes Hn].
    { specialize (Hne it (or_introl eq_refl)). destruct (pi_sel it); cbn; eauto. contradiction. }
    rewrite Hn. cbn [bind].
    destruct (IH (fold_left (fun acc n => add_label acc n (pi_label it)) nodes d)) as [d' [Hd' [Hl [Hnd Ha]]]].
    { intros it' Hit'. apply Hne. right. assumption. }
    exists d'. split; [assumption|]. split; [|split].
    + intros k key. rewrite Hl, fold_add_label. cbn [flat_map]. rewrite in_app_iff.
      unfold item_contrib at 2. rewrite Hn. tauto.
    + intros k H. apply Hnd. apply fold_add_label_nodup. assumption.
    + intros y Hy. destruct (Ha y Hy) as [H|H]; [|right; right; assumption].
      apply fold_add_label_all in H. destruct H as [H|H]; [auto|]. right. left. auto.
Qed.

(** ** _integrate_dicts without key collisions *)

Lemma integrate_classes_nocoll orig cs n :
  (forall c, In c cs -> mem_str c orig = false) -> integrate_classes orig cs n = (cs, n).
Proof.
  induction cs as [|c cs IH]; intros H; [reflexivity|]. cbn [integrate_classes].
  rewrite (H c (or_introl eq_refl)). rewrite IH by (intros; apply H; right; assumption). reflexivity.
Qed.

Definition entries_contrib (k : str) (new : insts) : list str :=
  flat_map (fun e => if str_eqb (fst e) k then snd e else []) new.

Lemma integrate_entries_char orig new :
  (forall y, In y (all_classes_in new) -> mem_str y orig = false) ->
  forall ref n k,
    labels_of (fst (integrate_entries orig new ref n)) k = labels_of ref k ++ entries_contrib k new.
Proof.
  induction new as [|[i cs] new IH]; intros Hno ref n k.
  - cbn. rewrite app_nil_r. reflexivity.
  - cbn [integrate_entries]. rewrite integrate_classes_nocoll.
    2:{ intros c Hc. apply Hno. unfold all_classes_in. cbn. apply in_app_iff. auto. }
    rewrite IH.
    2:{ intros y Hy. apply Hno. unfold all_classes_in in *. cbn. apply in_app_iff. auto. }
    rewrite labels_dupd. unfold entries_contrib. cbn [flat_map fst snd]. rewrite <- app_assoc. reflexivity.
Qed.

Lemma entries_contrib_nodup k (d : insts) : NoDup (map fst d) -> entries_contrib k d = labels_of d k.
Proof.
  unfold entries_contrib, labels_of. induction d as [|[k0 v0] d IH]; cbn; intros Hnd; [reflexivity|].
  inversion Hnd; subst. rewrite (str_eqb_sym_aux k0 k).
  destruct (str_eqb k k0) eqn:E.
  - apply str_eqb_eq in E. subst k0.
    assert (Hnil : flat_map (fun e : str * list str => if str_eqb (fst e) k then snd e else []) d = []).
    { clear IH Hnd H2. induction d as [|[k1 v1] d IHd]; [reflexivity|]. cbn.
      destruct (str_eqb k1 k) eqn:E1.
      - apply str_eqb_eq in E1. subst. exfalso. apply H1. left. reflexivity.
      - apply IHd. intros Hin. apply H1. right. assumption. }
    rewrite Hnil, app_nil_r. reflexivity.
  - apply IH. assumption.
Qed.

(** ** evaluating a compiled selector *)

Lemma dedup_In g : forall seen t, In t (dedup g seen) <-> In t g /\ existsb (triple_eqb t) seen = false.
Proof.
  induction g as [|x g IH]; intros seen t; cbn [dedup].
  - split; [intros [] | intros [[] _]].
  - destruct (existsb (triple_eqb x) seen) eqn:E.
    + rewrite IH. cbn [In]. split; [tauto|]. intros [[H|H] Hs]; [|tauto]. subst. congruence.
    + cbn [In]. rewrite IH. cbn [existsb]. rewrite orb_false_iff. split.
      * intros [H|[H1 [H2 H3]]]; [subst; tauto | tauto].
      * intros [[H|H] Hs]; [auto|]. destruct (triple_eqb t x) eqn:Et.
        -- apply triple_eqb_eq in Et. auto.
        -- right. auto.
Qed.

Lemma rdflib_graph_In G t : In t (rdflib_graph G) <-> In t G.
Proof. unfold rdflib_graph. rewrite dedup_In. cbn. tauto. Qed.

Lemma add_corners_eqb a b : str_eqb (add_corners a) (add_corners b) = str_eqb a b.
Proof.
  destruct (str_eqb a b) eqn:E.
  - apply str_eqb_eq in E. subst. apply str_eqb_refl.
  - apply str_eqb_neq. apply str_eqb_neq in E. intros H. apply E. unfold add_corners in H.
    apply app_inv_head in H. apply app_inv_tail in H. assumption.
Qed.

Lemma add_corners_not_var a : tok_is_var (add_corners a) = false.
Proof. reflexivity. Qed.

Lemma rdf_type_consts : c_uri_RDF_TYPE = rdf_type /\ c_tracker_RDF_TYPE = rdf_type /\ c_RDF_TYPE = rdf_type.
Proof. repeat split; reflexivity. Qed.

Lemma tok_matches_term ns f x :
  (forall r, f = FIri r -> resolve ns r = Some (cref ns r)) ->
  tok_matches (ctok ns f) x = term_matchesb ns f x.
Proof.
  intros Hr. destruct f as [| |r]; cbn [ctok term_matchesb].
  - reflexivity.
  - unfold tok_matches. rewrite add_corners_not_var. cbn [orb].
    destruct x as [[[|] i]|c dt]; cbn [obj_eqb node_eqb nkind_eqb iri_node nk nid andb]; try reflexivity.
    rewrite add_corners_eqb. apply str_eqb_sym_aux.
  - rewrite (Hr r eq_refl). unfold tok_matches. rewrite add_corners_not_var. cbn [orb].
    destruct x as [[[|] i]|c dt]; cbn [obj_eqb node_eqb nkind_eqb iri_node nk nid andb]; try reflexivity.
    rewrite add_corners_eqb. apply str_eqb_sym_aux.
Qed.

Lemma tok_matches_pred ns f p :
  is_wild f = false -> (forall r, f = FIri r -> resolve ns r = Some (cref ns r)) ->
  tok_matches (ctok ns f) (ON (Node KIri p)) = pred_matchesb ns f p.
Proof.
  intros Hw Hr. destruct f as [| |r]; [discriminate | |]; cbn [ctok pred_matchesb].
  - unfold tok_matches. rewrite add_corners_not_var, add_corners_eqb. cbn [orb]. apply str_eqb_sym_aux.
  - rewrite (Hr r eq_refl). unfold tok_matches. rewrite add_corners_not_var, add_corners_eqb. cbn [orb].
    apply str_eqb_sym_aux.
Qed.

Lemma flat_map_filter_map {A B} (c : A -> bool) (g : A -> B) l :
  flat_map (fun t => if c t then [g t] else []) l = map g (filter c l).
Proof. induction l as [|x l IH]; [reflexivity|]. cbn. destruct (c x); cbn; rewrite IH; reflexivity. Qed.

Lemma flat_map_ext_in {A B} (f g : A -> list B) l : (forall x, In x l -> f x = g x) -> flat_map f l = flat_map g l.
Proof.
  induction l as [|x l IH]; intros H; [reflexivity|]. cbn. rewrite (H x (or_introl eq_refl)).
  rewrite IH by (intros; apply H; right; assumption). reflexivity.
Qed.

(** what resolves in a selector of the domain *)
Lemma fterm_resolves ns p0 f :
  wf_ns_facts ns p0 -> ok_fterm ns (pd_of ns) f = true ->
  forall r, f = FIri r -> resolve ns r = Some (cref ns r).
Proof.
  intros W H r ->. cbn [ok_fterm] in H.
  destruct (parse_node_ref _ _ (fun _ => true) r W H) as [_ [Hr _]]. assumption.
Qed.

Lemma ctok_not_focus ns f : str_eqb (ctok ns f) c_sel_FOCUS_VARIABLE = false.
Proof. destruct f; reflexivity. Qed.

Lemma sel_targets_csel ns p0 orc G sel :
  wf_ns_facts ns p0 -> ok_selector ns (pd_of ns) (o_wf orc) sel = true ->
  sel_targets orc G (csel ns sel) =
  Ok (map (rdflib_str (o_rid orc)) (selects_list ns (o_ans orc) (rdflib_graph G) sel)).
Proof.
  intros W H. destruct sel as [r | p o | s p | q]; cbn [ok_selector] in H; cbn [csel sel_targets selects_list].
  - destruct (parse_node_ref _ _ (o_wf orc) r W H) as [_ [Hr _]]. rewrite Hr. reflexivity.
  - apply andb_true_iff in H. destruct H as [H Ho]. apply andb_true_iff in H. destruct H as [Hw Hp].
    apply negb_true_iff in Hw. f_equal. f_equal. unfold focus_rows.
    rewrite <- flat_map_filter_map. apply flat_map_ext_in. intros t _.
    rewrite (tok_matches_pred _ _ _ Hw (fterm_resolves _ _ _ W Hp)).
    rewrite (tok_matches_term _ _ _ (fterm_resolves _ _ _ W Ho)).
    replace (tok_matches c_sel_FOCUS_VARIABLE (ON (ts t))) with true by reflexivity.
    rewrite str_eqb_refl. reflexivity.
  - apply andb_true_iff in H. destruct H as [H Hs]. apply andb_true_iff in H. destruct H as [Hw Hp].
    apply negb_true_iff in Hw. f_equal. f_equal. unfold focus_rows.
    rewrite <- flat_map_filter_map. apply flat_map_ext_in. intros t _.
    rewrite (tok_matches_pred _ _ _ Hw (fterm_resolves _ _ _ W Hp)).
    rewrite (tok_matches_term _ _ _ (fterm_resolves _ _ _ W Hs)).
    replace (tok_matches c_sel_FOCUS_VARIABLE (to t)) with true by reflexivity.
    rewrite andb_true_r. rewrite ctok_not_focus. reflexivity.
  - reflexivity.
Qed.

(** the computable denotation of a selector and the specification's *)

Lemma term_matchesb_spec ns f x : term_matchesb ns f x = true <-> term_matches ns f x.
Proof.
  destruct f as [| |r]; cbn.
  - tauto.
  - rewrite obj_eqb_eq. tauto.
  - destruct (resolve ns r) as [i|].
    + rewrite obj_eqb_eq. split; [intros ->; exists i; auto | intros [j [Hj ->]]; inversion Hj; reflexivity].
    + split; [discriminate | intros [j [Hj _]]; discriminate].
Qed.

Lemma pred_matchesb_spec ns f p : pred_matchesb ns f p = true <-> pred_matches ns f p.
Proof.
  destruct f as [| |r]; cbn.
  - split; [discriminate | tauto].
  - apply str_eqb_eq.
  - destruct (resolve ns r) as [i|].
    + rewrite str_eqb_eq. split; [intros ->; reflexivity | intros H; inversion H; reflexivity].
    + split; discriminate.
Qed.

Lemma selects_list_spec ns ans G sel x : In x (selects_list ns ans G sel) <-> selects ns ans G sel x.
Proof.
  destruct sel as [r | p o | s p | q]; cbn [selects_list selects].
  - destruct (resolve ns r) as [i|]; cbn.
    + split; [intros [<-|[]]; exists i; auto | intros [j [Hj ->]]; inversion Hj; auto].
    + split; [intros [] | intros [j [Hj _]]; discriminate].
  - rewrite in_map_iff. split.
    + intros [t [<- Ht]]. apply filter_In in Ht. destruct Ht as [Ht Hc]. apply andb_true_iff in Hc.
      exists t. rewrite <- pred_matchesb_spec, <- term_matchesb_spec. tauto.
    + intros [t [Ht [-> [Hp Ho]]]]. exists t. split; [reflexivity|]. apply filter_In. split; [assumption|].
      apply andb_true_iff. rewrite pred_matchesb_spec, term_matchesb_spec. tauto.
  - rewrite in_map_iff. split.
    + intros [t [<- Ht]]. apply filter_In in Ht. destruct Ht as [Ht Hc]. apply andb_true_iff in Hc.
      exists t. rewrite <- pred_matchesb_spec, <- term_matchesb_spec. tauto.
    + intros [t [Ht [-> [Hs Hp]]]]. exists t. split; [reflexivity|]. apply filter_In. split; [assumption|].
      apply andb_true_iff. rewrite pred_matchesb_spec, term_matchesb_spec. tauto.
  - tauto.
Qed.

Lemma selects_list_rdflib ns ans G sel x :
  In x (selects_list ns ans (rdflib_graph G) sel) <-> In x (selects_list ns ans G sel).
Proof.
  rewrite !selects_list_spec. destruct sel; cbn [selects]; try tauto;
    split; intros [t [Ht H]]; exists t; (split; [apply rdflib_graph_In; assumption | assumption]) ||
                                         (split; [apply rdflib_graph_In in Ht; assumption | assumption]).
Qed.

(** ** keys *)

Definition wf_key (S : skey) : bool :=
  match S with
  | KClass c => negb (prefixb (Str "_:") c) && negb (prefixb (Str "<") c)
  | KLabel _ => true
  end.

Lemma wf_node_inj a b : wf_node a = true -> wf_node b = true -> nid a = nid b -> a = b.
Proof.
  destruct a as [[|] i], b as [[|] j]; unfold wf_node; cbn [nk nid]; intros Ha Hb E; subst; try reflexivity.
  - rewrite Hb in Ha. discriminate.
  - rewrite Ha in Hb. discriminate.
Qed.

Lemma wf_node_iri n c : wf_node n = true -> nid n = c -> prefixb (Str "_:") c = false -> n = Node KIri c.
Proof.
  destruct n as [[|] i]; unfold wf_node; cbn [nk nid]; intros Hn E Hc; subst; [reflexivity|].
  rewrite Hn in Hc. discriminate.
Qed.

Lemma In_targets_contrib key k label nodes :
  In key (targets_contrib k label nodes) <-> key = label /\ In k nodes.
Proof.
  unfold targets_contrib. rewrite in_flat_map. split.
  - intros [n [Hn H]]. destruct (str_eqb n k) eqn:E; [|destruct H].
    apply str_eqb_eq in E. destruct H as [H|[]]. subst. auto.
  - intros [-> H]. exists k. rewrite str_eqb_refl. cbn. auto.
Qed.

(** a node key among the rdflib strings of IRI answers *)
Lemma In_rdflib_str rid xs n :
  forallb is_iri_obj xs = true -> wf_node n = true ->
  (In (nid n) (map (rdflib_str rid) xs) <-> In (ON n) xs).
Proof.
  intros Hall Hn. rewrite forallb_forall in Hall. rewrite in_map_iff. split.
  - intros [x [Hx Hin]]. specialize (Hall x Hin). destruct x as [[[|] i]|c dt]; try discriminate.
    cbn in Hx, Hall. apply negb_true_iff in Hall. subst i.
    rewrite (wf_node_iri n (nid n) Hn eq_refl Hall). assumption.
  - intros Hin. exists (ON n). split; [|assumption]. specialize (Hall _ Hin).
    destruct n as [[|] i]; [reflexivity | discriminate].
Qed.

Lemma angle_inj a b : Str "<" ++ a ++ Str ">" = Str "<" ++ b ++ Str ">" -> a = b.
Proof. intros H. apply app_inv_head in H. apply app_inv_tail in H. assumption. Qed.

(** ** the class part *)

Lemma In_class_contrib tau m k G c :
  In c (class_contrib tau m k G) <->
  exists t o, In t G /\ relevant tau m t = true /\ nid (ts t) = k /\ to t = ON o /\ nid o = c.
Proof.
  unfold class_contrib. rewrite in_flat_map. split.
  - intros [t [Ht H]]. destruct (relevant tau m t) eqn:R; [|destruct H].
    destruct (str_eqb (nid (ts t)) k) eqn:E; [|destruct H]. apply str_eqb_eq in E.
    destruct (to t) as [o|] eqn:Eo; [|destruct H]. destruct H as [H|[]]. exists t, o. auto.
  - intros [t [o [Ht [R [E [Eo Hc]]]]]]. exists t. split; [assumption|].
    rewrite R, Eo. subst. rewrite str_eqb_refl. cbn. auto.
Qed.

Lemma triple_eta t : T (ts t) (tp t) (to t) = t.
Proof. destruct t; reflexivity. Qed.

(** the class part of the dictionary, for a well-formed graph, node and class *)
Lemma class_part_spec tau m G n c :
  wf_graph G = true -> wf_node n = true -> prefixb (Str "_:") c = false ->
  (In c (class_contrib tau m (nid n) G) <->
   In (T n tau (ON (iri_node c))) G /\ match m with TAll => True | TClasses l => In c l end).
Proof.
  intros WG Wn Wc. rewrite In_class_contrib. unfold wf_graph in WG. rewrite forallb_forall in WG. split.
  - intros [t [o [Ht [R [Es [Eo Ec]]]]]]. specialize (WG t Ht). rewrite Eo in WG.
    apply andb_true_iff in WG. destruct WG as [Ws Wo].
    pose proof (wf_node_inj _ _ Ws Wn Es) as Hs. pose proof (wf_node_iri _ _ Wo Ec Wc) as Ho.
    unfold relevant in R. apply andb_true_iff in R. destruct R as [Rp Rm]. apply str_eqb_eq in Rp.
    split.
    + rewrite <- (triple_eta t) in Ht. rewrite Hs, Rp, Eo, Ho in Ht. exact Ht.
    + destruct m as [|l]; [trivial|]. rewrite Eo, Ho in Rm. apply mem_str_In. assumption.
  - intros [Ht Hm]. exists (T n tau (ON (iri_node c))), (iri_node c). cbn [ts tp to nid iri_node].
    repeat split; auto. unfold relevant. cbn [tp to iri_node]. rewrite str_eqb_refl. cbn [andb].
    destruct m as [|l]; [reflexivity|]. apply mem_str_In. assumption.
Qed.

(** elements of the class part are identifiers of objects of relevant triples *)
Lemma class_contrib_objects tau m k G y :
  In y (class_contrib tau m k G) -> exists t o, In t G /\ relevant tau m t = true /\ to t = ON o /\ y = nid o.
Proof. rewrite In_class_contrib. intros [t [o [H1 [H2 [_ [H3 H4]]]]]]. exists t, o. auto. Qed.

(** ** what [C10_dom] provides *)

Record dom_facts (tg : target) (orc : oracles) (G : graph) (p0 : str) : Prop := {
  df_ns : wf_ns_facts (t_ns tg) p0;
  df_graph : wf_graph G = true;
  df_tau : ok_ref (t_ns tg) (reverse_keys_and_values (t_ns tg)) true c_unprefix_ifp_once (t_tau tg) = true;
  df_shape : if t_all tg
             then t_classes tg = None
             else xorb (match t_classes tg with None => false | Some _ => true end)
                       (match t_items tg with None => false | Some _ => true end) = true;
  df_classes : forall l, t_classes tg = Some l ->
                         l <> [] /\ forall r, In r l -> ok_ref (t_ns tg) (pd_of (t_ns tg)) true c_unprefix_ifp_once r = true;
  df_all : t_all tg = true ->
           forall x, In x (tau_objects G (cref (t_ns tg) (t_tau tg))) ->
                     exists c, x = ON (Node KIri c) /\ prefixb (Str "<") c = false;
  df_items : forall its, t_items tg = Some its ->
                         forall it, In it its -> ok_item (t_ns tg) (pd_of (t_ns tg)) orc G it = true
}.

Lemma dom_facts_of tg orc G : C10_dom tg orc G = true -> exists p0, dom_facts tg orc G p0.
Proof.
  unfold C10_dom. intros H.
  apply andb_true_iff in H; destruct H as [H H0].
  apply andb_true_iff in H; destruct H as [H H1].
  apply andb_true_iff in H; destruct H as [H H2].
  apply andb_true_iff in H; destruct H as [H H3].
  apply andb_true_iff in H; destruct H as [H H4].
  apply andb_true_iff in H; destruct H as [H H5].
  destruct (wf_ns_facts_of _ H) as [p0 W]. exists p0.
  destruct (tau_ok _ _ _ W H4) as [_ [Htau _]].
  constructor; auto.
  - destruct (t_all tg); [|assumption]. destruct (t_classes tg); [discriminate | reflexivity].
  - intros l El. rewrite El in H2. apply andb_true_iff in H2. destruct H2 as [Hlen Hall].
    split.
    + intros ->. discriminate.
    + rewrite forallb_forall in Hall. assumption.
  - intros Hall x Hx. rewrite Hall, Htau in H1. rewrite forallb_forall in H1. specialize (H1 x Hx).
    destruct x as [[[|] c]|]; try discriminate. exists c. split; [reflexivity|]. apply negb_true_iff. assumption.
  - intros its Ei it Hit. rewrite Ei in H0. rewrite forallb_forall in H0. auto.
Qed.

Lemma ok_item_split ns pd orc G it :
  ok_item ns pd orc G it = true ->
  ok_label ns pd (it_label it) = true /\
  ok_selector ns pd (o_wf orc) (it_sel it) = true /\
  forallb is_iri_obj (selects_list ns (o_ans orc) G (it_sel it)) = true.
Proof.
  unfold ok_item. intros H. apply andb_true_iff in H; destruct H as [H H2].
  apply andb_true_iff in H; destruct H as [H0 H1]. auto.
Qed.

Lemma ok_item_syn_of ns orc G it :
  ok_item ns (pd_of ns) orc G it = true -> ok_item_syn ns (o_wf orc) it = true.
Proof.
  intros H. destruct (ok_item_split _ _ _ _ _ H) as [H1 [H2 _]]. unfold ok_item_syn.
  rewrite H1, H2. reflexivity.
Qed.

(** ** the run *)

Definition mode_of (tg : target) : option tmode :=
  if t_all tg then Some TAll
  else match t_classes tg with
       | Some l => Some (TClasses (map (cref (t_ns tg)) l))
       | None => None
       end.

Definition items_part (tg : target) (orc : oracles) (G : graph) (k : str) : list str :=
  match t_items tg with
  | Some its => flat_map (item_contrib orc G k) (map (citem (t_ns tg)) its)
  | None => []
  end.

Definition class_part (tg : target) (G : graph) (k : str) : list str :=
  match mode_of tg with
  | Some m => class_contrib (cref (t_ns tg) (t_tau tg)) m k G
  | None => []
  end.

Lemma class_names_ok ns p0 l :
  wf_ns_facts ns p0 -> (forall r, In r l -> ok_ref ns (pd_of ns) true c_unprefix_ifp_once r = true) ->
  tune_target_classes (map show_ref l) (pd_of ns) = Ok (map (cref ns) l) /\
  model_classes (map (cref ns) l) = map (cref ns) l.
Proof.
  intros W H. split.
  - unfold tune_target_classes. induction l as [|r l IH]; [reflexivity|]. cbn [map mapM].
    destruct (tune_one_ok _ _ r W (H r (or_introl eq_refl))) as [Ht _]. rewrite Ht. cbn [bind].
    rewrite IH by (intros; apply H; right; assumption). reflexivity.
  - unfold model_classes. rewrite map_map. apply map_ext_in. intros r Hr.
    destruct (tune_one_ok _ _ r W (H r Hr)) as [_ [_ Hi]].
    apply noraise_id. apply (if_nocorners _ (ok_iri_facts _ Hi)).
Qed.

Lemma class_name_word ns p0 r :
  wf_ns_facts ns p0 -> ok_ref ns (pd_of ns) true c_unprefix_ifp_once r = true ->
  nospace (show_ref r) = true /\ show_ref r <> [].
Proof.
  intros W H.
  destruct (ok_ref_cases _ _ _ _ _ H) as [[i [-> [_ [Hi _]]]] | [[i [-> Hi]] | [p [l [n [-> [Hn [Hl Hi]]]]]]]];
    cbn [show_ref].
  - pose proof (ok_iri_facts _ Hi) as F. split; [apply (if_nospace _ F) | apply (if_nonempty _ F)].
  - split; [|discriminate]. rewrite !nospace_app, (if_nospace _ (ok_iri_facts _ Hi)). reflexivity.
  - pose proof (ns_of_In _ _ _ Hn) as Hin.
    destruct (ok_prefix_facts _ (wn_prefix_ok _ _ W _ _ Hin)) as [Hs _].
    destruct (ok_local_facts _ _ _ Hl) as [Hls _].
    split; [apply nospace_prefixed; assumption | destruct p; discriminate].
Qed.

Lemma class_file_ok ns p0 l :
  wf_ns_facts ns p0 -> l <> [] -> (forall r, In r l -> ok_ref ns (pd_of ns) true c_unprefix_ifp_once r = true) ->
  file_lines_stripped (show_class_file l) = map show_ref l.
Proof.
  intros W Hne H. unfold file_lines_stripped, show_class_file. change [ascii_of_nat 10] with nl.
  unfold nl at 1. rewrite split_join.
  - rewrite map_id_on.
    + apply filter_all. intros x Hx. apply in_map_iff in Hx. destruct Hx as [r [<- Hr]].
      destruct (class_name_word _ _ r W (H r Hr)) as [_ Hn]. apply negb_true_iff. apply str_eqb_neq. assumption.
    + intros x Hx. apply in_map_iff in Hx. destruct Hx as [r [<- Hr]].
      destruct (class_name_word _ _ r W (H r Hr)) as [Hs _]. apply strip_nospace. assumption.
  - destruct l; [contradiction | discriminate].
  - apply Forall_forall. intros x Hx. apply in_map_iff in Hx. destruct Hx as [r [<- Hr]].
    destruct (class_name_word _ _ r W (H r Hr)) as [Hs _]. apply nospace_nonl. assumption.
Qed.

Lemma pure_mode_ok tg cs fmt orc G p0 :
  dom_facts tg orc G p0 ->
  pure_mode (to_tspec tg cs fmt) (pd_of (t_ns tg)) = Ok (mode_of tg).
Proof.
  intros F. pose proof (df_ns _ _ _ _ F) as W. pose proof (df_shape _ _ _ _ F) as Hs.
  unfold pure_mode, mode_of, to_tspec. cbn [sp_classes sp_all].
  destruct (t_classes tg) as [l|] eqn:El.
  - destruct (t_all tg); [discriminate|].
    destruct (df_classes _ _ _ _ F l El) as [Hne Hall].
    destruct (class_names_ok _ _ l W Hall) as [Ht Hm].
    assert (Hmc : map (cref (t_ns tg)) l <> []) by (destruct l; [contradiction | discriminate]).
    destruct cs.
    + rewrite Ht. cbn [bind]. rewrite Hm. destruct (map (cref (t_ns tg)) l); [contradiction | reflexivity].
    + rewrite (class_file_ok _ _ l W Hne Hall), Ht. cbn [bind]. rewrite Hm.
      destruct (map (cref (t_ns tg)) l); [contradiction | reflexivity].
  - destruct (t_all tg); reflexivity.
Qed.

Lemma parse_smap_ok tg cs fmt orc G p0 :
  dom_facts tg orc G p0 ->
  parse_smap orc (pd_of (t_ns tg)) (sp_smap (to_tspec tg cs fmt)) =
  Ok (option_map (map (citem (t_ns tg))) (t_items tg)).
Proof.
  intros F. pose proof (df_ns _ _ _ _ F) as W. unfold to_tspec. cbn [sp_smap].
  destruct (t_items tg) as [its|] eqn:Ei; [|reflexivity].
  assert (Hsyn : forall it, In it its -> ok_item_syn (t_ns tg) (o_wf orc) it = true).
  { intros it Hit. apply (ok_item_syn_of _ orc G). apply (df_items _ _ _ _ F its Ei it Hit). }
  destruct fmt; cbn [parse_smap].
  - rewrite (parse_fixed_ok _ _ _ _ W Hsyn). reflexivity.
  - rewrite (parse_json_ok _ _ _ _ W Hsyn). reflexivity.
Qed.

Lemma pd_run tg cs fmt orc p0 :
  wf_ns_facts (t_ns tg) p0 ->
  reverse_keys_and_values (ns_with_shapes orc (to_tspec tg cs fmt)) = pd_of (t_ns tg).
Proof. intros W. unfold ns_with_shapes, pd_of, to_tspec. cbn [sp_ns]. rewrite (wn_p0 _ _ W). reflexivity. Qed.

Lemma check_targets_ok tg cs fmt orc G p0 : dom_facts tg orc G p0 -> check_targets (to_tspec tg cs fmt) = true.
Proof.
  intros F. pose proof (df_shape _ _ _ _ F) as Hs. unfold check_targets, to_tspec. cbn [sp_all sp_classes sp_smap].
  destruct (t_all tg).
  - rewrite Hs. reflexivity.
  - destruct (t_classes tg), (t_items tg); try destruct cs; try destruct fmt; cbn in *; congruence.
Qed.

Lemma tau_run tg cs fmt orc G p0 : dom_facts tg orc G p0 -> tau_of (to_tspec tg cs fmt) = cref (t_ns tg) (t_tau tg).
Proof.
  intros F. unfold tau_of, to_tspec. cbn [sp_tau sp_ns].
  destruct (tau_ok _ _ _ (df_ns _ _ _ _ F) (df_tau _ _ _ _ F)) as [H _]. assumption.
Qed.

Lemma citem_not_none ns its it : In it (map (citem ns) its) -> pi_sel it <> PSNone.
Proof.
  intros H. apply in_map_iff in H. destruct H as [it0 [<- _]]. unfold citem. cbn [pi_sel].
  destruct (it_sel it0); discriminate.
Qed.

Lemma relevant_has_node tg orc G p0 m :
  dom_facts tg orc G p0 -> mode_of tg = Some m ->
  forall t, In t G -> relevant (cref (t_ns tg) (t_tau tg)) m t = true -> exists o, to t = ON o.
Proof.
  intros F Hm t Ht R. unfold mode_of in Hm. destruct (t_all tg) eqn:Ea.
  - inversion Hm; subst m. unfold relevant in R. rewrite andb_true_r in R.
    destruct (df_all _ _ _ _ F Ea (to t)) as [c [Hn _]]; [|eauto].
    unfold tau_objects. apply in_map. apply filter_In. auto.
  - destruct (t_classes tg); [|discriminate]. inversion Hm; subst m.
    unfold relevant in R. apply andb_true_iff in R. destruct R as [_ R].
    destruct (to t) as [o|]; [eauto | discriminate].
Qed.

(** the dictionary of a run: per node, the (repetition-free) labels of the
    shape map followed by the classes *)
Lemma run_char tg cs fmt orc G :
  C10_dom tg orc G = true ->
  exists d L1, run orc (to_tspec tg cs fmt) G = OOk d /\
               (forall k, labels_of d k = L1 k ++ class_part tg G k) /\
               (forall k key, In key (L1 k) <-> In key (items_part tg orc G k)) /\
               (forall k, NoDup (L1 k)).
Proof.
  intros Hdom. destruct (dom_facts_of _ _ _ Hdom) as [p0 F]. pose proof (df_ns _ _ _ _ F) as W.
  unfold run. rewrite (check_targets_ok _ cs fmt _ _ _ F). cbn [negb].
  rewrite (pd_run _ cs fmt orc _ W), (parse_smap_ok _ cs fmt _ _ _ F), (pure_mode_ok _ cs fmt _ _ _ F),
          (tau_run _ cs fmt _ _ _ F).
  unfold items_part, class_part.
  destruct (t_items tg) as [its|] eqn:Ei; cbn [option_map].
  - destruct (track_items_char orc G (map (citem (t_ns tg)) its) [] (citem_not_none _ its))
      as [d1 [Hd1 [Hl1 [Hnd1 Ha1]]]].
    rewrite Hd1.
    assert (HL1 : forall k key, In key (labels_of d1 k) <->
                                In key (flat_map (item_contrib orc G k) (map (citem (t_ns tg)) its))).
    { intros k key. rewrite Hl1. cbn. tauto. }
    assert (HN1 : forall k, NoDup (labels_of d1 k)) by (intros k; apply Hnd1; constructor).
    destruct (mode_of tg) as [m|] eqn:Em.
    + destruct (track_plain_char (cref (t_ns tg) (t_tau tg)) m G [] (relevant_has_node _ _ _ _ _ F Em))
        as [d2 [Hd2 [Hl2 [Hn2 Ha2]]]].
      rewrite Hd2. cbn [of_terr].
      eexists. exists (labels_of d1). split; [reflexivity|]. split; [|split; assumption].
      intros k. unfold integrate_dicts. rewrite integrate_entries_char.
      * rewrite entries_contrib_nodup by (apply Hn2; constructor). rewrite Hl2. reflexivity.
      * (* no key collision: labels are bracketed, class identifiers are not *)
        intros y Hy. destruct (Ha2 y Hy) as [[]|[t [o [Ht [R [Eo ->]]]]]].
        assert (Ea : t_all tg = true).
        { unfold mode_of in Em. pose proof (df_shape _ _ _ _ F) as Hs. destruct (t_all tg); [reflexivity|].
          rewrite Ei in Hs. destruct (t_classes tg); cbn in Hs; discriminate. }
        assert (Hm : m = TAll) by (unfold mode_of in Em; rewrite Ea in Em; inversion Em; reflexivity). subst m.
        unfold relevant in R. rewrite andb_true_r in R.
        destruct (df_all _ _ _ _ F Ea (to t)) as [c [Hn Hlt]].
        { unfold tau_objects. apply in_map. apply filter_In. auto. }
        rewrite Eo in Hn. inversion Hn; subst o. cbn [nid] in *.
        destruct (mem_str c (all_classes_in d1)) eqn:Emem; [|reflexivity].
        apply mem_str_In in Emem. destruct (Ha1 _ Emem) as [[]|Hlab].
        rewrite map_map in Hlab. apply in_map_iff in Hlab. destruct Hlab as [it [Hl Hit]].
        unfold citem, clabel in Hl. cbn [pi_label] in Hl. rewrite <- Hl in Hlt. discriminate.
    + eexists. exists (labels_of d1). split; [reflexivity|]. split; [|split; assumption].
      intros k. rewrite app_nil_r. reflexivity.
  - destruct (mode_of tg) as [m|] eqn:Em.
    + destruct (track_plain_char (cref (t_ns tg) (t_tau tg)) m G [] (relevant_has_node _ _ _ _ _ F Em))
        as [d2 [Hd2 [Hl2 _]]].
      rewrite Hd2. cbn [of_terr]. eexists. exists (fun _ => []). split; [reflexivity|].
      split; [|split]; [intros k; rewrite Hl2; reflexivity | intros; tauto | intros; constructor].
    + exfalso. unfold mode_of in Em. pose proof (df_shape _ _ _ _ F) as Hs.
      destruct (t_all tg); [discriminate|]. rewrite Ei in Hs. destruct (t_classes tg); [discriminate|].
      cbn in Hs. discriminate.
Qed.

(** ** from the dictionary to the denotation *)

Lemma items_part_spec tg orc G p0 key n :
  dom_facts tg orc G p0 -> wf_node n = true ->
  (In key (items_part tg orc G (nid n)) <->
   exists its it l, t_items tg = Some its /\ In it its /\ resolve (t_ns tg) (it_label it) = Some l /\
                    key = Str "<" ++ l ++ Str ">" /\
                    selects (t_ns tg) (o_ans orc) G (it_sel it) (ON n)).
Proof.
  intros F Wn. pose proof (df_ns _ _ _ _ F) as W. unfold items_part.
  destruct (t_items tg) as [its|] eqn:Ei.
  2:{ split; [intros [] | intros [its [it [l [H _]]]]; discriminate]. }
  rewrite in_flat_map. split.
  - intros [pit [Hpit Hin]]. apply in_map_iff in Hpit. destruct Hpit as [it [<- Hit]].
    destruct (ok_item_split _ _ _ _ _ (df_items _ _ _ _ F its Ei it Hit)) as [Hlab [Hsel Hiri]].
    destruct (parse_label_ok _ _ _ W Hlab) as [_ Hres].
    unfold item_contrib, citem in Hin. cbn [pi_sel pi_label] in Hin.
    rewrite (sel_targets_csel _ _ _ _ _ W Hsel) in Hin.
    apply In_targets_contrib in Hin. destruct Hin as [-> Hk].
    exists its, it, (cref (t_ns tg) (it_label it)). repeat split; auto.
    apply selects_list_spec. apply selects_list_rdflib.
    apply (In_rdflib_str (o_rid orc)); [|assumption|assumption].
    apply forallb_forall. intros x Hx. apply (proj1 (selects_list_rdflib _ _ _ _ _)) in Hx.
    rewrite forallb_forall in Hiri. auto.
  - intros [its' [it [l [E [Hit [El [-> Hs]]]]]]]. inversion E; subst its'.
    destruct (ok_item_split _ _ _ _ _ (df_items _ _ _ _ F its Ei it Hit)) as [Hlab [Hsel Hiri]].
    exists (citem (t_ns tg) it). split; [apply in_map; assumption|].
    unfold item_contrib, citem. cbn [pi_sel pi_label]. rewrite (sel_targets_csel _ _ _ _ _ W Hsel).
    apply In_targets_contrib. split; [unfold clabel, cref; rewrite El; reflexivity|].
    apply (In_rdflib_str (o_rid orc)); [|assumption|].
    + apply forallb_forall. intros x Hx. apply (proj1 (selects_list_rdflib _ _ _ _ _)) in Hx. rewrite forallb_forall in Hiri. auto.
    + apply selects_list_rdflib. apply selects_list_spec. assumption.
Qed.

(** every stored item label is bracketed; every stored class identifier is not *)
Lemma items_part_angle tg orc G p0 key k :
  dom_facts tg orc G p0 -> In key (items_part tg orc G k) -> has_corners key = true.
Proof.
  intros F. unfold items_part. destruct (t_items tg) as [its|] eqn:Ei; [|intros []].
  rewrite in_flat_map. intros [pit [Hpit Hin]]. apply in_map_iff in Hpit. destruct Hpit as [it [<- Hit]].
  unfold item_contrib, citem in Hin. cbn [pi_sel pi_label] in Hin.
  destruct (sel_targets orc G (csel (t_ns tg) (it_sel it))); [|destruct Hin].
  apply In_targets_contrib in Hin. destruct Hin as [-> _]. apply has_corners_angle.
Qed.

Lemma class_part_plain tg orc G p0 key k :
  dom_facts tg orc G p0 -> In key (class_part tg G k) -> has_corners key = false /\ prefixb (Str "_:") key = false.
Proof.
  intros F. pose proof (df_ns _ _ _ _ F) as W. unfold class_part. destruct (mode_of tg) as [m|] eqn:Em; [|intros []].
  intros H. apply class_contrib_objects in H. destruct H as [t [o [Ht [R [Eo ->]]]]].
  pose proof (df_graph _ _ _ _ F) as WG. unfold wf_graph in WG. rewrite forallb_forall in WG.
  specialize (WG t Ht). rewrite Eo in WG. apply andb_true_iff in WG. destruct WG as [_ Wo].
  unfold mode_of in Em. destruct (t_all tg) eqn:Ea.
  - inversion Em; subst m. unfold relevant in R. rewrite andb_true_r in R.
    destruct (df_all _ _ _ _ F Ea (to t)) as [c [Hc Hlt]].
    { unfold tau_objects. apply in_map. apply filter_In. auto. }
    rewrite Eo in Hc. inversion Hc; subst o. cbn [nid] in *. unfold wf_node in Wo. cbn [nk nid] in Wo.
    apply negb_true_iff in Wo. split; [|assumption]. unfold has_corners. rewrite Hlt. reflexivity.
  - destruct (t_classes tg) as [l|] eqn:El; [|discriminate]. inversion Em; subst m.
    unfold relevant in R. apply andb_true_iff in R. destruct R as [_ R]. rewrite Eo in R.
    destruct o as [[|] c]; [|discriminate]. apply mem_str_In in R. apply in_map_iff in R.
    destruct R as [r [<- Hr]]. destruct (df_classes _ _ _ _ F l El) as [_ Hall].
    destruct (tune_one_ok _ _ r W (Hall r Hr)) as [_ [_ Hi]]. pose proof (ok_iri_facts _ Hi) as Fi.
    cbn [nid]. split; [apply (if_nocorners _ Fi) | apply (if_nobn _ Fi)].
Qed.

Lemma class_targeted_mode tg orc G p0 c :
  dom_facts tg orc G p0 ->
  (class_targeted tg c <->
   exists m, mode_of tg = Some m /\ match m with TAll => True | TClasses l => In c l end).
Proof.
  intros F. pose proof (df_ns _ _ _ _ F) as W. unfold class_targeted, mode_of. pose proof (df_shape _ _ _ _ F) as Hs.
  destruct (t_all tg) eqn:Ea.
  - split; [intros _; exists TAll; auto | auto].
  - destruct (t_classes tg) as [l|] eqn:El.
    + destruct (df_classes _ _ _ _ F l El) as [_ Hall]. split.
      * intros [H|[l' [r [E [Hr Hres]]]]]; [discriminate|]. inversion E; subst l'.
        exists (TClasses (map (cref (t_ns tg)) l)). split; [reflexivity|]. apply in_map_iff. exists r.
        unfold cref. rewrite Hres. auto.
      * intros [m [Em Hm]]. inversion Em; subst m. apply in_map_iff in Hm. destruct Hm as [r [<- Hr]].
        right. exists l, r. destruct (tune_one_ok _ _ r W (Hall r Hr)) as [_ [Hres _]]. auto.
    + split; [intros [H|[l' [r [E _]]]]; discriminate | intros [m [Em _]]; discriminate].
Qed.

Theorem instances_denote tg cs fmt orc G :
  C10_dom tg orc G = true ->
  exists d, run orc (to_tspec tg cs fmt) G = OOk d /\
            forall S n, wf_key S = true -> wf_node n = true ->
                        (In (key_of S) (labels_of d (node_key n)) <-> denote tg (o_ans orc) G S (ON n)).
Proof.
  intros Hdom. destruct (run_char tg cs fmt orc G Hdom) as [d [L1 [Hrun [Hl [HL1 _]]]]].
  destruct (dom_facts_of _ _ _ Hdom) as [p0 F]. pose proof (df_ns _ _ _ _ F) as W.
  exists d. split; [assumption|]. intros S n WS Wn. unfold node_key. rewrite Hl, in_app_iff, HL1.
  destruct (tau_ok _ _ _ W (df_tau _ _ _ _ F)) as [_ [Htau _]].
  destruct S as [c|l]; cbn [key_of denote wf_key] in *.
  - apply andb_true_iff in WS. destruct WS as [Wc1 Wc2]. apply negb_true_iff in Wc1. apply negb_true_iff in Wc2.
    split.
    + intros [H|H].
      * apply (items_part_angle _ _ _ _ _ _ F) in H. unfold has_corners in H. rewrite Wc2 in H. discriminate.
      * unfold class_part in H. destruct (mode_of tg) as [m|] eqn:Em; [|destruct H].
        apply (class_part_spec _ _ _ _ _ (df_graph _ _ _ _ F) Wn Wc1) in H. destruct H as [Ht Hm].
        exists (cref (t_ns tg) (t_tau tg)), n. repeat split; auto.
        apply (class_targeted_mode _ _ _ _ _ F). exists m. auto.
    + intros [tau [s [Hr [Es [Hin Hct]]]]]. right. inversion Es; subst s. rewrite Htau in Hr. inversion Hr; subst tau.
      apply (class_targeted_mode _ _ _ _ _ F) in Hct. destruct Hct as [m [Em Hm]].
      unfold class_part. rewrite Em. apply (class_part_spec _ _ _ _ _ (df_graph _ _ _ _ F) Wn Wc1). auto.
  - split.
    + intros [H|H].
      * apply (items_part_spec _ _ _ _ _ _ F Wn) in H. destruct H as [its [it [l' [Ei [Hit [El [E Hs]]]]]]].
        apply angle_inj in E. subst l'. exists its, it. auto.
      * apply (class_part_plain _ _ _ _ _ _ F) in H. destruct H as [H _]. rewrite has_corners_angle in H. discriminate.
    + intros [its [it [Ei [Hit [Hres Hs]]]]]. left. apply (items_part_spec _ _ _ _ _ _ F Wn).
      exists its, it, l. auto.
Qed.

(** nothing else is stored: every entry of the dictionary stands for a denoted node *)
Theorem no_junk tg cs fmt orc G :
  C10_dom tg orc G = true ->
  forall d, run orc (to_tspec tg cs fmt) G = OOk d ->
  forall k key, In key (labels_of d k) ->
    exists S n, wf_key S = true /\ wf_node n = true /\ key = key_of S /\ k = node_key n /\
                denote tg (o_ans orc) G S (ON n).
Proof.
  intros Hdom d Hrun k key Hin.
  destruct (instances_denote tg cs fmt orc G Hdom) as [d' [Hrun' Hden]].
  rewrite Hrun in Hrun'. inversion Hrun'; subst d'.
  destruct (run_char tg cs fmt orc G Hdom) as [d' [L1 [Hrun'' [Hl [HL1 _]]]]].
  rewrite Hrun in Hrun''. inversion Hrun''; subst d'.
  destruct (dom_facts_of _ _ _ Hdom) as [p0 F]. pose proof (df_ns _ _ _ _ F) as W.
  pose proof Hin as Hin0. rewrite Hl, in_app_iff, HL1 in Hin. destruct Hin as [H|H].
  - (* an item label stored for the rdflib string of an answer *)
    unfold items_part in H. destruct (t_items tg) as [its|] eqn:Ei; [|destruct H].
    rewrite in_flat_map in H. destruct H as [pit [Hpit H]]. apply in_map_iff in Hpit. destruct Hpit as [it [<- Hit]].
    destruct (ok_item_split _ _ _ _ _ (df_items _ _ _ _ F its Ei it Hit)) as [Hlab [Hsel Hiri]].
    unfold item_contrib, citem in H. cbn [pi_sel pi_label] in H.
    rewrite (sel_targets_csel _ _ _ _ _ W Hsel) in H. apply In_targets_contrib in H. destruct H as [-> Hk].
    apply in_map_iff in Hk. destruct Hk as [x [Hx Hxin]]. apply (proj1 (selects_list_rdflib _ _ _ _ _)) in Hxin.
    rewrite forallb_forall in Hiri. pose proof (Hiri x Hxin) as Hxi.
    destruct x as [[[|] i]|]; try discriminate. cbn in Hx, Hxi. subst k.
    exists (KLabel (cref (t_ns tg) (it_label it))), (Node KIri i). repeat split; auto.
    apply Hden; auto.
  - pose proof (class_part_plain _ _ _ _ _ _ F H) as [Hc1 Hc2].
    unfold class_part in H. destruct (mode_of tg) as [m|] eqn:Em; [|destruct H].
    apply In_class_contrib in H. destruct H as [t [o [Ht [R [Ek [Eo Ec]]]]]].
    pose proof (df_graph _ _ _ _ F) as WG. unfold wf_graph in WG. rewrite forallb_forall in WG.
    specialize (WG t Ht). apply andb_true_iff in WG. destruct WG as [Ws _].
    assert (Hlt : prefixb (Str "<") key = false).
    { unfold mode_of in Em. destruct (t_all tg) eqn:Ea.
      - inversion Em; subst m. unfold relevant in R. rewrite andb_true_r in R.
        destruct (df_all _ _ _ _ F Ea (to t)) as [c [Hc Hlt]].
        { unfold tau_objects. apply in_map. apply filter_In. auto. }
        rewrite Eo in Hc. inversion Hc; subst o. cbn [nid] in Ec. subst. assumption.
      - destruct (t_classes tg) as [l|] eqn:El; [|discriminate]. inversion Em; subst m.
        unfold relevant in R. apply andb_true_iff in R. destruct R as [_ R]. rewrite Eo in R.
        destruct o as [[|] c]; [|discriminate]. apply mem_str_In in R. apply in_map_iff in R.
        destruct R as [r [Hcr Hr]]. destruct (df_classes _ _ _ _ F l El) as [_ Hall].
        destruct (tune_one_ok _ _ r W (Hall r Hr)) as [_ [_ Hi]]. cbn [nid] in Ec. subst.
        apply (if_nolt _ (ok_iri_facts _ Hi)). }
    exists (KClass key), (ts t). cbn [wf_key key_of]. rewrite Hc2, Hlt. repeat split; auto.
    apply Hden; auto.
    + cbn [wf_key]. rewrite Hc2, Hlt. reflexivity.
    + cbn [key_of]. unfold node_key. rewrite Ek. assumption.
Qed.

(** ** the computable denotation is the specification's *)

Lemma class_targetedb_spec tg c : class_targetedb tg c = true <-> class_targeted tg c.
Proof.
  unfold class_targetedb, class_targeted. rewrite orb_true_iff. split.
  - intros [H|H]; [auto|]. destruct (t_classes tg) as [l|]; [|discriminate]. right.
    apply existsb_exists in H. destruct H as [r [Hr H]]. destruct (resolve (t_ns tg) r) as [c'|] eqn:E; [|discriminate].
    apply str_eqb_eq in H. subst c'. exists l, r. auto.
  - intros [H|[l [r [El [Hr Hres]]]]]; [auto|]. right. rewrite El. apply existsb_exists. exists r.
    rewrite Hres, str_eqb_refl. auto.
Qed.

Theorem denote_list_spec tg ans G S x : In x (denote_list tg ans G S) <-> denote tg ans G S x.
Proof.
  destruct S as [c|l]; cbn [denote_list denote].
  - unfold class_answers. destruct (resolve (t_ns tg) (t_tau tg)) as [tau|] eqn:Et.
    + destruct (class_targetedb tg c) eqn:Ec.
      * rewrite in_map_iff. split.
        -- intros [t [<- Ht]]. apply filter_In in Ht. destruct Ht as [Ht Hc]. apply andb_true_iff in Hc.
           destruct Hc as [Hp Ho]. apply str_eqb_eq in Hp. apply obj_eqb_eq in Ho.
           exists tau, (ts t). repeat split; auto.
           ++ unfold instance_of. rewrite <- Hp, <- Ho, triple_eta. assumption.
           ++ apply class_targetedb_spec. assumption.
        -- intros [tau' [s [Hr [-> [Hin _]]]]]. inversion Hr; subst tau'.
           exists (T s tau (ON (iri_node c))). split; [reflexivity|]. apply filter_In. split; [assumption|].
           cbn [tp to]. rewrite str_eqb_refl. cbn [andb]. apply obj_eqb_eq. reflexivity.
      * split; [intros [] | intros [tau' [s [_ [_ [_ Hct]]]]]]. apply class_targetedb_spec in Hct. congruence.
    + split; [intros [] | intros [tau' [s [Hr _]]]; discriminate].
  - unfold label_answers. destruct (t_items tg) as [its|] eqn:Ei.
    + rewrite in_flat_map. split.
      * intros [it [Hit H]]. destruct (resolve (t_ns tg) (it_label it)) as [l'|] eqn:El; [|destruct H].
        destruct (str_eqb l l') eqn:E; [|destruct H]. apply str_eqb_eq in E. subst l'.
        exists its, it. repeat split; auto. apply selects_list_spec. assumption.
      * intros [its' [it [E [Hit [Hres Hs]]]]]. inversion E; subst its'. exists it. split; [assumption|].
        rewrite Hres, str_eqb_refl. apply selects_list_spec. assumption.
    + split; [intros [] | intros [its' [it [E _]]]; discriminate].
Qed.

(** no literal is an instance on the domain *)
Theorem no_literal_instances tg orc G S c dt :
  C10_dom tg orc G = true -> ~ denote tg (o_ans orc) G S (OL c dt).
Proof.
  intros Hdom. destruct (dom_facts_of _ _ _ Hdom) as [p0 F]. destruct S as [c0|l]; cbn [denote].
  - intros [tau [s [_ [H _]]]]. discriminate.
  - intros [its [it [Ei [Hit [_ Hs]]]]].
    destruct (ok_item_split _ _ _ _ _ (df_items _ _ _ _ F its Ei it Hit)) as [_ [_ Hiri]].
    apply selects_list_spec in Hs. rewrite forallb_forall in Hiri. specialize (Hiri _ Hs). discriminate.
Qed.

(** ** a non-default instantiation property: rdf:type is an ordinary predicate *)

Lemma relevant_not_tau tau m t : tp t <> tau -> relevant tau m t = false.
Proof. intros H. unfold relevant. apply str_eqb_neq in H. rewrite H. reflexivity. Qed.

Theorem tau_ordinary_tracker tau m G :
  tau <> rdf_type ->
  forall d, track_plain tau m G d =
            track_plain tau m (filter (fun t => negb (str_eqb (tp t) rdf_type)) G) d.
Proof.
  intros Hne. induction G as [|t G IH]; intros d; [reflexivity|]. cbn [filter track_plain].
  destruct (str_eqb (tp t) rdf_type) eqn:E; cbn [negb].
  - apply str_eqb_eq in E. rewrite relevant_not_tau by congruence. apply IH.
  - cbn [track_plain]. destruct (relevant tau m t); [|apply IH].
    destruct (annotate d t); [apply IH | reflexivity].
Qed.

(** ** the full statement, and how a concrete input refutes it *)

Definition C10_statement (tg : target) (cs : clsrc) (fmt : smfmt) (orc : oracles) (G : graph) : Prop :=
  exists d, run orc (to_tspec tg cs fmt) G = OOk d /\
            forall S n, wf_key S = true -> wf_node n = true ->
                        (In (key_of S) (labels_of d (node_key n)) <-> denote tg (o_ans orc) G S (ON n)).

Lemma refute_by_missing tg cs fmt orc G d S n :
  run orc (to_tspec tg cs fmt) G = OOk d -> wf_key S = true -> wf_node n = true ->
  existsb (obj_eqb (ON n)) (denote_list tg (o_ans orc) G S) = true ->
  mem_str (key_of S) (labels_of d (node_key n)) = false ->
  ~ C10_statement tg cs fmt orc G.
Proof.
  intros Hrun WS Wn Hden Hmiss [d' [Hrun' H]]. rewrite Hrun in Hrun'. inversion Hrun'; subst d'.
  apply existsb_exists in Hden. destruct Hden as [x [Hx Hxe]]. apply obj_eqb_eq in Hxe. subst x.
  apply denote_list_spec in Hx. apply (H S n WS Wn) in Hx. apply mem_str_In in Hx. congruence.
Qed.

Lemma refute_by_fault tg cs fmt orc G :
  (forall d, run orc (to_tspec tg cs fmt) G <> OOk d) -> ~ C10_statement tg cs fmt orc G.
Proof. intros H [d [Hrun _]]. apply (H d). assumption. Qed.

Definition count_str (k : str) (l : list str) : nat := List.length (filter (str_eqb k) l).

(** ** multiplicities: how many times a key is recorded for a node *)

Definition count_obj (x : obj) (l : list obj) : nat := List.length (filter (obj_eqb x) l).

Lemma count_str_app k a b : count_str k (a ++ b) = (count_str k a + count_str k b)%nat.
Proof. unfold count_str. rewrite filter_app, app_length. reflexivity. Qed.

Lemma count_obj_app x a b : count_obj x (a ++ b) = (count_obj x a + count_obj x b)%nat.
Proof. unfold count_obj. rewrite filter_app, app_length. reflexivity. Qed.

Lemma count_str_notin k l : ~ In k l -> count_str k l = 0%nat.
Proof.
  unfold count_str. induction l as [|x l IH]; intros H; [reflexivity|]. cbn.
  destruct (str_eqb k x) eqn:E; [apply str_eqb_eq in E; subst; exfalso; apply H; left; reflexivity|].
  apply IH. intros Hin. apply H. right. assumption.
Qed.

Lemma count_str_targets key k label nodes :
  count_str key (targets_contrib k label nodes) = if str_eqb key label then count_str k nodes else 0%nat.
Proof.
  unfold targets_contrib. induction nodes as [|n nodes IH]; cbn [flat_map].
  - destruct (str_eqb key label); reflexivity.
  - rewrite count_str_app, IH. unfold count_str at 1 3. cbn [filter].
    rewrite (str_eqb_sym_aux k n). destruct (str_eqb n k); cbn [filter List.length].
    + destruct (str_eqb key label); reflexivity.
    + destruct (str_eqb key label); reflexivity.
Qed.

Lemma count_map_rdflib rid xs n :
  forallb is_iri_obj xs = true -> wf_node n = true ->
  count_str (nid n) (map (rdflib_str rid) xs) = count_obj (ON n) xs.
Proof.
  intros Hall Wn. unfold count_str, count_obj. induction xs as [|x xs IH]; [reflexivity|].
  cbn [forallb] in Hall. apply andb_true_iff in Hall. destruct Hall as [Hx Hall].
  cbn [map filter]. specialize (IH Hall).
  assert (E : str_eqb (nid n) (rdflib_str rid x) = obj_eqb (ON n) x).
  { destruct x as [[[|] i]|c dt]; try discriminate. cbn in Hx. apply negb_true_iff in Hx.
    cbn [rdflib_str obj_eqb]. destruct (str_eqb (nid n) i) eqn:Ei.
    - apply str_eqb_eq in Ei. rewrite (wf_node_iri n i Wn Ei Hx). symmetry. apply node_eqb_eq. reflexivity.
    - symmetry. destruct (node_eqb n (Node KIri i)) eqn:En; [|reflexivity].
      apply node_eqb_eq in En. subst n. cbn in Ei. rewrite str_eqb_refl in Ei. discriminate. }
  rewrite E. destruct (obj_eqb (ON n) x); cbn [List.length]; rewrite IH; reflexivity.
Qed.

(** the rdflib graph of a document without repeated statements is the document *)
Lemma dedup_nodup g : forall seen,
  nodup_graph g = true -> (forall t, In t g -> existsb (triple_eqb t) seen = false) -> dedup g seen = g.
Proof.
  induction g as [|t g IH]; intros seen Hnd Hs; [reflexivity|]. cbn [dedup].
  rewrite (Hs t (or_introl eq_refl)). cbn [nodup_graph] in Hnd. apply andb_true_iff in Hnd.
  destruct Hnd as [Ht Hnd]. apply negb_true_iff in Ht. f_equal. apply IH; [assumption|].
  intros t' Ht'. cbn [existsb]. rewrite (Hs t' (or_intror Ht')), orb_false_r.
  destruct (triple_eqb t' t) eqn:E; [|reflexivity]. apply triple_eqb_eq in E. subst t'.
  assert (existsb (triple_eqb t) g = true) by (apply existsb_exists; exists t; split; [assumption | apply triple_eqb_eq; reflexivity]).
  congruence.
Qed.

Lemma rdflib_graph_nodup G : nodup_graph G = true -> rdflib_graph G = G.
Proof. intros H. apply dedup_nodup; [assumption | reflexivity]. Qed.

Lemma class_count tau m G n c :
  wf_graph G = true -> wf_node n = true -> prefixb (Str "_:") c = false ->
  count_str c (class_contrib tau m (nid n) G) =
  count_obj (ON n)
            (if match m with TAll => true | TClasses l => mem_str c l end
             then map (fun t => ON (ts t))
                      (filter (fun t => str_eqb (tp t) tau && obj_eqb (to t) (ON (iri_node c))) G)
             else []).
Proof.
  intros WG Wn Wc. unfold wf_graph in WG. unfold class_contrib.
  induction G as [|t G IH].
  - destruct (match m with TAll => true | TClasses l => mem_str c l end); reflexivity.
  - cbn [forallb] in WG. apply andb_true_iff in WG. destruct WG as [Wt WG]. specialize (IH WG).
    cbn [flat_map]. rewrite count_str_app, IH. clear IH.
    apply andb_true_iff in Wt. destruct Wt as [Ws Wo].
    set (tgt := match m with TAll => true | TClasses l => mem_str c l end).
    cbn [filter].
    (* the contribution of [t] on both sides *)
    assert (E : count_str c (if relevant tau m t && str_eqb (nid (ts t)) (nid n)
                             then match to t with ON o => [nid o] | OL _ _ => [] end else []) =
                if tgt && (str_eqb (tp t) tau && obj_eqb (to t) (ON (iri_node c))) && obj_eqb (ON n) (ON (ts t))
                then 1%nat else 0%nat).
    { unfold relevant. destruct (str_eqb (tp t) tau) eqn:Ep; cbn [andb]; [|rewrite andb_false_r; reflexivity].
      destruct (to t) as [o|lc ldt] eqn:Eo.
      2:{ destruct m; cbn; rewrite ?andb_false_r; try destruct (str_eqb (nid (ts t)) (nid n)); reflexivity. }
      destruct (str_eqb c (nid o)) eqn:Ec.
      - apply str_eqb_eq in Ec. pose proof (wf_node_iri o c Wo (eq_sym Ec) Wc) as Ho. subst o.
        cbn [obj_eqb]. rewrite (proj2 (node_eqb_eq _ _) eq_refl), andb_true_r.
        assert (Em : match m with TAll => true | TClasses l => mem_str c l end = tgt) by reflexivity.
        destruct m as [|l]; cbn [nid] in *.
        + subst tgt. cbn [andb].
          destruct (str_eqb (nid (ts t)) (nid n)) eqn:Es.
          * apply str_eqb_eq in Es. rewrite (wf_node_inj _ _ Ws Wn Es).
            rewrite (proj2 (node_eqb_eq _ _) eq_refl). unfold count_str. cbn. rewrite str_eqb_refl. reflexivity.
          * destruct (node_eqb n (ts t)) eqn:En; [|reflexivity]. apply node_eqb_eq in En. subst n.
            rewrite str_eqb_refl in Es. discriminate.
        + rewrite Em. destruct tgt; cbn [andb]; [|reflexivity].
          destruct (str_eqb (nid (ts t)) (nid n)) eqn:Es.
          * apply str_eqb_eq in Es. rewrite (wf_node_inj _ _ Ws Wn Es).
            rewrite (proj2 (node_eqb_eq _ _) eq_refl). unfold count_str. cbn. rewrite str_eqb_refl. reflexivity.
          * destruct (node_eqb n (ts t)) eqn:En; [|reflexivity]. apply node_eqb_eq in En. subst n.
            rewrite str_eqb_refl in Es. discriminate.
      - assert (Eo' : obj_eqb (ON o) (ON (iri_node c)) = false).
        { destruct (obj_eqb (ON o) (ON (iri_node c))) eqn:E'; [|reflexivity]. apply obj_eqb_eq in E'.
          inversion E'; subst o. cbn in Ec. rewrite str_eqb_refl in Ec. discriminate. }
        rewrite Eo'. rewrite andb_false_r. cbn [andb].
        destruct (_ && str_eqb (nid (ts t)) (nid n)); [|reflexivity].
        unfold count_str. cbn. rewrite Ec. reflexivity. }
    rewrite E. clear E. destruct tgt; cbn [andb].
    + destruct (str_eqb (tp t) tau && obj_eqb (to t) (ON (iri_node c))); cbn [andb map].
      * unfold count_obj at 2. cbn [filter]. destruct (obj_eqb (ON n) (ON (ts t))); reflexivity.
      * reflexivity.
    + reflexivity.
Qed.

Lemma mode_targets tg orc G p0 c :
  dom_facts tg orc G p0 ->
  match mode_of tg with
  | Some TAll => true
  | Some (TClasses l) => mem_str c l
  | None => false
  end = class_targetedb tg c.
Proof.
  intros F. pose proof (df_ns _ _ _ _ F) as W. unfold mode_of, class_targetedb.
  destruct (t_all tg); [reflexivity|]. cbn [orb].
  destruct (t_classes tg) as [l|] eqn:El; [|reflexivity].
  destruct (df_classes _ _ _ _ F l El) as [_ Hall]. clear El.
  induction l as [|r l IH]; [reflexivity|]. cbn [map mem_str existsb].
  rewrite IH by (intros; apply Hall; right; assumption).
  destruct (tune_one_ok _ _ r W (Hall r (or_introl eq_refl))) as [_ [Hres _]]. rewrite Hres. reflexivity.
Qed.

Lemma nodup_objs_count x l : nodup_objs l = true -> (count_obj x l <= 1)%nat.
Proof.
  unfold count_obj. induction l as [|y l IH]; intros H; [cbn; lia|]. cbn [nodup_objs] in H.
  apply andb_true_iff in H. destruct H as [Hy Hl]. apply negb_true_iff in Hy. cbn [filter].
  destruct (obj_eqb x y) eqn:E; [|auto]. apply obj_eqb_eq in E. subst y. cbn [List.length].
  assert (filter (obj_eqb x) l = []) as ->; [|cbn; lia].
  clear IH Hl. induction l as [|z l IHl]; [reflexivity|]. cbn [existsb] in Hy. apply orb_false_iff in Hy.
  destruct Hy as [Hz Hy]. cbn [filter]. rewrite Hz. auto.
Qed.

Lemma class_answers_once tau c n G :
  nodup_graph G = true ->
  (count_obj (ON n) (map (fun t => ON (ts t))
                         (filter (fun t => str_eqb (tp t) tau && obj_eqb (to t) (ON (iri_node c))) G)) <= 1)%nat.
Proof.
  unfold count_obj. induction G as [|t G IH]; intros H; [cbn; lia|]. cbn [nodup_graph] in H.
  apply andb_true_iff in H. destruct H as [Ht HG]. apply negb_true_iff in Ht. specialize (IH HG). cbn [filter].
  destruct (str_eqb (tp t) tau && obj_eqb (to t) (ON (iri_node c))) eqn:Ef; [|assumption].
  cbn [map filter]. destruct (obj_eqb (ON n) (ON (ts t))) eqn:En; [|assumption]. cbn [List.length].
  apply andb_true_iff in Ef. destruct Ef as [Ep Eo]. apply str_eqb_eq in Ep. apply obj_eqb_eq in Eo.
  apply obj_eqb_eq in En. inversion En; subst n.
  assert (Hnil : filter (obj_eqb (ON (ts t)))
                        (map (fun t0 => ON (ts t0))
                             (filter (fun t0 => str_eqb (tp t0) tau && obj_eqb (to t0) (ON (iri_node c))) G)) = []).
  { clear IH HG. induction G as [|u G IHG]; [reflexivity|]. cbn [existsb] in Ht. apply orb_false_iff in Ht.
    destruct Ht as [Hu Ht]. cbn [filter].
    destruct (str_eqb (tp u) tau && obj_eqb (to u) (ON (iri_node c))) eqn:Ef; [|auto].
    cbn [map filter]. destruct (obj_eqb (ON (ts t)) (ON (ts u))) eqn:E; [|auto].
    exfalso. apply andb_true_iff in Ef. destruct Ef as [Ep' Eo']. apply str_eqb_eq in Ep'. apply obj_eqb_eq in Eo'.
    apply obj_eqb_eq in E. inversion E as [Es].
    assert (t = u) by (rewrite <- (triple_eta t), <- (triple_eta u), Es, Ep, Ep', Eo, Eo'; reflexivity).
    subst u. rewrite (proj2 (triple_eqb_eq t t) eq_refl) in Hu. discriminate. }
  rewrite Hnil. cbn. lia.
Qed.

Lemma NoDup_count_str k l : NoDup l -> (count_str k l <= 1)%nat.
Proof.
  unfold count_str. induction l as [|x l IH]; intros H; [cbn; lia|]. inversion H; subst. cbn [filter].
  destruct (str_eqb k x) eqn:E; [|auto]. apply str_eqb_eq in E. subst x. cbn [List.length].
  rewrite (count_str_notin k l H2 : List.length (filter (str_eqb k) l) = 0%nat). lia.
Qed.

(** without repeated statements every node carries a key at most once: the
    number of instances counted for a shape is the number of distinct nodes it denotes *)
Theorem each_once tg cs fmt orc G :
  C10_dom_count tg orc G = true ->
  exists d, run orc (to_tspec tg cs fmt) G = OOk d /\
            forall S n, wf_key S = true -> wf_node n = true ->
                        (count_str (key_of S) (labels_of d (node_key n)) <= 1)%nat.
Proof.
  unfold C10_dom_count. intros H. apply andb_true_iff in H. destruct H as [Hdom Hnd].
  destruct (run_char tg cs fmt orc G Hdom) as [d [L1 [Hrun [Hl [HL1 HN1]]]]].
  destruct (dom_facts_of _ _ _ Hdom) as [p0 F].
  exists d. split; [assumption|]. intros S n WS Wn. unfold node_key. rewrite Hl, count_str_app.
  destruct S as [c|l]; cbn [key_of wf_key] in *.
  - apply andb_true_iff in WS. destruct WS as [Wc1 Wc2]. apply negb_true_iff in Wc1. apply negb_true_iff in Wc2.
    rewrite count_str_notin.
    2:{ intros H. apply HL1 in H. apply (items_part_angle _ _ _ _ _ _ F) in H. unfold has_corners in H.
        rewrite Wc2 in H. discriminate. }
    cbn [Nat.add]. unfold class_part. destruct (mode_of tg) as [m|]; [|cbn; lia].
    rewrite (class_count _ m _ _ _ (df_graph _ _ _ _ F) Wn Wc1).
    destruct (match m with TAll => true | TClasses l => mem_str c l end); [|cbn; lia].
    apply class_answers_once. assumption.
  - rewrite (count_str_notin _ (class_part tg G (nid n))).
    + rewrite Nat.add_0_r. apply NoDup_count_str. apply HN1.
    + intros H. apply (class_part_plain _ _ _ _ _ _ F) in H. destruct H as [H _].
      rewrite has_corners_angle in H. discriminate.
Qed.

(** the labels of a shape map alone are never repeated, whatever the document *)
Theorem labels_once tg cs fmt orc G :
  C10_dom tg orc G = true ->
  exists d, run orc (to_tspec tg cs fmt) G = OOk d /\
            forall l k, (count_str (Str "<" ++ l ++ Str ">") (labels_of d k) <= 1)%nat.
Proof.
  intros Hdom. destruct (run_char tg cs fmt orc G Hdom) as [d [L1 [Hrun [Hl [HL1 HN1]]]]].
  destruct (dom_facts_of _ _ _ Hdom) as [p0 F].
  exists d. split; [assumption|]. intros l k. rewrite Hl, count_str_app.
  rewrite (count_str_notin _ (class_part tg G k)).
  - rewrite Nat.add_0_r. apply NoDup_count_str. apply HN1.
  - intros H. apply (class_part_plain _ _ _ _ _ _ F) in H. destruct H as [H _].
    rewrite has_corners_angle in H. discriminate.
Qed.
