(** * T3 -- [_clean_line] on the lines of a layout (C07) *)
From Coq Require Import List Ascii String ZArith Bool Lia.
From Shexer Require Import Lib.PyStr Lib.Dict Gen.Consts Spec.Rdf Spec.TtlSyntax Spec.TtlDomain Model.TtlReader
  Proofs.TtlProofs Proofs.TtlExpand Proofs.TtlLiteral.
Import ListNotations.
Local Open Scope Z_scope.

(** ** white space *)

Definition is_bl (c : ascii) : bool := chr_eqb c ttl_blank.

(** no two adjacent blanks, last character not a blank *)
Fixpoint tail_ok (w : str) : bool :=
  match w with
  | [] => true
  | c :: w' =>
    match w' with
    | [] => negb (is_bl c)
    | d :: _ => negb (is_bl c && is_bl d) && tail_ok w'
    end
  end.

Lemma collapse_tail_ok w rest : tail_ok w = true -> collapse_blanks (w ++ rest) = w ++ collapse_blanks rest.
Proof.
  induction w as [|c w IH]; intros H; [reflexivity|].
  cbn [tail_ok] in H. destruct w as [|d w'].
  - cbn [app collapse_blanks]. unfold is_bl in H. apply negb_true_iff in H. rewrite H. reflexivity.
  - apply andb_true_iff in H. destruct H as (H1 & H2). specialize (IH H2).
    change ((c :: d :: w') ++ rest) with (c :: (d :: w') ++ rest).
    cbn [collapse_blanks]. change ((d :: w') ++ rest) with (d :: w' ++ rest) at 1.
    unfold is_bl in H1. destruct (chr_eqb c ttl_blank) eqn:Ec.
    + destruct (chr_eqb d ttl_blank) eqn:Ed; [discriminate H1|].
      change (d :: w' ++ rest) with ((d :: w') ++ rest). rewrite IH. reflexivity.
    + change (d :: w' ++ rest) with ((d :: w') ++ rest). rewrite IH. reflexivity.
Qed.

Definition starts_nonblank (rest : str) : Prop :=
  match rest with [] => True | c :: _ => chr_eqb c ttl_blank = false end.

Lemma collapse_blank_run n rest :
  starts_nonblank rest ->
  collapse_blanks (repeat ttl_blank (S n) ++ rest) = ttl_blank :: collapse_blanks rest.
Proof.
  intros Hr. induction n as [|n IH].
  - cbn [repeat app collapse_blanks]. rewrite chr_eqb_refl.
    destruct rest as [|d r]; [reflexivity|]. unfold starts_nonblank in Hr. rewrite Hr. reflexivity.
  - rewrite <- IH. change (repeat ttl_blank (S (S n)) ++ rest) with (ttl_blank :: ttl_blank :: repeat ttl_blank n ++ rest).
    change (repeat ttl_blank (S n) ++ rest) with (ttl_blank :: repeat ttl_blank n ++ rest). reflexivity.
Qed.

Lemma sub_app a b : sub_other_blanks (a ++ b) = sub_other_blanks a ++ sub_other_blanks b.
Proof. apply map_app. Qed.

Lemma sub_hspace g : hspace g = true -> sub_other_blanks g = repeat ttl_blank (List.length g).
Proof.
  unfold hspace. induction g as [|c g IH]; intros H; [reflexivity|].
  cbn [forallb] in H. apply andb_true_iff in H. destruct H as (Hc & Hg).
  cbn [sub_other_blanks map List.length repeat]. fold (sub_other_blanks g). rewrite (IH Hg). f_equal.
  unfold is_hspace in Hc. apply orb_true_iff in Hc. destruct Hc as [Hc|Hc]; apply Ascii.eqb_eq in Hc; subst c; reflexivity.
Qed.

(** a word: free of CR/LF/TAB *)
Definition no_other_blanks (w : str) : bool := forallb (fun c => negb (mem_chr c ttl_other_blanks)) w.

Lemma sub_word w : no_other_blanks w = true -> sub_other_blanks w = w.
Proof.
  unfold no_other_blanks. induction w as [|c w IH]; intros H; [reflexivity|].
  cbn [forallb] in H. apply andb_true_iff in H. destruct H as (Hc & Hw).
  cbn [sub_other_blanks map]. fold (sub_other_blanks w). rewrite (IH Hw).
  apply negb_true_iff in Hc. rewrite Hc. reflexivity.
Qed.

(** what a word must satisfy to survive cleaning unchanged *)
Definition word_ok (w : str) : bool :=
  no_other_blanks w && tail_ok w && first_ok (fun c => negb (is_space c)) w && last_ok (fun c => negb (is_space c)) w &&
  negb (Nat.eqb (List.length w) 0).

Definition bl (g : str) : str := match g with [] => [] | _ => [ttl_blank] end.

(** the words separated by single blanks, plus one blank if the last gap is not empty *)
Fixpoint sepj (pairs : list (str * str)) : str :=
  match pairs with
  | [] => []
  | [(w, g)] => w ++ bl g
  | (w, g) :: rest => w ++ [ttl_blank] ++ sepj rest
  end.

Definition render_pairs (pairs : list (str * str)) : str :=
  List.concat (map (fun wg => fst wg ++ snd wg) pairs).

(** gaps: runs of blanks/tabs, non-empty except possibly the last *)
Fixpoint pair_gaps_ok (pairs : list (str * str)) : bool :=
  match pairs with
  | [] => true
  | [(w, g)] => hspace g
  | (w, g) :: rest => hspace1 g && pair_gaps_ok rest
  end.

Definition last_gap_empty (pairs : list (str * str)) : bool :=
  match rev pairs with (w, g) :: _ => Nat.eqb (List.length g) 0 | [] => true end.

Lemma word_first_nonblank w : word_ok w = true -> starts_nonblank (w).
Proof.
  unfold word_ok. rewrite !andb_true_iff. intros ((((_ & _) & Hf) & _) & Hne).
  destruct w as [|c w]; [exact I|]. cbn [first_ok] in Hf. unfold starts_nonblank.
  apply negb_true_iff in Hf. unfold chr_eqb. destruct (Ascii.eqb c ttl_blank) eqn:E; [|reflexivity].
  apply Ascii.eqb_eq in E. subst c. discriminate Hf.
Qed.

Lemma starts_nonblank_app w rest : w <> [] -> starts_nonblank w -> starts_nonblank (w ++ rest).
Proof. destruct w; [contradiction | auto]. Qed.

Lemma hspace1_inv g : hspace1 g = true -> hspace g = true /\ exists n, List.length g = S n.
Proof.
  unfold hspace1. intros H. apply andb_true_iff in H. destruct H as (H1 & H2). split; [exact H1|].
  destruct g; [discriminate | eexists; reflexivity].
Qed.

(** tail: nothing, or something that starts with a character that is neither
    a blank nor turned into one (the '#' of a comment) *)
Definition tail_start_ok (tail : str) : Prop :=
  match tail with [] => True | c :: _ => chr_eqb c ttl_blank = false /\ mem_chr c ttl_other_blanks = false end.

Lemma sub_tail_start tail : tail_start_ok tail -> starts_nonblank (sub_other_blanks tail).
Proof.
  destruct tail as [|c t]; [intros _; exact I|]. intros (H1 & H2).
  cbn [sub_other_blanks map starts_nonblank]. rewrite H2. exact H1.
Qed.

Lemma collapse_sub_pairs : forall pairs tail,
  forallb (fun wg => word_ok (fst wg)) pairs = true -> pair_gaps_ok pairs = true ->
  tail_start_ok tail -> (last_gap_empty pairs = true -> tail = []) ->
  collapse_blanks (sub_other_blanks (render_pairs pairs ++ tail)) =
  sepj pairs ++ collapse_blanks (sub_other_blanks tail).
Proof.
  induction pairs as [|(w, g) pairs IH]; intros tail Hw Hg Ht Hlast; [reflexivity|].
  cbn [forallb fst] in Hw. apply andb_true_iff in Hw. destruct Hw as (Hw1 & Hws).
  assert (Hw1' := Hw1). unfold word_ok in Hw1'. rewrite !andb_true_iff in Hw1'.
  destruct Hw1' as ((((Hnob & Htl) & _) & _) & _).
  unfold render_pairs. cbn [map List.concat fst snd]. fold (render_pairs pairs).
  rewrite <- !app_assoc, sub_app, (sub_word w Hnob), (collapse_tail_ok w _ Htl).
  destruct pairs as [|(w2, g2) pairs'].
  - (* last word *)
    cbn [render_pairs map List.concat app sepj]. cbn [pair_gaps_ok] in Hg.
    rewrite sub_app, (sub_hspace g Hg).
    destruct g as [|c g'].
    + cbn [List.length repeat app bl]. rewrite app_nil_r.
      rewrite (Hlast eq_refl). reflexivity.
    + cbn [List.length bl]. rewrite (collapse_blank_run (List.length g') _ (sub_tail_start tail Ht)).
      rewrite <- app_assoc. reflexivity.
  - cbn [pair_gaps_ok] in Hg. apply andb_true_iff in Hg. destruct Hg as (Hg1 & Hgs).
    destruct (hspace1_inv g Hg1) as (Hh & n & Hn).
    rewrite sub_app, (sub_hspace g Hh), Hn.
    assert (Hnext : starts_nonblank (sub_other_blanks (render_pairs ((w2, g2) :: pairs') ++ tail))).
    { cbn [forallb fst] in Hws. apply andb_true_iff in Hws. destruct Hws as (Hw2 & _).
      assert (Hw2' := Hw2). unfold word_ok in Hw2'. rewrite !andb_true_iff in Hw2'.
      destruct Hw2' as ((((Hnob2 & _) & _) & _) & Hne2).
      unfold render_pairs. cbn [map List.concat fst snd]. rewrite <- !app_assoc, sub_app, (sub_word w2 Hnob2).
      apply starts_nonblank_app; [destruct w2; [discriminate Hne2 | discriminate] | apply word_first_nonblank; exact Hw2]. }
    rewrite (collapse_blank_run n _ Hnext).
    rewrite (IH tail Hws Hgs Ht).
    + change (sepj ((w, g) :: (w2, g2) :: pairs')) with (w ++ [ttl_blank] ++ sepj ((w2, g2) :: pairs')).
      rewrite <- !app_assoc. reflexivity.
    + intros H. apply Hlast. unfold last_gap_empty in *. cbn [rev] in *.
      destruct (rev pairs' ++ [(w2, g2)]) eqn:E; [destruct (rev pairs'); discriminate|]. cbn [app]. exact H.
Qed.

(** ** [strip] around a cleaned line *)

Lemma lstrip_bl g c r : is_space c = false -> lstrip (bl g ++ c :: r) = c :: r.
Proof.
  intros Hc. destruct g; cbn [bl app].
  - apply lstrip_first. exact Hc.
  - cbn [lstrip]. change (is_space ttl_blank) with true. cbv iota. apply lstrip_first. exact Hc.
Qed.

Lemma lstrip_app_nonspace (Y : str) c A : is_space c = false ->
  exists Y', lstrip (Y ++ c :: A) = Y' ++ c :: A.
Proof.
  intros Hc. induction Y as [|y Y (Y' & IH)].
  - exists []. apply lstrip_first. exact Hc.
  - cbn [app lstrip]. destruct (is_space y); [exists Y'; exact IH | exists (y :: Y); reflexivity].
Qed.

(** [rstrip] cannot go past a non-space character *)
Lemma rstrip_keep (A : str) c Y : is_space c = false -> exists Z, rstrip (A ++ c :: Y) = A ++ c :: Z.
Proof.
  intros Hc. unfold rstrip. rewrite rev_app_distr. cbn [rev]. rewrite <- app_assoc. cbn [app].
  destruct (lstrip_app_nonspace (rev Y) c (rev A) Hc) as (Y' & E). rewrite E.
  exists (rev Y'). rewrite rev_app_distr. cbn [rev]. rewrite rev_involutive, <- app_assoc. reflexivity.
Qed.

Lemma rstrip_bl (J : str) g : last_ok (fun c => negb (is_space c)) J = true -> J <> [] -> rstrip (J ++ bl g) = J.
Proof.
  intros Hl Hne. unfold rstrip. rewrite rev_app_distr.
  unfold last_ok in Hl. destruct (rev J) as [|c r] eqn:E.
  - exfalso. apply Hne. rewrite <- (rev_involutive J), E. reflexivity.
  - apply negb_true_iff in Hl.
    assert (E2 : lstrip (rev (bl g) ++ c :: r) = c :: r).
    { destruct g; cbn [bl rev app]; [apply lstrip_first; exact Hl|].
      cbn [lstrip]. change (is_space ttl_blank) with true. cbv iota. apply lstrip_first. exact Hl. }
    rewrite E2, <- E. apply rev_involutive.
Qed.

(** the cleaned form, before comment removal, of [lead pairs tail] *)
Definition norm (raw : str) : str := strip (collapse_blanks (sub_other_blanks raw)).

Lemma sepj_first (pairs : list (str * str)) w g rest :
  pairs = (w, g) :: rest -> exists t, sepj pairs = w ++ t.
Proof. intros ->. destruct rest as [|(w2, g2) rest']; cbn [sepj]; eexists; reflexivity. Qed.

(** the words joined by single blanks *)
Definition jwords (pairs : list (str * str)) : str := joined (map fst pairs).

Lemma sepj_jwords : forall pairs, pairs <> [] ->
  sepj pairs = jwords pairs ++ bl (snd (last pairs ([], []))).
Proof.
  induction pairs as [|(w, g) pairs IH]; intros Hne; [contradiction|].
  destruct pairs as [|(w2, g2) pairs'].
  - reflexivity.
  - change (sepj ((w, g) :: (w2, g2) :: pairs')) with (w ++ [ttl_blank] ++ sepj ((w2, g2) :: pairs')).
    rewrite IH by discriminate. unfold jwords. cbn [map fst]. 
    cbn [fst].
    change (joined (w :: w2 :: map fst pairs')) with (w ++ [ttl_blank] ++ joined (w2 :: map fst pairs')).
    rewrite <- !app_assoc. reflexivity.
Qed.

Lemma collapse_lead lead rest :
  hspace lead = true -> starts_nonblank (sub_other_blanks rest) ->
  collapse_blanks (sub_other_blanks (lead ++ rest)) = bl lead ++ collapse_blanks (sub_other_blanks rest).
Proof.
  intros Hl Hr. rewrite sub_app, (sub_hspace lead Hl). destruct lead as [|c l]; [reflexivity|].
  cbn [List.length bl]. apply (collapse_blank_run (List.length l) _ Hr).
Qed.

Lemma joined_first_ok f : forall ws, ws <> [] -> Forall (fun w => w <> [] /\ first_ok f w = true) ws ->
  first_ok f (joined ws) = true /\ joined ws <> [].
Proof.
  intros ws Hne Hall. destruct ws as [|w ws]; [contradiction|].
  inversion Hall as [|? ? (Hw & Hf) _]; subst. rewrite joined_cons.
  destruct w as [|c w]; [contradiction|]. split; [exact Hf | discriminate].
Qed.

Lemma last_ok_app f (a b : str) : b <> [] -> last_ok f (a ++ b) = last_ok f b.
Proof.
  intros Hb. unfold last_ok. rewrite rev_app_distr. destruct (rev b) eqn:E; [|reflexivity].
  exfalso. apply Hb. rewrite <- (rev_involutive b), E. reflexivity.
Qed.

Lemma joined_last_ok f : forall ws, ws <> [] -> Forall (fun w => w <> [] /\ last_ok f w = true) ws ->
  last_ok f (joined ws) = true.
Proof.
  induction ws as [|w ws IH]; intros Hne Hall; [contradiction|].
  inversion Hall as [|? ? (Hw & Hl) Hrest]; subst. rewrite joined_cons.
  destruct ws as [|w2 ws'].
  - cbn [rest_of]. rewrite app_nil_r. exact Hl.
  - unfold rest_of. rewrite last_ok_app by discriminate.
    change (ttl_blank :: joined (w2 :: ws')) with ([ttl_blank] ++ joined (w2 :: ws')).
    assert (Hj : joined (w2 :: ws') <> []).
    { rewrite joined_cons. inversion Hrest as [|? ? (Hw2 & _) _]; subst. destruct w2; [contradiction | discriminate]. }
    rewrite last_ok_app by exact Hj. apply IH; [discriminate | exact Hrest].
Qed.

Lemma word_ok_parts w : word_ok w = true ->
  w <> [] /\ first_ok (fun c => negb (is_space c)) w = true /\ last_ok (fun c => negb (is_space c)) w = true.
Proof.
  unfold word_ok. rewrite !andb_true_iff. intros ((((_ & _) & Hf) & Hl) & Hne).
  split; [destruct w; [discriminate Hne | discriminate] | auto].
Qed.

Lemma words_ok_Forall (pairs : list (str * str)) : forallb (fun wg => word_ok (fst wg)) pairs = true ->
  Forall (fun w => w <> [] /\ first_ok (fun c => negb (is_space c)) w = true) (map fst pairs) /\
  Forall (fun w => w <> [] /\ last_ok (fun c => negb (is_space c)) w = true) (map fst pairs).
Proof.
  intros H. rewrite forallb_forall in H. split; apply Forall_forall; intros w Hin;
    apply in_map_iff in Hin; destruct Hin as (wg & <- & Hin); specialize (H wg Hin);
    destruct (word_ok_parts _ H) as (A & B & C); auto.
Qed.

(** ** the three kinds of lines, before comment removal *)

Section Norm.
  Variables (lead : str) (pairs : list (str * str)).
  Hypothesis Hlead : hspace lead = true.
  Hypothesis Hwords : forallb (fun wg => word_ok (fst wg)) pairs = true.
  Hypothesis Hgaps : pair_gaps_ok pairs = true.
  Hypothesis Hne : pairs <> [].

  Lemma pairs_start : starts_nonblank (sub_other_blanks (render_pairs pairs)) /\
                      forall tail, starts_nonblank (sub_other_blanks (render_pairs pairs ++ tail)).
  Proof.
    destruct pairs as [|(w, g) rest]; [contradiction|].
    cbn [forallb fst] in Hwords. apply andb_true_iff in Hwords. destruct Hwords as (Hw & _).
    assert (Hw' := Hw). unfold word_ok in Hw'. rewrite !andb_true_iff in Hw'. destruct Hw' as ((((Hnob & _) & _) & _) & Hn).
    assert (Hwne : w <> []) by (destruct w; [discriminate Hn | discriminate]).
    unfold render_pairs. cbn [map List.concat fst snd].
    split; [|intros tail]; rewrite <- ?app_assoc, sub_app, (sub_word w Hnob);
      apply starts_nonblank_app; auto using word_first_nonblank.
  Qed.

  (** no comment *)
  Lemma norm_plain : norm (lead ++ render_pairs pairs) = jwords pairs.
  Proof.
    unfold norm. rewrite (collapse_lead lead _ Hlead (proj1 pairs_start)).
    rewrite <- (app_nil_r (render_pairs pairs)).
    rewrite (collapse_sub_pairs pairs [] Hwords Hgaps I (fun _ => eq_refl)).
    cbn [sub_other_blanks map collapse_blanks]. rewrite app_nil_r, (sepj_jwords pairs Hne).
    destruct (words_ok_Forall pairs Hwords) as (HF & HL).
    assert (Hmne : map fst pairs <> []) by (destruct pairs; [contradiction | discriminate]).
    destruct (joined_first_ok _ (map fst pairs) Hmne HF) as (Hf & Hjne).
    pose proof (joined_last_ok _ (map fst pairs) Hmne HL) as Hl.
    unfold strip, jwords in *. destruct (joined (map fst pairs)) as [|c r] eqn:Ej; [contradiction|].
    cbn [first_ok] in Hf. apply negb_true_iff in Hf.
    change ((c :: r) ++ ?x) with (c :: r ++ x). rewrite (lstrip_bl lead c _ Hf).
    change (c :: r ++ ?x) with ((c :: r) ++ x). apply rstrip_bl; [exact Hl | discriminate].
  Qed.

  (** trailing comment: the cleaned words, then blank-#, then something *)
  Lemma norm_comment cmt :
    last_gap_empty pairs = false ->
    exists Z, norm (lead ++ render_pairs pairs ++ Str "#" ++ cmt) = jwords pairs ++ Str " #" ++ Z.
  Proof.
    intros Hlast. unfold norm. rewrite (collapse_lead lead _ Hlead (proj2 pairs_start _)).
    rewrite (collapse_sub_pairs pairs (Str "#" ++ cmt) Hwords Hgaps).
    2:{ split; reflexivity. }
    2:{ intros H. rewrite H in Hlast. discriminate. }
    rewrite (sepj_jwords pairs Hne).
    assert (Hbl : bl (snd (last pairs ([], []))) = [ttl_blank]).
    { unfold last_gap_empty in Hlast. destruct (exists_last Hne) as (p & (w, g) & E). rewrite E in *.
      rewrite rev_app_distr in Hlast. cbn [rev app] in Hlast. rewrite last_last. cbn [snd].
      destruct g; [discriminate Hlast | reflexivity]. }
    rewrite Hbl.
    change (sub_other_blanks (Str "#" ++ cmt)) with (chr "#" :: sub_other_blanks cmt).
    change (collapse_blanks (chr "#" :: sub_other_blanks cmt)) with (chr "#" :: collapse_blanks (sub_other_blanks cmt)).
    destruct (words_ok_Forall pairs Hwords) as (HF & _).
    assert (Hmne : map fst pairs <> []) by (destruct pairs; [contradiction | discriminate]).
    destruct (joined_first_ok _ (map fst pairs) Hmne HF) as (Hf & Hjne).
    unfold strip, jwords in *. destruct (joined (map fst pairs)) as [|c r] eqn:Ej; [contradiction|].
    cbn [first_ok] in Hf. apply negb_true_iff in Hf.
    set (Y := collapse_blanks (sub_other_blanks cmt)).
    rewrite <- !app_assoc. change ((c :: r) ++ ?x) with (c :: r ++ x). rewrite (lstrip_bl lead c _ Hf).
    replace (c :: r ++ [ttl_blank] ++ chr "#" :: Y) with (((c :: r) ++ [ttl_blank]) ++ chr "#" :: Y)
      by (rewrite <- app_assoc; reflexivity).
    destruct (rstrip_keep ((c :: r) ++ [ttl_blank]) (chr "#") Y eq_refl) as (Z & E).
    rewrite E. exists Z. rewrite <- !app_assoc. reflexivity.
  Qed.
End Norm.

(** a whole-line comment: starts with '#' *)
Lemma norm_comment_line lead cmt :
  hspace lead = true -> exists Z, norm (lead ++ Str "#" ++ cmt) = chr "#" :: Z.
Proof.
  intros Hl. unfold norm. rewrite (collapse_lead lead (Str "#" ++ cmt) Hl eq_refl).
  change (sub_other_blanks (Str "#" ++ cmt)) with (chr "#" :: sub_other_blanks cmt).
  change (collapse_blanks (chr "#" :: sub_other_blanks cmt)) with (chr "#" :: collapse_blanks (sub_other_blanks cmt)).
  unfold strip. rewrite (lstrip_bl lead (chr "#") _ eq_refl).
  destruct (rstrip_keep [] (chr "#") (collapse_blanks (sub_other_blanks cmt)) eq_refl) as (Z & E).
  cbn [app] in E. rewrite E. eauto.
Qed.

(** ** comment removal *)

Definition hash_pat : str := Str " #".

(** no blank of [J] is followed by '#' (or by nothing) *)
Definition nohash (J : str) : Prop :=
  forall A R, J = A ++ ttl_blank :: R -> R <> [] /\ prefixb [chr "#"] R = false.

Lemma nohash_contains J : nohash J -> contains ttl_inline_comment J = false.
Proof.
  intros H. unfold contains. change ttl_inline_comment with (ttl_blank :: [chr "#"]).
  assert (E : find_nat (ttl_blank :: [chr "#"]) J = None); [|rewrite E; reflexivity].
  apply find_none_decomp. intros A R HJ. apply (H A R HJ).
Qed.

Definition word_nohash (w : str) : Prop :=
  contains hash_pat w = false /\ last_ok (fun c => negb (is_bl c)) w = true /\
  first_ok (fun c => negb (Ascii.eqb c (chr "#"))) w = true /\ w <> [].

Lemma prefixb_hash_app (R0 X : str) : R0 <> [] -> prefixb [chr "#"] (R0 ++ X) = prefixb [chr "#"] R0.
Proof. destruct R0; [contradiction | reflexivity]. Qed.

Lemma word_nohash_decomp w A R0 :
  word_nohash w -> w = A ++ ttl_blank :: R0 -> R0 <> [] /\ prefixb [chr "#"] R0 = false.
Proof.
  intros (Hc & Hl & _ & _) Hw. split.
  - intros ->. subst w. unfold last_ok in Hl. rewrite rev_app_distr in Hl. cbn in Hl. discriminate Hl.
  - apply contains_false_find in Hc. change hash_pat with (ttl_blank :: [chr "#"]) in Hc.
    apply (proj1 (find_none_decomp ttl_blank [chr "#"] w) Hc A R0 Hw).
Qed.

Lemma nohash_joined : forall ws, Forall word_nohash ws -> nohash (joined ws).
Proof.
  induction ws as [|w ws IH]; intros Hall A R HJ.
  - destruct A; discriminate.
  - inversion Hall as [|? ? Hw Hws]; subst. rewrite joined_cons in HJ.
    destruct (decomp_app ttl_blank (rest_of ws) w A R HJ) as [(R0 & Hw0 & ->) | (A2 & -> & Hrest)].
    + destruct (word_nohash_decomp w A R0 Hw Hw0) as (Hne & Hp).
      split; [destruct R0; [contradiction | discriminate] | rewrite prefixb_hash_app by exact Hne; exact Hp].
    + destruct ws as [|w2 ws']; [destruct A2; discriminate|].
      unfold rest_of in Hrest. destruct A2 as [|a A2']; cbn [app] in Hrest.
      * injection Hrest as <-. inversion Hws as [|? ? Hw2 _]; subst. rewrite joined_cons.
        destruct Hw2 as (_ & _ & Hf & Hne). destruct w2 as [|c w2']; [contradiction|].
        split; [discriminate|]. cbn [first_ok] in Hf. cbn [app prefixb]. apply negb_true_iff in Hf.
        rewrite Ascii.eqb_sym, Hf. reflexivity.
      * injection Hrest as _ Hrest. apply (IH Hws A2' R Hrest).
Qed.

Lemma slice_to_app (J X : str) : slice_to (J ++ X) (len J) = J.
Proof.
  unfold slice_to, norm_idx. pose proof (len_nonneg J). pose proof (len_nonneg X).
  destruct (len J <? 0) eqn:E; [apply Z.ltb_lt in E; lia|].
  rewrite len_app, Z.min_l by lia. unfold len. rewrite Nat2Z.id, firstn_app, firstn_all, Nat.sub_diag. cbn. apply app_nil_r.
Qed.

Lemma last_ok_nonblank_nonempty (J : str) A : J = A ++ [ttl_blank] -> last_ok (fun c => negb (is_bl c)) J = false.
Proof. intros ->. unfold last_ok. rewrite rev_app_distr. reflexivity. Qed.

(** the first blank-# of [J blank-# Z] is the one after [J] *)
Lemma find_comment J Z : nohash J -> find ttl_inline_comment (J ++ hash_pat ++ Z) = len J.
Proof.
  intros H. unfold find. change ttl_inline_comment with hash_pat.
  rewrite (find_nat_app_first hash_pat (hash_pat ++ Z) J); [reflexivity | | apply prefixb_app].
  intros A1 A2 HJ Hne. destruct A2 as [|a A3]; [contradiction|].
  change ((a :: A3) ++ hash_pat ++ Z) with (a :: (A3 ++ hash_pat ++ Z)).
  change (prefixb hash_pat (a :: A3 ++ hash_pat ++ Z))
    with (Ascii.eqb ttl_blank a && prefixb [chr "#"] (A3 ++ hash_pat ++ Z)).
  destruct (Ascii.eqb ttl_blank a) eqn:Ea; [|reflexivity]. apply Ascii.eqb_eq in Ea. subst a. cbn [andb].
  destruct (H A1 A3 HJ) as (Hne3 & Hp).
  rewrite prefixb_hash_app by exact Hne3. exact Hp.
Qed.

Definition quote_free (s : str) : Prop := Forall (fun c => Ascii.eqb ttl_quote c = false) s.

Lemma quote_free_contains s : quote_free s -> contains s_quote s = false.
Proof. intros H. unfold contains. change s_quote with [ttl_quote]. rewrite (find_nat_single_none _ _ H). reflexivity. Qed.

(** (i) nothing to remove *)
Lemma clean_no_hash raw J : norm raw = J -> nohash J -> clean_line raw = Ok J.
Proof.
  intros Hn Hh. unfold clean_line. fold (norm raw). rewrite Hn, (nohash_contains J Hh). reflexivity.
Qed.

(** ** what survives cleaning: only characters of the input, and blanks *)

Lemma collapse_Forall (P : ascii -> Prop) : forall s, Forall P s -> Forall P (collapse_blanks s).
Proof.
  induction s as [|c s IH]; intros H; [constructor|].
  inversion H as [|? ? Hc Hs]; subst. cbn [collapse_blanks].
  destruct (chr_eqb c ttl_blank).
  - destruct s as [|d s']; [repeat constructor; exact Hc|].
    destruct (chr_eqb d ttl_blank); [apply IH; exact Hs | constructor; [exact Hc | apply IH; exact Hs]].
  - constructor; [exact Hc | apply IH; exact Hs].
Qed.

Lemma sub_Forall (P : ascii -> Prop) s : P ttl_blank -> Forall P s -> Forall P (sub_other_blanks s).
Proof.
  intros Hb H. induction H as [|c s Hc Hs IH]; [constructor|].
  cbn [sub_other_blanks map]. constructor; [destruct (mem_chr c ttl_other_blanks); assumption | exact IH].
Qed.

Lemma lstrip_suffix (P : ascii -> Prop) : forall s, Forall P s -> Forall P (lstrip s).
Proof.
  induction s as [|c s IH]; intros H; [constructor|]. inversion H; subst. cbn [lstrip].
  destruct (is_space c); [apply IH; assumption | exact H].
Qed.

Lemma rstrip_Forall (P : ascii -> Prop) s : Forall P s -> Forall P (rstrip s).
Proof.
  intros H. unfold rstrip. apply Forall_rev. apply lstrip_suffix. apply Forall_rev. exact H.
Qed.

Lemma strip_Forall (P : ascii -> Prop) s : Forall P s -> Forall P (strip s).
Proof. intros H. unfold strip. apply rstrip_Forall, lstrip_suffix, H. Qed.

Lemma norm_Forall (P : ascii -> Prop) raw : P ttl_blank -> Forall P raw -> Forall P (norm raw).
Proof. intros Hb H. unfold norm. apply strip_Forall, collapse_Forall, sub_Forall; assumption. Qed.

(** if [norm raw = J ++ blank-# ++ Z] then [Z] is made of characters of [raw] and blanks *)
Lemma norm_tail_Forall (P : ascii -> Prop) raw J Z :
  P ttl_blank -> Forall P raw -> norm raw = J ++ hash_pat ++ Z -> Forall P Z.
Proof.
  intros Hb H E. pose proof (norm_Forall P raw Hb H) as HN. rewrite E in HN.
  apply Forall_app in HN. destruct HN as (_ & HN). apply Forall_app in HN. apply HN.
Qed.
