(** * Lemma library for the insertion-ordered dictionaries of [Lib/Dict.v]
    ([dget/dset/dupd/dmem/dkeys]) and for the cardinality dictionaries
    ([cdict/cget/cincr]) of [Model/Profiler.v].

    Naming: [<observer>_<constructor>_<case>], e.g. [dget_dset_same],
    [dget_dupd_other], [dkeys_dset], [NoDup_dkeys_dupd].

    Facts worth knowing before use:
    - [dget] reads and [dset]/[dupd] write the FIRST entry with the key, so the
      get/set laws hold without any [NoDup] hypothesis;
    - [dset]/[dupd] never reorder: the key list changes only by appending a new
      key at the end ([dkeys_dset], [add_new]);
    - [getN] is "[d.get(k, 0)]" for [dict N];
    - [dmapv] maps over the values and commutes with everything
      ([dget_dmapv], [dset_dmapv], [dupd_dmapv]). *)
From Coq Require Import List Ascii String ZArith NArith Bool Lia Permutation.
From Shexer Require Import Lib.PyStr Lib.Dict Model.Profiler.
Import ListNotations.

(** ** strings *)

Lemma str_eqb_sym a b : str_eqb a b = str_eqb b a.
Proof.
  destruct (str_eqb a b) eqn:E.
  - apply str_eqb_eq in E. subst. symmetry. apply str_eqb_refl.
  - apply str_eqb_neq in E. symmetry. apply str_eqb_neq. congruence.
Qed.

Lemma str_eqb_false_of_neq a b : a <> b -> str_eqb a b = false.
Proof. apply str_eqb_neq. Qed.

Lemma mem_str_false x l : mem_str x l = false <-> ~ In x l.
Proof.
  rewrite <- mem_str_In. destruct (mem_str x l); split; congruence.
Qed.

Lemma mem_str_app x l1 l2 : mem_str x (l1 ++ l2) = mem_str x l1 || mem_str x l2.
Proof.
  induction l1 as [|y l1 IH]; cbn; [reflexivity|]. rewrite IH, orb_assoc. reflexivity.
Qed.

(** ** [add_new] and first-occurrence order *)

(** append [k] unless already present: how the key list of a dictionary evolves *)
Definition add_new (acc : list str) (k : str) : list str :=
  if mem_str k acc then acc else acc ++ [k].

(** duplicates removed, first occurrences kept, order kept *)
Fixpoint first_occ (l : list str) : list str :=
  match l with
  | [] => []
  | x :: r => x :: filter (fun y => negb (str_eqb y x)) (first_occ r)
  end.

Lemma In_add_new acc k x : In x (add_new acc k) <-> In x acc \/ x = k.
Proof.
  unfold add_new. destruct (mem_str k acc) eqn:E.
  - apply mem_str_In in E. split; [auto|]. intros [H|H]; [assumption | subst; assumption].
  - rewrite in_app_iff. cbn. split; intros [H|H]; auto.
    + destruct H as [H|[]]. auto.
Qed.

Lemma NoDup_add_new acc k : NoDup acc -> NoDup (add_new acc k).
Proof.
  intros H. unfold add_new. destruct (mem_str k acc) eqn:E; [assumption|].
  apply mem_str_false in E.
  apply Permutation_NoDup with (l := k :: acc).
  - apply Permutation_cons_append.
  - constructor; assumption.
Qed.

Lemma filter_add_new (f : str -> bool) acc x :
  filter f (add_new acc x) = if f x then add_new (filter f acc) x else filter f acc.
Proof.
  unfold add_new. destruct (mem_str x acc) eqn:E.
  - destruct (f x) eqn:Fx; [|reflexivity].
    assert (M : mem_str x (filter f acc) = true).
    { apply mem_str_In, filter_In. split; [apply mem_str_In; assumption | assumption]. }
    rewrite M. reflexivity.
  - rewrite filter_app. cbn. destruct (f x) eqn:Fx.
    + assert (M : mem_str x (filter f acc) = false).
      { apply mem_str_false. intros H. apply filter_In in H. destruct H as [H _].
        apply mem_str_false in E. contradiction. }
      rewrite M. reflexivity.
    + rewrite app_nil_r. reflexivity.
Qed.

Lemma filter_fold_add_new (f : str -> bool) ks acc :
  filter f (fold_left add_new ks acc) = fold_left add_new (filter f ks) (filter f acc).
Proof.
  revert acc. induction ks as [|x ks IH]; intros acc; cbn; [reflexivity|].
  rewrite IH, filter_add_new. destruct (f x); reflexivity.
Qed.

Lemma fold_add_new_app ks acc b :
  fold_left add_new ks (acc ++ b) =
  acc ++ fold_left add_new (filter (fun k => negb (mem_str k acc)) ks) b.
Proof.
  revert b. induction ks as [|x ks IH]; intros b; cbn; [reflexivity|].
  unfold add_new at 2. rewrite mem_str_app. destruct (mem_str x acc) eqn:E; cbn.
  - apply IH.
  - unfold add_new. destruct (mem_str x b); [apply IH|].
    rewrite <- app_assoc. apply IH.
Qed.

Lemma fold_add_new_absorb ks acc :
  fold_left add_new ks acc =
  acc ++ fold_left add_new (filter (fun k => negb (mem_str k acc)) ks) [].
Proof. rewrite <- (app_nil_r acc) at 1. apply fold_add_new_app. Qed.

Lemma first_occ_fold ks : fold_left add_new ks [] = first_occ ks.
Proof.
  induction ks as [|x ks IH]; cbn; [reflexivity|].
  rewrite fold_add_new_absorb. cbn. f_equal.
  rewrite <- IH. rewrite filter_fold_add_new. cbn. f_equal.
  apply filter_ext. intros k. rewrite orb_false_r. reflexivity.
Qed.

Lemma fold_add_new_first_occ ks acc :
  fold_left add_new ks acc = acc ++ first_occ (filter (fun k => negb (mem_str k acc)) ks).
Proof. rewrite fold_add_new_absorb, first_occ_fold. reflexivity. Qed.

Lemma In_first_occ l x : In x (first_occ l) <-> In x l.
Proof.
  induction l as [|y l IH]; cbn; [tauto|].
  rewrite filter_In, IH. split.
  - intros [H|[H _]]; auto.
  - intros [H|H]; [auto|]. destruct (str_eqb x y) eqn:E.
    + apply str_eqb_eq in E. auto.
    + right. split; [assumption | reflexivity].
Qed.

Lemma NoDup_first_occ l : NoDup (first_occ l).
Proof.
  induction l as [|y l IH]; cbn; constructor.
  - rewrite filter_In. intros [_ H]. rewrite str_eqb_refl in H. discriminate.
  - apply NoDup_filter. assumption.
Qed.

Lemma filter_all_true {A : Type} (f : A -> bool) l :
  (forall x, In x l -> f x = true) -> filter f l = l.
Proof.
  induction l as [|x l IH]; cbn; [reflexivity|]. intros H.
  rewrite (H x) by auto. rewrite IH; [reflexivity|]. intros y Hy. apply H. auto.
Qed.

Lemma first_occ_NoDup l : NoDup l -> first_occ l = l.
Proof.
  induction 1 as [|x l Hx Hl IH]; cbn; [reflexivity|]. f_equal. rewrite IH.
  apply filter_all_true. intros y Hy.
  apply negb_true_iff, str_eqb_neq. intros ->. contradiction.
Qed.

(** ** generic dictionaries *)

Section DictLemmas.
  Context {V : Type}.
  Implicit Types (d : dict V) (k : str) (v : V).

  Lemma dget_dset_same d k v : dget (dset d k v) k = Some v.
  Proof.
    induction d as [|[k' v'] d IH]; cbn.
    - rewrite str_eqb_refl. reflexivity.
    - destruct (str_eqb k k') eqn:E; cbn; rewrite E; [reflexivity | assumption].
  Qed.

  Lemma dget_dset_other d k k' v : k <> k' -> dget (dset d k v) k' = dget d k'.
  Proof.
    intros N. induction d as [|[k0 v0] d IH]; cbn.
    - rewrite (str_eqb_false_of_neq k' k); [reflexivity | congruence].
    - destruct (str_eqb k k0) eqn:E; cbn.
      + apply str_eqb_eq in E. subst k0.
        rewrite (str_eqb_false_of_neq k' k); [reflexivity | congruence].
      + rewrite IH. reflexivity.
  Qed.

  Lemma dget_dset d k k' v :
    dget (dset d k v) k' = if str_eqb k k' then Some v else dget d k'.
  Proof.
    destruct (str_eqb k k') eqn:E.
    - apply str_eqb_eq in E. subst. apply dget_dset_same.
    - apply str_eqb_neq in E. apply dget_dset_other. assumption.
  Qed.

  Lemma dmem_dset_same d k v : dmem (dset d k v) k = true.
  Proof. unfold dmem. rewrite dget_dset_same. reflexivity. Qed.

  Lemma dmem_dset_other d k k' v : k <> k' -> dmem (dset d k v) k' = dmem d k'.
  Proof. intros N. unfold dmem. rewrite dget_dset_other by assumption. reflexivity. Qed.

  Lemma dmem_dset d k k' v : dmem (dset d k v) k' = str_eqb k k' || dmem d k'.
  Proof. unfold dmem. rewrite dget_dset. destruct (str_eqb k k'); reflexivity. Qed.

  (** the value [dupd] stores under [k] *)
  Definition dupd_val d k (dflt : V) (f : V -> V) : V :=
    match dget d k with Some v => f v | None => f dflt end.

  Lemma dupd_dset d k dflt f : dupd d k dflt f = dset d k (dupd_val d k dflt f).
  Proof. unfold dupd, dupd_val. destruct (dget d k); reflexivity. Qed.

  Lemma dget_dupd_same d k dflt f : dget (dupd d k dflt f) k = Some (dupd_val d k dflt f).
  Proof. rewrite dupd_dset. apply dget_dset_same. Qed.

  Lemma dget_dupd_other d k k' dflt f : k <> k' -> dget (dupd d k dflt f) k' = dget d k'.
  Proof. intros N. rewrite dupd_dset. apply dget_dset_other. assumption. Qed.

  Lemma dget_dupd d k k' dflt f :
    dget (dupd d k dflt f) k' = if str_eqb k k' then Some (dupd_val d k dflt f) else dget d k'.
  Proof. rewrite dupd_dset. apply dget_dset. Qed.

  Lemma dmem_dupd_same d k dflt f : dmem (dupd d k dflt f) k = true.
  Proof. rewrite dupd_dset. apply dmem_dset_same. Qed.

  Lemma dmem_dupd_other d k k' dflt f : k <> k' -> dmem (dupd d k dflt f) k' = dmem d k'.
  Proof. intros N. rewrite dupd_dset. apply dmem_dset_other. assumption. Qed.

  Lemma dmem_dupd d k k' dflt f : dmem (dupd d k dflt f) k' = str_eqb k k' || dmem d k'.
  Proof. rewrite dupd_dset. apply dmem_dset. Qed.

  (** *** membership *)

  Lemma dget_In d k v : dget d k = Some v -> In (k, v) d.
  Proof.
    induction d as [|[k' v'] d IH]; cbn; [discriminate|].
    destruct (str_eqb k k') eqn:E.
    - apply str_eqb_eq in E. subst. intros H. inversion H. subst. left. reflexivity.
    - intros H. right. apply IH. assumption.
  Qed.

  Lemma dget_None d k : dget d k = None <-> ~ In k (dkeys d).
  Proof.
    induction d as [|[k' v'] d IH]; cbn; [tauto|].
    destruct (str_eqb k k') eqn:E.
    - apply str_eqb_eq in E. subst. split; [discriminate | intros H; exfalso; apply H; auto].
    - apply str_eqb_neq in E. rewrite IH. split.
      + intros H [H1|H1]; [congruence | contradiction].
      + intros H H1. apply H. auto.
  Qed.

  Lemma dmem_In d k : dmem d k = true <-> In k (dkeys d).
  Proof.
    unfold dmem. destruct (dget d k) eqn:E.
    - split; [intros _ | reflexivity]. apply dget_In in E.
      unfold dkeys. apply in_map_iff. exists (k, v). auto.
    - apply dget_None in E. split; [discriminate | contradiction].
  Qed.

  Lemma dmem_false d k : dmem d k = false <-> ~ In k (dkeys d).
  Proof. rewrite <- dmem_In. destruct (dmem d k); split; congruence. Qed.

  Lemma dmem_mem_str d k : dmem d k = mem_str k (dkeys d).
  Proof.
    destruct (mem_str k (dkeys d)) eqn:E.
    - apply dmem_In, mem_str_In. assumption.
    - apply dmem_false. apply mem_str_false. assumption.
  Qed.

  Lemma dmem_dget d k : dmem d k = true <-> exists v, dget d k = Some v.
  Proof.
    unfold dmem. destruct (dget d k) as [v|]; split; try discriminate; eauto.
    intros [v H]. discriminate.
  Qed.

  Lemma In_dget_NoDup d k v : NoDup (dkeys d) -> In (k, v) d -> dget d k = Some v.
  Proof.
    induction d as [|[k' v'] d IH]; cbn; [tauto|].
    intros ND [H|H].
    - inversion H. subst. rewrite str_eqb_refl. reflexivity.
    - inversion ND as [|? ? Hn ND']. subst.
      destruct (str_eqb k k') eqn:E.
      + apply str_eqb_eq in E. subst. exfalso. apply Hn.
        unfold dkeys. apply in_map_iff. exists (k', v). auto.
      + apply IH; assumption.
  Qed.

  (** the first entry with a given key is what [dget] sees; any entry is seen
      when keys are unique *)
  Lemma In_dkeys_dget d k : In k (dkeys d) -> exists v, dget d k = Some v /\ In (k, v) d.
  Proof.
    intros H. apply dmem_In, dmem_dget in H. destruct H as [v H]. exists v. split; [assumption|].
    apply dget_In. assumption.
  Qed.

  (** *** keys *)

  Lemma dkeys_dset d k v : dkeys (dset d k v) = if dmem d k then dkeys d else dkeys d ++ [k].
  Proof.
    induction d as [|[k' v'] d IH]; cbn; [reflexivity|].
    unfold dmem. cbn. destruct (str_eqb k k') eqn:E; cbn; [reflexivity|].
    unfold dkeys, dmem in IH. rewrite IH. destruct (dget d k); reflexivity.
  Qed.

  Lemma dkeys_dset_add_new d k v : dkeys (dset d k v) = add_new (dkeys d) k.
  Proof. rewrite dkeys_dset, dmem_mem_str. reflexivity. Qed.

  Lemma dkeys_dset_mem d k v : dmem d k = true -> dkeys (dset d k v) = dkeys d.
  Proof. intros H. rewrite dkeys_dset, H. reflexivity. Qed.

  Lemma dkeys_dset_new d k v : dmem d k = false -> dkeys (dset d k v) = dkeys d ++ [k].
  Proof. intros H. rewrite dkeys_dset, H. reflexivity. Qed.

  Lemma dkeys_dupd d k dflt f :
    dkeys (dupd d k dflt f) = if dmem d k then dkeys d else dkeys d ++ [k].
  Proof. rewrite dupd_dset. apply dkeys_dset. Qed.

  Lemma dkeys_dupd_add_new d k dflt f : dkeys (dupd d k dflt f) = add_new (dkeys d) k.
  Proof. rewrite dupd_dset. apply dkeys_dset_add_new. Qed.

  Lemma dkeys_dupd_mem d k dflt f : dmem d k = true -> dkeys (dupd d k dflt f) = dkeys d.
  Proof. rewrite dupd_dset. apply dkeys_dset_mem. Qed.

  Lemma NoDup_dkeys_dset d k v : NoDup (dkeys d) -> NoDup (dkeys (dset d k v)).
  Proof. rewrite dkeys_dset_add_new. apply NoDup_add_new. Qed.

  Lemma NoDup_dkeys_dupd d k dflt f : NoDup (dkeys d) -> NoDup (dkeys (dupd d k dflt f)).
  Proof. rewrite dupd_dset. apply NoDup_dkeys_dset. Qed.

  Lemma length_dset_mem d k v : dmem d k = true -> List.length (dset d k v) = List.length d.
  Proof.
    intros H. apply dkeys_dset_mem with (v := v) in H. unfold dkeys in H.
    rewrite <- (map_length fst), H, map_length. reflexivity.
  Qed.

  (** writing back the value that is already there changes nothing *)
  Lemma dset_same_value d k v : dget d k = Some v -> dset d k v = d.
  Proof.
    induction d as [|[k' v'] d IH]; cbn; [discriminate|].
    destruct (str_eqb k k') eqn:E.
    - intros H. inversion H. reflexivity.
    - intros H. rewrite IH by assumption. reflexivity.
  Qed.

  (** *** entries: what is in the dictionary after a write *)

  Lemma In_dset d k v k' v' :
    In (k', v') (dset d k v) -> (k' = k /\ v' = v) \/ In (k', v') d.
  Proof.
    induction d as [|[k0 v0] d IH]; cbn.
    - intros [H|[]]. inversion H. auto.
    - destruct (str_eqb k k0) eqn:E; cbn.
      + apply str_eqb_eq in E. subst k0. intros [H|H]; [inversion H; auto | auto].
      + intros [H|H]; [auto|]. apply IH in H. tauto.
  Qed.

  Lemma Forall_dset (Q : str * V -> Prop) d k v :
    Forall Q d -> Q (k, v) -> Forall Q (dset d k v).
  Proof.
    intros Hd Hk. apply Forall_forall. intros [k' v'] H. apply In_dset in H.
    destruct H as [[-> ->]|H]; [assumption|]. rewrite Forall_forall in Hd. apply Hd. assumption.
  Qed.

  Lemma Forall_dupd (Q : str * V -> Prop) d k dflt f :
    Forall Q d ->
    (forall v, dget d k = Some v -> Q (k, v) -> Q (k, f v)) ->
    (dget d k = None -> Q (k, f dflt)) ->
    Forall Q (dupd d k dflt f).
  Proof.
    intros Hd Hs Hn. rewrite dupd_dset. apply Forall_dset; [assumption|].
    unfold dupd_val. destruct (dget d k) as [v|] eqn:E.
    - apply Hs; [reflexivity|]. rewrite Forall_forall in Hd. apply Hd. apply dget_In. assumption.
    - apply Hn. reflexivity.
  Qed.

  (** every entry whose key is not [k] survives a write at [k] (needs unique keys
      only to identify "the" entry) *)
  Lemma In_dset_other d k v k' v' : k' <> k -> In (k', v') d -> In (k', v') (dset d k v).
  Proof.
    intros N. induction d as [|[k0 v0] d IH]; cbn; [tauto|].
    destruct (str_eqb k k0) eqn:E; cbn.
    - apply str_eqb_eq in E. subst k0. intros [H|H]; [inversion H; congruence | auto].
    - intros [H|H]; auto.
  Qed.
End DictLemmas.

(** ** mapping over the values *)

Section DMap.
  Context {V W : Type}.

  Definition dmapv (f : V -> W) (d : dict V) : dict W :=
    map (fun kv : str * V => (fst kv, f (snd kv))) d.

  Lemma dkeys_dmapv f d : dkeys (dmapv f d) = dkeys d.
  Proof. unfold dkeys, dmapv. rewrite map_map. reflexivity. Qed.

  Lemma dget_dmapv f d k : dget (dmapv f d) k = option_map f (dget d k).
  Proof.
    induction d as [|[k' v'] d IH]; cbn; [reflexivity|].
    destruct (str_eqb k k'); [reflexivity | assumption].
  Qed.

  Lemma dmem_dmapv f d k : dmem (dmapv f d) k = dmem d k.
  Proof. unfold dmem. rewrite dget_dmapv. destruct (dget d k); reflexivity. Qed.

  Lemma dset_dmapv f d k v : dset (dmapv f d) k (f v) = dmapv f (dset d k v).
  Proof.
    induction d as [|[k' v'] d IH]; cbn; [reflexivity|].
    destruct (str_eqb k k'); cbn; [reflexivity|]. unfold dmapv in IH. rewrite IH. reflexivity.
  Qed.

  (** [dupd] commutes with a map that commutes with the update function *)
  Lemma dupd_dmapv f d k dflt (g : V -> V) dflt' (g' : W -> W) :
    f dflt = dflt' -> (forall v, g' (f v) = f (g v)) ->
    dupd (dmapv f d) k dflt' g' = dmapv f (dupd d k dflt g).
  Proof.
    intros Hd Hg. unfold dupd. rewrite dget_dmapv. destruct (dget d k) as [v|]; cbn.
    - rewrite Hg. apply dset_dmapv.
    - rewrite <- Hd, Hg. apply dset_dmapv.
  Qed.
End DMap.

(** an update that the map forgets, at a key that is present, is invisible *)
Lemma dmapv_dupd_absorb {V W : Type} (f : V -> W) d k dflt (g : V -> V) :
  (forall v, f (g v) = f v) -> dmem d k = true -> dmapv f (dupd d k dflt g) = dmapv f d.
Proof.
  intros Hg Hm. apply dmem_dget in Hm. destruct Hm as [v Hv].
  unfold dupd. rewrite Hv. rewrite <- dset_dmapv, Hg. apply dset_same_value.
  rewrite dget_dmapv, Hv. reflexivity.
Qed.

Lemma dmapv_id {V : Type} (f : V -> V) (d : dict V) :
  Forall (fun kv => f (snd kv) = snd kv) d -> dmapv f d = d.
Proof.
  induction 1 as [|[k v] d H Hd IH]; cbn; [reflexivity|]. cbn in H. unfold dmapv in IH. rewrite H, IH. reflexivity.
Qed.

Lemma dmapv_dmapv {U V W : Type} (f : U -> V) (g : V -> W) (d : dict U) :
  dmapv g (dmapv f d) = dmapv (fun u => g (f u)) d.
Proof. unfold dmapv. rewrite map_map. reflexivity. Qed.

Lemma dmapv_ext {V W : Type} (f g : V -> W) (d : dict V) :
  (forall v, f v = g v) -> dmapv f d = dmapv g d.
Proof. intros H. unfold dmapv. apply map_ext. intros [k v]. cbn. rewrite H. reflexivity. Qed.

(** ** keeping the entries whose key passes a test: [{k: v for k, v in d.items() if f(k)}] *)

Section DFilter.
  Context {V : Type}.

  Definition dfilter (f : str -> bool) (d : dict V) : dict V :=
    filter (fun kv : str * V => f (fst kv)) d.

  Lemma dget_dfilter f d k : dget (dfilter f d) k = if f k then dget d k else None.
  Proof.
    induction d as [|[k' v] d IH]; cbn; [destruct (f k); reflexivity|].
    destruct (f k') eqn:Fk'; cbn.
    - destruct (str_eqb k k') eqn:E.
      + apply str_eqb_eq in E. subst. rewrite Fk'. reflexivity.
      + apply IH.
    - destruct (str_eqb k k') eqn:E.
      + apply str_eqb_eq in E. subst. rewrite Fk' in *. apply IH.
      + apply IH.
  Qed.

  Lemma dmem_dfilter f d k : dmem (dfilter f d) k = f k && dmem d k.
  Proof. unfold dmem. rewrite dget_dfilter. destruct (f k); reflexivity. Qed.

  Lemma dkeys_dfilter f d : dkeys (dfilter f d) = filter f (dkeys d).
  Proof.
    induction d as [|[k' v] d IH]; cbn; [reflexivity|].
    unfold dkeys, dfilter in IH. destruct (f k'); cbn; rewrite IH; reflexivity.
  Qed.

  Lemma dfilter_true f d : (forall k, In k (dkeys d) -> f k = true) -> dfilter f d = d.
  Proof.
    intros H. apply filter_all_true. intros [k v] Hkv. cbn. apply H.
    unfold dkeys. apply in_map_iff. exists (k, v). auto.
  Qed.
End DFilter.

Lemma dfilter_dmapv {V W : Type} (f : str -> bool) (g : V -> W) (d : dict V) :
  dfilter f (dmapv g d) = dmapv g (dfilter f d).
Proof.
  induction d as [|[k v] d IH]; cbn; [reflexivity|].
  destruct (f k); cbn; unfold dfilter, dmapv in IH; rewrite IH; reflexivity.
Qed.

(** ** folds of writes *)

Section Folds.
  Context {V : Type}.

  (** [for k in ks: d[k] = v k] *)
  Lemma dkeys_fold_dset (val : str -> V) ks (d : dict V) :
    dkeys (fold_left (fun d k => dset d k (val k)) ks d) = fold_left add_new ks (dkeys d).
  Proof.
    revert d. induction ks as [|k ks IH]; intros d; cbn [fold_left]; [reflexivity|].
    rewrite IH, dkeys_dset_add_new. reflexivity.
  Qed.

  Lemma dkeys_fold_dupd (dflt : V) (f : str -> V -> V) ks (d : dict V) :
    dkeys (fold_left (fun d k => dupd d k dflt (f k)) ks d) = fold_left add_new ks (dkeys d).
  Proof.
    revert d. induction ks as [|k ks IH]; intros d; cbn [fold_left]; [reflexivity|].
    rewrite IH, dkeys_dupd_add_new. reflexivity.
  Qed.
End Folds.

(** *** counting with [nat] values: [for k in ks: d[k] = d.get(k,0)+1] *)

Definition count_fold (ks : list str) (d : dict nat) : dict nat :=
  fold_left (fun d k => dupd d k 0 S) ks d.

Definition getn (d : dict nat) (k : str) : nat :=
  match dget d k with Some n => n | None => 0 end.

Lemma getn_count_fold ks d k :
  getn (count_fold ks d) k = getn d k + count_occ str_eq_dec ks k.
Proof.
  revert d. induction ks as [|x ks IH]; intros d; cbn; [lia|].
  unfold count_fold in *. rewrite IH. unfold getn. rewrite dget_dupd. unfold dupd_val.
  destruct (str_eq_dec x k) as [->|N].
  - rewrite str_eqb_refl. destruct (dget d k); lia.
  - rewrite (str_eqb_false_of_neq x k) by assumption. lia.
Qed.

Lemma dmem_count_fold ks d k : dmem (count_fold ks d) k = dmem d k || mem_str k ks.
Proof.
  revert d. induction ks as [|x ks IH]; intros d; cbn; [rewrite orb_false_r; reflexivity|].
  unfold count_fold in *. rewrite IH, dmem_dupd. rewrite (str_eqb_sym x k).
  destruct (str_eqb k x), (dmem d k), (mem_str k ks); reflexivity.
Qed.

Lemma dkeys_count_fold ks d : dkeys (count_fold ks d) = fold_left add_new ks (dkeys d).
Proof. apply (dkeys_fold_dupd 0 (fun _ => S)). Qed.

(** the statements of the prototype: counting from the empty dictionary *)
Lemma dget_count_fold_In ks k :
  In k ks -> dget (count_fold ks []) k = Some (count_occ str_eq_dec ks k).
Proof.
  intros H. pose proof (getn_count_fold ks [] k) as G.
  pose proof (dmem_count_fold ks [] k) as M. cbn in M.
  apply mem_str_In in H. rewrite H in M. apply dmem_dget in M. destruct M as [n Hn].
  unfold getn in G. rewrite Hn in G. cbn in G. rewrite Hn, G. reflexivity.
Qed.

Lemma dget_count_fold_notin ks k : ~ In k ks -> dget (count_fold ks []) k = None.
Proof.
  intros H. pose proof (dmem_count_fold ks [] k) as M. cbn in M.
  apply mem_str_false in H. rewrite H in M. unfold dmem in M.
  destruct (dget (count_fold ks []) k); [discriminate | reflexivity].
Qed.

Lemma dkeys_count_fold_nil ks : dkeys (count_fold ks []) = first_occ ks.
Proof. rewrite dkeys_count_fold. apply first_occ_fold. Qed.

(** *** counting with [N] values (the form the profiler uses) *)

Local Open Scope N_scope.

Definition getN (d : dict N) (k : str) : N :=
  match dget d k with Some n => n | None => 0 end.

Definition incrN (d : dict N) (k : str) : dict N := dupd d k 0 (fun n => n + 1).

(** number of occurrences of a string in a list, as [N], by [str_eqb] *)
Fixpoint count_str (k : str) (l : list str) : N :=
  match l with
  | [] => 0
  | x :: r => (if str_eqb k x then 1 else 0) + count_str k r
  end.

Lemma count_str_count_occ k l : count_str k l = N.of_nat (count_occ str_eq_dec l k).
Proof.
  induction l as [|x l IH]; cbn; [reflexivity|].
  destruct (str_eq_dec x k) as [->|Hn].
  - rewrite str_eqb_refl, IH. lia.
  - rewrite (str_eqb_false_of_neq k x) by congruence. rewrite IH. lia.
Qed.

Lemma count_str_app k l1 l2 : count_str k (l1 ++ l2) = count_str k l1 + count_str k l2.
Proof. induction l1 as [|x l1 IH]; cbn; [reflexivity|]. rewrite IH. lia. Qed.

Lemma count_str_pos k l : 0 < count_str k l <-> In k l.
Proof.
  induction l as [|x l IH]; cbn; [split; [lia | tauto]|].
  destruct (str_eqb k x) eqn:E.
  - apply str_eqb_eq in E. subst. split; [auto | lia].
  - apply str_eqb_neq in E. rewrite N.add_0_l, IH. split; [auto|]. intros [H|H]; [congruence | assumption].
Qed.

Lemma count_str_zero k l : count_str k l = 0 <-> ~ In k l.
Proof. rewrite <- count_str_pos. lia. Qed.

Lemma getN_incrN d k k' : getN (incrN d k) k' = getN d k' + (if str_eqb k k' then 1 else 0).
Proof.
  unfold getN, incrN. rewrite dget_dupd. unfold dupd_val.
  destruct (str_eqb k k') eqn:E.
  - apply str_eqb_eq in E. subst. destruct (dget d k'); lia.
  - lia.
Qed.

Lemma dmem_incrN d k k' : dmem (incrN d k) k' = str_eqb k k' || dmem d k'.
Proof. apply dmem_dupd. Qed.

Lemma dkeys_incrN d k : dkeys (incrN d k) = add_new (dkeys d) k.
Proof. apply dkeys_dupd_add_new. Qed.

Lemma getN_fold_incrN ks d k :
  getN (fold_left incrN ks d) k = getN d k + count_str k ks.
Proof.
  revert d. induction ks as [|x ks IH]; intros d; cbn; [lia|].
  rewrite IH, getN_incrN. rewrite (str_eqb_sym x k). lia.
Qed.

Lemma dmem_fold_incrN ks d k : dmem (fold_left incrN ks d) k = dmem d k || mem_str k ks.
Proof.
  revert d. induction ks as [|x ks IH]; intros d; cbn; [rewrite orb_false_r; reflexivity|].
  rewrite IH, dmem_incrN. rewrite (str_eqb_sym x k).
  destruct (str_eqb k x), (dmem d k), (mem_str k ks); reflexivity.
Qed.

Lemma dkeys_fold_incrN ks d : dkeys (fold_left incrN ks d) = fold_left add_new ks (dkeys d).
Proof. apply (dkeys_fold_dupd 0 (fun _ n => n + 1)). Qed.

(** all stored counters are positive *)
Definition posN (d : dict N) : Prop := Forall (fun kn : str * N => 0 < snd kn) d.

Lemma posN_incrN d k : posN d -> posN (incrN d k).
Proof.
  intros H. apply Forall_dupd; [assumption | cbn; intros; lia | cbn; intros; lia].
Qed.

Lemma posN_getN d k : posN d -> (0 < getN d k <-> dmem d k = true).
Proof.
  intros H. unfold getN, dmem. destruct (dget d k) as [n|] eqn:E.
  - apply dget_In in E. unfold posN in H. rewrite Forall_forall in H. apply H in E. cbn in E.
    split; [reflexivity | intros _; assumption].
  - split; [lia | discriminate].
Qed.

(** ** cardinality dictionaries of the profiler *)

Lemma ckey_eqb_eq a b : ckey_eqb a b = true <-> a = b.
Proof.
  destruct a as [x|], b as [y|]; cbn; try (split; congruence).
  rewrite N.eqb_eq. split; congruence.
Qed.

Lemma ckey_eqb_refl a : ckey_eqb a a = true.
Proof. apply ckey_eqb_eq. reflexivity. Qed.

Lemma ckey_eqb_neq a b : ckey_eqb a b = false <-> a <> b.
Proof.
  rewrite <- ckey_eqb_eq. destruct (ckey_eqb a b); split; congruence.
Qed.

Lemma ckey_eqb_sym a b : ckey_eqb a b = ckey_eqb b a.
Proof.
  destruct (ckey_eqb a b) eqn:E.
  - apply ckey_eqb_eq in E. subst. symmetry. apply ckey_eqb_refl.
  - apply ckey_eqb_neq in E. symmetry. apply ckey_eqb_neq. congruence.
Qed.

Definition ckey_eq_dec (a b : ckey) : {a = b} + {a <> b}.
Proof. decide equality. apply N.eq_dec. Defined.

Definition ckeys (d : cdict) : list ckey := map fst d.

Definition cmem (d : cdict) (k : ckey) : bool := existsb (ckey_eqb k) (ckeys d).

Lemma cget_cincr_same d k : cget (cincr d k) k = cget d k + 1.
Proof.
  induction d as [|[k' v] d IH]; cbn.
  - rewrite ckey_eqb_refl. reflexivity.
  - destruct (ckey_eqb k k') eqn:E; cbn; rewrite E; [reflexivity | assumption].
Qed.

Lemma cget_cincr_other d k k' : k <> k' -> cget (cincr d k) k' = cget d k'.
Proof.
  intros Hn. induction d as [|[k0 v] d IH]; cbn.
  - assert (E : ckey_eqb k' k = false) by (apply ckey_eqb_neq; congruence). rewrite E. reflexivity.
  - destruct (ckey_eqb k k0) eqn:E; cbn.
    + apply ckey_eqb_eq in E. subst k0.
      assert (E : ckey_eqb k' k = false) by (apply ckey_eqb_neq; congruence). rewrite E. reflexivity.
    + rewrite IH. reflexivity.
Qed.

Lemma cget_cincr d k k' : cget (cincr d k) k' = cget d k' + (if ckey_eqb k k' then 1 else 0).
Proof.
  destruct (ckey_eqb k k') eqn:E.
  - apply ckey_eqb_eq in E. subst. apply cget_cincr_same.
  - apply ckey_eqb_neq in E. rewrite cget_cincr_other by assumption. lia.
Qed.

Lemma cget_fold_cincr ks d k :
  cget (fold_left cincr ks d) k = cget d k + N.of_nat (count_occ ckey_eq_dec ks k).
Proof.
  revert d. induction ks as [|x ks IH]; intros d; cbn; [lia|].
  rewrite IH, cget_cincr. destruct (ckey_eq_dec x k) as [->|Hn].
  - rewrite ckey_eqb_refl. lia.
  - apply ckey_eqb_neq in Hn. rewrite Hn. lia.
Qed.

Lemma ckeys_cincr d k : ckeys (cincr d k) = if cmem d k then ckeys d else ckeys d ++ [k].
Proof.
  induction d as [|[k' v] d IH]; cbn; [reflexivity|].
  unfold cmem. cbn. destruct (ckey_eqb k k') eqn:E; cbn; [reflexivity|].
  unfold ckeys, cmem in IH. rewrite IH. unfold ckeys. destruct (existsb (ckey_eqb k) (map fst d)); reflexivity.
Qed.

Lemma cmem_In d k : cmem d k = true <-> In k (ckeys d).
Proof.
  unfold cmem. rewrite existsb_exists. split.
  - intros [x [H E]]. apply ckey_eqb_eq in E. subst. assumption.
  - intros H. exists k. split; [assumption | apply ckey_eqb_refl].
Qed.

Lemma NoDup_ckeys_cincr d k : NoDup (ckeys d) -> NoDup (ckeys (cincr d k)).
Proof.
  intros H. rewrite ckeys_cincr. destruct (cmem d k) eqn:E; [assumption|].
  assert (Hn : ~ In k (ckeys d)).
  { intros Hi. apply cmem_In in Hi. congruence. }
  apply Permutation_NoDup with (l := k :: ckeys d).
  - apply Permutation_cons_append.
  - constructor; assumption.
Qed.

(** all stored counters are positive: an entry exists iff its count is > 0 *)
Definition cpos (d : cdict) : Prop := Forall (fun kv : ckey * N => 0 < snd kv) d.

Lemma cpos_cincr d k : cpos d -> cpos (cincr d k).
Proof.
  induction 1 as [|[k' v] d H Hd IH]; cbn.
  - constructor; [cbn; lia | constructor].
  - destruct (ckey_eqb k k'); constructor; cbn in *; try lia; assumption.
Qed.

Lemma cpos_cget d k : cpos d -> (0 < cget d k <-> cmem d k = true).
Proof.
  induction 1 as [|[k' v] d H Hd IH]; cbn.
  - unfold cmem. cbn. split; [lia | discriminate].
  - unfold cmem. cbn. destruct (ckey_eqb k k'); cbn.
    + cbn in H. split; [reflexivity | intros _; assumption].
    + apply IH.
Qed.

Lemma cget_nil k : cget [] k = 0.
Proof. reflexivity. Qed.

Lemma cincr_not_nil d k : cincr d k <> [].
Proof. destruct d as [|[k' v] d]; cbn; [discriminate|]. destruct (ckey_eqb k k'); discriminate. Qed.

Lemma In_cget_NoDup d k v : NoDup (ckeys d) -> In (k, v) d -> cget d k = v.
Proof.
  induction d as [|[k' v'] d IH]; cbn; [tauto|].
  intros ND [H|H].
  - inversion H. subst. rewrite ckey_eqb_refl. reflexivity.
  - inversion ND as [|? ? Hn ND']. subst. destruct (ckey_eqb k k') eqn:E.
    + apply ckey_eqb_eq in E. subst. exfalso. apply Hn. unfold ckeys. apply in_map_iff. exists (k', v). auto.
    + apply IH; assumption.
Qed.

Lemma dset_not_nil {V : Type} (d : dict V) k v : dset d k v <> [].
Proof. destruct d as [|[k' v'] d]; cbn; [discriminate|]. destruct (str_eqb k k'); discriminate. Qed.

Lemma dupd_not_nil {V : Type} (d : dict V) k dflt f : dupd d k dflt f <> [].
Proof. rewrite dupd_dset. apply dset_not_nil. Qed.

Lemma cget_pos_In d k : 0 < cget d k -> In (k, cget d k) d.
Proof.
  induction d as [|[k' v] d IH]; cbn; [lia|].
  destruct (ckey_eqb k k') eqn:E.
  - apply ckey_eqb_eq in E. subst. intros _. left. reflexivity.
  - intros H. right. apply IH. assumption.
Qed.
