(** * C03: discharging the premise [profile_exact] of T4 from the profile
    characterisation P1 (Proofs/ProfileChar.v) and the tracker characterisation
    (Proofs/EndToEnd.v).

    Spec/Counts.v counts by identifier string ([cnt], [occ] over the tracker's
    dictionary); Model/C03Dom.v counts over nodes ([cntk], [instances_of]).
    On the strict domain identifiers are faithful, no key is contributed twice
    by one value, and the two vocabularies coincide. *)
From Coq Require Import List Ascii String ZArith NArith Bool Lia Permutation.
From Shexer Require Import Lib.PyStr Lib.Dict Gen.Consts Spec.Rdf Spec.ShexSem Model.Tracker Model.Profiler
     Model.Tokens Model.Freq Model.FreqInst Model.Shexing Model.Run Model.SchemaOf
     Spec.Counts Proofs.DictLemmas Proofs.ProfileChar Proofs.EndToEnd Proofs.FreqLaws.
From Shexer Require Import Model.C03Dom Proofs.ConformProofs Proofs.ConformSat.
Import ListNotations.
Local Open Scope N_scope.

(** ** sums *)
Lemma sumN_zero {A} (l : list A) : sumN (map (fun _ => 0) l) = 0.
Proof. induction l; cbn; [reflexivity | exact IHl]. Qed.

Lemma sumN_map_add {A} (a b : A -> N) l : sumN (map (fun x => a x + b x) l) = sumN (map a l) + sumN (map b l).
Proof. induction l as [|x l IH]; cbn; [reflexivity|]. rewrite IH. lia. Qed.

Lemma sumN_map_ext_in {A} (f g : A -> N) l : (forall x, In x l -> f x = g x) -> sumN (map f l) = sumN (map g l).
Proof.
  induction l as [|x l IH]; cbn; intros H; [reflexivity|].
  rewrite (H x (or_introl eq_refl)), IH; [reflexivity|]. intros y Hy. apply H. right. exact Hy.
Qed.

Lemma sum_indicator (K : list str) (F : str -> bool) a :
  NoDup K -> In a K -> sumN (map (fun id => if F id && str_eqb a id then 1 else 0) K) = if F a then 1 else 0.
Proof.
  induction K as [|x K IH]; intros Hnd Hin; [destruct Hin|]. inversion Hnd as [|? ? Hx Hnd']; subst. cbn.
  destruct (str_eqb a x) eqn:E.
  - apply str_eqb_eq in E. subst x. rewrite andb_true_r.
    rewrite (sumN_map_ext_in _ (fun _ => 0)), sumN_zero; [destruct (F a); reflexivity|].
    intros y Hy. destruct (str_eqb a y) eqn:E'; [apply str_eqb_eq in E'; subst; contradiction|].
    rewrite andb_false_r. reflexivity.
  - rewrite andb_false_r. destruct Hin as [->|Hin]; [rewrite str_eqb_refl in E; discriminate|].
    rewrite IH by assumption. lia.
Qed.

(** double counting: summing, over distinct identifiers, the members of [L]
    mapped to that identifier counts every member once *)
Lemma sum_partition {T} (K : list str) (F : str -> bool) (g : T -> str) (L : list T) :
  NoDup K -> (forall t, In t L -> In (g t) K) ->
  sumN (map (fun id => if F id then N.of_nat (List.length (filter (fun t => str_eqb (g t) id) L)) else 0) K) =
  N.of_nat (List.length (filter (fun t => F (g t)) L)).
Proof.
  intros Hnd. induction L as [|t L IH]; intros Hin.
  - cbn. rewrite (sumN_map_ext_in _ (fun _ => 0)), sumN_zero; [reflexivity|]. intros x _. destruct (F x); reflexivity.
  - rewrite (sumN_map_ext_in _ (fun id => (if F id then N.of_nat (List.length (filter (fun t0 => str_eqb (g t0) id) L)) else 0)
                                         + (if F id && str_eqb (g t) id then 1 else 0))).
    + rewrite sumN_map_add, IH by (intros t' Ht'; apply Hin; right; exact Ht').
      rewrite (sum_indicator K F (g t) Hnd (Hin t (or_introl eq_refl))).
      cbn [filter]. destruct (F (g t)); cbn [List.length]; lia.
    + intros id _. cbn [filter]. destruct (F id); cbn [andb]; [|reflexivity].
      destruct (str_eqb (g t) id); cbn [List.length]; lia.
Qed.

Lemma count_in_map {T} (h : T -> str) c (X : list T) :
  count_in c (map h X) = N.of_nat (List.length (filter (fun t => str_eqb c (h t)) X)).
Proof.
  induction X as [|t X IH]; [reflexivity|]. cbn [map count_in filter]. rewrite IH.
  destruct (str_eqb c (h t)); cbn [List.length]; lia.
Qed.

Section Bridge.
  Variable tau : str.
  Variable G : graph.
  Let sns := c_SHAPES_DEFAULT_NAMESPACE.
  Hypothesis SD : strict_dom tau sns G.
  Variable I : insts.
  Hypothesis HI : track_plain tau TAll G [] = inl I.

  Definition node_in (n : node) : Prop := exists t, In t G /\ (ts t = n \/ to t = ON n).

  Lemma I_classes i : classes_of I i = map objid (filter (about tau TAll i) G).
  Proof. destruct (track_plain_char tau TAll G [] I HI) as [A _]. rewrite A. reflexivity. Qed.

  Lemma I_mem i : dmem I i = existsb (about tau TAll i) G.
  Proof. destruct (track_plain_char tau TAll G [] I HI) as [_ B]. rewrite B. reflexivity. Qed.

  Lemma I_nodup : NoDup (dkeys I).
  Proof.
    apply (proj1 (track_insts_ok tau TAll (-1)%Z G I ltac:(unfold track; cbn; exact HI))).
  Qed.

  Lemma rel_tau t : relevant tau TAll t = str_eqb (tp t) tau.
  Proof. unfold relevant. apply andb_true_r. Qed.

  Lemma nid_faithful n m : node_in n -> node_in m -> str_eqb (nid n) (nid m) = node_eqb n m.
  Proof.
    intros Hn Hm. destruct (node_eqb n m) eqn:E.
    - apply node_eqb_eq in E. subst. apply str_eqb_refl.
    - apply str_eqb_neq. intros Eq. pose proof (sd_ids _ _ _ SD n m Hn Hm Eq) as H. subst.
      assert (node_eqb m m = true) by (apply node_eqb_eq; reflexivity). congruence.
  Qed.

  Lemma subj_in t : In t G -> node_in (ts t).
  Proof. intros H. exists t. split; [exact H | left; reflexivity]. Qed.

  Lemma obj_in t o : In t G -> to t = ON o -> node_in o.
  Proof. intros H E. exists t. split; [exact H | right; exact E]. Qed.

  (** the labels the profiler looks up by identifier are the labels of the node *)
  Lemma labels_bridge n : node_in n -> shape_labels I (nid n) = labels_of tau sns G n.
  Proof.
    intros Hn. unfold shape_labels, labels_of, T0, instance_typing. rewrite I_classes.
    assert (H : forall L, (forall t, In t L -> In t G) ->
              map (shape_name c_SHAPES_DEFAULT_NAMESPACE) (map objid (filter (about tau TAll (nid n)) L)) =
              map snd (filter (fun nl : node * label => node_eqb (fst nl) n)
                              (flat_map (fun t => if str_eqb (tp t) tau
                                                  then match to t with
                                                       | ON c => [(ts t, shape_name sns (nid c))]
                                                       | OL _ _ => []
                                                       end
                                                  else []) L))).
    { induction L as [|t L IH]; intros HL; [reflexivity|].
      assert (Ht : In t G) by (apply HL; left; reflexivity).
      assert (IH' := IH (fun t' Ht' => HL t' (or_intror Ht'))).
      cbn [filter flat_map]. unfold about at 1. rewrite rel_tau.
      destruct (str_eqb (tp t) tau) eqn:Ep; cbn [andb].
      - apply str_eqb_eq in Ep. destruct (sd_classes _ _ _ SD t Ht Ep) as [c [Ho _]]. rewrite Ho.
        rewrite (nid_faithful (ts t) n (subj_in t Ht) Hn). cbn [app filter fst].
        destruct (node_eqb (ts t) n); cbn [map snd].
        + unfold objid at 1. rewrite Ho. cbn [nid]. f_equal. exact IH'.
        + exact IH'.
      - exact IH'. }
    apply H. auto.
  Qed.

  Lemma elem_type_same n : elem_type n = elem_type_node n.
  Proof. reflexivity. Qed.

  (** the keys one triple contributes are the keys of the value *)
  Lemma keys_direct_bridge t : In t G -> keys_direct tau I t = keys_of tau sns G false (tp t) (to t).
  Proof.
    intros Ht. unfold keys_direct, keys_of. destruct (to t) as [o|cc dt] eqn:Eo; [|reflexivity].
    destruct (str_eqb (tp t) tau) eqn:Ep.
    - apply str_eqb_eq in Ep. destruct (sd_classes _ _ _ SD t Ht Ep) as [c [Ho [Hl _]]].
      rewrite Eo in Ho. inversion Ho; subst o.
      pose proof (labels_bridge (Node KIri c) (obj_in t _ Ht Eo)) as Hlb. cbn [nid] in *.
      rewrite Hlb, Hl. destruct (_ || _); reflexivity.
    - cbn [andb]. rewrite (labels_bridge o (obj_in t o Ht Eo)). reflexivity.
  Qed.

  Lemma keys_inverse_bridge t : In t G -> str_eqb (tp t) tau = false ->
    keys_inverse tau I t = keys_of tau sns G true (tp t) (ON (ts t)).
  Proof.
    intros Ht Ep. unfold keys_inverse, keys_of. rewrite Ep. cbn [andb].
    rewrite (labels_bridge (ts t) (subj_in t Ht)). rewrite elem_type_same.
    destruct (nk (ts t)); reflexivity.
  Qed.

  (** ** a value contributes a key at most once *)
  Lemma count_in_one k a : count_in k [a] = if mem_str k [a] then 1 else 0.
  Proof. cbn. destruct (str_eqb k a); reflexivity. Qed.

  Lemma count_in_two k a b : a <> b -> count_in k [a; b] = if mem_str k [a; b] then 1 else 0.
  Proof.
    intros H. cbn. destruct (str_eqb k a) eqn:E1, (str_eqb k b) eqn:E2; try reflexivity.
    apply str_eqb_eq in E1. apply str_eqb_eq in E2. congruence.
  Qed.

  Lemma instance_node_in c i : In i (instances_of tau G c) -> node_in i.
  Proof.
    intros H. apply instances_of_In in H. destruct H as (t & cn & Ht & _ & _ & _ & Hs). exists t. split; [exact Ht | left; exact Hs].
  Qed.

  Lemma count01 c i inv p k x :
    In i (instances_of tau G c) -> In x (nbrs G i inv p) ->
    count_in k (keys_of tau sns G inv p x) = if mem_str k (keys_of tau sns G inv p x) then 1 else 0.
  Proof.
    intros Hi Hx. unfold keys_of. destruct x as [n|cc dt].
    - destruct (str_eqb p tau) eqn:Ep; [apply count_in_one|].
      assert (Hp : p <> tau) by (apply str_eqb_neq; exact Ep).
      destruct (inv && nkind_eqb (nk n) KBnode); [apply count_in_one|].
      assert (Hn : In n (nl_nbrs tau G c inv p)) by (apply nl_nbrs_In; exists i; split; assumption).
      destruct (sd_typed _ _ _ SD c inv p Hp) as [Hun | [l Hl]].
      + rewrite (Hun n Hn). apply count_in_one.
      + rewrite (Hl n Hn). apply count_in_two. intros E.
        assert (Hin : In l (labels_of tau sns G n)) by (rewrite (Hl n Hn); left; reflexivity).
        apply labels_of_In in Hin. apply (sd_labels _ _ _ SD) in Hin. rewrite <- E, elem_type_shape in Hin. discriminate.
    - destruct (str_eqb p tau); [reflexivity | apply count_in_one].
  Qed.

  Definition dirb (inv : bool) : direction := if inv then Inverse else Direct.

  (** per-instance counts: by identifier = over the node's neighbours *)
  Lemma cnt_bridge c i inv p k :
    In i (instances_of tau G c) -> cnt (dirb inv) tau I G (nid i) p k = cntk tau sns G i inv p k.
  Proof.
    intros Hi. pose proof (instance_node_in c i Hi) as Hni. unfold cnt, cntk.
    assert (H : forall L, (forall t, In t L -> In t G) ->
              sumN (map (fun t => count_in k (contrib (dirb inv) tau I t (nid i) p)) L) =
              N.of_nat (List.length (filter (fun x => mem_str k (keys_of tau sns G inv p x)) (nbrs L i inv p)))).
    { induction L as [|t L IH]; intros HL; [destruct inv; reflexivity|].
      assert (Ht : In t G) by (apply HL; left; reflexivity).
      assert (IH' := IH (fun t' Ht' => HL t' (or_intror Ht'))).
      cbn [map sumN]. rewrite IH'. clear IH IH'. destruct inv; cbn [dirb contrib].
      - (* inverse *)
        unfold nbrs. cbn [filter].
        destruct (to t) as [o|cc dt] eqn:Eo.
        + rewrite (nid_faithful o i (obj_in t o Ht Eo) Hni).
          assert (Eob : obj_eqb (ON o) (ON i) = node_eqb o i) by reflexivity. rewrite Eob.
          destruct (node_eqb o i) eqn:En, (str_eqb (tp t) p) eqn:Ep; cbn [andb map filter]; try (cbn; lia).
          apply node_eqb_eq in En. apply str_eqb_eq in Ep. subst o p.
          destruct (str_eqb (tp t) tau) eqn:Et.
          * exfalso. apply str_eqb_eq in Et.
            assert (Hx : In (ON (ts t)) (nbrs G i true tau)).
            { apply nbrs_In. exists t. split; [exact Ht|]. split; [exact Et|]. split; [exact Eo | reflexivity]. }
            rewrite (instance_no_inverse_tau tau sns G SD i c Hi) in Hx. destruct Hx.
          * rewrite (keys_inverse_bridge t Ht Et).
            assert (Hx : In (ON (ts t)) (nbrs G i true (tp t))).
            { apply nbrs_In. exists t. split; [exact Ht|]. split; [reflexivity|]. split; [exact Eo | reflexivity]. }
            rewrite (count01 c i true (tp t) k _ Hi Hx).
            destruct (mem_str k _); cbn [List.length]; lia.
        + cbn [andb map filter count_in]. rewrite andb_false_r. cbn. lia.
      - (* direct *)
        unfold nbrs. cbn [filter].
        rewrite (nid_faithful (ts t) i (subj_in t Ht) Hni).
        destruct (node_eqb (ts t) i) eqn:En, (str_eqb (tp t) p) eqn:Ep; cbn [andb map filter]; try (cbn; lia).
        apply node_eqb_eq in En. apply str_eqb_eq in Ep. subst p.
        rewrite (keys_direct_bridge t Ht).
        assert (Hx : In (to t) (nbrs G i false (tp t))).
        { apply nbrs_In. exists t. split; [exact Ht|]. split; [reflexivity|]. split; [exact En | reflexivity]. }
        rewrite (count01 c i false (tp t) k _ Hi Hx).
        destruct (mem_str k _); cbn [List.length]; lia. }
    apply H. auto.
  Qed.

  (** ** class-level counts *)
  Definition is_inst (c : str) (t : triple) : bool :=
    str_eqb (tp t) tau && match to t with ON cn => str_eqb (nid cn) c | OL _ _ => false end.

  Lemma instances_of_eq c : instances_of tau G c = map ts (filter (is_inst c) G).
  Proof.
    unfold instances_of, is_inst. generalize G as L. induction L as [|t L IH]; [reflexivity|]. cbn [flat_map filter].
    destruct (str_eqb (tp t) tau); cbn [andb app]; [|exact IH].
    destruct (to t) as [cn|]; cbn [app]; [|exact IH].
    destruct (str_eqb (nid cn) c); cbn [app map]; rewrite IH; reflexivity.
  Qed.

  Lemma is_inst_rel c t : In t G -> relevant tau TAll t && str_eqb c (objid t) = is_inst c t.
  Proof.
    intros Ht. rewrite rel_tau. unfold is_inst. destruct (str_eqb (tp t) tau) eqn:Ep; [|reflexivity].
    apply str_eqb_eq in Ep. destruct (sd_classes _ _ _ SD t Ht Ep) as [c' [Ho _]]. unfold objid. rewrite Ho.
    cbn [andb nid]. apply str_eqb_sym.
  Qed.

  Lemma sum_over_instances (F : str -> bool) c :
    sumN (map (fun ie : str * list str => if F (fst ie) then count_in c (snd ie) else 0) I) =
    N.of_nat (List.length (filter (fun t => F (nid (ts t))) (filter (is_inst c) G))).
  Proof.
    set (Lc := filter (fun t => relevant tau TAll t && str_eqb c (objid t)) G).
    assert (ELc : Lc = filter (is_inst c) G) by (apply filter_ext_in'; intros t Ht; apply is_inst_rel; exact Ht).
    rewrite <- ELc.
    (* over the keys *)
    assert (E1 : sumN (map (fun ie : str * list str => if F (fst ie) then count_in c (snd ie) else 0) I) =
                 sumN (map (fun id => if F id then N.of_nat (List.length (filter (fun t => str_eqb (nid (ts t)) id) Lc)) else 0)
                           (dkeys I))).
    { unfold dkeys. rewrite map_map. apply sumN_map_ext_in. intros [id cs] Hin. cbn [fst snd].
      destruct (F id); [|reflexivity].
      assert (Ecs : classes_of I id = cs) by (unfold classes_of; rewrite (In_dget_NoDup I id cs I_nodup Hin); reflexivity).
      rewrite <- Ecs, I_classes, count_in_map. f_equal. f_equal. unfold Lc.
      rewrite !filter_filter'. apply filter_ext_in'. intros t _. unfold about.
      destruct (relevant tau TAll t), (str_eqb c (objid t)), (str_eqb (nid (ts t)) id); reflexivity. }
    rewrite E1. apply sum_partition; [exact I_nodup|].
    intros t Ht. unfold Lc in Ht. apply filter_In in Ht. destruct Ht as [Ht Hc]. apply andb_true_iff in Hc.
    apply (dmem_In I). rewrite I_mem. apply existsb_exists. exists t. split; [exact Ht|].
    unfold about. rewrite (proj1 Hc), str_eqb_refl. reflexivity.
  Qed.

  Lemma class_count_bridge c : class_count I c = N.of_nat (List.length (instances_of tau G c)).
  Proof.
    unfold class_count.
    pose proof (sum_over_instances (fun _ => true) c) as H. cbv beta iota in H. rewrite H, instances_of_eq, map_length.
    f_equal. f_equal. generalize (filter (is_inst c) G) as L. induction L as [|t L IH]; cbn; [reflexivity | rewrite IH; reflexivity].
  Qed.

  Lemma occ_bridge c inv p k card :
    occ (dirb inv) tau I G c p k card =
    n_inst node (instances_of tau G c) (fun i => card_ok tau p card (cntk tau sns G i inv p k)).
  Proof.
    unfold occ. rewrite (sum_over_instances (fun id => card_ok tau p card (cnt (dirb inv) tau I G id p k)) c).
    unfold n_inst. rewrite instances_of_eq, filter_map_length. f_equal. f_equal.
    apply filter_ext_in'. intros t Ht. rewrite (cnt_bridge c (ts t)); [reflexivity|].
    rewrite instances_of_eq. apply in_map. exact Ht.
  Qed.

  (** classes of the tracker's dictionary = classes that type a node *)
  Lemma class_keys_instance cls :
    In cls (class_keys [] I) -> exists t cn, In t G /\ tp t = tau /\ to t = ON cn /\ nid cn = cls.
  Proof.
    unfold class_keys. rewrite uniq_first_first_occ, In_first_occ. cbn [app]. intros H.
    apply in_concat in H. destruct H as [cs [Hcs Hin]]. apply in_map_iff in Hcs. destruct Hcs as [[id cs'] [E Hie]].
    cbn in E. subst cs'.
    assert (Ecs : classes_of I id = cs) by (unfold classes_of; rewrite (In_dget_NoDup I id cs I_nodup Hie); reflexivity).
    rewrite <- Ecs, I_classes in Hin. apply in_map_iff in Hin. destruct Hin as [t [Eo Ht]].
    apply filter_In in Ht. destruct Ht as [Ht Ha]. unfold about in Ha. apply andb_true_iff in Ha. destruct Ha as [Hr _].
    rewrite rel_tau in Hr. apply str_eqb_eq in Hr. destruct (sd_classes _ _ _ SD t Ht Hr) as [c' [Ho _]].
    exists t, (Node KIri c'). unfold objid in Eo. rewrite Ho in Eo. repeat split; assumption.
  Qed.

  Lemma instance_class_key t cn : In t G -> tp t = tau -> to t = ON cn -> In (nid cn) (class_keys [] I).
  Proof.
    intros Ht Hp Ho. unfold class_keys. rewrite uniq_first_first_occ, In_first_occ. cbn [app].
    set (id := nid (ts t)).
    assert (Hm : dmem I id = true).
    { rewrite I_mem. apply existsb_exists. exists t. split; [exact Ht|]. unfold about. rewrite rel_tau, Hp, !str_eqb_refl. reflexivity. }
    apply (dmem_In I) in Hm. destruct (In_dkeys_dget I id Hm) as [cs [Hg Hin]].
    apply in_concat. exists cs. split; [apply in_map_iff; exists (id, cs); split; [reflexivity | exact Hin]|].
    assert (Ecs : classes_of I id = cs) by (unfold classes_of; rewrite Hg; reflexivity).
    rewrite <- Ecs, I_classes. apply in_map_iff. exists t. split; [unfold objid; rewrite Ho; reflexivity|].
    apply filter_In. split; [exact Ht|]. unfold about. rewrite rel_tau, Hp, !str_eqb_refl. reflexivity.
  Qed.

  Lemma class_has_instance cls : In cls (class_keys [] I) -> instances_of tau G cls <> [].
  Proof.
    intros H. destruct (class_keys_instance cls H) as (t & cn & Ht & Hp & Ho & Hc).
    assert (Hi : In (ts t) (instances_of tau G cls)) by (apply instances_of_In; exists t, cn; repeat split; assumption).
    intros E. rewrite E in Hi. destruct Hi.
  Qed.

  Lemma n_inst_pos (f : node -> bool) l i : In i l -> f i = true -> 0 < n_inst node l f.
  Proof.
    intros Hi Hf. unfold n_inst. assert (H : In i (filter f l)) by (apply filter_In; split; assumption).
    destruct (filter f l); [destruct H | cbn; lia].
  Qed.

  Lemma cntk_pos i inv p k x : In x (nbrs G i inv p) -> mem_str k (keys_of tau sns G inv p x) = true ->
    0 < cntk tau sns G i inv p k.
  Proof.
    intros Hx Hk. unfold cntk.
    assert (H : In x (filter (fun x => mem_str k (keys_of tau sns G inv p x)) (nbrs G i inv p))) by (apply filter_In; split; assumption).
    destruct (filter _ (nbrs G i inv p)); [destruct H | cbn; lia].
  Qed.

  (** every class has its typing candidate: it is never removed as empty *)
  Lemma occ_tau_pos cls : In cls (class_keys [] I) -> 0 < occ Direct tau I G cls tau cls (CKn 1).
  Proof.
    intros H. destruct (class_keys_instance cls H) as (t & cn & Ht & Hp & Ho & Hc).
    assert (Hi : In (ts t) (instances_of tau G cls)) by (apply instances_of_In; exists t, cn; repeat split; assumption).
    change Direct with (dirb false). rewrite occ_bridge. apply (n_inst_pos _ _ (ts t) Hi).
    unfold card_ok. rewrite str_eqb_refl. cbn [ckey_eqb]. rewrite N.eqb_refl, andb_true_r. apply N.ltb_lt.
    apply (cntk_pos (ts t) false tau cls (ON cn)).
    - apply nbrs_In. exists t. split; [exact Ht|]. split; [exact Hp|]. split; [reflexivity | symmetry; exact Ho].
    - unfold keys_of. rewrite str_eqb_refl, Hc. cbn [mem_str]. rewrite str_eqb_refl. reflexivity.
  Qed.
End Bridge.

(** * the premise of T4, discharged *)
Section Discharge.
  Variable okN : N -> Prop.
  Variable c : rcfg.
  Variable g : graph.
  Variable ns : nsdict.
  Let tau := r_tau c.
  Hypothesis Htargets : r_targets c = None.
  Hypothesis Hcap : (r_cap c <= 0)%Z.
  Hypothesis Hsns : r_shapes_ns c = c_SHAPES_DEFAULT_NAMESPACE.
  Hypothesis SD : strict_dom tau c_SHAPES_DEFAULT_NAMESPACE g.
  (** class sizes are admissible denominators (for binary64: the graph has fewer than 2^53 triples) *)
  Hypothesis HokN : forall d, 0 < d -> d <= N.of_nat (List.length g) -> okN d.
  Variable I : insts.
  Variable P : cprofile.
  Variable C : ccounts.
  Variable ID : idict.
  Hypothesis Htrack : track tau TAll (r_cap c) g = inl I.
  Hypothesis Hprof : profile (pcfg_of c) I g = inl (P, C, ID).

  Lemma HI : track_plain tau TAll g [] = inl I.
  Proof. unfold track in Htrack. apply Z.leb_le in Hcap. rewrite Hcap in Htrack. exact Htrack. Qed.

  Let NDI : NoDup (dkeys I) := I_nodup tau g I HI.

  Lemma targets_nil : targets_of (pcfg_of c) = [].
  Proof. unfold targets_of, pcfg_of. cbn [p_targets]. rewrite Htargets. reflexivity. Qed.

  (** no class is removed as empty: each has its typing candidate *)
  Lemma keys_kept cls : In cls (class_keys [] I) -> In cls (dkeys P).
  Proof.
    intros Hin. pose proof Hprof as HP. rewrite profile_result in HP.
    destruct (annotate_all (p_tau (pcfg_of c)) (p_inverse (pcfg_of c)) g (adapt I)) as [ID'|err] eqn:HA; [|discriminate].
    destruct (raw_profile (pcfg_of c) I ID') as [P1 C0] eqn:HR.
    injection HP as HP1 _ _.
    destruct (profile_counts_char (pcfg_of c) I g ID' P1 C0 NDI HA HR) as [KP1 [_ [NDP1 _]]].
    rewrite targets_nil in KP1.
    assert (Hin1 : In cls (dkeys P1)) by (rewrite KP1; exact Hin).
    rewrite <- HP1. change (p_remove_empty (pcfg_of c)) with (r_remove_empty c).
    destruct (r_remove_empty c); [|exact Hin1].
    rewrite dkeys_remove_iteration. apply filter_In. split; [exact Hin1|].
    unfold not_in. apply negb_true_iff. apply mem_str_false. intros Hks.
    apply In_shapes_to_remove in Hks. destruct Hks as [e [Hce [_ Hf]]].
    pose proof (In_dget_NoDup P1 cls e NDP1 Hce) as He.
    destruct (profile_entries_char (pcfg_of c) I g ID' P1 C0 NDI HA HR cls e He) as [_ [_ [HD _]]].
    assert (Hd : c_direct e = []).
    { unfold has_features in Hf. destruct (c_direct e); [reflexivity | discriminate]. }
    apply (proj2 HD); [|exact Hd]. exists tau, cls, (CKn 1). apply (occ_tau_pos tau g SD I HI cls Hin).
  Qed.

  Lemma ck_ok_card_ok cfg p ck x : ck_ok cfg p ck x = card_ok (x_tau cfg) p ck x.
  Proof. reflexivity. Qed.

  Theorem profile_exact_discharged : profile_exact okN (scfg_of c ns) g P C.
  Proof.
    destruct (profile_final_char (pcfg_of c) I g P C ID NDI Hprof) as (_ & NDP & (ks & Hk & _) & _ & HC & HE).
    rewrite targets_nil in Hk, HC.
    assert (Hcls : forall ce, In ce P -> In (fst ce) (class_keys [] I)).
    { intros ce Hce. assert (H : In (fst ce) (dkeys P)) by (apply in_map; exact Hce).
      rewrite Hk in H. apply filter_In in H. apply H. }
    assert (Hside : forall k, In k (class_keys (targets_of (pcfg_of c)) I) -> In k (dkeys P))
      by (intros k; rewrite targets_nil; apply keys_kept).
    unfold profile_exact. cbn [x_tau x_shapes_ns scfg_of x_inverse]. rewrite Hsns. fold tau.
    split; [|split].
    - intros [cls e] Hce. cbn [fst]. pose proof (Hcls _ Hce) as Hck. cbn [fst] in Hck.
      destruct (HE cls e Hce) as (_ & HD & HInv & _).
      pose proof (fun p k => profile_final_complete (pcfg_of c) I g P C ID NDI Hprof cls e Hce p k (Hside k)) as HComp.
      assert (Hentries : forall inv, (inv = true -> r_inverse c = true) -> forall p m k cd ck n,
                In (p, m) (class_pd (cls, e) inv) -> In (k, cd) m -> In (ck, n) cd ->
                n = occ (dirb inv) tau I g cls p k ck /\ 0 < n).
      { intros [|] Hd p m k cd ck n H1 H2 H3; cbn [class_pd snd dirb] in *.
        - apply (HInv (Hd eq_refl) p m k cd ck n H1 H2 H3).
        - apply (HD p m k cd ck n H1 H2 H3). }
      assert (Hexists : forall inv, (inv = true -> r_inverse c = true) -> forall p k ck,
                0 < occ (dirb inv) tau I g cls p k ck ->
                exists m cd n, In (p, m) (class_pd (cls, e) inv) /\ In (k, cd) m /\ In (ck, n) cd).
      { intros [|] Hd p k ck Hpos; cbn [class_pd snd dirb] in *.
        - destruct (proj2 (HComp p k) (Hd eq_refl) ck Hpos) as (m & cd & A & B & D).
          exists m, cd, (occ Inverse tau I g cls p k ck). split; [exact A | split; [exact B | exact D]].
        - destruct (proj1 (HComp p k) ck Hpos) as (m & cd & A & B & D).
          exists m, cd, (occ Direct tau I g cls p k ck). split; [exact A | split; [exact B | exact D]]. }
      cbv zeta. split; [apply (class_has_instance tau g SD I HI cls Hck)|].
      assert (Ecnt : class_cnt C (cls, e) = N.of_nat (List.length (instances_of tau g cls))).
      { unfold class_cnt. cbn [fst]. rewrite (HC cls Hck). apply (class_count_bridge tau g SD I HI). }
      split; [exact Ecnt|]. split.
      { rewrite Ecnt. apply HokN.
        - pose proof (class_has_instance tau g SD I HI cls Hck) as Hne.
          destruct (instances_of tau g cls); [contradiction | cbn; lia].
        - rewrite (instances_of_eq tau g), map_length.
          pose proof (filter_length_le (is_inst tau cls) g). lia. }
      split; [|split].
      + intros inv Hd. split.
        * intros p m k cd ck n H1 H2 H3. destruct (Hentries inv Hd p m k cd ck n H1 H2 H3) as [En _].
          rewrite En, (occ_bridge tau g SD I HI). reflexivity.
        * intros p m k cd j n H1 H2 H3 Hp. destruct (Hentries inv Hd p m k cd (CKn j) n H1 H2 H3) as [En Hpos].
          apply (Hexists inv Hd p k CKplus).
          pose proof (occ_exact_le_plus (dirb inv) tau I g cls p k j (proj2 (str_eqb_neq p tau) Hp)). lia.
      + intros inv Hd p m k cd ck n H1 H2 H3. apply (Hentries inv Hd p m k cd ck n H1 H2 H3).
      + intros inv Hd i p k Hi Hpos. apply (Hexists inv Hd p k).
        rewrite (occ_bridge tau g SD I HI). apply (n_inst_pos _ _ i Hi).
        unfold card_ok. rewrite (proj2 (N.ltb_lt _ _) Hpos). destruct (str_eqb p tau); reflexivity.
    - intros t cn Ht Hp Ho. pose proof (keys_kept _ (instance_class_key tau g I HI t cn Ht Hp Ho)) as Hin.
      unfold dkeys in Hin. apply in_map_iff in Hin. destruct Hin as [ce [E Hce]]. exists ce. split; assumption.
    - intros ce1 ce2 H1 H2 E.
      destruct (class_keys_instance tau g SD I HI _ (Hcls ce1 H1)) as (t1 & c1 & T1 & P1 & O1 & N1).
      destruct (class_keys_instance tau g SD I HI _ (Hcls ce2 H2)) as (t2 & c2 & T2 & P2 & O2 & N2).
      rewrite <- N1, <- N2. apply (sd_names _ _ _ SD t1 c1 t2 c2 T1 P1 O1 T2 P2 O2). rewrite N1, N2. exact E.
  Qed.
End Discharge.

(** * T4 without the profile premise *)
Theorem run_conformance_full fa okN okF (L : FreqLaws fa okN okF) c g ns shapes :
  okN 1 -> (forall d, 0 < d -> d <= N.of_nat (List.length g) -> okN d) ->
  r_keep_less_specific c = true -> r_all_compliant c = true -> r_disable_or c = true ->
  r_targets c = None -> (r_cap c <= 0)%Z -> r_shapes_ns c = c_SHAPES_DEFAULT_NAMESPACE ->
  strict_domb (r_tau c) (r_shapes_ns c) g = true ->
  run_shapes fa c (thr_val fa 0 1) g = inl (ns, shapes) ->
  valid_typing (schema_of (r_tau c) shapes) g (instance_typing (r_tau c) (r_shapes_ns c) g).
Proof.
  intros H1 Hok Hk Ha Ho Ht Hc Hs Hsd Hrun.
  apply (run_conformance_thr0 fa okN okF L c g ns shapes H1 Hk Ha Ho Hsd); [|exact Hrun].
  intros ins P C ID Htr Hpr. rewrite Ht in Htr.
  apply strict_domb_sound in Hsd. rewrite Hs in Hsd.
  exact (profile_exact_discharged okN c g ns Ht Hc Hs Hsd Hok ins P C ID Htr Hpr).
Qed.
