(** * A concrete class profile and configurations for the non-vacuity
    examples and refutation witnesses of Props/C13.v, C14shex.v, C05refs.v. *)
From Coq Require Import List Ascii String ZArith NArith Bool.
From Shexer Require Import Lib.PyStr Lib.Dict Lib.Bin64 Gen.Consts Model.Profiler Model.Tokens Model.Freq
     Model.FreqInst Model.Shexing.
From Shexer Require Import Proofs.ShexBasics.
Import ListNotations.

Definition ex_tA : str := Str "http://e/A".
Definition ex_tB : str := Str "http://e/B".
Definition ex_tC : str := Str "http://e/C".
Definition ex_tZ : str := Str "http://e/Z".
Definition ex_sB : str := shape_name c_SHAPES_DEFAULT_NAMESPACE ex_tB.
Definition ex_sC : str := shape_name c_SHAPES_DEFAULT_NAMESPACE ex_tC.
Definition ex_sZ : str := shape_name c_SHAPES_DEFAULT_NAMESPACE ex_tZ.
Definition ex_tau : str := Str "http://www.w3.org/1999/02/22-rdf-syntax-ns#type".
Definition ex_xsd_string : str := Str "http://www.w3.org/2001/XMLSchema#string".
Definition ex_xsd_int : str := Str "http://www.w3.org/2001/XMLSchema#integer".

(** class A: 4 instances; [p] points to IRIs that are instances of B (3
    subjects) or C (1 subject); [q] has three string values for 2 subjects;
    [s] one integer for 2 subjects; [r] is an incoming property *)
Definition ex_entry_A : centry :=
  {| c_direct :=
       [ (ex_tau, [(ex_tA, [(CKn 1, 4%N)])]);
         (Str "http://e/p", [ (c_IRI_ELEM_TYPE, [(CKn 1, 3%N); (CKplus, 3%N)]);
                              (ex_sB, [(CKn 1, 3%N); (CKplus, 3%N)]);
                              (ex_sC, [(CKn 1, 1%N); (CKplus, 1%N)]) ]);
         (Str "http://e/q", [ (ex_xsd_string, [(CKn 3, 2%N); (CKplus, 2%N)]) ]);
         (Str "http://e/s", [ (ex_xsd_int, [(CKn 1, 2%N); (CKplus, 2%N)]) ]) ];
     c_inverse :=
       [ (Str "http://e/r", [ (c_IRI_ELEM_TYPE, [(CKn 1, 2%N); (CKplus, 2%N)]) ]) ] |}.

Definition ex_entry (c : str) (n : N) : centry :=
  {| c_direct := [ (ex_tau, [(c, [(CKn 1, n)])]) ]; c_inverse := [] |}.

Definition ex_P : cprofile :=
  [ (ex_tA, ex_entry_A); (ex_tB, ex_entry ex_tB 3); (ex_tC, ex_entry ex_tC 1) ].
Definition ex_C : ccounts := [ (ex_tA, 4%N); (ex_tB, 3%N); (ex_tC, 1%N) ].

(** the same with a class that has no feature (e.g. a shape-map label whose
    nodes have no triples) and a reference to it *)
Definition ex_PZ : cprofile :=
  [ (ex_tA, {| c_direct := c_direct ex_entry_A ++ [ (Str "http://e/z", [ (ex_sZ, [(CKn 1, 4%N); (CKplus, 4%N)]) ]) ];
               c_inverse := [] |});
    (ex_tB, ex_entry ex_tB 3); (ex_tC, ex_entry ex_tC 1);
    (ex_tZ, {| c_direct := []; c_inverse := [] |}) ].
Definition ex_CZ : ccounts := ex_C ++ [ (ex_tZ, 2%N) ].

(** two classes with the same local name *)
Definition ex_P2 : cprofile :=
  [ (Str "http://a/X", ex_entry (Str "http://a/X") 1); (Str "http://b/X", ex_entry (Str "http://b/X") 1) ].
Definition ex_C2 : ccounts := [ (Str "http://a/X", 1%N); (Str "http://b/X", 1%N) ].

Definition ex_ns : nsdict := [ (Str "http://e/", Str "e"); (c_SHAPES_DEFAULT_NAMESPACE, Str "") ].

(** the defaults of [Shaper] *)
Definition ex_cfg : scfg :=
  {| x_tau := ex_tau; x_inverse := false; x_shapes_ns := c_SHAPES_DEFAULT_NAMESPACE; x_ns := ex_ns;
     x_remove_empty := true; x_discard_useless := true; x_keep_less_specific := true;
     x_all_compliant := true; x_disable_or := true; x_allow_redundant_or := false;
     x_allow_opt := true; x_disable_exact := false; x_disable_comments := false |}.

Definition with_shapes_ns (ns : str) (c : scfg) : scfg :=
  {| x_tau := x_tau c; x_inverse := x_inverse c; x_shapes_ns := ns; x_ns := x_ns c;
     x_remove_empty := x_remove_empty c; x_discard_useless := x_discard_useless c;
     x_keep_less_specific := x_keep_less_specific c; x_all_compliant := x_all_compliant c;
     x_disable_or := x_disable_or c; x_allow_redundant_or := x_allow_redundant_or c;
     x_allow_opt := x_allow_opt c; x_disable_exact := x_disable_exact c;
     x_disable_comments := x_disable_comments c |}.

Definition ex_thr : F QAlg := thr_val QAlg 0 1.

(** observations small enough to compare by computation *)
Definition obs_cards (r : list shape + serr) : list (list card) :=
  match r with inl l => map (fun sh => map s_card (sh_stmts sh)) l | inr _ => [] end.
Definition obs_ncomments (r : list shape + serr) : list (list nat) :=
  match r with inl l => map (fun sh => map (fun s => List.length (s_comments s)) (sh_stmts sh)) l | inr _ => [] end.
Definition obs_ntypes (r : list shape + serr) : list (list nat) :=
  match r with inl l => map (fun sh => map (fun s => List.length (s_types s)) (sh_stmts sh)) l | inr _ => [] end.
Definition obs_dirs (r : list shape + serr) : list (list bool) :=
  match r with inl l => map (fun sh => map s_inv (sh_stmts sh)) l | inr _ => [] end.

(** ** a run-level example: two instances of A, one pointing to an instance of B *)
From Shexer Require Import Spec.Rdf Model.Tracker Model.SerialShexc Model.Run.

Definition ex_iri (s : string) : node := Node KIri (Str s).

Definition ex_graph : graph :=
  [ T (ex_iri "http://e/a1") ex_tau (ON (ex_iri "http://e/A"));
    T (ex_iri "http://e/a1") (Str "http://e/p") (ON (ex_iri "http://e/b1"));
    T (ex_iri "http://e/b1") ex_tau (ON (ex_iri "http://e/B"));
    T (ex_iri "http://e/a2") ex_tau (ON (ex_iri "http://e/A"));
    T (ex_iri "http://e/a2") (Str "http://e/p") (ON (ex_iri "http://e/c1")) ].

Definition ex_rcfg : rcfg :=
  {| r_tau := ex_tau; r_targets := None; r_ns := []; r_shapes_ns := c_SHAPES_DEFAULT_NAMESPACE;
     r_cap := 0%Z; r_inverse := false; r_remove_empty := true; r_discard_useless := true;
     r_keep_less_specific := true; r_all_compliant := true; r_disable_or := true;
     r_allow_redundant_or := false; r_allow_opt := true; r_disable_exact := false;
     r_disable_comments := false; r_mode := FRatio |}.

(** a user dictionary that takes the empty prefix, so that the shapes
    namespace gets another one *)
Definition ex_user_ns : nsdict := [ (Str "http://x/", Str "") ].

Definition obs_comments (r : (nsdict * list shape) + rerr) : list (list (list comment)) :=
  match r with inl (_, l) => map (fun sh => map s_comments (sh_stmts sh)) l | inr _ => [] end.
