import sys, warnings, signal, itertools, collections
warnings.filterwarnings("ignore")
sys.path.insert(0,'/repo'); sys.path.insert(0,'.')
from shexer.io.graph.yielder.nt_triples_yielder import NtTriplesYielder
class TO(Exception): pass
def h(*a): raise TO()
signal.signal(signal.SIGALRM,h)
XS="http://www.w3.org/2001/XMLSchema#"; LS="http://www.w3.org/1999/02/22-rdf-syntax-ns#langString"
ITEMS=['a','7','_',' ','@','^^','#',' .','<','>','xsd:','geo:','%','\\"','\\\\','é','\\u00e9']
SUFF=[('',XS+'string'),('@en',LS),('@en-GB',LS),('^^<http://e/dt>','http://e/dt'),('^^<'+XS+'integer>',XS+'integer')]
def parse1(line):
    y=NtTriplesYielder(raw_graph=line)
    signal.setitimer(signal.ITIMER_REAL,0.3)
    try:
        out=[(type(s).__name__,str(s),str(p),type(o).__name__,getattr(o,'elem_type',None)) for s,p,o in y.yield_triples()]
        return out, y.error_triples
    except TO: return 'HANG',0
    except Exception as e: return 'EXC:'+type(e).__name__,0
    finally: signal.setitimer(signal.ITIMER_REAL,0)
stats=collections.Counter(); sig=collections.Counter(); ex={}
maxitems=int(sys.argv[1])
for n in range(maxitems+1):
  for items in itertools.product(ITEMS, repeat=n):
    lex="".join(items)
    for suf,dt in SUFF:
      for predot in (' ',''):
        for tail in ('',' # c'):
          line=f'<http://e/s> <http://e/p> "{lex}"{suf}{predot}.{tail}'
          exp=([('IRI','http://e/s','http://e/p','Literal',dt)],0)
          got=parse1(line); stats['n']+=1
          if got!=exp:
            stats['bad']+=1
            kind = got[0] if isinstance(got[0],str) else ('dropped' if got[0]==[] else ('wrongdt' if got[0][0][4]!=dt else 'other'))
            feats=tuple(sorted({f for f in ('^^','@','%','xsd:','geo:','\\"','\\\\',' .','<','>','#') if f in lex}))
            key=(kind, 'lang' if suf.startswith('@') else ('typed' if suf else 'plain'), predot=='' , feats)
            sig[key]+=1; ex.setdefault(key,line)
print(dict(stats))
# aggregate by (kind, suffixclass, nodot) and list minimal feature sets
agg=collections.defaultdict(list)
for k,v in sig.items(): agg[k[:3]].append((k[3],v))
for k,v in sorted(agg.items()):
    v.sort(key=lambda x:(len(x[0]),-x[1]))
    print(k, sum(c for _,c in v), "min feature sets:", [f for f,_ in v[:6]], "e.g.", ex[(k[0],k[1],k[2],v[0][0])])
