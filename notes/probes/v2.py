import sys, warnings
warnings.filterwarnings("ignore")
sys.path.insert(0,'/repo'); sys.path.insert(0,'.')
from run1 import T, run
from shexer.consts import *
def tr(name, f):
    print("=====", name)
    try: print(f())
    except Exception as e: print("EXC", type(e).__name__, str(e)[:150])
# a, b instances of A; a -> e (e is the only instance of E and has no triples), b -> u (untyped)
g='''<http://ex.org/a> <http://ex.org/p> <http://ex.org/e> .
<http://ex.org/b> <http://ex.org/p> <http://ex.org/u> .
<http://ex.org/c> <http://ex.org/p> <http://ex.org/e> .
'''
sm='<http://ex.org/a>@<http://sh/A>\n<http://ex.org/b>@<http://sh/A>\n<http://ex.org/c>@<http://sh/A>\n<http://ex.org/e>@<http://sh/E>'
for t in (0, 0.6, 0.7, 1):
    tr("t=%s"%t, lambda: run(g, shape_map_raw=sm, acceptance_threshold=t))
tr("t=0 keep empty", lambda: run(g, shape_map_raw=sm, remove_empty_shapes=False))
open('/tmp/exp/tc2.txt','w').write('http://ex.org/C\nhttp://ex.org/X\n')
g2=f'<http://ex.org/a> {T} <http://ex.org/C> .\n'
tr("file targets keep empty", lambda: run(g2, file_target_classes='/tmp/exp/tc2.txt', remove_empty_shapes=False))
