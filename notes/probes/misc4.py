import sys, warnings
warnings.filterwarnings("ignore")
sys.path.insert(0,'/repo'); sys.path.insert(0,'.')
from run1 import T, run
from shexer.shaper import Shaper
from shexer.consts import *
# mixed kinds with threshold
g=f'''<http://ex.org/a> {T} <http://ex.org/C> .
<http://ex.org/a> <http://ex.org/p> <http://ex.org/x> .
<http://ex.org/b> {T} <http://ex.org/C> .
<http://ex.org/b> <http://ex.org/p> _:y .
<http://ex.org/x> {T} <http://ex.org/D> .
'''
for th in (0,0.5,0.6):
    print("== th",th)
    try: print(run(g, acceptance_threshold=th))
    except Exception as e: print("EXC", type(e).__name__, e)
# threshold removes IRI kind but keeps shape ref?  a has 2 values: one typed D one untyped -> IRI{2}, D{1}; b has one typed D -> IRI{1}, D{1}
g2=f'''<http://ex.org/a> {T} <http://ex.org/C> .
<http://ex.org/a> <http://ex.org/p> <http://ex.org/x> .
<http://ex.org/a> <http://ex.org/p> <http://ex.org/u> .
<http://ex.org/b> {T} <http://ex.org/C> .
<http://ex.org/b> <http://ex.org/p> <http://ex.org/x2> .
<http://ex.org/x> {T} <http://ex.org/D> .
<http://ex.org/x2> {T} <http://ex.org/D> .
'''
for kw in ({}, {'keep_less_specific':False}, {'keep_less_specific':False,'acceptance_threshold':0.6}, {'disable_or_statements':False}, {'disable_or_statements':False,'allow_redundant_or':True}):
    print("==", kw)
    try: print(run(g2, **kw))
    except Exception as e: print("EXC", type(e).__name__, e)
