import sys, warnings, hashlib
warnings.filterwarnings("ignore")
sys.path.insert(0,'/repo'); sys.path.insert(0,'.')
from run1 import T
from shexer.shaper import Shaper
from shexer.consts import *
lines=[]
for i in range(12):
    lines.append(f'<http://ex.org/n{i}> {T} <http://ex.org/C> .')
    lines.append(f'<http://ex.org/n{i}> <http://ex.org/p{i%3}> "v{i}" .')
    lines.append(f'<http://ex.org/n{i}> <http://ex.org/k> <http://ex.org/n{(i+1)%12}> .')
g="\n".join(lines)+"\n"
sm='SPARQL "select ?s where { ?s a <http://ex.org/C> }"@<http://sh/S>\n{FOCUS <http://ex.org/k> _}@<http://sh/K>'
s=Shaper(raw_graph=g, shape_map_raw=sm, examples_mode=ALL_EXAMPLES, input_format=NT, inverse_paths=True)
out=s.shex_graph(string_output=True)
print(hashlib.sha256(out.encode()).hexdigest()[:16])
s=Shaper(raw_graph=g, all_classes_mode=True, input_format=TURTLE, examples_mode=ALL_EXAMPLES)
out2=s.shex_graph(string_output=True)
print(hashlib.sha256(out2.encode()).hexdigest()[:16])
if len(sys.argv)>1: print(out)
