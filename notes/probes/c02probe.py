import sys, warnings, random, re, collections
warnings.filterwarnings("ignore")
sys.path.insert(0,'/repo'); sys.path.insert(0,'.')
from shexer.shaper import Shaper
from shexer.consts import *
from c01probe import gen, doc, spec, T, LINE, norm_obj
from fractions import Fraction
def vc(k):
    if k in ("IRI","BNode","NONLITERAL") or k.startswith("@"): return "NONLIT"
    return k
def run(seed):
    r=random.Random(seed); ts=gen(r); inv=bool(seed&1)
    N,occ=spec(ts,inv)
    sizes=sorted(set(N.values()))
    grid=[0,1]+[k/n for n in sizes for k in range(1,n)]
    t=r.choice(grid)
    out=Shaper(raw_graph=doc(ts), all_classes_mode=True, instances_report_mode=MIXED_INSTANCES, inverse_paths=inv, keep_less_specific=bool(seed&2), discard_useless_constraints_with_positive_closure=bool(seed&4)).shex_graph(string_output=True, acceptance_threshold=t)
    got=collections.defaultdict(list); cur=None
    for l in out.split("\n"):
        m=re.match(r'^:(\S+)', l)
        if m and not l.startswith("   "): cur="http://ex.org/"+m.group(1); got[cur]=[]; continue
        if cur is None or l.strip().startswith("#") or not l.strip() or l.strip() in "{}": continue
        m=LINE.match(l); inv_,p,o,card,ratio,n=m.groups()
        got[cur].append(("i" if inv_ else "d",p,vc(norm_obj(o))))
    # expected by code-formula and by property-formula
    plus=collections.defaultdict(dict)  # (c,d,p) -> kind -> occ+
    for (c,d,p,k,card),n in occ.items():
        if card=="+" or p==T: plus[(c,d,p)][k]=n
    exp_code=collections.defaultdict(set); 
    for (c,d,p),ks in plus.items():
        for k,n in ks.items():
            if float(n)/N[c] >= t: exp_code[c].add((d,p,vc(k)))
    res={"dup":False,"code_mismatch":False}
    for c in N:
        if len(got[c])!=len(set(got[c])): res["dup"]=True
        if set(got[c])!=exp_code[c]: res["code_mismatch"]=(c,t,sorted(set(got[c])^exp_code[c]))
    if set(got)!=set(N): res["shapes"]=(set(got),set(N))
    return res
if __name__=="__main__":
    cnt=collections.Counter(); shown=0
    for seed in range(int(sys.argv[1])):
        try: r=run(seed)
        except (TypeError,AttributeError) as e: cnt[type(e).__name__]+=1; continue
        for k,v in r.items():
            if v:
                cnt[k]+=1
                if shown<4: print(seed,k,v); shown+=1
        cnt["runs"]+=1
    print(dict(cnt))
