import sys, warnings, signal
warnings.filterwarnings("ignore")
sys.path.insert(0,'/repo'); sys.path.insert(0,'.')
from shexer.io.graph.yielder.big_ttl_triples_yielder import BigTtlTriplesYielder
class TO(Exception): pass
def h(*a): raise TO()
signal.signal(signal.SIGALRM,h)
def parse(doc):
    y=BigTtlTriplesYielder(raw_graph=doc)
    signal.alarm(2)
    try:
        out=[(type(s).__name__,str(s),str(p),type(o).__name__,str(o),getattr(o,'elem_type',None)) for s,p,o in y.yield_triples()]
    except TO:
        return 'HANG'
    except Exception as e:
        return ('EXC',type(e).__name__,str(e))
    finally:
        signal.alarm(0)
    return out
P='@prefix ex: <http://e/> .\n@prefix xsd: <http://www.w3.org/2001/XMLSchema#> .\n'
tests=[
 'ex:s ex:p ex:o .',
 'ex:s ex:p ex:o.',
 'ex:s\n ex:p ex:o .',
 'ex:s ex:p ex:o ;\n ex:q ex:o2 .',
 'ex:s ex:p ex:o , ex:o2 .',
 'ex:s ex:p ex:o ,\n ex:o2\n.',
 'ex:s ex:p "a" .',
 'ex:s ex:p "a"@en .',
 'ex:s ex:p "a"^^xsd:integer .',
 'ex:s ex:p "a"^^<http://e/dt> .',
 'ex:s ex:p "a" ;\n ex:q "b" .',
 'ex:s ex:p "a"\n.',
 'ex:s ex:p "a # b" . # c',
 'ex:s ex:p "a ; b" .',
 'ex:s ex:p "a\\"b" .',
 'ex:s a ex:C .',
 'ex:s ex:p 5 .',
 '<http://e/s> <http://e/p> <http://e/o> .',
 '<http://e/s> <http://e/p> <http://e/o>.',
 'ex:s ex:p _:b .',
 '_:b ex:p ex:o .',
 'ex:s ex:p ex:o ; ex:q ex:o2 .',
 'ex:s ex:p\n ex:o .',
 'ex:s ex:p "a"; ex:q "b" .',
 '# comment\nex:s ex:p ex:o .',
 'ex:s ex:p ex:o . # trailing',
 'ex:s ex:p ex:o .\nex:s2 ex:p ex:o .',
 'ex:s ex:p "a" , "b" .',
 'ex:s ex:p "a"^^xsd:integer , "b" .',
 'ex:s ex:p "a\\\\" .',
]
for t in tests:
    print(repr(t), '->', parse(P+t))
print(parse('@base <http://e/> .\n<s> <p> <o> .\n<#s> <p> </o> .'))
