import sys, warnings
warnings.filterwarnings("ignore")
sys.path.insert(0,'/repo'); sys.path.insert(0,'.')
from run1 import T
from shexer.shaper import Shaper
from shexer.consts import *
g=f'''<http://ex.org/a> {T} <http://ex.org/C> .
<http://ex.org/a> <http://ex.org/p> "1" .
<http://ex.org/b> {T} <http://ex.org/C> .
<http://ex.org/b> <http://ex.org/r> "1" .
<http://ex.org/b> <http://ex.org/r> "2" .
<http://ex.org/c> {T} <http://ex.org/C> .
'''
s=Shaper(raw_graph=g, all_classes_mode=True)
a=s.shex_graph(string_output=True, acceptance_threshold=0)
b=s.shex_graph(string_output=True, acceptance_threshold=0)
c=s.shex_graph(string_output=True, acceptance_threshold=1)
print("same repeated:", a==b); print("threshold honoured on later call:", c!=a)
print(a)
d=s.shex_graph(string_output=True, output_format=SHACL_TURTLE)
print(d[:200])
e=s.shex_graph(string_output=True)
print("after SHACL same:", e==a)
if e!=a: print(e)
ns={"http://ex.org/":"ex"}
s1=Shaper(raw_graph=g, all_classes_mode=True, namespaces_dict=ns)
print(ns)
s2=Shaper(raw_graph=g, all_classes_mode=True, namespaces_dict=ns, shapes_namespace="http://other/")
print(ns)
print(s1.shex_graph(string_output=True)[:200])
s3=Shaper(raw_graph=g, all_classes_mode=True, examples_mode=ALL_EXAMPLES)
x=s3.shex_graph(string_output=True); y=s3.shex_graph(string_output=True)
print("examples repeated same:", x==y); print(y)
