import sys, warnings, random, collections
warnings.filterwarnings("ignore")
sys.path.insert(0,'/repo'); sys.path.insert(0,'.')
from meta import run, facts, keys, SW
import c03probe
cnt=collections.Counter()
for seed in range(600):
    ts=c03probe.gen(random.Random(seed)); kw=SW[seed%16]
    ts2=ts[:]; random.Random(seed+7).shuffle(ts2)
    a=run(ts,**kw); b=run(ts2,**kw)
    cnt["facts_eq"]+= facts(a)==facts(b); cnt["keys_eq"]+= keys(a)==keys(b)
    def body(sh): return {s:(v[0],sorted(map(str,v[1]))) for s,v in sh.items()}
    cnt["full_eq_modulo_order"]+= body(a)==body(b)
    cnt["n"]+=1
print(dict(cnt))
