import sys, warnings, random, re, collections
warnings.filterwarnings("ignore")
sys.path.insert(0,'/repo'); sys.path.insert(0,'.')
from shexer.shaper import Shaper
from shexer.consts import *
from c01probe import nt, doc, T, XS, LINE, norm_obj
def gen(r):
    ncls=r.randint(1,3); classes=[f"http://ex.org/C{i}" for i in range(ncls)]
    bn_class=r.random()<0.2
    inst={c:[(("B",f"_:b{ci}_{j}") if (bn_class and ci==0) else ("I",f"http://ex.org/n{ci}_{j}")) for j in range(r.randint(1,4))] for ci,c in enumerate(classes)}
    ts=[]
    for c in classes:
        for n in inst[c]: ts.append((n,T,("I",c)))
    untyped_i=[("I",f"http://ex.org/u{i}") for i in range(3)]; untyped_b=[("B",f"_:ub{i}") for i in range(3)]
    pid=0
    for c in classes:
        for _ in range(r.randint(1,3)):
            p=f"http://ex.org/p{pid}"; pid+=1
            kind=r.choice(["lit","iri_u","iri_t","bn_u","bn_t","lit+iri_u","lit+iri_t"])
            tgt=r.choice(classes)
            dts=r.sample([XS+"string",XS+"integer","http://ex.org/dt"], r.randint(1,2))
            for n in inst[c]:
                for _ in range(r.choice([0,1,1,2,3])):
                    ks=kind.split("+"); k=r.choice(ks)
                    if k=="lit": o=("L",f"v{r.randint(0,20)}",r.choice(dts))
                    elif k=="iri_u": o=r.choice(untyped_i)
                    elif k=="bn_u": o=r.choice(untyped_b)
                    else:
                        cand=[x for x in inst[tgt] if (x[0]=="I")==(k=="iri_t")]
                        if not cand: continue
                        o=r.choice(cand)
                    t=(n,p,o)
                    if t not in ts: ts.append(t)
    # untyped subjects pointing to instances with their own props
    for c in classes:
        if r.random()<0.5:
            p=f"http://ex.org/q{pid}"; pid+=1; src=r.choice([untyped_i,untyped_b])
            for n in inst[c]:
                for _ in range(r.choice([0,1,2])):
                    t=(r.choice(src),p,n)
                    if t not in ts: ts.append(t)
    r.shuffle(ts); return ts
def parse(out):
    shapes={}; cur=None
    for l in out.split("\n"):
        m=re.match(r'^:(\S+)', l)
        if m and not l.startswith("   "): cur="http://ex.org/"+m.group(1); shapes[cur]=[]; continue
        if cur is None or l.strip().startswith("#") or not l.strip() or l.strip() in "{}": continue
        m=LINE.match(l)
        if not m: raise Exception("unparsed "+l)
        inv_,p,o,card,ratio,n=m.groups()
        shapes[cur].append(("i" if inv_ else "d",p,o,card or "1"))
    return shapes
def validate(ts, shapes):
    I=collections.defaultdict(list)
    for s,p,o in ts:
        if p==T: I[s[1]].append(o[1])
    def match(x,o):
        if o.startswith("[<"): return x[0]!="L" and x[1]==o[2:-2]
        if o.startswith("@:"): return x[0]!="L" and ("http://ex.org/"+o[2:]) in I.get(x[1],[])
        if o=="IRI": return x[0]=="I"
        if o=="BNode": return x[0]=="B"
        if o=="NONLITERAL": return x[0]!="L"
        if o.startswith("<"): return x[0]=="L" and x[2]==o[1:-1]
        raise Exception("obj? "+o)
    bad=[]
    for i,cs in I.items():
        for c in cs:
            sh=shapes.get(c)
            if sh is None: bad.append(("noshape",c)); continue
            mentioned={(d,p) for d,p,_,_ in sh}
            for d,p in mentioned:
                vals=[o for s,pp,o in ts if pp==p and s[1]==i] if d=="d" else [s for s,pp,o in ts if pp==p and o[0]!="L" and o[1]==i]
                cons=[(o,card) for dd,pp,o,card in sh if (dd,pp)==(d,p)]
                for v in vals:
                    if not any(match(v,o) for o,_ in cons): bad.append(("unmatched",i,c,d,p,v))
                for o,card in cons:
                    n=sum(1 for v in vals if match(v,o))
                    ok={"1":n==1,"+":n>=1,"*":True,"?":n<=1}.get(card)
                    if ok is None: ok=(n==int(card.strip("{}")))
                    if not ok: bad.append(("card",i,c,d,p,o,card,n))
    return bad
if __name__=="__main__":
    nb=0; nexc=0; n=int(sys.argv[1])
    sw=[dict(inverse_paths=i, allow_opt_cardinality=a, disable_exact_cardinality=e, discard_useless_constraints_with_positive_closure=d) for i in (False,True) for a in (True,False) for e in (True,False) for d in (True,False)]
    for seed in range(n):
        r=random.Random(seed); ts=gen(r); kw=sw[seed%16]
        try:
            out=Shaper(raw_graph=doc(ts), all_classes_mode=True, instances_report_mode=MIXED_INSTANCES, **kw).shex_graph(string_output=True)
            bad=validate(ts, parse(out))
        except Exception as e:
            nexc+=1
            if nexc<=3: print("seed",seed,"EXC",type(e).__name__,str(e)[:100])
            continue
        if bad:
            nb+=1
            if nb<=5: print("seed",seed,kw,bad[:2]); 
    print("runs",n,"nonconforming",nb,"exceptions",nexc)
