import sys, warnings, signal
warnings.filterwarnings("ignore")
sys.path.insert(0,'/repo'); sys.path.insert(0,'.')
from shexer.io.graph.yielder.nt_triples_yielder import NtTriplesYielder
class TO(Exception): pass
def h(*a): raise TO()
signal.signal(signal.SIGALRM,h)
def parse(line):
    y=NtTriplesYielder(raw_graph=line)
    signal.alarm(2)
    try:
        out=[(type(s).__name__,str(s),str(p),type(o).__name__,str(o),getattr(o,'elem_type',None)) for s,p,o in y.yield_triples()]
    except TO:
        return 'HANG'
    except Exception as e:
        return ('EXC',type(e).__name__,str(e))
    finally:
        signal.alarm(0)
    return out, y.error_triples
S='<http://e/s> <http://e/p> '
tests=[
 '_:b1.',
 '"a <b> c" .',
 '"" .',
 '"\\\\\\"" .',
 '"é" .',
 '"x@y"@en .',
 '"x\\"@y" .',
 '"geo:x"^^<http://e/dt> .',
 '"http://www.w3.org/2001/XMLSchema#"^^<http://e/dt> .',
 '"a"^^<http://e/dt>.',
 '"a"@en.',
 '"a"  .',
 '"a\\"" .',
 '"a\\\\\\"b" .',
 '"\\"" .',
]
for t in tests:
    print(repr(t), '->', parse(S+t))
print(parse('_:s <http://e/p> "x" .'))
print(parse('<http://e/s>\t<http://e/p>\t"x"\t.'))
print(parse('<http://e/s#a@b_c:d> <http://e/p_1> <http://e/o#x> .'))
print(parse('<http://e/s> <http://e/p> <http://e/o> . # c'))
print(parse('_:s\t<http://e/p>\t_:o\t.'))
print(parse('# just a comment'))
print(parse('<http://e/1s> <http://e/p> "1" .'))
