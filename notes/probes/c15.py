import sys, warnings, json
warnings.filterwarnings("ignore")
sys.path.insert(0,'/repo'); sys.path.insert(0,'.')
import rdflib
from run1 import T
import shexer.io.sparql.query as Q
from shexer.shaper import Shaper
from shexer.consts import *
g=f'''<http://ex.org/a> {T} <http://ex.org/C> .
<http://ex.org/a> <http://ex.org/p> <http://ex.org/b> .
<http://ex.org/a> <http://ex.org/n> "x" .
<http://ex.org/a> <http://ex.org/m> "5"^^<http://www.w3.org/2001/XMLSchema#integer> .
<http://ex.org/b> {T} <http://ex.org/D> .
<http://ex.org/b> <http://ex.org/p> <http://ex.org/c> .
<http://ex.org/c> {T} <http://ex.org/C> .
<http://ex.org/c> <http://ex.org/n> "y" .
'''
RG=rdflib.Graph().parse(data=g, format='nt')
LOG=[]
def fake(endpoint_url, str_query, max_retries=5, sleep_time=2, fake_user_agent=True):
    LOG.append(str_query)
    res=RG.query(str_query)
    return json.loads(res.serialize(format='json'))
Q._query_endpoint_json_result=fake
for kw in ({'target_classes':['http://ex.org/C']}, {'all_classes_mode':True}, {'shape_map_raw':'{FOCUS a <http://ex.org/C>}@<http://sh/A>'}):
  for cache in (False, True):
    LOG.clear()
    try:
        s=Shaper(url_endpoint="http://fake/sparql", disable_endpoint_cache=not cache, instances_report_mode=MIXED_INSTANCES, **kw)
        out=s.shex_graph(string_output=True)
        print("=====",kw,"cache",cache,"queries",len(LOG)); print(out)
    except Exception as e:
        import traceback; traceback.print_exc()
