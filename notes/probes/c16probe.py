import sys, warnings, random, re, collections
warnings.filterwarnings("ignore")
sys.path.insert(0,'/repo'); sys.path.insert(0,'.')
from shexer.shaper import Shaper
from shexer.consts import *
from c01probe import gen, doc, T, LINE, COM, norm_obj
import c01probe
def spec_capped(ts, k, inverse):
    """occ computed with the instance dictionary restricted to the first k instantiation triples per class"""
    counts=collections.Counter(); keep=set()
    for s,p,o in ts:
        if p==T and counts[o[1]]<k: counts[o[1]]+=1; keep.add((s[1],o[1]))
    ts2=[t for t in ts if not (t[1]==T and (t[0][1],t[2][1]) not in keep)]
    # features: all triples, but class membership only from kept typing triples
    I=collections.OrderedDict()
    for s,p,o in ts2:
        if p==T: I.setdefault(s[1],[]).append(o[1])
    return I
def check(seed):
    r=random.Random(seed); ts=gen(r); k=r.randint(1,4); tc=bool(seed&1)
    classes=sorted({o[1] for s,p,o in ts if p==T})
    kw=dict(target_classes=classes) if tc else dict(all_classes_mode=True)
    out=Shaper(raw_graph=doc(ts), instances_cap=k, instances_report_mode=MIXED_INSTANCES, **kw).shex_graph(string_output=True)
    I=spec_capped(ts,k,False)
    N=collections.Counter(c for cs in I.values() for c in cs)
    # recompute occ with restricted I but full triples
    cnt=collections.Counter()
    for s,p,o in ts:
        if s[1] in I:
            if p==T: keys=[o[1]]
            else:
                keys=[o[2] if o[0]=="L" else ("IRI" if o[0]=="I" else "BNode")]
                if o[0]!="L" and o[1] in I: keys+=["@"+c01probe.shape_name(c) for c in I[o[1]]]
            for kk in keys: cnt[(s[1],p,kk)]+=1
    occ=collections.Counter()
    for (i,p,kk),n in cnt.items():
        for c in I[i]:
            if p==T: occ[(c,p,kk,"1")]+=1
            else: occ[(c,p,kk,str(n))]+=1; occ[(c,p,kk,"+")]+=1
    bad=[]; cur=None
    for l in out.split("\n"):
        m=re.match(r'^:(\S+)\s+# (\d+) instance', l)
        if m:
            cur="http://ex.org/"+m.group(1)
            if N[cur]!=int(m.group(2)): bad.append(("hdr",cur,N[cur],m.group(2)))
            continue
        if cur is None or not l.strip() or l.strip() in "{}": continue
        m=COM.match(l)
        if m:
            ratio,n,o,card=m.groups(); kk=norm_obj(o)
            if kk!="NONLITERAL" and occ[(cur,last_p,kk,card.strip("{}"))]!=int(n): bad.append(("com",cur,last_p,kk,card,n))
            continue
        m=LINE.match(l); inv_,p,o,card,ratio,n=m.groups(); last_p=p; kk=norm_obj(o)
        if n is not None and kk!="NONLITERAL" and occ[(cur,p,kk,(card or "1").strip("{}"))]!=int(n): bad.append(("line",cur,p,kk,card,n))
    return bad,(k,tc)
cnt=collections.Counter()
for seed in range(int(sys.argv[1])):
    try: bad,info=check(seed)
    except (TypeError,AttributeError): cnt["crash"]+=1; continue
    except ValueError: cnt["empty_targets"]+=1; continue
    cnt["ok" if not bad else "bad"]+=1
    if bad and cnt["bad"]<=3: print(seed,info,bad[:3])
print(dict(cnt))
