import sys, warnings, random, re, collections, itertools
warnings.filterwarnings("ignore")
sys.path.insert(0,'/repo'); sys.path.insert(0,'.')
from shexer.shaper import Shaper
from shexer.consts import *
from c01probe import gen, doc, T, XS, LINE, COM, norm_obj
def parse(out):
    """-> {shape: (n, [ (dir,p,obj,card,(ratio,n)|None, [comments]) ])}"""
    shapes=collections.OrderedDict(); cur=None
    for l in out.split("\n"):
        m=re.match(r'^(\S+)\s*(?:# (\d+) instance)?', l)
        if l and not l.startswith(" ") and not l.startswith("PREFIX") and l.strip() not in "{}" :
            cur=m.group(1); shapes[cur]=[m.group(2),[]]; continue
        if cur is None or not l.strip() or l.strip() in "{}": continue
        m=COM.match(l)
        if m: shapes[cur][1][-1][5].append(m.groups()); continue
        m=LINE.match(l)
        if not m: raise Exception("unparsed: "+l)
        inv_,p,o,card,ratio,n=m.groups()
        shapes[cur][1].append(["i" if inv_ else "d",p,norm_obj(o),card or "1",(ratio,n) if n else None,[]])
    return shapes
def vc(k): return "NONLIT" if (k in ("IRI","BNode","NONLITERAL") or k.startswith("@")) else k
def keys(sh): return {s:{(c[0],c[1],vc(c[2])) for c in v[1]} for s,v in sh.items()}
def facts(sh):
    f=set()
    for s,v in sh.items():
        f.add((s,"N",v[0]))
        for c in v[1]:
            if c[4]: f.add((s,c[0],c[1],c[2],c[3].strip("{}"),c[4][1]))
            for com in c[5]: f.add((s,c[0],c[1],norm_obj(com[2]),com[3].strip("{}"),com[1]))
    return f
def run(ts, th=0, **kw):
    kw.setdefault("instances_report_mode",MIXED_INSTANCES)
    return parse(Shaper(raw_graph=doc(ts), all_classes_mode=True, **kw).shex_graph(string_output=True, acceptance_threshold=th))
SW=[dict(keep_less_specific=k, all_instances_are_compliant_mode=a, discard_useless_constraints_with_positive_closure=d, inverse_paths=i) for k in (True,False) for a in (True,False) for d in (True,False) for i in (False,True)]
def main(n):
    cnt=collections.Counter(); shown=collections.Counter()
    def flag(name, seed, info):
        cnt[name]+=1
        if shown[name]<2: shown[name]+=1; print("!!",name,"seed",seed,str(info)[:300])
    for seed in range(n):
        r=random.Random(seed); ts=gen(r); kw=SW[seed%16]
        try:
            base=run(ts, **kw)
            # C12 monotone thresholds
            sizes=sorted({int(v[0]) for v in base.values()}); grid=sorted({0,1}|{k/m for m in sizes for k in range(1,m)})
            prev=None
            for t in grid:
                cur=run(ts, th=t, **kw)
                if prev is not None:
                    kp,kc=keys(prev),keys(cur)
                    if not set(kc)<=set(kp): flag("C12_shapes",seed,(t,))
                    for s in kc:
                        if s in kp and not kc[s]<=kp[s]: flag("C12_keys",seed,(t,s,kc[s]-kp[s]))
                    if not facts(cur)<=facts(base): flag("C12_figs",seed,(t,sorted(facts(cur)-facts(base))[:2]))
                prev=cur
            # C09 permutation
            ts2=ts[:]; random.Random(seed+1).shuffle(ts2)
            p=run(ts2, **kw)
            if keys(p)!=keys(base): flag("C09_keys",seed,"")
            if facts(p)!=facts(base): flag("C09_facts",seed,sorted(facts(p)^facts(base))[:3])
            # C13 option isolation
            def cards(sh): return {(s,c[0],c[1],vc(c[2])):c[3] for s,v in sh.items() for c in v[1]}
            a=run(ts, **dict(kw, allow_opt_cardinality=False))
            ca,cb=cards(a),cards(base)
            if {k:("*" if v=="?" else v) for k,v in cb.items()}!=ca: flag("C13_opt",seed,"")
            e=run(ts, **dict(kw, disable_exact_cardinality=True))
            if {k:("+" if v.startswith("{") else v) for k,v in cb.items()}!=cards(e): flag("C13_exact",seed,[(k,cb[k],cards(e).get(k)) for k in cb if ("+" if cb[k].startswith("{") else cb[k])!=cards(e).get(k)][:2])
            d=run(ts, **dict(kw, disable_comments=True, instances_report_mode=RATIO_INSTANCES))
            if cards(d)!=cb: flag("C13_comments",seed,"")
            # C14 inverse leaves direct untouched
            if kw["inverse_paths"]:
                ni=run(ts, **dict(kw, inverse_paths=False))
                bd={s:(v[0],[c for c in v[1] if c[0]=="d"]) for s,v in base.items()}
                nd={s:(v[0],[c for c in v[1]]) for s,v in ni.items()}
                if bd!=nd: flag("C14_direct",seed,"")
            cnt["ok"]+=1
        except (TypeError,AttributeError) as ex: cnt[type(ex).__name__]+=1
    print(dict(cnt))
if __name__=="__main__": main(int(sys.argv[1]))
