import sys, warnings
warnings.filterwarnings("ignore")
sys.path.insert(0,'/repo'); sys.path.insert(0,'.')
from shexer.shaper import Shaper
from shexer.consts import *
T="<http://www.w3.org/1999/02/22-rdf-syntax-ns#type>"
def run(g, **kw):
    fmt = kw.pop('output_format', SHEXC)
    th = kw.pop('acceptance_threshold', 0)
    kw.setdefault('instances_report_mode', MIXED_INSTANCES)
    kw.setdefault('input_format', NT)
    if not any(k in kw for k in ('target_classes','shape_map_raw','file_target_classes')):
        kw.setdefault('all_classes_mode', True)
    s=Shaper(raw_graph=g, **kw)
    return s.shex_graph(string_output=True, output_format=fmt, acceptance_threshold=th)
if __name__=="__main__":
    # profile_graph crash
    g=f'''<http://ex.org/a> {T} <http://ex.org/C> .
<http://ex.org/a> <http://ex.org/p> "x" .
'''
    s=Shaper(raw_graph=g, all_classes_mode=True)
    try:
        print(s.profile_graph(string_output=True))
    except Exception as e:
        print("profile_graph:", type(e), e)
    # IRI+BNode no shape
    g=f'''<http://ex.org/a> {T} <http://ex.org/C> .
<http://ex.org/a> <http://ex.org/p> <http://ex.org/x> .
<http://ex.org/a> <http://ex.org/p> _:b .
'''
    try:
        print(run(g))
    except Exception as e:
        import traceback; traceback.print_exc()
