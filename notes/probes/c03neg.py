import sys, random, warnings
warnings.filterwarnings("ignore")
sys.path.insert(0,'/repo'); sys.path.insert(0,'.')
from shexer.shaper import Shaper
from shexer.consts import *
import c01probe, c03probe
nb=0; ne=0
for seed in range(300):
    r=random.Random(seed); ts=c01probe.gen(r)
    try:
        out=Shaper(raw_graph=c01probe.doc(ts), all_classes_mode=True, instances_report_mode=MIXED_INSTANCES).shex_graph(string_output=True)
        bad=c03probe.validate(ts, c03probe.parse(out))
    except Exception as e: ne+=1; continue
    if bad:
        nb+=1
        if nb<=3: print(seed, bad[:2])
print("general graphs: nonconforming",nb,"exc",ne)
