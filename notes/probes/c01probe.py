import sys, warnings, random, re, collections
warnings.filterwarnings("ignore")
sys.path.insert(0,'/repo'); sys.path.insert(0,'.')
from shexer.shaper import Shaper
from shexer.consts import *
T="http://www.w3.org/1999/02/22-rdf-syntax-ns#type"
XS="http://www.w3.org/2001/XMLSchema#"
def gen(r):
    ncls=r.randint(1,3); classes=[f"http://ex.org/C{i}" for i in range(ncls)]
    nodes=[("I",f"http://ex.org/n{i}") for i in range(r.randint(2,6))]+[("B",f"_:b{i}") for i in range(r.randint(0,2))]
    props=[f"http://ex.org/p{i}" for i in range(r.randint(1,3))]
    triples=[]
    for n in nodes:
        for c in classes:
            if r.random()<0.45: triples.append((n,T,("I",c)))
    for n in nodes:
        for p in props:
            for _ in range(r.choice([0,0,1,1,2,3])):
                k=r.random()
                if k<0.35: o=("L",f"v{r.randint(0,9)}",r.choice([XS+"string",XS+"integer","http://ex.org/dt"]))
                elif k<0.5: o=("I",f"http://ex.org/u{r.randint(0,3)}")
                else: o=r.choice(nodes)
                t=(n,p,o)
                if t not in triples: triples.append(t)
    r.shuffle(triples)
    return triples
def nt(x):
    if x[0]=="I": return f"<{x[1]}>"
    if x[0]=="B": return x[1]
    return f'"{x[1]}"' if x[2]==XS+"string" else f'"{x[1]}"^^<{x[2]}>'
def doc(ts): return "".join(f"{nt(s)} <{p}> {nt(o)} .\n" for s,p,o in ts)
def shape_name(c): return "http://weso.es/shapes/"+c[c.rfind("/")+1:]
def spec(ts, inverse):
    I=collections.OrderedDict()
    for s,p,o in ts:
        if p==T: I.setdefault(s[1],[]).append(o[1])
    cnt=collections.Counter()  # (inst,dir,p,key)
    for s,p,o in ts:
        if s[1] in I:
            if p==T: keys=[o[1]]
            else:
                keys=[o[2] if o[0]=="L" else ("IRI" if o[0]=="I" else "BNode")]
                if o[0]!="L" and o[1] in I: keys+=["@"+shape_name(c) for c in I[o[1]]]
            for k in keys: cnt[(s[1],"d",p,k)]+=1
        if inverse and o[0]!="L" and o[1] in I:
            if p==T: keys=[s[1]]
            else:
                keys=["IRI" if s[0]=="I" else "BNode"]
                if s[0]=="I" and s[1] in I: keys+=["@"+shape_name(c) for c in I[s[1]]]
            for k in keys: cnt[(o[1],"i",p,k)]+=1
    occ=collections.Counter(); N=collections.Counter()
    for i,cs in I.items():
        for c in cs: N[c]+=1
    for (i,d,p,k),n in cnt.items():
        for c in I[i]:
            if p==T: occ[(c,d,p,k,"1")]+=1
            else:
                occ[(c,d,p,k,str(n))]+=1; occ[(c,d,p,k,"+")]+=1
    return N,occ
LINE=re.compile(r'^\s*(\^\s+)?<([^>]*)>\s+(\S+)\s*([+*?]|\{\d+\})?;?\s*(?:# ([0-9.e-]+) % \((\d+) instances?\)\.)?\s*$')
COM=re.compile(r'^\s*# ([0-9.e-]+) % \((\d+) instances?\)\. obj: (\S+)\. Cardinality: (\S+)\s*$')
def norm_obj(o):
    if o.startswith("[<"): return o[2:-2]
    if o.startswith("@:"): return "@http://weso.es/shapes/"+o[2:]
    if o.startswith("@<"): return "@"+o[2:-1]
    if o.startswith("<"): return o[1:-1]
    return o
def check(seed, **kw):
    r=random.Random(seed); ts=gen(r); inv=kw.get('inverse_paths',False)
    out=Shaper(raw_graph=doc(ts), all_classes_mode=True, instances_report_mode=MIXED_INSTANCES, **kw).shex_graph(string_output=True)
    N,occ=spec(ts,inv); cur=None; bad=[]; nfig=0
    skip=False
    for l in out.split("\n"):
        m=re.match(r'^:(\S+)\s+# (\d+) instance', l)
        if m:
            cur="http://ex.org/"+m.group(1)
            if N[cur]!=int(m.group(2)): bad.append(("hdr",l))
            continue
        if cur is None or not l.strip() or l.strip() in "{}": continue
        m=COM.match(l)
        if m:
            if skip and False: continue
            ratio,n,o,card=m.groups(); card=card.strip("{}")
            k=norm_obj(o); 
            if k=="NONLITERAL": continue
            exp=occ[(cur,last_dir,last_p,k,card)]; nfig+=1
            if exp!=int(n) or abs(float(ratio)-100*exp/N[cur])>1e-9: bad.append(("com",cur,last_dir,last_p,k,card,n,exp,l))
            continue
        m=LINE.match(l)
        if m:
            inv_,p,o,card,ratio,n=m.groups(); last_dir="i" if inv_ else "d"; last_p=p; k=norm_obj(o)
            if n is not None and k!="NONLITERAL":
                c=card.strip("{}") if card else "1"; nfig+=1
                exp=occ[(cur,last_dir,p,k,c)]
                if exp!=int(n): bad.append(("line",cur,last_dir,p,k,c,n,exp,l))
            continue
        bad.append(("unparsed",l))
    return bad,nfig,ts,out
if __name__=="__main__":
    tot=0; nb=0
    sw=[dict(inverse_paths=i, keep_less_specific=k, all_instances_are_compliant_mode=a, discard_useless_constraints_with_positive_closure=d) for i in (False,True) for k in (True,False) for a in (True,False) for d in (True,False)]
    for seed in range(int(sys.argv[1])):
        kw=sw[seed%len(sw)]
        try: bad,nfig,ts,out=check(seed, **kw)
        except Exception as e:
            print("seed",seed,"EXC",type(e).__name__,e); nb+=1; continue
        tot+=nfig
        if bad:
            nb+=1
            if nb<=4: print("seed",seed,kw,bad[:3]); 
    print("figures checked",tot,"bad runs",nb)
