import sys, warnings
warnings.filterwarnings("ignore")
sys.path.insert(0,'/repo'); sys.path.insert(0,'.')
from run1 import T, run
from shexer.shaper import Shaper
from shexer.consts import *
def tr(name, f):
    print("=====", name)
    try: print(f())
    except Exception as e: print("EXC", type(e).__name__, str(e)[:150])
# 1 parsed prefix collision
ttl='''@prefix : <http://ex.org/> .
:a a :C ; :p :b .
:b a :D .
'''
tr("parsed ':' prefix", lambda: run(ttl, input_format=TURTLE))
# 3 threshold drops IRI keeps shape ref: a has 2 IRI vals (both D), b has 1 (D): IRI{2} 50,{1} 50,+100 ; D same. need IRI below t but shape above -> impossible as counts (shape<=IRI)...
# IRI '+' always >= shape '+'. So IRI kind dropped but shape kept needs BNode objects typed: BNode kind and shape; then no IRI constraint: _no_bnode? has_bnodes true. Try instances: values IRI typed D for inst1; untyped... 
g=f'''<http://ex.org/a> {T} <http://ex.org/C> .
<http://ex.org/a> <http://ex.org/p> <http://ex.org/d1> .
<http://ex.org/b> {T} <http://ex.org/C> .
<http://ex.org/b> <http://ex.org/p> <http://ex.org/d2> .
<http://ex.org/b> <http://ex.org/p> <http://ex.org/d3> .
<http://ex.org/c> {T} <http://ex.org/C> .
<http://ex.org/c> <http://ex.org/p> <http://ex.org/d1> .
<http://ex.org/c> <http://ex.org/p> <http://ex.org/u> .
<http://ex.org/d1> {T} <http://ex.org/D> .
<http://ex.org/d2> {T} <http://ex.org/D> .
<http://ex.org/d3> {T} <http://ex.org/D> .
'''
# IRI: a{1}, b{2}, c{2}: {1}33 {2}67 +100 ; D: a{1}, b{2}, c{1}: {1}67 {2}33 +100. keep_less_specific False, discard... t=0.6 -> IRI{2}67,+100; D{1}67,+100
for kw in ({'acceptance_threshold':0.6},{'acceptance_threshold':0.6,'keep_less_specific':False},{'acceptance_threshold':1}):
    tr("thr "+str(kw), lambda: run(g, **kw))
# 5 https stem
g5=f'''<https://a.org/x> {T} <http://ex.org/C> .
<https://b.org/y> {T} <http://ex.org/C> .
'''
tr("https stem", lambda: run(g5, detect_minimal_iri=True))
# 6 file url
open('/tmp/exp/u.ttl','w').write(ttl)
tr("file url", lambda: Shaper(url_graph_input="file:///tmp/exp/u.ttl", input_format=TURTLE, all_classes_mode=True).shex_graph(string_output=True)[:120])
# 7 literal with "^^ on rdflib path
ttl7='''@prefix ex: <http://ex.org/> .
ex:a a ex:C ; ex:p "x\\"^^y" .
'''
tr('rdflib literal with "^^', lambda: run(ttl7, input_format=TURTLE))
