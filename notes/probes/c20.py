import sys, warnings, itertools, collections
warnings.filterwarnings("ignore")
sys.path.insert(0,'/repo'); sys.path.insert(0,'.')
from shexer.shaper import Shaper
from shexer.consts import *
import rdflib
G='<http://e/a> <http://www.w3.org/1999/02/22-rdf-syntax-ns#type> <http://e/C> .\n'
open('/tmp/exp/g.nt','w').write(G)
srcs={'graph_file_input':'/tmp/exp/g.nt','graph_list_of_files_input':['/tmp/exp/g.nt'],'raw_graph':G,'url_graph_input':'file:///tmp/exp/g.nt','list_of_url_input':['file:///tmp/exp/g.nt'],'url_endpoint':'http://localhost:1/sparql','rdflib_graph':rdflib.Graph().parse(data=G,format='nt')}
open('/tmp/exp/tc.txt','w').write('<http://e/C>\n'); open('/tmp/exp/sm.txt','w').write('<http://e/a>@<http://sh/A>\n')
tgts={'target_classes':['http://e/C'],'file_target_classes':'/tmp/exp/tc.txt','shape_map_file':'/tmp/exp/sm.txt','shape_map_raw':'<http://e/a>@<http://sh/A>'}
res=collections.Counter()
# single source x single target (x all_classes)
for s in srcs:
    for t in list(tgts)+[None]:
        for acm in (False,True):
            kw={s:srcs[s]}
            if t: kw[t]=tgts[t]
            try:
                Shaper(all_classes_mode=acm, **kw); r='ok'
            except Exception as e:
                r=type(e).__name__+': '+str(e)[:60]
            print(s, t, acm, '->', r)
