import sys, warnings, random, collections
warnings.filterwarnings("ignore")
sys.path.insert(0,'/repo'); sys.path.insert(0,'.')
from meta import run, facts, keys, SW
import c03probe
cnt=collections.Counter()
for seed in range(600):
    ts=c03probe.gen(random.Random(seed)); kw=SW[seed%16]
    ts2=ts[:]; random.Random(seed+7).shuffle(ts2)
    a=run(ts,**kw); b=run(ts2,**kw)
    def chosen(sh): return {s:(v[0],sorted((c[0],c[1],c[2],c[3]) for c in v[1])) for s,v in sh.items()}
    if chosen(a)!=chosen(b):
        cnt["chosen_diff"]+=1; cnt["chosen_diff_kls_%s"%kw["keep_less_specific"]]+=1
        if cnt["chosen_diff"]<=2:
            for s in a:
                if chosen(a)[s]!=chosen(b)[s]: print(seed,kw,s,set(map(str,chosen(a)[s][1]))^set(map(str,chosen(b)[s][1])))
    if facts(a)!=facts(b): print("facts diff seed",seed,kw,sorted(facts(a)^facts(b))[:4])
    cnt["n"]+=1
print(dict(cnt))
