"""Candidate finding (C02, remove_empty_shapes): Coq witness Props/C02.v C02_remove_dead_key_refuted.

Targets C and S; i : C; S : i (S is a requested target class nobody is an instance of and the
subject of a typing triple of the instance i).  With inverse paths the shape of C has the constraint
'^ rdf:type [ex:S]' (100 %).  With remove_empty_shapes=True the profile-level cleaning removes the
class key S (no features) and, with it, every type key equal to 'http://ex.org/S' -- so the
constraint disappears from :C although its support (1/1) reaches the threshold.

Run: PYTHONPATH=/repo PYTHONHASHSEED=0 /venv/bin/python notes/repro/c02_dead_target_key.py
"""
import signal
signal.setitimer(signal.ITIMER_REAL, 60)
from shexer.shaper import Shaper
from shexer.consts import NT

G = """<http://ex.org/i> <http://www.w3.org/1999/02/22-rdf-syntax-ns#type> <http://ex.org/C> .
<http://ex.org/S> <http://www.w3.org/1999/02/22-rdf-syntax-ns#type> <http://ex.org/i> .
"""

def run(remove):
    s = Shaper(target_classes=["http://ex.org/C", "http://ex.org/S"], raw_graph=G, input_format=NT,
               inverse_paths=True, remove_empty_shapes=remove, disable_or_statements=True)
    return s.shex_graph(string_output=True, acceptance_threshold=0.5)

if __name__ == "__main__":
    keep, rem = run(False), run(True)
    assert "[<http://ex.org/S>]" in keep, keep
    assert "[<http://ex.org/S>]" not in rem, rem
    print("reproduced: inverse typing constraint with support 1/1 dropped by remove_empty_shapes")
