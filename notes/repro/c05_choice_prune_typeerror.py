"""Reproducer (real code, unchanged /repo): TypeError in ClassShexer._clean_empty_shapes.

remove_empty_shapes=True + disable_or_statements=False: when a shape without statements exists (here a
shape-map label whose node has no outgoing triple) while another shape holds a FixedPropChoiceStatement,
AbstractShexingStrategy._statements_without_shapes_to_remove reads `a_statement.st_type`, which raises
`TypeError: Choice statements doesnt have a single type` (shexer/model/fixed_prop_choice_statement.py).
Model: prune_shape -> SEType; theorem C05_clean_error / lemma C05_clean_crash_witness (Props/C05refs.v),
C13_disable_or_crash_witness (Props/C13.v).
Run: PYTHONPATH=/repo PYTHONHASHSEED=0 /venv/bin/python notes/repro/c05_choice_prune_typeerror.py
"""
import signal
signal.alarm(60)
from shexer.shaper import Shaper
from shexer.consts import NT

T = "<http://www.w3.org/1999/02/22-rdf-syntax-ns#type>"
G = f"""<http://e/a1> {T} <http://e/A> .
<http://e/a2> {T} <http://e/A> .
<http://e/b1> {T} <http://e/B> .
<http://e/c1> {T} <http://e/C> .
<http://e/a1> <http://e/p> <http://e/b1> .
<http://e/a2> <http://e/p> <http://e/c1> .
<http://e/a1> <http://e/q> <http://e/z1> .
"""
SM = "<http://e/a1>@<SA>\n<http://e/a2>@<SA>\n<http://e/b1>@<SB>\n<http://e/c1>@<SC>\n<http://e/z1>@<SZ>\n"

def run(disable_or, redundant, remove_empty):
    s = Shaper(shape_map_raw=SM, raw_graph=G, input_format=NT, disable_or_statements=disable_or,
               allow_redundant_or=redundant, remove_empty_shapes=remove_empty)
    return s.shex_graph(string_output=True, acceptance_threshold=0.0)

if __name__ == "__main__":
    assert "<SZ>" in run(False, True, False)          # no cleaning: fine, <SZ> is empty
    assert "<SZ>" not in run(True, False, True)       # no disjunction: cleaning works
    try:
        run(False, True, True)
        print("NOT REPRODUCED")
    except TypeError as e:
        print("REPRODUCED: TypeError:", e)
