#!/bin/sh
# usage: run.sh <patch> : apply to scratch worktree, run C17 quick, summarise
HERE="$(cd "$(dirname "$0")/../.." && pwd)"
P="$(readlink -f "$1")"
S=/tmp/e7mut.$$
git -C /repo worktree add -q --detach "$S" HEAD || exit 2
trap 'git -C /repo worktree remove --force "$S" >/dev/null 2>&1; /venv/bin/python "$HERE/tools/gen_consts.py" /repo >/dev/null 2>&1' EXIT INT TERM
git -C "$S" apply "$P" || { echo "patch does not apply"; exit 2; }
out="$(VERIF_REPO="$S" "$HERE/bin/check" C17 quick 2>&1)"; rc=$?
echo "== $1 exit=$rc"
echo "$out" | grep -E "^(VIOLATION|INTERNAL-ERROR|OK )" | cut -c1-330
/venv/bin/python - <<PY
import json
e = json.load(open("$HERE/evidence/C17.json"))
d = e["coverage"].get("decorated_text", {})
print("decorated_text: disagreements=%s oracle_failures=%s" % (d.get("disagreements"), d.get("oracle_failures")))
print("all: disagreements=%s oracle=%s" % (e["coverage"].get("disagreements_model_vs_impl"), e["coverage"].get("oracle_failures")))
PY
cd "$HERE" && git checkout -q evidence/C17.json
