"""Validation of the software binary64 model (rocq/theories/Lib/Bin64.v)
against CPython's float arithmetic.

The pipeline model computes frequencies with `div64`/`add64`/`fle64`/`feq64`
over exact fractions; the laws proved in Proofs/FreqLaws.v are about those
definitions.  This module ties them to the real arithmetic: for every case it
evaluates the model through the extracted binary (entry "bin64",
Model/EntryBin64.v) and compares

    div  a b      : Fraction(float(a) / float(b))                    == num/den
    add  a b c d  : Fraction(float(a)/float(b) + float(c)/float(d))  == num/den
    cmp  a b c d  : float(a)/float(b) <= float(c)/float(d), ... == ... (two booleans)

exactly (a Python float converts to a Fraction without rounding).  A sample
of the rows is re-evaluated by vm_compute inside Coq (core.vm_crosscheck).

`run(tier)` returns a dict with counts and the list of mismatches; it raises
nothing on a mismatch (callers decide what a mismatch means for them).
"""
import os
import random
import sys
import time
from fractions import Fraction

if __name__ == "__main__":
    sys.path.insert(0, os.path.dirname(os.path.dirname(os.path.abspath(__file__))))
from vp import core  # noqa: E402

BATCH = 4000
THRESHOLDS = [(51, 100), (50, 100), (1, 10), (1, 3), (2, 3), (9, 10), (99, 100), (1, 100), (7, 10),
              (3, 10), (1, 1), (0, 1), (5, 10), (1, 2), (333, 1000), (999, 1000), (1, 1000)]


def _rows(tier, seed):
    """-> (rows, exhaustive description).  row = (op, a, b, c, d)"""
    r = random.Random(seed)
    thorough = (tier == "thorough")
    lim_div = 2000 if thorough else 400
    lim_add = 150 if thorough else 60
    n_rand = 1000000 if thorough else 20000
    rows = []
    # exhaustive quotients n/N, 0 <= n <= N <= lim_div
    for N in range(1, lim_div + 1):
        for n in range(0, N + 1):
            rows.append(("div", n, N, 0, 1))
    # exhaustive sums a/N + b/N, 0 <= a, b <= N <= lim_add
    for N in range(1, lim_add + 1):
        for a in range(0, N + 1):
            for b in range(0, N + 1):
                rows.append(("add", a, N, b, N))
    # thresholds against every ratio with a small denominator (>= and != 1 in the code)
    for (k, m) in THRESHOLDS:
        rows.append(("div", k, m, 0, 1))
        for N in range(1, 41 if not thorough else 101):
            for n in range(0, N + 1):
                rows.append(("cmp", k, m, n, N))
    # all k/100 and k/1000
    for m in (100, 1000):
        for k in range(0, m + 1):
            rows.append(("div", k, m, 0, 1))
    # random, n <= N < 2^50 and unconstrained n, N < 2^50
    for i in range(n_rand):
        N = r.randrange(1, 1 << r.choice([8, 16, 24, 32, 40, 50, 50, 50]))
        if i % 2 == 0:
            n = r.randrange(0, N + 1)
        else:
            n = r.randrange(0, 1 << 50)
        rows.append(("div", n, N, 0, 1))
    # random sums and comparisons (equal values are frequent with small operands)
    for i in range(n_rand // 4):
        big = (i % 2 == 0)
        top = (1 << 50) if big else 64
        N = r.randrange(1, top)
        M = N if r.random() < 0.5 else r.randrange(1, top)
        a = r.randrange(0, N + 1)
        b = r.randrange(0, M + 1)
        rows.append(("add", a, N, b, M))
        rows.append(("cmp", a, N, b, M))
    # denominators at the edge of the proved domain (2^52 <= N < 2^53; float(N) still exact)
    for i in range(2000 if not thorough else 50000):
        N = r.randrange(1 << 52, 1 << 53) if i % 4 else (1 << 53) - 1 - r.randrange(0, 64)
        n = r.choice([N, N - 1, N - r.randrange(0, 1000), r.randrange(0, N + 1), r.randrange(0, N + 1)])
        n = max(n, 0)
        rows.append(("div", n, N, 0, 1))
        rows.append(("cmp", n, N, min(n + 1, N), N))
    exhaustive = {"div": "all 0 <= n <= N <= %d" % lim_div,
                  "add": "all a/N + b/N, 0 <= a, b <= N <= %d" % lim_add,
                  "cmp": "thresholds %d x all n/N with N <= %d" % (len(THRESHOLDS), 100 if thorough else 40)}
    return rows, exhaustive


def _table(rows):
    return [[op, str(a), str(b), str(c), str(d)] for (op, a, b, c, d) in rows]


def _expected(row):
    op, a, b, c, d = row
    x = float(a) / float(b)
    y = float(c) / float(d)
    if op == "div":
        return ("frac", Fraction(x))
    if op == "add":
        return ("frac", Fraction(x + y))
    return ("bools", ["1" if x <= y else "0", "1" if x == y else "0"])


def _agree(row, out):
    kind, want = _expected(row)
    try:
        if kind == "frac":
            num, den = int(out[0]), int(out[1])
            return den > 0 and Fraction(num, den) == want
        return list(out) == want
    except Exception:
        return False


def _work(chunk):
    """one batch through its own model process -> (mismatches, out_table)"""
    mb = core.ModelBin()
    try:
        out = mb.call("bin64", _table(chunk))
    finally:
        mb.close()
    bad = []
    if len(out) != len(chunk):
        return [{"row": list(chunk[0]), "model": "row count %d != %d" % (len(out), len(chunk))}], out
    for row, o in zip(chunk, out):
        if not _agree(row, o):
            kind, want = _expected(row)
            bad.append({"row": list(row), "model": list(o),
                        "python": [str(want.numerator), str(want.denominator)] if kind == "frac" else want})
    return bad, out


def _work_nobulk(chunk):
    bad, out = _work(chunk)
    return bad, None


def run(tier="quick", seed=20260926, build=False, vm_sample=240):
    t0 = time.time()
    os.makedirs(core.WORK, exist_ok=True)
    res = {"tier": tier, "seed": seed, "ok": False, "evaluations": 0, "by_op": {}, "mismatches": [],
           "n_mismatches": 0, "vm_checked": 0, "vm_mismatches": [], "vm_log": "", "exhaustive": {},
           "build_ok": True}
    if build:
        bs = core.build(None)
        res["build_ok"] = bool(bs.gen_ok and bs.model_ok)
        if not res["build_ok"]:
            res["build_log"] = (bs.gen_log + bs.model_log)[-2000:]
            return res
    rows, exhaustive = _rows(tier, seed)
    res["exhaustive"] = exhaustive
    for row in rows:
        res["by_op"][row[0]] = res["by_op"].get(row[0], 0) + 1
    chunks = [rows[i:i + BATCH] for i in range(0, len(rows), BATCH)]
    outs = core.pool_map(_work_nobulk, chunks, chunksize=1)
    for bad, _ in outs:
        res["n_mismatches"] += len(bad)
        res["mismatches"] += bad[:max(0, 50 - len(res["mismatches"]))]
    res["evaluations"] = len(rows)
    # equal-value and strict cases actually met (the comparisons are not trivially all-false)
    cmp_rows = [x for x in rows if x[0] == "cmp"]
    res["cmp_equal"] = sum(1 for (_, a, b, c, d) in cmp_rows if float(a) / float(b) == float(c) / float(d))
    res["cmp_le"] = sum(1 for (_, a, b, c, d) in cmp_rows if float(a) / float(b) <= float(c) / float(d))
    res["inexact_div"] = sum(1 for (op, a, b, _, _) in rows
                             if op == "div" and Fraction(float(a) / float(b)) != Fraction(a, b))
    # vm_compute cross-check of a sample: binary and Coq's own evaluator must agree
    r = random.Random(seed + 1)
    sample = [rows[i] for i in sorted(r.sample(range(len(rows)), min(vm_sample, len(rows))))]
    cases = []
    for k in range(0, len(sample), 40):
        part = sample[k:k + 40]
        bad, out = _work(part)
        cases.append(("bin64", _table(part), out))
    n, mism, log = core.vm_crosscheck(cases, "bin64", per_file=2)
    res["vm_checked"] = sum(len(c[1]) for c in cases)
    res["vm_mismatches"] = mism
    res["vm_log"] = log[-1000:]
    res["seconds"] = round(time.time() - t0, 1)
    res["ok"] = (res["n_mismatches"] == 0 and not mism)
    return res


if __name__ == "__main__":
    import json
    tier = sys.argv[1] if len(sys.argv) > 1 else "quick"
    out = run(tier, build=True)
    print(json.dumps(out, indent=1))
    sys.exit(0 if out["ok"] else 1)
