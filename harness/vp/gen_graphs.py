"""Random RDF graphs of the small-scope grammar of DESIGN.md section 4 (shared by the
pipeline properties).  Everything derives from the one random.Random handed in, so a
seed reproduces a graph.  Terms are tuples:

    ("iri", iri) | ("bnode", label) | ("lit", lexical, datatype_iri_or_None, lang_or_None)

gen_graph(rnd, ...) returns a dict with the abstract triples (duplicate free, document
order), the N-Triples text, the classes, the instances per class, the properties and
the value kind drawn per (class, property)."""

RDF_TYPE = "http://www.w3.org/1999/02/22-rdf-syntax-ns#type"
XSD = "http://www.w3.org/2001/XMLSchema#"
XSD_STRING = XSD + "string"
XSD_INTEGER = XSD + "integer"
LANG_STRING = "http://www.w3.org/1999/02/22-rdf-syntax-ns#langString"
CUSTOM_DT = "http://example.org/dt/custom"
NS = "http://example.org/"
FOAF = "http://xmlns.com/foaf/0.1/"

KINDS = ["string", "integer", "langString", "custom", "iri_untyped", "iri_typed", "bnode_untyped",
         "bnode_typed", "mixed"]
LITERAL_KINDS = ["string", "integer", "langString", "custom"]


def iri(s):
    return ("iri", s)


def bnode(s):
    return ("bnode", s)


def lit(lex, dt=None, lang=None):
    return ("lit", lex, dt, lang)


def nt_term(t):
    if t[0] == "iri":
        return "<%s>" % t[1]
    if t[0] == "bnode":
        return "_:%s" % t[1]
    lex = t[1].replace("\\", "\\\\").replace('"', '\\"').replace("\n", "\\n")
    if t[3] is not None:
        return '"%s"@%s' % (lex, t[3])
    if t[2] is not None:
        return '"%s"^^<%s>' % (lex, t[2])
    return '"%s"' % lex


def nt_text(triples):
    return "".join("%s %s %s .\n" % (nt_term(s), nt_term(p), nt_term(o)) for (s, p, o) in triples)


def local_name(class_iri):
    """last path / fragment segment (what sheXer builds a shape label from)"""
    s = class_iri
    if "#" in s and not s.endswith("#"):
        s = s[s.rfind("#") + 1:]
    if "/" in s:
        s = s[s.rfind("/") + 1:] if not s.endswith("/") else s[s[:-1].rfind("/") + 1:]
    return s


class _Builder(object):
    def __init__(self, rnd):
        self.rnd = rnd
        self.triples = []
        self.seen = set()
        self.counter = 0

    def add(self, s, p, o):
        k = (s, p, o)
        if k in self.seen:
            return False
        self.seen.add(k)
        self.triples.append(k)
        return True

    def fresh(self, stem):
        self.counter += 1
        return "%s%d" % (stem, self.counter)


def gen_graph(rnd, max_classes=4, max_instances=6, max_props=4, bnode_instance_rate=0.2,
              multi_class_rate=0.2, meta_class_rate=0.08, out_of_domain_rate=0.0, shuffle=True, kinds=None, tau=RDF_TYPE):
    """One random graph.  out_of_domain_rate: probability of planting one feature that
    SHACL serialisation rejects (a blank-node class or a non-http(s) predicate)."""
    b = _Builder(rnd)
    kinds = kinds or KINDS
    n_classes = rnd.randint(1, max_classes)
    classes = [iri(NS + "C%d" % i) for i in range(n_classes)]
    ood = None
    if rnd.random() < out_of_domain_rate:
        ood = rnd.choice(["bnode_class", "urn_predicate", "urn_class"])
        if ood == "bnode_class":
            classes[rnd.randrange(n_classes)] = bnode("cls")
        elif ood == "urn_class":
            classes[rnd.randrange(n_classes)] = iri("urn:ex:Cx")
    instances = {}
    node_classes = {}
    for ci, c in enumerate(classes):
        inst = []
        for k in range(rnd.randint(1, max_instances)):
            if rnd.random() < bnode_instance_rate:
                n = bnode("c%db%d" % (ci, k))
            else:
                n = iri(NS + "c%d_i%d" % (ci, k))
            inst.append(n)
            node_classes.setdefault(n, []).append(c)
        instances[c] = inst
    # 0..3 classes per node: some instances get further classes
    for c in classes:
        for n in list(instances[c]):
            if len(classes) > 1 and rnd.random() < multi_class_rate:
                other = rnd.choice([x for x in classes if x != c])
                if other not in node_classes[n] and len(node_classes[n]) < 3:
                    node_classes[n].append(other)
                    instances[other].append(n)
    for n, cs in node_classes.items():
        for c in cs:
            b.add(n, iri(tau), c)
    # a class that is itself an instance (of a metaclass): gives inverse arcs on the instantiation property
    if rnd.random() < meta_class_rate:
        cand = [c for c in classes if c[0] == "iri"]
        if cand:
            b.add(rnd.choice(cand), iri(tau), iri(NS + "Meta"))
    n_props = rnd.randint(1, max_props)
    props = []
    for i in range(n_props):
        props.append(iri((FOAF if rnd.random() < 0.25 else NS) + "p%d" % i))
    if ood == "urn_predicate":
        props[rnd.randrange(n_props)] = iri("urn:ex:p")
    all_iri_instances = [n for n in node_classes if n[0] == "iri"]
    all_bnode_instances = [n for n in node_classes if n[0] == "bnode"]
    kind_of = {}

    def value(kind, c):
        if kind == "mixed":
            kind = rnd.choice([k for k in KINDS if k != "mixed"])
        if kind == "string":
            return lit(b.fresh("v"))
        if kind == "integer":
            return lit(str(rnd.randint(0, 999)), XSD_INTEGER)
        if kind == "langString":
            return lit(b.fresh("w"), None, rnd.choice(["en", "es", "en-GB", "zh-Hant-TW", "de-CH-1996"]))
        if kind == "custom":
            return lit(b.fresh("x"), CUSTOM_DT)
        if kind == "iri_untyped":
            return iri(NS + b.fresh("u"))
        if kind == "iri_typed":
            return rnd.choice(all_iri_instances) if all_iri_instances else iri(NS + b.fresh("u"))
        if kind == "bnode_untyped":
            return bnode(b.fresh("n"))
        if kind == "bnode_typed":
            return rnd.choice(all_bnode_instances) if all_bnode_instances else bnode(b.fresh("n"))
        raise ValueError(kind)

    for c in classes:
        for p in props:
            if rnd.random() > 0.8:
                continue
            kind = rnd.choice(kinds)
            kind_of[(c, p)] = kind
            uniform = rnd.choice([None, None, None, 1, 1, 2, 3])
            for n in instances[c]:
                k = uniform if uniform is not None else rnd.choice([0, 1, 1, 2, 3])
                tries = 0
                done = 0
                while done < k and tries < 12:
                    tries += 1
                    if b.add(n, p, value(kind, c)):
                        done += 1
    triples = b.triples
    if shuffle:
        triples = list(triples)
        rnd.shuffle(triples)
    return {"triples": triples, "nt": nt_text(triples), "classes": classes, "instances": instances,
            "props": props, "kinds": {"%s|%s" % (nt_term(c), nt_term(p)): k for (c, p), k in kind_of.items()},
            "out_of_domain": ood}


# the inference switches of the extraction, as keyword arguments of Shaper(...)
SWITCHES = ["all_instances_are_compliant_mode", "keep_less_specific", "allow_opt_cardinality",
            "disable_exact_cardinality", "inverse_paths", "discard_useless_constraints_with_positive_closure"]


def gen_config(rnd, index=None, thresholds=True):
    """Switch combination (round-robin over the 2^6 combinations when an index is given)
    and an acceptance threshold as (num, den)."""
    if index is not None:
        bits = [(index >> i) & 1 == 1 for i in range(len(SWITCHES))]
    else:
        bits = [rnd.random() < 0.5 for _ in SWITCHES]
    cfg = dict(zip(SWITCHES, bits))
    thr = (0, 1)
    if thresholds:
        den = rnd.choice([1, 2, 3, 4, 5, 6])
        thr = rnd.choice([(0, 1), (0, 1), (1, 1), (rnd.randint(0, den), den)])
    return cfg, thr
