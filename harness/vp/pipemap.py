"""Shape-map runs for the extraction-pipeline properties (C01, C02, C04, C05, C12, C14).

A shape-map run is an ordinary run (ts, cfg) of vp.pipe whose configuration carries

    cfg["smap"] = {"fmt": "fsm" | "json",           # shape_map_format
                   "text": str | None,               # shape_map_raw (fixed syntax)
                   "pairs": [[selector, label]] | None,   # JSON syntax
                   "tau": str | None,                # instantiation_property as passed (default: cfg["tau"])
                   "items": [[selector AST, label ref]]}  # the abstract specification (vp.props.c10's syntax), for the oracles

cfg["all_classes"] = True means all_classes_mode next to the shape map, False the shape map alone.
The real code is Shaper(raw_graph=..., shape_map_raw=..., shape_map_format=...).shex_graph(string_output=True);
the model is Model.RunMap.run_shexc_map (entry pipe_shexc_map): C10's tracker model, then the frozen
profiler / shexing / serialiser models.  The external code the tracker model takes as oracle arguments
(rdflib's blank-node identifiers, sparql.prepareQuery's verdict, rdflib's answers to SPARQL selectors, the
global disambiguation counter) is observed on the real run, exactly as vp.props.c10 does.

install() routes shape-map runs through this module wherever vp.pipeprops / vp.pipe / vp.pipespec handle a
run (real code, model, vm_compute sample, pinned reproducers, oracles): those modules are not edited.
"""
import collections
import json
import random
import re
import signal
import warnings
from fractions import Fraction

from vp import core, pipe, pipeprops, pipespec
from vp.props import c10

E = "http://ex.org/"
SH = "http://sh/"
T = pipe.RDF_TYPE
SHAPES_NS = pipe.DEFAULT_SHAPES_NS
PRIORITY = ["", "weso-s", "shapes", "w-shapes"]


def is_map(cfg):
    return isinstance(cfg, dict) and cfg.get("smap") is not None


# --------------------------------------------------------------------------
# the real code
# --------------------------------------------------------------------------

def ns_all(cfg):
    """the prefix -> namespace map every parser of the run sees (user's dictionary + the shapes namespace)"""
    free = [p for p in PRIORITY if p not in [q for _, q in cfg["ns"]]]
    out = {}
    for n, p in list(cfg["ns"]) + [(SHAPES_NS, free[0] if free else "rnd")]:
        out[p] = n
    return out


def ns_pairs_all(cfg):
    """the same as a list of (namespace, prefix) pairs: what the oracles resolve prefixed names with"""
    free = [p for p in PRIORITY if p not in [q for _, q in cfg["ns"]]]
    return [tuple(x) for x in cfg["ns"]] + [(SHAPES_NS, free[0] if free else "rnd")]


def _norm_triples(ts):
    """vp.pipe triples in the shape vp.props.c10.bnode_map compares with rdflib's"""
    out = []
    for s, p, o in ts:
        if o[0] == "L":
            o = ("L", o[1], pipe.XSD + "string" if o[2] in (pipe.XSD + "string", pipe.LANGSTRING) else o[2])
        out.append((tuple(s), p, tuple(o)))
    return out


def _abs(t, back):
    import rdflib
    if isinstance(t, rdflib.Literal):
        dt = str(t.datatype) if t.datatype is not None else (pipe.LANGSTRING if t.language else pipe.XSD + "string")
        return ["L", str(t), dt]
    return list(c10._abs_term(t, back))


def shaper_kwargs_map(cfg):
    from shexer.consts import JSON as SM_JSON, FIXED_SHAPE_MAP
    sm = cfg["smap"]
    kw = pipe.shaper_kwargs(cfg)
    kw["target_classes"] = None
    kw["all_classes_mode"] = bool(cfg["all_classes"])
    if sm.get("tau") is not None:
        kw["instantiation_property"] = sm["tau"]
    if sm["fmt"] == "json":
        kw["shape_map_raw"] = json.dumps([{"nodeSelector": a, "shapeLabel": b} for a, b in sm["pairs"]])
        kw["shape_map_format"] = SM_JSON
    else:
        kw["shape_map_raw"] = sm["text"]
        kw["shape_map_format"] = FIXED_SHAPE_MAP
    return kw


def impl_shexc_map(ts, cfg, doc=None, timeout=10.0, extra_kw=None, output_format=None, want_obs=False):
    """('ok', text) | ('err', exception class, innermost shexer frame, stage); with want_obs also the
    observation of the external code (the oracle arguments of the tracker model)"""
    from shexer.shaper import Shaper
    import shexer.core.instances.abstract_instance_tracker as ait
    from rdflib.plugins import sparql as rsparql
    warnings.filterwarnings("ignore")
    kw = shaper_kwargs_map(cfg)
    if extra_kw:
        kw.update(extra_kw)
    sm = cfg["smap"]
    k, m = cfg["thr"]
    obs = {"dis0": ait._TRACKERS_DISAM_COUNT, "bn": {}, "wf": {}, "ans": {}, "monitor": [], "dict": None}
    pfx_all = ns_all(cfg)
    for q in c10.sparql_bodies({"pairs": sm.get("pairs") if sm["fmt"] == "json" else None,
                                "smtext": sm.get("text") if sm["fmt"] != "json" else None}):
        try:
            rsparql.prepareQuery(q, initNs=pfx_all)
            obs["wf"][q] = True
        except BaseException:  # noqa: BLE001
            obs["wf"][q] = False
    stage = "ctor"
    sh = None
    old = signal.signal(signal.SIGALRM, pipe._alarm)
    signal.setitimer(signal.ITIMER_REAL, timeout)
    try:
        sh = Shaper(raw_graph=doc if doc is not None else pipe.nt_doc(ts), **kw)
        stage = "run"
        rg = None
        if sh._built_shape_map is not None:
            for it in sh._built_shape_map._items:
                if it.node_selector is not None:
                    rg = it.node_selector.sgraph._rdflib_graph
                    break
        if rg is not None and want_obs:
            nts = _norm_triples(ts)
            back = c10.bnode_map(rg, nts)
            obs["bn"] = {v: kk for kk, v in back.items()}
            nsstr = "".join("PREFIX %s: <%s>\n" % (p, n) for p, n in pfx_all.items())
            for q, ok in obs["wf"].items():
                if ok:
                    try:
                        obs["ans"][q] = [_abs(row[0], back) for row in rg.query(nsstr + q)]
                    except BaseException as e:  # noqa: BLE001
                        obs["ans"][q] = []
                        obs["monitor"].append("rdflib could not evaluate %r: %s" % (q, type(e).__name__))
        obs["dis0"] = ait._TRACKERS_DISAM_COUNT
        okw = {} if output_format is None else {"output_format": output_format}
        text = sh.shex_graph(string_output=True, acceptance_threshold=(k / m), **okw)
        res = ("ok", text)
    except pipe.Hang:
        res = ("err", "Hang", "", stage)
    except Exception as e:  # noqa: BLE001 - the observable is the exception class
        import traceback
        tb = traceback.extract_tb(e.__traceback__)
        frames = [f for f in tb if "/shexer/" in f.filename]
        where = "%s:%d:%s" % (frames[-1].filename.split("/shexer/")[-1], frames[-1].lineno, frames[-1].name) if frames else ""
        if stage == "run" and any(f.name == "_launch_instance_tracker" for f in tb):
            stage = "track"
        res = ("err", type(e).__name__, where, stage)
    finally:
        signal.setitimer(signal.ITIMER_REAL, 0)
        signal.signal(signal.SIGALRM, old)
    if sh is not None and isinstance(getattr(sh, "_target_classes_dict", None), dict):
        obs["dict"] = [[kk, list(v[0] if isinstance(v, tuple) else v)] for kk, v in sh._target_classes_dict.items()]
    return (res, obs) if want_obs else res


# --------------------------------------------------------------------------
# the model
# --------------------------------------------------------------------------

def model_table_map(ts, cfg, obs):
    sm = cfg["smap"]
    t = _orig.get("model_table", pipe.model_table)(ts, cfg)
    t.append(["cfg", sm.get("tau") if sm.get("tau") is not None else cfg["tau"], "1" if cfg["all_classes"] else "0",
              "N", "json" if sm["fmt"] == "json" else "fsm", str(obs["dis0"])])
    if sm["fmt"] == "json":
        for a, b in sm["pairs"]:
            t.append(["smjson", a, b])
    else:
        t.append(["smraw", sm["text"]])
    seen = set()
    for lab, rid in sorted(obs["bn"].items()):
        t.append(["bn", lab, rid])
        seen.add(lab)
    for s, p, o in ts:          # a blank node rdflib's identifier of which was not recovered: any fresh string
        for x in (s, o):
            if x[0] == "B" and x[1] not in seen:
                seen.add(x[1])
                t.append(["bn", x[1], "rdflib:" + x[1]])
    for q, ok in obs["wf"].items():
        t.append(["wf", q, "1" if ok else "0"])
    for q, ans in obs["ans"].items():
        for x in ans:
            t.append(["ans", q, x[0], x[1], x[2] if len(x) > 2 else ""])
    return t


def model_shexc_map(mb, ts, cfg, obs):
    row = mb.call("pipe_shexc_map", model_table_map(ts, cfg, obs))[0]
    if row[0] == "ok":
        return ("ok", pipe.shim(row[1], cfg["decimals"]))
    return ("err", row[2], row[1])          # exception class, stage


def run_pair_map(ts, cfg):
    i, obs = impl_shexc_map(ts, cfg, want_obs=True)
    m = model_shexc_map(pipeprops._mb(), ts, cfg, obs)
    if i[0] == "err" and m[0] == "err" and i[1] == m[1] and i[3] != m[2]:
        m = ("err", "%s raised by the %s stage (the real code: %s stage)" % (m[1], m[2], i[3]), m[2])
    return i, m


# --------------------------------------------------------------------------
# the oracle side: the instances a specification denotes (independent of model and code)
# --------------------------------------------------------------------------

def label_key(iri):
    return "<" + iri + ">"


def spec_instances_map(ts, cfg):
    """instance id -> list of keys (class IRIs; labels as '<iri>'): the nodes the selectors of the shape map
    denote on the abstract triples (vp.props.c10.selects), and under all_classes_mode every typed node"""
    sm = cfg["smap"]
    ns = ns_pairs_all(cfg)
    inst = collections.OrderedDict()
    for sel, lab in sm["items"]:
        l = c10.resolve(ns, lab)
        if l is None:
            continue
        ans = sm.get("answers", {})
        for x in c10.selects(ns, ts, sel, ans):
            if x[0] == "L":
                continue
            ks = inst.setdefault(x[1], [])
            if label_key(l) not in ks:
                ks.append(label_key(l))
    if cfg["all_classes"]:
        tau = cfg["tau"]
        for s, p, o in ts:
            if p == tau and o[0] != "L":
                inst.setdefault(s[1], []).append(o[1])
    return inst


def label_sizes(ts, cfg):
    n = collections.Counter()
    for i, ks in spec_instances_map(ts, cfg).items():
        for k in set(ks):
            n[k] += 1
    return n


_orig = {}


def _spec_instances(ts, cfg):
    return spec_instances_map(ts, cfg) if is_map(cfg) else _orig["spec_instances"](ts, cfg)


def _shape_label(c, shapes_ns=pipe.DEFAULT_SHAPES_NS):
    if c.startswith("<") and c.endswith(">"):
        return c[1:-1]
    return _orig["shape_label"](c, shapes_ns)


def _nontrivial_graph(ts, cfg):
    if is_map(cfg):
        sizes = label_sizes(ts, cfg)
        return bool(sizes) and max(sizes.values()) >= 2 and any(p != cfg["tau"] for _, p, _ in ts)
    return _orig["nontrivial_graph"](ts, cfg)


# --------------------------------------------------------------------------
# install
# --------------------------------------------------------------------------

STATS = collections.Counter()


def has_cfg_row(table):
    return any(r and r[0] == "cfg" for r in table)


def install():
    """route shape-map runs through this module (idempotent)"""
    if _orig:
        return
    _orig["run_pair"] = pipeprops.run_pair
    _orig["impl_shexc"] = pipe.impl_shexc
    _orig["model_table"] = pipe.model_table
    _orig["spec_instances"] = pipespec.spec_instances
    _orig["shape_label"] = pipespec.shape_label
    _orig["nontrivial_graph"] = pipeprops.nontrivial_graph
    _orig["vm_crosscheck"] = core.vm_crosscheck
    _orig["call"] = core.ModelBin.call
    _orig["finish"] = core.Run.finish

    def run_pair(ts, cfg):
        return run_pair_map(ts, cfg) if is_map(cfg) else _orig["run_pair"](ts, cfg)

    def impl_shexc(ts, cfg, *a, **k):
        if is_map(cfg):
            return impl_shexc_map(ts, cfg, *a, **k)[:3]
        return _orig["impl_shexc"](ts, cfg, *a, **k)

    def model_table(ts, cfg):
        # (used by pipeprops for its vm_compute sample) the observation of the external code is taken again
        if is_map(cfg):
            _, obs = impl_shexc_map(ts, cfg, want_obs=True)
            return model_table_map(ts, cfg, obs)
        return _orig["model_table"](ts, cfg)

    def call(self, name, table, raw=False):
        if name == "pipe_shexc" and has_cfg_row(table):
            name = "pipe_shexc_map"
        return _orig["call"](self, name, table, raw)

    def vm_crosscheck(cases, tag, per_file=200, timeout=600):
        cases = [(("pipe_shexc_map" if n == "pipe_shexc" and has_cfg_row(i) else n), i, o) for n, i, o in cases]
        STATS["vm_compute_crosschecked_map_runs"] += sum(1 for n, _, _ in cases if n == "pipe_shexc_map")
        return _orig["vm_crosscheck"](cases, tag, per_file, timeout)

    def finish(self, bs, level="proof"):
        if STATS:
            self.coverage["shape_map_stream"] = dict(STATS)
            self.assumptions = list(self.assumptions) + ASSUMPTIONS
        return _orig["finish"](self, bs, level)

    pipeprops.run_pair = run_pair
    pipe.impl_shexc = impl_shexc
    pipe.model_table = model_table
    pipespec.spec_instances = _spec_instances
    pipespec.shape_label = _shape_label
    pipeprops.nontrivial_graph = _nontrivial_graph
    core.vm_crosscheck = vm_crosscheck
    core.ModelBin.call = call
    core.Run.finish = finish


ASSUMPTIONS = [
    "shape-map runs: rdflib answers the generated FOCUS query with one row per matching statement, in the order of "
    "its store indices; the tracker model enumerates the statements in document order, which gives the same "
    "dictionary order except for '{FOCUS p _}' over documents in which the statements of one (predicate, object) "
    "pair are not contiguous -- the generator writes such documents grouped (the byte-for-byte comparison would "
    "show any other difference)",
    "shape-map runs: rdflib's identifier of a blank node, prepareQuery's verdict and rdflib's answer to a SPARQL "
    "selector are observed on the real run and handed to the model as its oracle arguments (as in C10)",
    "shape-map runs: default shapes namespace, instances_cap <= 0 (what Model/RunMap.v covers)",
]


# --------------------------------------------------------------------------
# generators
# --------------------------------------------------------------------------

NS_POOL = [(E, "ex"), (SH, "sh"), ("http://lab.example/x#", "lab"), (pipe.XSD, "xsd"),
           ("http://www.w3.org/1999/02/22-rdf-syntax-ns#", "rdf"), ("http://other.org/ns#", "oth")]
LABELS = [SH + "S0", SH + "S1", SH + "S2", E + "shapes/L3", SHAPES_NS + "S4", "http://lab.example/x#S5"]


def group_po(ts):
    """stable regrouping: the statements of one (predicate, object) pair become contiguous"""
    first = {}
    for k, (s, p, o) in enumerate(ts):
        first.setdefault((p, o), k)
    return sorted(ts, key=lambda t: first[(t[1], t[2])])


def graph_terms(ts, tau=T):
    subj, objs, props, classes = [], [], [], []
    for s, p, o in ts:
        if s not in subj:
            subj.append(s)
        if p == tau:
            if o[0] == "I" and o[1] not in classes:
                classes.append(o[1])
            continue
        if p not in props:
            props.append(p)
        if o[0] != "L" and o not in objs:
            objs.append(o)
    return subj, objs, props, classes


def gen_selector(r, ns, ts, tau, sparql=True):
    subj, objs, props, classes = graph_terms(ts, tau)
    iris = [x for x in subj + [o for o in objs if o not in subj] if x[0] == "I"]
    k = r.random()
    if k < 0.55 or not props:
        kk = r.random()
        pool = [o for o in objs if o not in subj and o[0] == "I"]       # nodes without outgoing triples
        if kk < 0.3 and pool:
            iri = r.choice(pool)[1]
        elif kk < 0.93 and iris:
            iri = r.choice(iris)[1]
        else:
            iri = E + "absent%d" % r.randint(0, 1)
        return ["node", c10.mkref(r, iri, ns, False)]
    if k < 0.73:
        p = ["a"] if (r.random() < 0.25 and tau == T) else c10.mkref(r, r.choice(props + [tau]), ns, False)
        ko = r.random()
        cand = classes + [x[1] for x in objs if x[0] == "I"]
        o = ["W"] if (ko < 0.4 or not cand) else c10.mkref(r, r.choice(cand), ns, False)
        return ["fs", p, o]
    if k < 0.9 or not sparql:
        p = c10.mkref(r, r.choice(props), ns, False)
        cand = [x[1] for x in subj if x[0] == "I"]
        s = ["W"] if (r.random() < 0.5 or not cand) else c10.mkref(r, r.choice(cand), ns, False)
        return ["fo", s, p]
    nodes = [list(x) for x in (subj + objs)] or [["I", E + "n0"]]
    return c10.gen_sparql(r, ns, ts, [tau], classes or [E + "C0"], nodes, props)


def answers_of(ts, cfg, items):
    """the oracle's own evaluation of the SPARQL selectors (one-pattern queries)"""
    ns = ns_pairs_all(cfg)
    return {sel[1]: [list(x) for x in c10.eval_bgp(ns, ts, sel[2])] for sel, _ in items if sel[0] == "sq"}


def needs_grouping(items):
    return any(sel[0] == "fs" and sel[2][0] == "W" for sel, _ in items) or any(sel[0] == "sq" for sel, _ in items)


def render(cfg, items, r, layout=True):
    """fills cfg['smap'] (fixed or JSON syntax) from the abstract items"""
    fmt = r.choice(["fsm", "fsm", "json"])
    lay = None
    if layout and r.random() < 0.3:
        lay = {"focus": r.choice(["FOCUS", "focus", "Focus"]), "gap": r.choice([" ", "  "]),
               "pad": r.choice(["", " "]), "quote": r.choice(["'", '"']), "sgap": r.choice([" ", "", "  "]),
               "at": r.choice(["@", " @ ", "@ "]), "comma_last": r.random() < 0.5, "commas": r.random() < 0.8,
               "indent": r.choice(["", "  ", "\t"]), "comment": r.random() < 0.5, "blank": r.random() < 0.5}
    sm = {"fmt": fmt, "text": None, "pairs": None, "tau": cfg["smap"].get("tau") if cfg.get("smap") else None,
          "items": items}
    if fmt == "fsm":
        sm["text"] = c10.render_fixed(items, lay)
    else:
        sm["pairs"] = [[c10.show_selector(s, lay), c10.show_ref(l)] for s, l in items]
    cfg["smap"] = sm
    return cfg


def iri_only(ts, cfg, items):
    ns = ns_pairs_all(cfg)
    ans = answers_of(ts, cfg, items)
    return all(x[0] == "I" for sel, _ in items for x in c10.selects(ns, ts, sel, ans))


def to_map_run(r, ts, cfg, only_iri=False, sparql=True, n_items=None, labels=None):
    """turns a class run into a shape-map run over the same graph: random items over the nodes of the graph"""
    cfg = dict(cfg)
    ns = [tuple(x) for x in cfg["ns"]]
    taken = {p for _, p in ns}
    for n, p in NS_POOL[:2]:
        if not any(n == a for a, _ in ns) and p not in taken and r.random() < 0.85:
            ns.append((n, p))
            taken.add(p)
    r.shuffle(ns)
    cfg["ns"] = ns
    cfg["targets"] = []
    cfg["cap"] = -1
    cfg["all_classes"] = r.random() < 0.25
    cfg["smap"] = {"tau": None}
    if r.random() < 0.15:
        cfg["smap"]["tau"] = c10.show_ref(c10.mkref(r, cfg["tau"], ns, True))
    labs = list(labels or LABELS)
    r.shuffle(labs)
    labs = labs[:r.randint(1, 4)]
    for _ in range(20):
        items = []
        for _ in range(n_items or r.choice([1, 2, 2, 3, 3, 4, 5, 6])):
            sel = gen_selector(r, ns, ts, cfg["tau"], sparql)
            items.append([sel, c10.mkref(r, r.choice(labs), ns, False, 0.3)])
        if not only_iri or iri_only(ts, cfg, items):
            break
    else:
        items = [[["node", ["A", (graph_terms(ts)[0] or [("I", E + "absent0")])[0][1]]], ["A", labs[0]]]]
        if items[0][0][1][1].startswith("_:"):
            items[0][0][1][1] = E + "absent0"
    if needs_grouping(items):
        ts = group_po(ts)
    render(cfg, items, r)
    cfg["smap"]["answers"] = answers_of(ts, cfg, items)
    return ts, cfg


def refs_graph(r):
    """labelled nodes pointing at labelled nodes: S-nodes with values among T-nodes (often without any triple), U-nodes
    (with a literal) and unlabelled IRIs / blank nodes; the mixes behind the empty-shape cleaning: a reference that
    wins over the plain kinds, a disjunction next to an empty shape, cascades"""
    n = r.randint(2, 5)
    S = [("I", E + "s%d" % k) for k in range(n)]
    Tn = [("I", E + "t%d" % k) for k in range(r.randint(1, 3))]
    U = [("I", E + "u%d" % k) for k in range(r.randint(0, 2))]
    plain = [("I", E + "x%d" % k) for k in range(2)] + [("B", "_:w%d" % k) for k in range(r.choice([0, 0, 1, 2]))]
    ts = []
    for s in S:
        for p in ("p", "q")[:r.randint(1, 2)]:
            pool = Tn + U + plain
            for v in r.sample(pool, r.randint(0, min(3, len(pool)))):
                ts.append((s, E + p, v))
        if r.random() < 0.4:
            ts.append((s, E + "name", ("L", "v%d" % r.randint(0, 3), pipe.XSD + "string")))
        if r.random() < 0.25:
            ts.append((s, T, ("I", E + "C")))
    for u in U:
        ts.append((u, E + "name", ("L", "w", pipe.XSD + "string")))
    for t in Tn:
        if r.random() < 0.3:
            ts.append((t, E + ("p" if r.random() < 0.5 else "name"), r.choice(plain + [("L", "z", pipe.XSD + "string")])))
    ts = list(dict.fromkeys(ts))
    r.shuffle(ts)
    items = []
    for grp, lab in ((S, SH + "S"), (Tn, SH + "T"), (U, SH + "U")):
        for x in grp:
            if r.random() < 0.9:
                items.append([["node", ["A", x[1]]], ["A", lab] if r.random() < 0.7 else ["P", "sh", lab[len(SH):]]])
    if not items:
        items.append([["node", ["A", S[0][1]]], ["A", SH + "S"]])
    r.shuffle(items)
    return ts, items


def refs_run(r, cfg):
    cfg = dict(cfg)
    ts, items = refs_graph(r)
    ns = [(E, "ex"), (SH, "sh")] + ([r.choice(NS_POOL[2:])] if r.random() < 0.3 else [])
    r.shuffle(ns)
    cfg["ns"] = ns
    cfg["targets"] = []
    cfg["cap"] = -1
    cfg["all_classes"] = r.random() < 0.2
    cfg["smap"] = {"tau": None}
    render(cfg, items, r, layout=False)
    cfg["smap"]["answers"] = {}
    return ts, cfg


def smap_from_text(cfg, text):
    """cfg['smap'] for a fixed-syntax shape map made of lines '<node>@<label>' / '<node>@prefix:local'"""
    items = []
    for line in text.split("\n"):
        a, b = line.rsplit("@", 1)
        lab = ["A", b[1:-1]] if b.startswith("<") else ["P"] + b.split(":", 1)
        items.append([["node", ["A", a[1:-1]]], lab])
    cfg["smap"] = {"fmt": "fsm", "text": text, "pairs": None, "tau": None, "items": items, "answers": {}}
    return cfg


def chain_run(r, cfg):
    """the reference chains / cascades of C05 (vp.props.c05.chain_case) as a model-corresponded run"""
    from vp.props import c05
    cfg = dict(cfg)
    cfg["ns"] = [tuple(x) for x in cfg["ns"]]
    ts = c05.chain_case(r, cfg)
    smap_from_text(cfg, cfg.pop("_shape_map"))
    return ts, cfg


def thresholds_map(ts, cfg, r, extra=True):
    out = [(0, 1), (1, 1)]
    for n in sorted(set(label_sizes(ts, cfg).values())):
        for k in range(1, n):
            out.append((k, n))
    if extra:
        out += [(1, 2), (51, 100), (1, 3), (2, 3), (r.randint(1, 99), 100)]
    seen = []
    for t in out:
        if t not in seen:
            seen.append(t)
    return seen


def gen_run(r, idx, only_iri=False, sparql=True, or_rate=0.3):
    """one shape-map run: graph family x specification x configuration"""
    fam = idx % 4
    base = pipe.switch_cfg(idx)
    base["mode"] = r.choice(["mixed", "mixed", "mixed", "ratio", "abs"])
    base["remove_empty_shapes"] = r.random() < 0.7
    if r.random() < or_rate:
        base["disable_or_statements"] = False
        base["allow_redundant_or"] = r.random() < 0.5
    if r.random() < 0.3:
        base["ns"] = r.sample(NS_POOL, r.randint(1, 3))
    if fam == 0:
        ts, cfg = refs_run(r, base)
        fname = "references"
    elif fam == 1:
        ts, cfg = chain_run(r, base)
        fname = "chains"
    else:
        if fam == 2:
            from vp.props import c04
            ts = c04.adversarial(r)
        else:
            ts = pipe.gen_graph(r, general=(idx % 8 != 3))
        ts, cfg = to_map_run(r, ts, base, only_iri=only_iri, sparql=sparql)
        fname = "adversarial" if fam == 2 else "general"
    cfg["thr"] = r.choice(thresholds_map(ts, cfg, r))
    return ts, cfg, fname


def note_case(fname, cfg):
    """generation-time statistics of the stream (parent process)"""
    sm = cfg["smap"]
    STATS["cases"] += 1
    STATS["family:" + fname] += 1
    STATS["format:" + sm["fmt"]] += 1
    if cfg["all_classes"]:
        STATS["with_all_classes_mode"] += 1
    if not cfg["remove_empty_shapes"]:
        STATS["remove_empty_off"] += 1
    if not cfg["disable_or_statements"]:
        STATS["or_enabled"] += 1
    for sel, lab in sm["items"]:
        STATS["selector:%s" % sel[0]] += 1
        STATS["label:%s" % ("prefixed" if lab[0] == "P" else "full")] += 1


# --------------------------------------------------------------------------
# streams of the properties
# --------------------------------------------------------------------------

def stream(tier, rnd, n_quick, n_thorough, only_iri=False, sparql=True, or_rate=0.3, grid=False):
    """cases of the shape-map stream: one run each, or (grid) one run per threshold of a grid"""
    n = n_thorough if tier == "thorough" else n_quick
    cases = []
    for i in range(n):
        r = random.Random(rnd.getrandbits(48))
        ts, cfg, fam = gen_run(r, i, only_iri=only_iri, sparql=sparql, or_rate=or_rate)
        note_case(fam, cfg)
        if grid:
            g = sorted(set(thresholds_map(ts, cfg, r)), key=lambda t: Fraction(*t))
            if len(g) > 6:
                g = [g[0]] + sorted(r.sample(g[1:-1], 4), key=lambda t: Fraction(*t)) + [g[-1]]
            runs = []
            for t in g:
                c = dict(cfg)
                c["thr"] = t
                runs.append((ts, c))
        else:
            runs = [(ts, cfg)]
        cases.append({"runs": runs, "meta": {"stream": "shape-map", "family": fam, "i": i}})
    return cases


# root cause shared by C12-F2 / C02-F2: under remove_empty_shapes a constraint whose chosen alternative refers
# to a shape that ends up without constraints is deleted outright (and its shape with it, when nothing is left)
RC_REMOVED_REF = "rc_reference_to_removed_shape"


def affected_labels(ts, cfg, doc):
    """shape labels (expanded) having an instance one of whose non-literal values (direct; incoming with
    inverse_paths) is an instance of a label / class whose shape is not in the document -- computed from the
    abstract triples and the oracle's instance sets; empty unless remove_empty_shapes is on"""
    if not cfg["remove_empty_shapes"]:
        return set()
    inst = pipespec.spec_instances(ts, cfg)
    present = {sh["label"] for sh in doc["shapes"]}
    gone = lambda node: node[0] != "L" and any(pipespec.shape_label(k, cfg["shapes_ns"]) not in present
                                              for k in inst.get(node[1], []))
    out = set()
    for s, p, o in ts:
        if p == cfg["tau"]:
            continue
        if s[1] in inst and gone(o):
            out |= {pipespec.shape_label(k, cfg["shapes_ns"]) for k in inst[s[1]]}
        if cfg["inverse_paths"] and o[0] != "L" and o[1] in inst and s[0] == "I" and gone(s):
            out |= {pipespec.shape_label(k, cfg["shapes_ns"]) for k in inst[o[1]]}
    # cascades: a label all of whose constraints were deleted disappears itself, and so on upwards
    changed = True
    while changed:
        changed = False
        for s, p, o in ts:
            if p == cfg["tau"] or s[1] not in inst or o[0] == "L" or o[1] not in inst:
                continue
            tgt = {pipespec.shape_label(k, cfg["shapes_ns"]) for k in inst[o[1]]}
            src = {pipespec.shape_label(k, cfg["shapes_ns"]) for k in inst[s[1]]}
            if tgt & out and not src <= out:
                out |= src
                changed = True
    return out


_MSG_LABEL = [(re.compile(r"^shape (\S+) present at threshold"), False),
              (re.compile(r" of (\S+) present at threshold"), False),
              (re.compile(r"^threshold 0 omits observed key .* of (\S+)$"), True),
              (re.compile(r"^class (\S+) lacks key"), True),
              (re.compile(r"^class (\S+) has \d+ instances and no shape$"), True)]


def attribute(fails, affected, shapes_ns=pipe.DEFAULT_SHAPES_NS):
    """failures of the class-mode oracles that speak of a shape affected by the root cause above get its tag
    (the message names the shape by its label, or by the key -- class IRI / '<label>' -- it stands for)"""
    out = []
    for rc, desc in fails:
        if rc is None:
            for rx, is_key in _MSG_LABEL:
                m = rx.search(desc)
                if m:
                    lab = pipespec.shape_label(m.group(1), shapes_ns) if is_key else m.group(1)
                    if lab in affected:
                        rc = RC_REMOVED_REF
                    break
        out.append((rc, desc))
    return out


def check_keys_map(ts, cfg, doc):
    """C02's oracle (pipespec.check_keys) on a shape-map run.  Two adjustments, both computed from the data:
    a label none of whose features reaches the threshold has no constraint, and with remove_empty_shapes its
    (empty) shape is removed -- the documented effect of that option, not a failure; failures that speak of a
    shape affected by the reference-to-a-removed-shape root cause carry its tag"""
    fails, n = pipespec.check_keys(ts, cfg, doc)
    inst, n_of, exp, nl = pipespec.expected_keys(ts, cfg)
    thr = Fraction(*cfg["thr"])
    keep = []
    for rc, desc in fails:
        m = re.match(r"^class (\S+) has \d+ instances and no shape$", desc)
        if m and cfg["remove_empty_shapes"]:
            c = m.group(1)
            want = [k for k, fr in exp.get(c, {}).items() if fr >= thr]
            if not want:
                continue
            if rc is None and all(k[2] == "nonliteral" and pipespec.split_nonliteral(ts, cfg, inst, nl, c, k) for k in want):
                rc = "rc_split_nonliteral"     # C02-F1: every key it should hold is lost to the IRI/BNode split, so the shape is empty
        keep.append((rc, desc))
    return attribute(keep, affected_labels(ts, cfg, doc), cfg["shapes_ns"]), n


def check_monotone_map(ts, cfgs, docs):
    """C12's oracle (pipespec.check_monotone) on the runs of one shape-map case at a grid of thresholds"""
    fails, n = pipespec.check_monotone(ts, cfgs, docs)
    aff = set()
    for c, d in zip(cfgs, docs):
        aff |= affected_labels(ts, c, d)
    return attribute(fails, aff, cfgs[0]["shapes_ns"]), n
