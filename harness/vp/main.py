import importlib
import os
import sys

sys.path.insert(0, os.path.dirname(os.path.dirname(os.path.abspath(__file__))))
from vp import core  # noqa: E402


def main():
    if len(sys.argv) < 3:
        print("usage: check <Cxx> quick|thorough [--replay file]")
        return 2
    prop, tier = sys.argv[1], sys.argv[2]
    if "VERIF_TIER" in os.environ and tier not in ("quick", "thorough"):
        tier = os.environ["VERIF_TIER"]
    replay = None
    if "--replay" in sys.argv:
        replay = sys.argv[sys.argv.index("--replay") + 1]
    os.environ["VERIF_CURRENT_TIER"] = tier
    core.ensure_env()
    seed = int(os.environ.get("VERIF_SEED", "20260926"))
    mod = importlib.import_module("vp.props.%s" % prop.lower())
    # safety net: a check must terminate.  Hangs of the code under test are caught per call (SIGALRM in the
    # harness); this watchdog only fires if the machinery itself is stuck (e.g. a dead pool worker).
    import threading
    limit = int(os.environ.get("VERIF_WATCHDOG_S", "1800" if tier == "quick" else "14400"))

    def _expired():
        sys.stdout.write("INTERNAL-ERROR: check %s %s did not finish within %d s (watchdog)\n" % (prop, tier, limit))
        sys.stdout.flush()
        os.killpg(os.getpgid(0), 9) if os.environ.get("VERIF_WATCHDOG_KILLPG") else os._exit(2)
    wd = threading.Timer(limit, _expired)
    wd.daemon = True
    wd.start()
    try:
        return mod.run(tier, seed, replay)
    except core.InternalError as e:
        print("INTERNAL-ERROR: %s" % e)
        return 2


if __name__ == "__main__":
    sys.exit(main())
