import importlib
import os
import sys

sys.path.insert(0, os.path.dirname(os.path.dirname(os.path.abspath(__file__))))
from vp import core  # noqa: E402


def changed_files(prop):
    """files of this property (corpus/fingerprints.json, written by tools/pin_fingerprints.py) whose AST differs"""
    import ast, hashlib, json
    try:
        pin = json.load(open(os.path.join(core.VERIF, "corpus", "fingerprints.json")))
    except (OSError, ValueError):
        return []
    if pin.get("python") != "%d.%d" % sys.version_info[:2]:
        return []                      # ast.dump differs between Python versions: the pins say nothing here
    out = []
    for f in pin["by_property"].get(prop, []):
        try:
            h = hashlib.sha256(ast.dump(ast.parse(open(os.path.join(core.REPO, f)).read())).encode()).hexdigest()[:16]
        except (OSError, SyntaxError) as e:
            h = "unreadable:%s" % type(e).__name__
        if h != pin["files"].get(f):
            out.append(f)
    return out


def main():
    if len(sys.argv) < 3:
        print("usage: check <Cxx> quick|thorough [--replay file]")
        return 2
    prop, tier = sys.argv[1], sys.argv[2]
    if "VERIF_TIER" in os.environ and tier not in ("quick", "thorough"):
        tier = os.environ["VERIF_TIER"]
    replay = None
    if "--replay" in sys.argv:
        replay = sys.argv[sys.argv.index("--replay") + 1]
    core.ensure_env()
    changed = changed_files(prop) if tier == "quick" and not os.environ.get("VERIF_NO_ESCALATE") else []
    if changed:
        # the code the model was reviewed against has been edited: re-establish the correspondence on the thorough
        # tier's sample (no verdict is derived from the fingerprints themselves)
        print("NOTE: %s differ(s) from corpus/fingerprints.json -- quick check of %s escalated to the thorough case counts"
              % (", ".join(changed[:4]) + (" ..." if len(changed) > 4 else ""), prop))
        os.environ["VERIF_ESCALATED"] = ",".join(changed)
        tier = "thorough"
    os.environ["VERIF_CURRENT_TIER"] = tier
    seed = int(os.environ.get("VERIF_SEED", "20260926"))
    mod = importlib.import_module("vp.props.%s" % prop.lower())
    # safety net: a check must terminate.  Hangs of the code under test are caught per call (SIGALRM in the
    # harness); this watchdog only fires if the machinery itself is stuck (e.g. a dead pool worker).
    core.tree_lock()      # before the watchdog: waiting for a run on another tree is not a stuck check
    import threading
    limit = int(os.environ.get("VERIF_WATCHDOG_S", "1800" if tier == "quick" else "14400"))

    def _expired():
        sys.stdout.write("INTERNAL-ERROR: check %s %s did not finish within %d s (watchdog)\n" % (prop, tier, limit))
        sys.stdout.flush()
        os.killpg(os.getpgid(0), 9) if os.environ.get("VERIF_WATCHDOG_KILLPG") else os._exit(2)
    wd = threading.Timer(limit, _expired)
    wd.daemon = True
    wd.start()
    try:
        return mod.run(tier, seed, replay)
    except core.InternalError as e:
        print("INTERNAL-ERROR: %s" % e)
        return 2
    except Exception as e:  # noqa: BLE001 -- a check never ends without a verdict line: a crash of the harness is one
        import traceback
        traceback.print_exc()
        tb = traceback.extract_tb(e.__traceback__)
        print("INTERNAL-ERROR: check %s %s crashed: %s: %s (%s:%d)" % (
            prop, tier, type(e).__name__, str(e)[:200], os.path.basename(tb[-1].filename) if tb else "?",
            tb[-1].lineno if tb else 0))
        return 2


if __name__ == "__main__":
    sys.exit(main())
