"""Shared machinery of the sheXer proof-based checks.

build (gen_consts -> make -> extraction binary), proof-obligation status,
model execution (extracted OCaml binary; vm_compute cross-check through a
generated cases file), known-findings protocol, evidence and verdict output.
"""
import hashlib
import json
import os
import re
import subprocess
import sys
import time

VERIF = os.path.abspath(os.path.join(os.path.dirname(__file__), "..", ".."))
REPO = os.environ.get("VERIF_REPO", "/repo")
ROCQ = os.path.join(VERIF, "rocq")
WORK = os.path.join(VERIF, "work")
# evidence/ describes runs against /repo itself; a run against a scratch copy (VERIF_REPO: seeded changes, proposed
# repairs) writes its evidence under work/ so that the committed files never come from a snapshot
EVID = os.path.join(VERIF, "evidence") if os.path.realpath(REPO) == "/repo" else os.path.join(WORK, "evidence_scratch")
PY = "/venv/bin/python"
NCPU = int(os.environ.get("VERIF_NCPU", min(16, os.cpu_count() or 4)))

FORBIDDEN = re.compile(r"\b(Admitted|admit|Axiom|Axioms|Parameter|Parameters|Conjecture|Hypothesis|Variable|"
                       r"Unset Guard|bypass_check|type-in-type|impredicative-set|Admit Obligations)\b")

TRUSTED_BASE_COMMON = [
    "Coq 8.16.1 kernel + coqc; vm_compute (bytecode VM) for evaluation; no native_compute",
    "tools/gen_consts.py (Python AST -> Gen/Consts.v: constants, membership lists, defaults)",
    "hand-written Gallina model (rocq/theories/Model) tied to /repo by the differential correspondence run of this check",
    "extraction: ExtrOcamlBasic + ExtrOcamlString only (bool/option/list/prod/sumbool -> OCaml, ascii -> char, "
    "string -> char list); Z/N/positive/nat stay extracted inductives; rocq/ocaml/driver.ml; OCaml 4.13.1; "
    "cross-checked against vm_compute on a sample of every run",
    "harness (harness/vp): generators, canonicaliser, hex framing, SIGALRM hang detection",
]


def ensure_env():
    """Pin the hash seed and the import path; re-exec once if needed."""
    want = {"PYTHONHASHSEED": os.environ.get("VERIF_HASHSEED", "0"), "PYTHONPATH": REPO,
            "PYTHONWARNINGS": "ignore", "PYTHONDONTWRITEBYTECODE": "1"}
    if any(os.environ.get(k) != v for k, v in want.items()):
        env = dict(os.environ)
        env.update(want)
        env["PYTHONDONTWRITEBYTECODE"] = "1"
        os.execve(sys.executable, [sys.executable] + sys.argv, env)
    if REPO not in sys.path:
        sys.path.insert(0, REPO)
    os.makedirs(WORK, exist_ok=True)
    os.makedirs(EVID, exist_ok=True)


def sh(cmd, timeout=600, cwd=None, env=None):
    t0 = time.time()
    try:
        p = subprocess.run(cmd, shell=isinstance(cmd, str), cwd=cwd, env=env, timeout=timeout,
                           stdout=subprocess.PIPE, stderr=subprocess.STDOUT, text=True, errors="replace")
        return p.returncode, p.stdout, time.time() - t0
    except subprocess.TimeoutExpired as e:
        out = e.stdout if isinstance(e.stdout, str) else (e.stdout or b"").decode("utf-8", "replace")
        return 124, (out or "") + "\n[timeout after %ss]" % timeout, time.time() - t0


# --------------------------------------------------------------------------
# build
# --------------------------------------------------------------------------

# statement files outside Props/Cxx.v that a property's check also gates on (see DESIGN.md section 11)
EXTRA_PROPS = {
    "C01": ["P1", "ShexStage", "FreqLawsProps"],
    "C02": ["P1", "ShexStage", "FreqLawsProps"],
    "C03": ["ShexStage"],
    "C04": ["ShexStage", "CurTransfer"],
    "C05": ["C05refs", "ShexStage", "CurTransfer"],
    "C08": ["C06Channels"],
    "C09": ["P1", "ShexStage", "CurTransfer"],
    "C12": ["FreqLawsProps"],
    "C13": ["ShexStage", "CurTransfer"],
    "C17": ["ShexStage"],
    "C18": ["ShexStage"],
    "C14": ["ShexStage"],
    "C16": ["P1"],
}


class BuildState(object):
    def __init__(self):
        self.gen_ok = True
        self.gen_log = ""
        self.model_ok = True      # Entry.vo + extraction + binary
        self.model_log = ""
        self.proof_ok = {}        # prop -> bool
        self.proof_log = {}
        self.assumptions = {}     # prop -> list of (theorem, text)
        self.obligations = {}     # prop -> (n_theorems, n_discharged)
        self.forbidden = []
        self.coqchk = {}          # prop -> summary printed by coqchk -o (thorough tier)
        self.theorem_names = {}   # prop -> names of the Theorem statements of Props/<prop>.v


_lock_fd = None


def _lock():
    """Serialise builds between concurrently running checks."""
    global _lock_fd
    import fcntl
    os.makedirs(WORK, exist_ok=True)
    _lock_fd = open(os.path.join(WORK, ".build.lock"), "w")
    fcntl.flock(_lock_fd, fcntl.LOCK_EX)


def _unlock():
    global _lock_fd
    import fcntl
    if _lock_fd is not None:
        fcntl.flock(_lock_fd, fcntl.LOCK_UN)
        _lock_fd.close()
        _lock_fd = None


_tree_fd = None


def tree_lock():
    """Checks share one build directory (Gen/Consts.v, the .vo files, the model binary), and those depend on the tree
    under test.  Runs against the SAME tree may overlap (shared lock); a run against a DIFFERENT tree (VERIF_REPO: a
    seeded change, a proposed repair) waits until the others are done, and they wait for it.  Held until exit."""
    global _tree_fd
    import fcntl
    import hashlib
    if _tree_fd is not None:
        return
    rc1, head, _ = sh(["git", "-C", REPO, "rev-parse", "HEAD"], timeout=60)
    rc2, diff, _ = sh(["git", "-C", REPO, "diff", "HEAD"], timeout=120)
    h = hashlib.sha256((os.path.realpath(REPO) if rc1 else "") .encode() + head.encode() + diff.encode()).hexdigest()[:20]
    os.makedirs(WORK, exist_ok=True)
    fd = open(os.path.join(WORK, ".tree.lock"), "a+")
    while True:
        fcntl.flock(fd, fcntl.LOCK_SH)
        fd.seek(0)
        if fd.read().strip() == h:
            break
        fcntl.flock(fd, fcntl.LOCK_UN)
        fcntl.flock(fd, fcntl.LOCK_EX)          # every run on the other tree has finished
        fd.seek(0)
        fd.truncate()
        fd.write(h)
        fd.flush()
        fcntl.flock(fd, fcntl.LOCK_UN)          # re-enter through the shared path (another tree may have slipped in)
    _tree_fd = fd


def props_files(prop):
    return os.path.join(ROCQ, "theories", "Props", "%s.v" % prop)


def build(prop=None, need_model=True):
    """Regenerate Consts.v from /repo, rebuild what changed, return BuildState."""
    bs = BuildState()
    tree_lock()
    _lock()
    try:
        rc, out, _ = sh([PY, os.path.join(VERIF, "tools", "gen_consts.py"), REPO], timeout=120)
        bs.gen_ok = (rc == 0)
        bs.gen_log = out
        if not os.path.exists(os.path.join(ROCQ, "Makefile")) or \
                os.path.getmtime(os.path.join(ROCQ, "Makefile")) < os.path.getmtime(os.path.join(ROCQ, "_CoqProject")):
            sh("coq_makefile -f _CoqProject -o Makefile", cwd=ROCQ, timeout=60)
        if need_model:
            rc, out, _ = sh("timeout 900 make -j%d theories/Extract/Extract.vo" % NCPU, cwd=ROCQ, timeout=960)
            if rc == 0:
                rc, out2, _ = sh("if [ ! -x modelbin ] || [ model.ml -nt modelbin ]; then "
                                 "ocamlfind ocamlopt -O2 -w -a model.mli model.ml driver.ml -o modelbin; fi",
                                 cwd=os.path.join(ROCQ, "ocaml"), timeout=300)
                out += out2
            bs.model_ok = (rc == 0)
            bs.model_log = out[-4000:]
        if prop is not None:
            target = "theories/Props/%s.vo" % prop
            rc, out, _ = sh("timeout 1500 make -j%d %s" % (NCPU, target), cwd=ROCQ, timeout=1560)
            bs.proof_ok[prop] = (rc == 0)
            bs.proof_log[prop] = out[-4000:]
            _collect_assumptions(bs, prop)
            # statement files the property's argument rests on but Props/<prop>.v does not import: they are part of
            # the proof gate too (a break in one of them is a break of the property's proof)
            for extra in EXTRA_PROPS.get(prop, []):
                if not os.path.exists(props_files(extra)):
                    continue
                rc, out, _ = sh("timeout 1500 make -j%d theories/Props/%s.vo" % (NCPU, extra), cwd=ROCQ, timeout=1560)
                sub = BuildState()
                sub.proof_ok[extra] = (rc == 0)
                sub.proof_log[extra] = out[-4000:]
                _collect_assumptions(sub, extra)
                n0, d0 = bs.obligations.get(prop, (0, 0))
                n1, d1 = sub.obligations.get(extra, (0, 0))
                bs.obligations[prop] = (n0 + n1, d0 + d1)
                bs.assumptions[prop] = bs.assumptions.get(prop, []) + [("%s.%s" % (extra, t), a)
                                                                      for t, a in sub.assumptions.get(extra, [])]
                bs.theorem_names[prop] = bs.theorem_names.get(prop, []) + ["%s.%s" % (extra, t)
                                                                          for t in sub.theorem_names.get(extra, [])]
                if not sub.proof_ok.get(extra):
                    bs.proof_ok[prop] = False
                    bs.proof_log[prop] = (bs.proof_log.get(prop, "") + "\n[Props/%s.v] " % extra + sub.proof_log[extra])[-4000:]
    finally:
        _unlock()
    return bs


def _collect_assumptions(bs, prop):
    src = props_files(prop)
    if not os.path.exists(src):
        bs.proof_ok[prop] = False
        bs.proof_log[prop] = "missing " + src
        bs.obligations[prop] = (0, 0)
        bs.assumptions[prop] = []
        return
    with open(src, encoding="utf-8") as f:
        text = f.read()
    theorems = re.findall(r"^\s*Theorem\s+(\w+)", text, re.M)
    n = len(theorems)
    if not bs.proof_ok.get(prop):
        bs.obligations[prop] = (n, 0)
        bs.assumptions[prop] = []
        return
    # recompile the property file alone to capture what Print Assumptions says
    rc, out, _ = sh("timeout 600 coqc -Q theories Shexer theories/Props/%s.v" % prop, cwd=ROCQ, timeout=660)
    blocks = re.split(r"(?=Closed under the global context|Axioms:)", out)
    blocks = [b.strip() for b in blocks if b.strip().startswith(("Closed", "Axioms"))]
    # one Print Assumptions per statement, in file order (theorems, lemmas, corollaries and examples alike)
    printed = re.findall(r"^\s*Print Assumptions\s+([\w']+)", text, re.M)
    bs.assumptions[prop] = list(zip(printed if len(printed) == len(blocks) else theorems, blocks))
    bs.theorem_names[prop] = theorems
    bs.obligations[prop] = (n, n if rc == 0 else 0)
    if rc != 0:
        bs.proof_ok[prop] = False
        bs.proof_log[prop] = out[-4000:]
    bs.forbidden = scan_forbidden()
    if os.environ.get("VERIF_CURRENT_TIER") == "thorough" and bs.proof_ok.get(prop) and not os.environ.get("VERIF_ESCALATED"):
        # independent re-check of the compiled property file and everything it depends on
        rc2, out2, _ = sh("timeout 3000 coqchk -silent -o -Q theories Shexer Shexer.Props.%s" % prop, cwd=ROCQ, timeout=3100)
        i = out2.find("CONTEXT SUMMARY")
        bs.coqchk[prop] = {"exit": rc2, "summary": re.sub(r"\s+", " ", out2[i:] if i >= 0 else out2[-600:]).strip()}
        if rc2 != 0:
            bs.proof_ok[prop] = False
            bs.proof_log[prop] = "coqchk failed: " + out2[-1500:]


def scan_forbidden():
    """Axiom-like declarations, Admitted/admit, disabled kernel checks anywhere in the
    development.  Variable/Hypothesis/Context are allowed inside a Section only."""
    bad = []
    always = re.compile(r"\b(Admitted|admit|Axiom|Axioms|Parameter|Parameters|Conjecture|Conjectures|"
                        r"Unset Guard Checking|Unset Positivity Checking|Unset Universe Checking|bypass_check|"
                        r"type-in-type|impredicative-set|Admit Obligations)\b")
    insec = re.compile(r"^\s*(Variable|Variables|Hypothesis|Hypotheses|Context)\b")
    for root, _, files in os.walk(os.path.join(ROCQ, "theories")):
        for fn in sorted(files):
            if not fn.endswith(".v"):
                continue
            p = os.path.join(root, fn)
            with open(p, encoding="utf-8") as f:
                text = f.read()
            text = re.sub(r"\(\*.*?\*\)", lambda m: "\n" * m.group(0).count("\n"), text, flags=re.S)
            sections = []
            for i, line in enumerate(text.split("\n"), 1):
                m = re.match(r"^\s*Section\s+(\w+)", line)
                if m:
                    sections.append(m.group(1))
                m = re.match(r"^\s*End\s+(\w+)", line)
                if m and sections and sections[-1] == m.group(1):
                    sections.pop()
                if always.search(line) or (insec.search(line) and not sections):
                    bad.append("%s:%d: %s" % (os.path.relpath(p, ROCQ), i, line.strip()))
    return bad


# --------------------------------------------------------------------------
# model execution
# --------------------------------------------------------------------------

def _hex(s):
    b = s.encode("utf-8") if isinstance(s, str) else bytes(s)
    return b.hex() if b else "-"


def _unhex(h):
    return b"" if h == "-" else bytes.fromhex(h)


class ModelBin(object):
    """One extracted-model process; tables are lists of lists of str/bytes."""

    def __init__(self):
        def _big_stack():          # extracted list functions are not tail recursive: long documents need stack
            import resource
            soft, hard = resource.getrlimit(resource.RLIMIT_STACK)
            want = hard if hard != resource.RLIM_INFINITY else resource.RLIM_INFINITY
            try:
                resource.setrlimit(resource.RLIMIT_STACK, (want, hard))
            except (ValueError, OSError):
                pass
        self.p = subprocess.Popen([os.path.join(ROCQ, "ocaml", "modelbin")], stdin=subprocess.PIPE,
                                  stdout=subprocess.PIPE, bufsize=1 << 16, preexec_fn=_big_stack)

    def call(self, name, table, raw=False):
        lines = ["%s %d" % (_hex(name), len(table))]
        for row in table:
            lines.append(" ".join(_hex(f) for f in row) if row else ".")
        self.p.stdin.write(("\n".join(lines) + "\n").encode("ascii"))
        self.p.stdin.flush()
        hdr = self.p.stdout.readline()
        if not hdr:
            raise RuntimeError("model binary died on entry %s" % name)
        n = int(hdr)
        out = []
        for _ in range(n):
            line = self.p.stdout.readline().decode("ascii").rstrip("\n")
            row = [] if line == "." else [_unhex(h) for h in line.split(" ")]
            out.append(row if raw else [f.decode("utf-8", "surrogateescape") for f in row])
        return out

    def close(self):
        try:
            self.p.stdin.close()
            self.p.wait(timeout=5)
        except Exception:
            self.p.kill()


def coq_str_lit(s):
    b = s.encode("utf-8", "surrogateescape") if isinstance(s, str) else bytes(s)
    if all(32 <= c < 127 for c in b):
        return '(Str "%s")' % b.decode("ascii").replace('"', '""')
    # explicit byte list for anything outside printable ASCII
    return "[" + "; ".join('(ascii_of_nat %d)' % c for c in b) + "]"


def coq_table(t):
    return "[" + "; ".join("[" + "; ".join(coq_str_lit(f) for f in row) + "]" for row in t) + "]"


def vm_crosscheck(cases, tag, per_file=200, timeout=600):
    """cases: list of (entry, input_table, expected_output_table) -- expected is what
    the extracted binary answered.  Re-evaluates each by vm_compute inside Coq.
    Returns (n_checked, mismatch_indices, log)."""
    if not cases:
        return 0, [], ""
    d = os.path.join(WORK, "cases_%s_%d" % (tag, os.getpid()))
    os.makedirs(d, exist_ok=True)
    files = []
    for k in range(0, len(cases), per_file):
        chunk = cases[k:k + per_file]
        fn = os.path.join(d, "cases_%d.v" % (k // per_file))
        with open(fn, "w", encoding="utf-8") as f:
            f.write("From Coq Require Import List Ascii String ZArith.\n"
                    "From Shexer Require Import Lib.PyStr Model.Table Model.Entry.\nImport ListNotations.\n"
                    "Definition cases : list (str * table * table) := [\n")
            f.write(";\n".join("(%s, %s, %s)" % (coq_str_lit(n), coq_table(i), coq_table(o)) for n, i, o in chunk))
            f.write("].\nEval vm_compute in (mismatches cases).\n")
        files.append(fn)
    cmd = "printf '%%s\\n' %s | xargs -P %d -n 1 sh -c 'timeout %d coqc -Q %s/theories Shexer \"$0\" > \"$0.out\" 2>&1; echo $? > \"$0.rc\"'" % (
        " ".join(files), NCPU, timeout, ROCQ)
    sh(cmd, timeout=timeout + 60)
    mism = []
    log = ""
    for k, fn in enumerate(files):
        try:
            rc = int(open(fn + ".rc").read().strip())
            out = open(fn + ".out").read()
        except Exception as e:  # pragma: no cover
            rc, out = 99, str(e)
        if rc != 0:
            log += "coqc failed on %s: %s\n" % (fn, out[-500:])
            mism.append(-1)
            continue
        m = re.search(r"=\s*\[(.*?)\]\s*:\s*list nat", out, re.S)
        if not m:
            log += "unparsable output of %s: %s\n" % (fn, out[-300:])
            mism.append(-1)
            continue
        body = m.group(1).strip()
        if body:
            mism += [k * per_file + int(x) for x in re.findall(r"\d+", body)]
    if not mism:
        sh(["rm", "-rf", d])
    return len(cases), mism, log


# --------------------------------------------------------------------------
# findings, verdict, evidence
# --------------------------------------------------------------------------

def load_findings(prop):
    p = os.path.join(VERIF, "known_findings.json")
    if not os.path.exists(p):
        return []
    with open(p) as f:
        data = json.load(f)
    return [x for x in data.get("findings", []) if x.get("property") == prop]


class Run(object):
    """Collects what one check run did and prints the verdict."""

    def __init__(self, prop, tier, seed):
        self.prop = prop
        self.tier = tier
        self.seed = seed
        self.t0 = time.time()
        self.violations = []       # list of dict(kind, what, replay)
        self.known = []            # KNOWN-FINDING lines
        self.coverage = {}
        self.assumptions = []
        self.notes = []
        self.internal_errors = []

    def write_replay(self, name, payload):
        d = os.path.join(WORK, "replays")
        os.makedirs(d, exist_ok=True)
        h = hashlib.sha256(json.dumps(payload, sort_keys=True, default=str).encode()).hexdigest()[:12]
        p = os.path.join(d, "%s-%s-%s.json" % (self.prop, name, h))
        with open(p, "w") as f:
            json.dump(payload, f, indent=1, default=str)
        return p

    def violation(self, what, payload, failing_input=True):
        payload = dict(payload)
        payload.setdefault("property", self.prop)
        payload["what"] = what
        payload["failing_input_found"] = failing_input
        p = self.write_replay("viol", payload)
        self.violations.append({"what": what, "replay": p, "failing_input": failing_input})

    def known_finding(self, fid, what):
        self.known.append("KNOWN-FINDING: property=%s %s: %s" % (self.prop, fid, what))

    def finish(self, bs, level="proof"):
        prop = self.prop
        cov = dict(self.coverage)
        n, d = bs.obligations.get(prop, (0, 0)) if bs else (0, 0)
        cov.setdefault("obligations", n)
        cov.setdefault("discharged", d)
        cov.setdefault("checker_cmd", "make -C rocq theories/Props/%s.vo (full .vo build, coqc 8.16.1) && "
                                      "coqc -Q theories Shexer theories/Props/%s.v (Print Assumptions)" % (prop, prop))
        cov.setdefault("trusted_base", TRUSTED_BASE_COMMON)
        if bs:
            cov["print_assumptions"] = [{"theorem": t, "assumptions": a} for t, a in bs.assumptions.get(prop, [])]
            cov["statements_with_axioms"] = [t for t, a in bs.assumptions.get(prop, []) if not a.startswith("Closed")]
            cov["gen_consts_ok"] = bs.gen_ok
            cov["forbidden_constructs_found"] = bs.forbidden
            if bs.coqchk.get(prop):
                cov["coqchk"] = bs.coqchk[prop]
        if os.environ.get("VERIF_ESCALATED"):
            self.notes.append("quick check escalated to the thorough case counts: %s differ(s) from the pinned "
                              "fingerprints (corpus/fingerprints.json)" % os.environ["VERIF_ESCALATED"])
        cov["known_findings_reported"] = self.known
        cov["notes"] = self.notes
        ev = {"property_id": prop, "tier": self.tier, "seed": self.seed, "level": level, "coverage": cov,
              "assumptions": self.assumptions, "wall_s": round(time.time() - self.t0, 2),
              "violations": len(self.violations)}
        with open(os.path.join(EVID, "%s.json" % prop), "w") as f:
            json.dump(ev, f, indent=1, default=str)
        for line in self.known:
            print(line)
        if self.internal_errors:
            for e in self.internal_errors:
                print("INTERNAL-ERROR: %s" % e)
            return 2
        if self.violations:
            for v in self.violations:
                print("VIOLATION property=%s replay=%s%s" % (
                    prop, v["replay"], "" if v["failing_input"] else " no-failing-input-found"))
            return 1
        print("OK property=%s tier=%s obligations=%d/%d evaluations=%s wall=%.1fs" % (
            prop, self.tier, d, n, cov.get("evaluations"), time.time() - self.t0))
        return 0


def proof_gate(run, bs):
    """Common handling of a broken build / proof; returns True when the proof side is intact."""
    prop = run.prop
    ok = True
    if not bs.gen_ok:
        ok = False
        run.notes.append("gen_consts failed: " + bs.gen_log[-500:])
    if not bs.proof_ok.get(prop, False):
        ok = False
        run.notes.append("proof build failed: " + bs.proof_log.get(prop, "")[-1500:])
    if bs.forbidden:
        ok = False
        run.notes.append("forbidden constructs: %r" % bs.forbidden[:5])
    return ok


class InternalError(Exception):
    pass


def pool_map(fn, items, chunksize=64, procs=None):
    """multiprocessing map with fork (workers inherit generated state)."""
    import multiprocessing as mp
    if len(items) < 2 * chunksize:
        return [fn(x) for x in items]
    ctx = mp.get_context("fork")
    with ctx.Pool(procs or NCPU) as pool:
        return pool.map(fn, items, chunksize=chunksize)
