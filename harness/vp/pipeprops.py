"""Engine shared by the checks of the extraction-pipeline properties.

A *case* is a dict {"runs": [(ts, cfg), ...], "meta": {...}}: one or more
extractions of the real Shaper that the property relates to each other.  For
every run the worker computes the implementation's answer and the model's
answer (extracted binary); the property's oracle (pipespec / here) judges the
implementation's answers against the input data, the correspondence compares
the property's projection of both answers.
"""
import json
import os
import random
import time

from vp import core, pipe, pipespec

_MB = None


def _mb():
    global _MB
    if _MB is None:
        _MB = core.ModelBin()
    return _MB


def run_pair(ts, cfg):
    i = pipe.impl_shexc(ts, cfg)
    m = pipe.model_shexc(_mb(), ts, cfg)
    return i, m


def doc_of(res):
    return pipe.canon(res[1]) if res[0] == "ok" else None


# --------------------------------------------------------------------------
# projections (what the correspondence of each property compares)
# --------------------------------------------------------------------------

def proj_text(res):
    return res[:2]


def proj_figures(res):
    if res[0] != "ok":
        return res[:2]
    d = pipe.canon(res[1])
    return ("ok", [(s["label"], s["n"], [(c["inv"], c["pred"], tuple(c["values"]), c["card"], c["fig"],
                                           [(k.get("obj"), k.get("card"), k.get("fig"), k.get("raw")) for k in c["comments"]])
                                          for c in s["constraints"]]) for s in d["shapes"]])


def proj_keys(res, tau=pipe.RDF_TYPE):
    if res[0] != "ok":
        return res[:2]
    d = pipe.canon(res[1])
    return ("ok", [(s["label"], s["n"], pipe.keys_of_shape(s, tau)) for s in d["shapes"]])


def proj_structure(res):
    if res[0] != "ok":
        return res[:2]
    d = pipe.canon(res[1])
    return ("ok", [(s["label"], [(c["inv"], c["pred"], tuple(c["values"]), c["card"]) for c in s["constraints"]])
                   for s in d["shapes"]])


def proj_outcome(res):
    return (res[0], res[1] if res[0] == "err" else "")


# --------------------------------------------------------------------------
# case generation helpers
# --------------------------------------------------------------------------

NS_POOL = [("http://ex.org/", "ex"), ("http://www.w3.org/2001/XMLSchema#", "xsd"),
           ("http://www.w3.org/1999/02/22-rdf-syntax-ns#", "rdf"), ("http://other.org/ns#", "oth"),
           ("http://x/", "weso-s"), ("http://y/", "")]


def random_cfg(r, ts, idx, rich=True):
    cfg = pipe.switch_cfg(idx)
    cfg["thr"] = r.choice(pipe.thresholds_for(ts, r))
    if rich:
        cfg["mode"] = r.choice(["mixed", "mixed", "mixed", "ratio", "abs"])
        cfg["remove_empty_shapes"] = r.random() < 0.75
        if r.random() < 0.25:
            cfg["cap"] = r.randint(1, 4)
        if r.random() < 0.35:
            cls = sorted(pipe.class_sizes(ts)) + ["http://ex.org/Cnone"]
            cfg["all_classes"] = False
            cfg["targets"] = r.sample(cls, r.randint(1, len(cls)))
        if r.random() < 0.4:
            cfg["ns"] = r.sample(NS_POOL, r.randint(1, 4))
    return cfg


def gen_basic(tier, rnd, n_quick, n_thorough, rich=True, two_ns_every=4):
    n = n_thorough if tier == "thorough" else n_quick
    cases = []
    for i in range(n):
        r = random.Random(rnd.getrandbits(48))
        ns = ("http://ex.org/", "http://other.org/ns#") if two_ns_every and i % two_ns_every == 0 else ("http://ex.org/",)
        ts = pipe.gen_graph(r, general=(i % 3 != 0), namespaces=ns)
        cfg = random_cfg(r, ts, i, rich)
        cases.append({"runs": [(ts, cfg)], "meta": {"i": i}})
    return cases


def nontrivial_graph(ts, cfg):
    """a run is non-trivial when some class has >= 2 instances and some property has a value"""
    sizes = pipe.class_sizes(ts, cfg["tau"])
    return bool(sizes) and max(sizes.values()) >= 2 and any(p != cfg["tau"] for _, p, _ in ts)


def case_key(case):
    return json.dumps([(pipe.nt_doc(rn[0]), sorted((k, str(v)) for k, v in rn[1].items()), rn[2:]) for rn in case["runs"]],
                      sort_keys=True)


# --------------------------------------------------------------------------
# the generic driver
# --------------------------------------------------------------------------

class PropSpec(object):
    """what a pipeline property supplies"""
    pid = None
    theorems = ""                 # names, for the replay of a broken proof
    projection = staticmethod(proj_text)
    projection_name = "ShExC text, byte for byte"

    def gen_cases(self, tier, rnd):
        raise NotImplementedError

    def oracle(self, case, impl_results):
        """-> (list of (root_cause|None, description), n_checked_items)"""
        raise NotImplementedError

    def domain_note(self):
        return ""

    rule = ""
    assumptions = []


_SPEC = None


def _work(case):
    spec = _SPEC
    impl, model, corr = [], [], []
    for rn in case["runs"]:
        ts, cfg = rn[0], rn[1]
        kind = rn[2] if len(rn) > 2 else "shexc"
        if kind == "shexc":
            i, m = run_pair(ts, cfg)
            corr.append(spec.projection(i) == spec.projection(m))
        else:                      # SHACL output / profile_graph: implementation only (not in the pipeline model)
            i = pipe.impl_other(ts, cfg, kind)
            m = ("n/a", "")
            ok = True
            hook = getattr(spec, "model_other", None)   # a property may bring its own model for a kind (C05: SHACL graph)
            if hook is not None:
                m, ok = hook(ts, cfg, kind, i)
            corr.append(ok)
        impl.append(i)
        model.append(m)
    try:
        fails, nitems = spec.oracle(case, impl)
    except Exception as e:  # an oracle crash is an internal error, not a verdict
        import traceback
        return {"internal": "oracle crashed: %s %s" % (type(e).__name__, traceback.format_exc()[-600:])}
    out = {"fails": fails, "nitems": nitems, "corr": corr,
           "hook_kinds": [str(m[1])[:60] for m in model if str(m[0]).endswith("-model")],
           "outcomes": [i[0] if i[0] == "ok" else i[1] for i in impl],
           "nontrivial": any(nontrivial_graph(rn[0], rn[1]) for rn in case["runs"])}
    if fails or not all(corr):
        out["impl"] = [list(i) for i in impl]
        out["model"] = [list(m) for m in model]
    return out


def run_property(spec, tier, seed, replay=None, quick_vm=24, thorough_vm=120):
    global _SPEC
    _SPEC = spec
    pid = spec.pid
    run = core.Run(pid, tier, seed)
    bs = core.build(pid)
    proofs_ok = core.proof_gate(run, bs)
    rnd = random.Random(seed)
    findings = {f["id"]: f for f in core.load_findings(pid)}
    known_rc = {f["root_cause_tag"]: fid for fid, f in findings.items()
                if f.get("status") == "known" and f.get("root_cause_tag")}
    if not bs.model_ok:
        run.notes.append("model binary unavailable: " + bs.model_log[-800:])
    b64 = None
    if getattr(spec, "uses_bin64", False) and bs.model_ok and not replay:
        # the theorems about thresholds and ratios are about Lib/Bin64: compare it with CPython's floats on this run
        from vp import bin64check
        b64 = bin64check.run(tier, seed, build=False, vm_sample=40 if tier == "quick" else 240)
        if not b64["ok"]:
            run.internal_errors.append("Lib/Bin64 disagrees with CPython floats (%d mismatches, first: %r; vm: %r)"
                                       % (b64["n_mismatches"], b64["mismatches"][:2], b64["vm_mismatches"][:2]))

    if replay:
        with open(replay) as f:
            rp = json.load(f)
        cases = [{"runs": [tuple([tuplify(rn[0]), rn[1]] + list(rn[2:])) for rn in rp["case"]["runs"]],
                  "meta": rp["case"].get("meta", {})}] if "case" in rp else []
        corpus = []
    else:
        corpus = load_corpus(pid)
        cases = corpus + spec.gen_cases(tier, rnd)

    t0 = time.time()
    results = core.pool_map(_work, cases, chunksize=8) if bs.model_ok else []
    spec_fail, corr_fail, known_hits = [], [], {}
    nitems = 0
    outcomes = {}
    hook_kinds = {}
    distinct = set()
    for k, (case, res) in enumerate(zip(cases, results)):
        if "internal" in res:
            run.internal_errors.append(res["internal"])
            continue
        nitems += res["nitems"]
        for o in res["outcomes"]:
            outcomes[o] = outcomes.get(o, 0) + 1
        for o in res.get("hook_kinds", []):
            hook_kinds[o] = hook_kinds.get(o, 0) + 1
        if res["nontrivial"]:
            distinct.add(case_key(case))
        unknown = []
        for rc, desc in res["fails"]:
            if rc is not None and rc in known_rc:
                known_hits[known_rc[rc]] = known_hits.get(known_rc[rc], 0) + 1
            else:
                unknown.append((rc, desc))
        if unknown:
            spec_fail.append((k, unknown))
        if not all(res["corr"]):
            corr_fail.append(k)

    # pinned reproducers of the known findings (replayed on the implementation on every run)
    for fid, f in findings.items():
        if f.get("status") != "known" or "reproducer" not in f:
            continue
        rp = f["reproducer"]
        case = {"runs": [tuple([tuplify(rn[0]), rn[1]] + list(rn[2:])) for rn in rp["runs"]], "meta": rp.get("meta", {})}
        impl = [pipe.impl_shexc(rn[0], rn[1]) if len(rn) < 3 or rn[2] == "shexc" else pipe.impl_other(rn[0], rn[1], rn[2])
                for rn in case["runs"]]
        fails, _ = spec.oracle(case, impl)
        if any(rc == f.get("root_cause_tag") for rc, _ in fails):
            run.known_finding(fid, f["what"])
        else:
            run.notes.append("finding %s no longer reproduces on its pinned input" % fid)

    # vm_compute cross-check of a sample of the binary's answers
    vm_n = 0
    if bs.model_ok and not replay and cases:
        nvm = thorough_vm if tier == "thorough" else quick_vm
        idx = rnd.sample(range(len(cases)), min(len(cases), nvm))
        mb = core.ModelBin()
        vcases = []
        for i in idx:
            ts, cfg = cases[i]["runs"][0][0], cases[i]["runs"][0][1]
            t = pipe.model_table(ts, cfg)
            vcases.append(("pipe_shexc", t, mb.call("pipe_shexc", t)))
        extra = getattr(spec, "extra_vm_cases", None)   # further entries of the binary to re-evaluate by vm_compute
        if extra is not None:
            vcases += extra(cases, mb, rnd, tier)
        mb.close()
        vm_n, mism, log = core.vm_crosscheck(vcases, pid.lower(), per_file=4, timeout=900)
        if mism:
            run.internal_errors.append("extracted binary and vm_compute disagree (%s): %s %s" % (pid, mism[:5], log[-300:]))

    def payload(k, extra):
        case = cases[k]
        res = results[k]
        d = {"case": {"runs": [list(rn) for rn in case["runs"]], "meta": case.get("meta", {})},
             "documents": [pipe.nt_doc(rn[0]) for rn in case["runs"]],
             "impl": res.get("impl"), "model": res.get("model")}
        d.update(extra)
        return d

    for k, unknown in spec_fail[:5]:
        run.violation("%s fails on the implementation: %s" % (pid, unknown[0][1]),
                      payload(k, {"oracle_failures": unknown[:10]}))
    if not spec_fail:
        if corr_fail:
            k = corr_fail[0]
            run.violation("correspondence (%s) of the pipeline model vs shexer no longer checks" % spec.projection_name,
                          payload(k, {"broken": "correspondence Model.Run.run_shexc vs Shaper.shex_graph on projection: "
                                                + spec.projection_name, "n_disagreements": len(corr_fail),
                                      "oracle": "the Spec oracle found no failing input among %d cases" % len(cases)}),
                          failing_input=False)
        elif not proofs_ok:
            run.violation("proof obligations of %s no longer check" % pid,
                          {"broken": "theorems of Props/%s.v: %s" % (pid, ", ".join(bs.theorem_names.get(pid, [])) or spec.theorems),
                           "log": run.notes[-1] if run.notes else ""}, failing_input=False)
        elif not bs.model_ok:
            run.violation("model no longer builds", {"broken": "Model/Entry extraction", "log": bs.model_log[-1500:]},
                          failing_input=False)

    nruns = sum(len(c["runs"]) for c in cases)
    run.coverage.update({
        "evaluations": nruns,
        "cases": len(cases),
        "distinct_nontrivial": len(distinct),
        "rule": spec.rule,
        "checked_items": nitems,
        "outcome_distribution": outcomes,
        "other_model_correspondence": hook_kinds,
        "known_finding_hits": known_hits,
        "corpus_cases_replayed_first": len(corpus),
        "vm_compute_crosschecked": vm_n,
        "disagreements_model_vs_impl": len(corr_fail),
        "correspondence_projection": spec.projection_name,
        "domain": spec.domain_note(),
        "samples": [{"document": pipe.nt_doc(cases[i]["runs"][0][0])[:1500],
                     "config": {k: v for k, v in cases[i]["runs"][0][1].items() if v != pipe.base_cfg().get(k)},
                     "n_runs": len(cases[i]["runs"]), "outcomes": results[i].get("outcomes")}
                    for i in sorted(set([0, len(cases) // 2, len(cases) - 1])) if cases and "internal" not in results[i]],
        "exhaustive": False,
        "impl_wall_s": round(time.time() - t0, 1),
    })
    if b64 is not None:
        run.coverage["bin64_vs_cpython"] = {k: b64[k] for k in ("evaluations", "by_op", "n_mismatches", "vm_checked",
                                                                "cmp_equal", "inexact_div", "exhaustive", "seconds")
                                            if k in b64}
    run.assumptions = list(spec.assumptions) + [
        "input delivered as N-Triples text through raw_graph (the reader is C06's subject); "
        + getattr(spec, "literal_contents", "literal contents are alphanumeric"), "decimal rendering of ratios is done by the harness shim with the same Python expressions "
        "(str(p*100), '{:.nf}', int(p*100)); the model emits the exact figure n/N",
        "binary64 arithmetic of the model is Lib/Bin64 (software rounding), validated against CPython floats"]
    return run.finish(bs)


def tuplify(ts):
    return [(tuple(s), p, tuple(o)) for s, p, o in ts]


def load_corpus(pid):
    d = os.path.join(core.VERIF, "corpus", pid)
    out = []
    if os.path.isdir(d):
        for fn in sorted(os.listdir(d)):
            if fn.endswith(".json"):
                with open(os.path.join(d, fn)) as f:
                    rp = json.load(f)
                out.append({"runs": [tuple([tuplify(rn[0]), rn[1]] + list(rn[2:])) for rn in rp["runs"]],
                            "meta": rp.get("meta", {"corpus": fn})})
    return out
