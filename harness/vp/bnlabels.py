"""Blank-node labels of the N-Triples grammar, for the metamorphic checks that rename blank nodes (C09).

    BLANK_NODE_LABEL ::= '_:' (PN_CHARS_U | [0-9]) ((PN_CHARS | '.')* PN_CHARS)?
    PN_CHARS_U       ::= PN_CHARS_BASE | '_' | ':'
    PN_CHARS         ::= PN_CHARS_U | '-' | [0-9] | #x00B7 | [#x0300-#x036F] | [#x203F-#x2040]
    PN_CHARS_BASE    ::= [A-Z] | [a-z] | [#x00C0-#x00D6] | ... | [#x10000-#xEFFFF]

This is the label language of Spec/NtSyntax.v (valid_label: first character letter / digit / '_' / ':' /
non-ASCII, then also '-' and '.', last character not '.'), i.e. what C06's domain covers for the reader in
every layout but `_:b2.#c` (C06-F7r, a comment glued to a dot glued to a blank-node object; the documents of
the pipeline checks end every statement with ' .' and carry no comments, so they stay inside C06_dom_fx2).

A renaming is a *family* of labels chosen so that a tokeniser that stops too early, forgets a character
class, compares case-insensitively or truncates long labels merges two of them or loses one:

    plain      letters, digits, '_' only (what the check used before)
    siblings   one stem, labels that differ only after a '.', '-', ':', '_' or a non-ASCII character
    chain      each label a proper prefix of the next one (n, n.1, n.1.x, ...)
    long       several hundred characters, differing in the last segment only
    case       same letters, different case
    grammar    drawn uniformly from the grammar above (every character class in every position)
"""
import string

ASCII_FIRST = string.ascii_letters + string.digits + "_"
# PN_CHARS_BASE beyond ASCII (Latin-1 letters, Greek, Cyrillic, CJK, a supplementary-plane letter) and ':'
WIDE_FIRST = ":" + "ÀéßñλЖ中文\U00010000"
# PN_CHARS that may not start a label: '-', MIDDLE DOT, combining marks, undertie / character tie
INNER_ONLY = "-" + "·̀ͯ‿⁀"
SEPARATORS = [".", ".", ".", "-", ":", "_", "·", "é", "..", ".-", "-."]
FAMILIES = ["plain", "siblings", "siblings", "chain", "long", "case", "grammar", "grammar"]


def valid_label(lab):
    """the grammar above, on the label without its '_:' sigil"""
    first = lambda c: c in ASCII_FIRST or c in WIDE_FIRST          # the generator draws from these sets only
    inner = lambda c: first(c) or c in INNER_ONLY or c == "."
    return bool(lab) and first(lab[0]) and all(inner(c) for c in lab) and lab[-1] != "."


def _first(r, wide):
    return r.choice(WIDE_FIRST) if wide and r.random() < 0.25 else r.choice(ASCII_FIRST)


def _mid(r, wide):
    k = r.random()
    if k < 0.22:
        return "."
    if k < 0.34:
        return "-"
    if wide and k < 0.46:
        return r.choice(WIDE_FIRST + INNER_ONLY)
    return r.choice(ASCII_FIRST)


def grammar_label(r, wide=True, max_len=9):
    n = r.choice([1, 1, 2, 3, 4, 5, max_len])
    lab = _first(r, wide)
    for _ in range(n - 1):
        lab += _mid(r, wide)
    while lab.endswith("."):
        lab = lab[:-1] + _mid(r, wide)
    return lab


def _stem(r, wide):
    s = _first(r, wide)
    for _ in range(r.choice([0, 1, 3, 5])):
        c = _mid(r, wide)
        s += c
    return s


def family(r, n, kind=None, wide=True):
    """n pairwise different legal labels (with the '_:' sigil) of one family"""
    kind = kind or r.choice(FAMILIES)
    out = []
    if kind == "plain":
        out = ["z%d" % i for i in range(n)]
    elif kind == "siblings":
        stem = _stem(r, wide)
        sep = r.choice(SEPARATORS if wide else [s for s in SEPARATORS if s.isascii()])
        tails = [str(i) for i in range(1, n + 1)] if r.random() < 0.5 else list(string.ascii_lowercase[:n])
        out = [stem + sep + t for t in tails]
        if n > 2 and r.random() < 0.5 and not stem.endswith("."):
            out[-1] = stem                      # the bare stem next to its dotted siblings
    elif kind == "chain":
        lab = _stem(r, wide).rstrip(".") or "n"
        for i in range(n):
            out.append(lab)
            lab = lab + r.choice(SEPARATORS if wide else ["."]) + r.choice(ASCII_FIRST)
    elif kind == "long":
        seg = "".join(r.choice(ASCII_FIRST) for _ in range(r.choice([40, 120, 300])))
        body = seg + r.choice([".", "-", "_", ""]) + seg
        sep = r.choice([".", ".", "-", ""])
        out = [body + sep + "%d" % i for i in range(n)]
    elif kind == "case":
        base = "".join(r.choice(string.ascii_lowercase) for _ in range(max(2, n.bit_length())))
        seen = []
        i = 0
        while len(seen) < n:
            cand = "".join(c.upper() if (i >> j) & 1 else c for j, c in enumerate(base))
            if cand not in seen:
                seen.append(cand)
            i += 1
            if i > 4096:
                seen.append(base + ".%d" % len(seen))
        out = seen
    else:
        while len(out) < n:
            lab = grammar_label(r, wide)
            if lab not in out:
                out.append(lab)
    assert len(set(out)) == n and all(valid_label(x) for x in out), (kind, out)
    return kind, ["_:" + x for x in out]


def feature_tags(labels):
    """which parts of the grammar a renaming exercises (for the coverage report)"""
    tags = set()
    labs = [x[2:] for x in labels]
    for x in labs:
        if "." in x:
            tags.add("inner-dot")
        if ".." in x:
            tags.add("dot-dot")
        if "-" in x:
            tags.add("hyphen")
        if ":" in x:
            tags.add("colon")
        if any(ord(c) > 127 for c in x):
            tags.add("non-ascii")
        if x[0].isdigit():
            tags.add("digit-first")
        if x[-1] in "-_:":
            tags.add("punct-last")
        if len(x) > 64:
            tags.add("long")
    for a in labs:
        for b in labs:
            if a != b and b.startswith(a):
                tags.add("proper-prefix")
            if a != b and "." in a and "." in b and a[:a.index(".")] == b[:b.index(".")]:
                tags.add("same-up-to-dot")
            if a != b and a.lower() == b.lower():
                tags.add("case-only")
    return sorted(tags)
