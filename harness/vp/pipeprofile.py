"""Shaper.profile_graph in the checks of the pipeline properties (C01, C04, C18).

Model: Model/RunProfile.v (entries profile_json / profile_json_file, and profile_json_map /
profile_json_map_file for shape-map runs): tracker -> profiler -> Model/ProfileJson.v, an executable
rendering of CPython's json.dumps(obj, indent=2).  Compared with the real
Shaper(...).profile_graph(string_output=True) / (output_file=...) BYTE FOR BYTE.

Oracle (independent of model and code): the text is parsed with Python's json module and every
figure in it is recounted from the abstract triples (pipespec.spec_counts, the declarative `occ` of
Spec/Counts.v); the top-level keys must be the class keys (requested targets, then classes of the
instances in first-occurrence order, minus feature-less classes under remove_empty_shapes); with
inverse_paths every entry is a two-element list, without it a dictionary.

attach(Spec, ...) hooks all of this into a vp.pipeprops.PropSpec subclass without editing pipeprops.
"""
import json
import os

from vp import core, pipe, pipeprops, pipespec, pipemap

KINDS = ("profile", "profile_file")
_LAST = {"key": None, "obs": None}


# --------------------------------------------------------------------------
# the real code on shape-map runs (string and file sink)
# --------------------------------------------------------------------------

def _sink_path():
    d = os.path.join(core.WORK, "sink")
    os.makedirs(d, exist_ok=True)
    return os.path.join(d, "profile_map_%d.json" % os.getpid())


def impl_profile_map(ts, cfg, kind, timeout=10.0):
    """profile_graph of a shape-map run.  pipemap.impl_shexc_map builds the Shaper and observes the external code
    (rdflib ids, SPARQL answers: the oracle arguments of the tracker model); its final shex_graph call is
    redirected to profile_graph for the duration of the call."""
    from shexer.shaper import Shaper
    orig = Shaper.shex_graph
    path = _sink_path()

    def fake(self, string_output=False, **kw):
        if kind == "profile_file":
            with open(path, "w") as f:
                f.write("stale content that must disappear\n" * 3)
            r = self.profile_graph(output_file=path)
            with open(path, newline="") as f:
                text = f.read()
            os.remove(path)
            return text if r is None else "profile_graph(output_file=..) returned %r" % (r,)
        return self.profile_graph(string_output=True)

    Shaper.shex_graph = fake
    try:
        res, obs = pipemap.impl_shexc_map(ts, cfg, timeout=timeout, want_obs=True)
    finally:
        Shaper.shex_graph = orig
    _LAST["key"] = (id(ts), id(cfg), kind)
    _LAST["obs"] = obs
    return res if res[0] == "ok" else res[:3] + (res[3],)


def impl_profile(ts, cfg, kind, timeout=10.0):
    if pipemap.is_map(cfg):
        return impl_profile_map(ts, cfg, kind, timeout)
    return pipe.impl_other(ts, cfg, kind, timeout)


# --------------------------------------------------------------------------
# the model
# --------------------------------------------------------------------------

def model_profile(mb, ts, cfg, kind, obs=None):
    """('ok', text) | ('err', exception class[, stage])"""
    suffix = "_file" if kind == "profile_file" else ""
    if pipemap.is_map(cfg):
        if obs is None:
            _, obs = pipemap.impl_shexc_map(ts, cfg, want_obs=True)
        # pipemap.install() renames calls whose table has a 'cfg' row only for entry pipe_shexc
        row = mb.call("profile_json_map" + suffix, pipemap.model_table_map(ts, cfg, obs))[0]
        if row[0] == "ok":
            return ("ok", row[1])
        return ("err", row[2], row[1])
    table = pipemap._orig.get("model_table", pipe.model_table)(ts, cfg)
    row = mb.call("profile_json" + suffix, table)[0]
    return ("ok", row[1]) if row[0] == "ok" else ("err", row[1])


def model_other(ts, cfg, kind, impl):
    """hook of pipeprops._work: (model answer, agrees with the implementation byte for byte)"""
    if kind not in KINDS:
        return ("n/a", ""), True
    obs = _LAST["obs"] if _LAST["key"] == (id(ts), id(cfg), kind) else None
    m = model_profile(pipeprops._mb(), ts, cfg, kind, obs)
    agree = tuple(impl[:2]) == tuple(m[:2])
    if agree and impl[0] == "err" and len(impl) > 3 and len(m) > 2 and impl[3] != m[2]:
        agree = False                    # same exception class raised by another stage
    tag = "profile text, %s sink%s: %s" % ("file" if kind == "profile_file" else "string",
                                           ", shape map" if pipemap.is_map(cfg) else "",
                                           "byte for byte" if agree and impl[0] == "ok" else
                                           ("same exception" if agree else "DISAGREE"))
    return ("profile-model", tag) + tuple(m), agree


# --------------------------------------------------------------------------
# the oracle: every figure of the text recounted from the data
# --------------------------------------------------------------------------

def _spec_key(k):
    """type key of the profile -> the kind name of pipespec.value_keys"""
    if k.startswith("%<") and k.endswith(">"):
        return "@" + k[2:-1]
    return k


def check_profile_text(ts, cfg, text):
    """-> (failures [(root cause | None, description)], number of figures checked)"""
    fails = []
    try:
        obj = json.loads(text)
    except ValueError as e:
        return [(None, "profile text is not JSON: %s" % e)], 0
    if not isinstance(obj, dict):
        return [(None, "profile text is not an object")], 0
    inv = bool(cfg["inverse_paths"])
    inst, n_of, occ, cnt = pipespec.spec_counts(ts, cfg)
    shared = pipespec.shared_label_classes(inst)
    shared_labels = {"@" + pipespec.shape_label(c) for c in shared}
    ismap = pipemap.is_map(cfg)
    # ---- class keys: requested targets, then the classes of the instances, first occurrence
    expected = []
    if not cfg["all_classes"] and not ismap:
        for t in cfg["targets"]:
            if t not in expected:
                expected.append(t)
    for cs in inst.values():
        for c in cs:
            if c not in expected:
                expected.append(c)
    has_feat = {c: False for c in expected}
    for (c, d, p, k, card), v in occ.items():
        if v > 0 and c in has_feat and (d == "d" or inv):
            has_feat[c] = True
    keys = list(obj.keys())
    if len(set(keys)) != len(keys):
        fails.append((None, "repeated class key"))
    extra = [k for k in keys if k not in expected]
    if extra:
        fails.append((None, "class key %s is neither a requested class nor a class of an instance" % extra[0]))
    if [k for k in expected if k in keys] != [k for k in keys if k in expected]:
        fails.append((None, "class keys out of order: %r, expected the order of %r" % (keys, expected)))
    removed = [c for c in expected if c not in keys]
    for c in removed:
        if not cfg["remove_empty_shapes"]:
            fails.append((None, "class %s is missing although empty shapes are kept" % c))
        elif has_feat[c]:
            fails.append((None, "class %s has features and is missing" % c))
    if cfg["remove_empty_shapes"] and not ismap:
        for c in keys:
            if c in has_feat and not has_feat[c]:
                fails.append((None, "class %s is listed without any feature (remove_empty_shapes)" % c))
    removed_kinds = set(removed) | {"@" + pipespec.shape_label(c) for c in removed}
    # ---- figures
    nfig = 0
    seen = set()
    for c, entry in obj.items():
        if inv:
            if not (isinstance(entry, list) and len(entry) == 2 and all(isinstance(x, dict) for x in entry)):
                fails.append((None, "entry of %s is not [direct, inverse]" % c))
                continue
            parts = [("d", entry[0]), ("i", entry[1])]
        else:
            if not isinstance(entry, dict):
                fails.append((None, "entry of %s is not a dictionary" % c))
                continue
            parts = [("d", entry)]
        for d, feats in parts:
            for p, kinds in feats.items():
                if not isinstance(kinds, dict) or not kinds:
                    fails.append((None, "%s %s %s: not a non-empty dictionary" % (c, d, p)))
                    continue
                for k, cards in kinds.items():
                    if not isinstance(cards, dict) or not cards:
                        fails.append((None, "%s %s %s %s: not a non-empty dictionary" % (c, d, p, k)))
                        continue
                    for card, n in cards.items():
                        nfig += 1
                        sk = _spec_key(k)
                        seen.add((c, d, p, sk, card))
                        want = occ.get((c, d, p, sk, card), 0)
                        if type(n) is not int or n != want or n <= 0:
                            rc = "rc_shared_local_name" if sk in shared_labels else None
                            fails.append((rc, "profile says %r instances of %s have %s %s %s with cardinality %s, the data "
                                              "gives %d" % (n, c, "inverse" if d == "i" else "direct", p, k, card, want)))
    for (c, d, p, k, card), v in occ.items():
        if v > 0 and c in obj and (d == "d" or inv) and (c, d, p, k, card) not in seen and k not in removed_kinds:
            rc = "rc_shared_local_name" if k in shared_labels else None
            fails.append((rc, "the data gives %d instances of %s with %s %s %s cardinality %s; the profile has no such "
                              "entry" % (v, c, "inverse" if d == "i" else "direct", p, k, card)))
    return fails, nfig


# --------------------------------------------------------------------------
# hooking into a PropSpec
# --------------------------------------------------------------------------

def attach(spec_cls, every=1, map_runs=True, oracle=True, oracle_map=False, file_every=2):
    """adds to the cases of `spec_cls` a profile_graph run of the case's first (graph, configuration) -- every
    `every`-th case, alternating string / file sink; shape-map cases too when map_runs -- unless the case has one
    already; gives the class the model hook (byte-for-byte correspondence), the recount oracle for the profile runs
    and a vm_compute sample of the profile entries.  The class's own oracle, cases and hooks are kept.
    oracle_map: recount the figures of shape-map runs too (sound for the IRI-only selector stream C01 uses: the
    instances a selector denotes are then computable from the abstract triples alone)."""
    inner_gen = spec_cls.gen_cases
    inner_oracle = spec_cls.oracle
    inner_hook = getattr(spec_cls, "model_other", None)
    inner_vm = getattr(spec_cls, "extra_vm_cases", None)
    inner_impl_other = pipe.impl_other

    def impl_other(ts, cfg, kind, timeout=10.0):
        if kind in KINDS and pipemap.is_map(cfg):
            return impl_profile_map(ts, cfg, kind, timeout)
        return inner_impl_other(ts, cfg, kind, timeout)

    pipe.impl_other = impl_other

    def gen_cases(self, tier, rnd):
        cases = inner_gen(self, tier, rnd)
        n = 0
        for i, c in enumerate(cases):
            if any(len(rn) > 2 and rn[2] in KINDS for rn in c["runs"]):
                continue
            ts, cfg = c["runs"][0][0], c["runs"][0][1]
            if pipemap.is_map(cfg) and not map_runs:
                continue
            if i % every:
                continue
            n += 1
            c["runs"] = list(c["runs"]) + [(ts, cfg, "profile_file" if file_every and n % file_every == 0 else "profile")]
        return cases

    def the_oracle(self, case, impl):
        own = [(rn, res) for rn, res in zip(case["runs"], impl)]
        fails, nitems = inner_oracle(self, case, impl)
        fails = list(fails)
        if oracle:
            for rn, res in own:
                if len(rn) > 2 and rn[2] in KINDS and res[0] == "ok" and (oracle_map or not pipemap.is_map(rn[1])):
                    f, n = check_profile_text(rn[0], rn[1], res[1])
                    fails += [(rc, "profile_graph (%s sink): %s" % ("file" if rn[2] == "profile_file" else "string", d))
                              for rc, d in f]
                    nitems += n
        return fails, nitems

    def hook(self, ts, cfg, kind, impl):
        if kind in KINDS:
            return model_other(ts, cfg, kind, impl)
        if inner_hook is not None:
            return inner_hook(self, ts, cfg, kind, impl)
        return ("n/a", ""), True

    def extra_vm_cases(self, cases, mb, rnd, tier):
        out = inner_vm(self, cases, mb, rnd, tier) if inner_vm is not None else []
        want = 12 if tier == "thorough" else 4
        got = 0
        for c in cases:
            for rn in c["runs"]:
                if len(rn) > 2 and rn[2] in KINDS and not pipemap.is_map(rn[1]) and got < want:
                    t = pipemap._orig.get("model_table", pipe.model_table)(rn[0], rn[1])
                    name = "profile_json_file" if rn[2] == "profile_file" else "profile_json"
                    out.append((name, t, mb.call(name, t)))
                    got += 1
        return out

    spec_cls.gen_cases = gen_cases
    spec_cls.oracle = the_oracle
    spec_cls.model_other = hook
    spec_cls.extra_vm_cases = extra_vm_cases
    spec_cls.rule = spec_cls.rule + ("; plus profile_graph of the same (graph, configuration), string and file sink: text "
                                     "compared byte for byte with Model.RunProfile.run_profile_json"
                                     + (", every figure recounted from the triples" if oracle else ""))
    return spec_cls
