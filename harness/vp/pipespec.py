"""Spec-level oracles for the extraction-pipeline properties, written from the
property texts (properties.jsonl) and Spec/Counts-style definitions, independent
of the Coq model and of the implementation: they recompute everything from the
abstract triples the input document was generated from.
"""
import collections
from fractions import Fraction

from vp import pipe

RDF_TYPE = pipe.RDF_TYPE


def local_name(c):
    s = c
    if "#" in s and not s.endswith("#"):
        s = s[s.rfind("#") + 1:]
    if "/" in s:
        s = s[s.rfind("/") + 1:] if not s.endswith("/") else s[s[:-1].rfind("/") + 1:]
    return s


def shape_label(c, shapes_ns=pipe.DEFAULT_SHAPES_NS):
    return shapes_ns + local_name(c)


def spec_instances(ts, cfg):
    """instance id -> list of classes: the subjects linked to a (target) class by the
    instantiation property, first `cap` per class in document order"""
    tau = cfg["tau"]
    targets = None if cfg["all_classes"] else set(cfg["targets"])
    cap = cfg["cap"]
    inst = collections.OrderedDict()
    per_class = collections.Counter()
    for s, p, o in ts:
        if p != tau or o[0] == "L":
            continue
        if targets is not None and (o[0] != "I" or o[1] not in targets):
            continue
        c = o[1]
        if cap > 0 and per_class[c] >= cap:
            continue
        per_class[c] += 1
        inst.setdefault(s[1], []).append(c)
    return inst


def value_keys(x, inst, tau, p, as_subject_of_inverse=False):
    """the kinds a value x contributes to for property p"""
    if p == tau:
        return [x[1]]
    if x[0] == "L":
        return [x[2]]
    keys = ["IRI" if x[0] == "I" else "BNode"]
    if x[1] in inst and (not as_subject_of_inverse or x[0] == "I"):
        for c in inst[x[1]]:        # "instance of shape S": once per shape, whatever the number of classes behind S
            if "@" + shape_label(c) not in keys:
                keys.append("@" + shape_label(c))
    return keys


def spec_counts(ts, cfg):
    """N[class], occ[(class, dir, p, kind, card)], per-instance raw counts cnt[(inst, dir, p, kind)]"""
    tau = cfg["tau"]
    inst = spec_instances(ts, cfg)
    cnt = collections.Counter()
    for s, p, o in ts:
        if s[1] in inst:
            if p == tau and o[0] == "L":
                continue
            for k in value_keys(o, inst, tau, p):
                cnt[(s[1], "d", p, k)] += 1
        if cfg["inverse_paths"] and o[0] != "L" and o[1] in inst:
            for k in value_keys(s, inst, tau, p, as_subject_of_inverse=True):
                cnt[(o[1], "i", p, k)] += 1
    n_of = collections.Counter()
    for i, cs in inst.items():
        for c in cs:
            n_of[c] += 1
    occ = collections.Counter()
    for (i, d, p, k), n in cnt.items():
        for c in inst[i]:
            if p == tau:
                occ[(c, d, p, k, "1")] += 1
            else:
                occ[(c, d, p, k, str(n))] += 1
                occ[(c, d, p, k, "+")] += 1
    return inst, n_of, occ, cnt


def nonliteral_counts(ts, cfg, inst):
    """per (instance, dir, p): (number of IRI values, number of BNode values)"""
    tau = cfg["tau"]
    nl = collections.defaultdict(lambda: [0, 0])
    for s, p, o in ts:
        if p == tau:
            continue
        if s[1] in inst and o[0] != "L":
            nl[(s[1], "d", p)][0 if o[0] == "I" else 1] += 1
        if cfg["inverse_paths"] and o[0] != "L" and o[1] in inst:
            nl[(o[1], "i", p)][0 if s[0] == "I" else 1] += 1
    return nl


def card_norm(c):
    return c.strip("{}") if c else "1"


def shared_label_classes(inst):
    """classes (of the instance dictionary) whose shape label collides with another class's"""
    by = collections.defaultdict(set)
    for cs in inst.values():
        for c in cs:
            by[shape_label(c)].add(c)
    return {c for cs in by.values() if len(cs) > 1 for c in cs}


def class_of_label(label, inst, shapes_ns):
    """shape label (expanded IRI) -> the classes it stands for"""
    out = []
    for cs in inst.values():
        for c in cs:
            if shape_label(c, shapes_ns) == label and c not in out:
                out.append(c)
    return out


# --------------------------------------------------------------------------
# C01: every figure is exact
# --------------------------------------------------------------------------

def check_figures(ts, cfg, doc):
    """returns (failures, n_figures, root_causes_seen); a failure is (root_cause|None, description)"""
    inst, n_of, occ, cnt = spec_counts(ts, cfg)
    nl = nonliteral_counts(ts, cfg, inst)
    shared = shared_label_classes(inst)
    fails = []
    nfig = 0
    dec = cfg["decimals"]
    tol = 1e-9 if dec < 0 else (1.0 if dec == 0 else 0.5 * 10 ** (-dec) + 1e-9)

    def ratio_ok(rs, count, n, where, rc=None):
        if rs is None or count is None:
            return
        r = float(rs)
        if r > 100 + 1e-9:
            fails.append((rc, "ratio above 100 %%: %s (%s)" % (rs, where)))
        if n and abs(r - 100.0 * count / n) > tol:
            fails.append((rc, "ratio %s is not %d/%d (%s)" % (rs, count, n, where)))

    for sh in doc["shapes"]:
        classes = class_of_label(sh["label"], inst, cfg["shapes_ns"])
        if len(classes) != 1:
            if classes:
                fails.append(("rc_shared_local_name", "label %s stands for %r" % (sh["label"], classes)))
            elif sh["n"] not in (None, 0):
                fails.append((None, "shape %s has no class behind it" % sh["label"]))
            continue
        c = classes[0]
        n = n_of[c]
        if sh["n"] is not None:
            nfig += 1
            if sh["n"] != n:
                fails.append((None, "header of %s says %d instances, the data has %d" % (c, sh["n"], n)))
        members = [i for i, cs in inst.items() if c in cs]
        for con in sh["constraints"]:
            d = "i" if con["inv"] else "d"
            p = con["pred"]
            overlap = any(nl[(i, d, p)][0] > 0 and nl[(i, d, p)][1] > 0 for i in members)

            def expected(kind, card, line_plus_generalised=False):
                """count the data gives for (kind, card); None when the figure is exempt"""
                if kind == "NONLITERAL":
                    tot = [nl[(i, d, p)][0] + nl[(i, d, p)][1] for i in members]
                    return [sum(1 for t in tot if t >= 1)] if card == "+" else [sum(1 for t in tot if str(t) == card)]
                k = kind
                if p == cfg["tau"]:
                    k = kind[1:-1] if kind.startswith("[") else kind
                vals = [occ[(c, d, p, k, card)]]
                if line_plus_generalised and card == "+":
                    vals += [v for (cc, dd, pp, kk, cd), v in occ.items()
                             if (cc, dd, pp, kk) == (c, d, p, k) and cd not in ("+", "1")]
                return vals

            def rc_of(kind, count=None, card=None):
                if kind == "NONLITERAL" and overlap:
                    return "rc_nonliteral_overlap"
                if kind == "NONLITERAL" and card == "+" and count is not None:
                    # the merge adds the counts of the cardinality candidates selected per kind and calls it '+'
                    cards = {cd for (cc, dd, pp, kk, cd) in occ if (cc, dd, pp) == (c, d, p) and kk in ("IRI", "BNode")}
                    for a in cards:
                        for b in cards:
                            if (a, b) != ("+", "+") and occ[(c, d, p, "IRI", a)] + occ[(c, d, p, "BNode", b)] == count:
                                return "rc_nonliteral_mixed_cards"
                if kind.startswith("@"):
                    refs = class_of_label(kind[1:], inst, pipe.DEFAULT_SHAPES_NS)
                    if len(refs) > 1 or any(x in shared for x in refs):
                        return "rc_shared_local_name"
                return None

            rs, count = con["fig"]
            if len(con["values"]) == 1:
                kind = con["values"][0]
                if count is not None:
                    nfig += 1
                    exp = expected(kind, card_norm(con["card"]), cfg["disable_exact_cardinality"])
                    if count not in exp:
                        fails.append((rc_of(kind, count, card_norm(con["card"])), "line %s %s %s %s says %d, the data gives %r" % (
                            d, p, kind, con["card"], count, exp)))
                    ratio_ok(rs, count, n, "%s %s" % (p, kind), rc_of(kind))
                elif rs is not None:
                    nfig += 1
                    exp = expected(kind, card_norm(con["card"]), cfg["disable_exact_cardinality"])
                    if not any(abs(float(rs) - 100.0 * e / n) <= tol for e in exp):
                        fails.append((rc_of(kind, int(round(float(rs) * n / 100.0)), card_norm(con["card"])),
                                      "line %s %s %s ratio %s is none of %r/%d" % (d, p, kind, rs, exp, n)))
                    if float(rs) > 100 + 1e-9:
                        fails.append((rc_of(kind), "ratio above 100 %%: %s" % rs))
            for com in con["comments"]:
                if "raw" in com or com["obj"] is None:
                    continue
                rs2, count2 = com["fig"]
                kind = com["obj"]
                exp = expected(kind, card_norm(com["card"]))
                if count2 is not None:
                    nfig += 1
                    if count2 not in exp:
                        fails.append((rc_of(kind, count2, card_norm(com["card"])), "comment %s %s obj %s card %s says %d, the data gives %r" % (
                            d, p, kind, com["card"], count2, exp)))
                    ratio_ok(rs2, count2, n, "comment %s %s" % (p, kind), rc_of(kind))
                elif rs2 is not None:
                    nfig += 1
                    if not any(abs(float(rs2) - 100.0 * e / n) <= tol for e in exp):
                        fails.append((rc_of(kind, int(round(float(rs2) * n / 100.0)), card_norm(com["card"])),
                                      "comment %s %s obj %s ratio %s is none of %r/%d" % (
                            d, p, kind, rs2, exp, n)))
    return fails, nfig


# --------------------------------------------------------------------------
# C02: keys iff threshold; one shape per class
# --------------------------------------------------------------------------

def expected_keys(ts, cfg):
    """per class: {key: Fraction of instances with at least one such value}; key = (inv, p, value class)"""
    inst, n_of, occ, cnt = spec_counts(ts, cfg)
    nl = nonliteral_counts(ts, cfg, inst)
    tau = cfg["tau"]
    have = collections.defaultdict(set)     # (class, key) -> instances
    for (i, d, p, k), n in cnt.items():
        if p == tau:
            vc = k
        elif k in ("IRI", "BNode") or k.startswith("@"):
            vc = "nonliteral"
        else:
            vc = k
        for c in inst[i]:
            have[(c, (d == "i", p, vc))].add(i)
    out = collections.defaultdict(dict)
    for (c, key), s in have.items():
        out[c][key] = Fraction(len(s), n_of[c])
    return inst, n_of, out, nl


def split_nonliteral(ts, cfg, inst, nl, c, key):
    """root cause of the C02 finding: the instances with an IRI value and those with a BNode value
    of this (direction, property) are not nested"""
    d = "i" if key[0] else "d"
    members = [i for i, cs in inst.items() if c in cs]
    a = {i for i in members if nl[(i, d, key[1])][0] > 0}
    b = {i for i in members if nl[(i, d, key[1])][1] > 0}
    return bool(a - b) and bool(b - a)


def check_keys(ts, cfg, doc):
    inst, n_of, exp, nl = expected_keys(ts, cfg)
    k, m = cfg["thr"]
    thr = Fraction(k, m)
    fails = []
    seen_labels = []
    nkeys = 0
    for sh in doc["shapes"]:
        if sh["label"] in seen_labels:
            fails.append(("rc_shared_local_name", "two shapes labelled %s" % sh["label"]))
        seen_labels.append(sh["label"])
        classes = class_of_label(sh["label"], inst, cfg["shapes_ns"])
        if len(classes) != 1:
            if not classes:
                req = [] if cfg["all_classes"] else [t for t in cfg["targets"]
                                                   if shape_label(t, cfg["shapes_ns"]) == sh["label"]]
                if not (req and not cfg["remove_empty_shapes"] and not sh["constraints"]):
                    fails.append((None, "shape %s stands for no selected class" % sh["label"]))
            else:
                fails.append(("rc_shared_local_name", "label %s stands for %r" % (sh["label"], classes)))
            continue
        c = classes[0]
        got = pipe.keys_of_shape(sh, cfg["tau"])
        if len(set(got)) != len(got):
            fails.append((None, "duplicate constraint key in %s: %r" % (c, [x for x in got if got.count(x) > 1][:2])))
        want = {key for key, fr in exp[c].items() if fr >= thr}
        nkeys += len(want | set(got))
        for key in want - set(got):
            rc = "rc_split_nonliteral" if key[2] == "nonliteral" and split_nonliteral(ts, cfg, inst, nl, c, key) else None
            if rc is None and key[1] == cfg["tau"] and cfg["remove_empty_shapes"] and not cfg["all_classes"] \
                    and key[2] in cfg["targets"] and n_of.get(key[2], 0) == 0:
                rc = "rc_dead_target_key"     # the value is a requested class without instances: removed as a key too
            fails.append((rc, "class %s lacks key %r although %s of its instances have it (threshold %s)" % (
                c, key, exp[c][key], thr)))
        for key in set(got) - want:
            fails.append((None, "class %s has key %r although only %s of its instances have it (threshold %s)" % (
                c, key, exp[c].get(key, 0), thr)))
    # one shape per selected class with at least one instance
    labels = [sh["label"] for sh in doc["shapes"]]
    for c, n in n_of.items():
        if n > 0 and shape_label(c, cfg["shapes_ns"]) not in labels:
            fails.append((None, "class %s has %d instances and no shape" % (c, n)))
    if not cfg["all_classes"] and not cfg["remove_empty_shapes"]:
        for t in cfg["targets"]:
            if n_of.get(t, 0) == 0:
                hit = [sh for sh in doc["shapes"] if sh["label"] == shape_label(t, cfg["shapes_ns"])]
                if not hit:
                    fails.append((None, "requested class %s without instances yields no empty shape" % t))
                elif hit[0]["n"] not in (None, 0):
                    fails.append((None, "empty shape of %s reports %r instances" % (t, hit[0]["n"])))
    return fails, nkeys


# --------------------------------------------------------------------------
# shared views of a canonical document
# --------------------------------------------------------------------------

def facts_of(doc):
    """{(label, inv, pred, kind, card): (count, ratio)} over constraint lines and comments"""
    out = {}
    for sh in doc["shapes"]:
        for con in sh["constraints"]:
            if len(con["values"]) == 1 and con["fig"] != (None, None):
                out[(sh["label"], con["inv"], con["pred"], con["values"][0], card_norm(con["card"]))] = \
                    (con["fig"][1], con["fig"][0])
            for com in con["comments"]:
                if "raw" in com or com["obj"] is None:
                    continue
                out[(sh["label"], con["inv"], con["pred"], com["obj"], card_norm(com["card"]))] = \
                    (com["fig"][1], com["fig"][0])
    return out


def keys_by_label(doc, tau):
    return {sh["label"]: set(pipe.keys_of_shape(sh, tau)) for sh in doc["shapes"]}


def structure_of(doc):
    """{label: set of (inv, pred, values, card)}"""
    return {sh["label"]: {(c["inv"], c["pred"], tuple(c["values"]), c["card"]) for c in sh["constraints"]}
            for sh in doc["shapes"]}


# --------------------------------------------------------------------------
# C12: raising the threshold only removes constraints
# --------------------------------------------------------------------------

def check_monotone(ts, cfgs, docs):
    """docs[i] = canonical output at cfgs[i]['thr']; thresholds ascending"""
    fails = []
    n = 0
    tau = cfgs[0]["tau"]
    thr = [Fraction(*c["thr"]) for c in cfgs]
    keys = [keys_by_label(d, tau) for d in docs]
    facts = [facts_of(d) for d in docs]
    for i in range(len(docs)):
        for j in range(i + 1, len(docs)):
            if thr[i] > thr[j]:
                continue
            n += 1
            for label, ks in keys[j].items():
                if label not in keys[i]:
                    fails.append((None, "shape %s present at threshold %s, absent at %s" % (label, thr[j], thr[i])))
                    continue
                for k in ks - keys[i][label]:
                    fails.append((None, "key %r of %s present at threshold %s, absent at %s" % (k, label, thr[j], thr[i])))
            for f, v in facts[j].items():
                if f in facts[i] and facts[i][f] != v:
                    rc = "rc_nonliteral_sum_of_variants" if f[3] == "NONLITERAL" else None
                    fails.append((rc, "figure of %r is %r at threshold %s and %r at %s" % (f, v, thr[j], facts[i][f], thr[i])))
    # the extremes
    inst, n_of, exp, nl = expected_keys(ts, cfgs[0])
    for i, t in enumerate(thr):
        if t == 0:
            for sh in docs[i]["shapes"]:
                cl = class_of_label(sh["label"], inst, cfgs[i]["shapes_ns"])
                if len(cl) == 1:
                    miss = set(exp[cl[0]]) - keys[i][sh["label"]]
                    for k in miss:
                        fails.append((None, "threshold 0 omits observed key %r of %s" % (k, cl[0])))
        if t == 1:
            for sh in docs[i]["shapes"]:
                cl = class_of_label(sh["label"], inst, cfgs[i]["shapes_ns"])
                if len(cl) == 1:
                    for k in keys[i][sh["label"]]:
                        if exp[cl[0]].get(k, 0) != 1:
                            fails.append((None, "threshold 1 keeps key %r of %s held by %s of the instances" % (
                                k, cl[0], exp[cl[0]].get(k, 0))))
    return fails, n


# --------------------------------------------------------------------------
# C13: each option changes only what it documents
# --------------------------------------------------------------------------

def relabel(label, from_ns, to_ns):
    return to_ns + label[len(from_ns):] if label.startswith(from_ns) else label


def check_option(option, cfg_a, cfg_b, doc_a, doc_b, ts):
    """cfg_b = cfg_a with `option` changed; returns failures"""
    fails = []
    sa, sb = structure_of(doc_a), structure_of(doc_b)
    if option in ("disable_comments", "decimals", "mode", "ns", "shapes_ns"):
        if option == "shapes_ns":
            sa = {relabel(k, cfg_a["shapes_ns"], cfg_b["shapes_ns"]): v for k, v in sa.items()}
        if sa != sb:
            diff = [(k, sorted(sa.get(k, set()) ^ sb.get(k, set()))[:2]) for k in set(sa) | set(sb)
                    if sa.get(k) != sb.get(k)]
            fails.append((None, "presentation option %s changes shapes/constraints/cardinalities: %r" % (option, diff[:2])))
        if option == "decimals":
            d = cfg_b["decimals"]
            inst, n_of, occ, cnt = spec_counts(ts, cfg_b)
            for sh in doc_b["shapes"]:
                cl = class_of_label(sh["label"], inst, cfg_b["shapes_ns"])
                if len(cl) != 1 or not n_of[cl[0]]:
                    continue
                figs = [c["fig"] for c in sh["constraints"]] + [k["fig"] for c in sh["constraints"]
                                                                 for k in c["comments"] if "fig" in k]
                for rs, count in figs:
                    if rs is None or count is None:
                        continue
                    exact = Fraction(100 * count, n_of[cl[0]])
                    if d > 0 and ("." not in rs or len(rs.split(".")[1]) != d):
                        fails.append((None, "decimals=%d prints %s" % (d, rs)))
                    if d >= 0 and abs(Fraction(rs) - exact) > Fraction(1, 2 * 10 ** d):
                        rc = "rc_decimals0_truncates" if d == 0 else None
                        fails.append((rc, "decimals=%d prints %s for %s (not the rounded value)" % (d, rs, exact)))
        return fails
    if set(sa) != set(sb):
        fails.append((None, "option %s changes the set of shapes" % option))
        return fails
    fa, fb = facts_of(doc_a), facts_of(doc_b)
    for label in sa:
        ka = {(i, p, v): c for i, p, v, c in sa[label]}
        kb = {(i, p, v): c for i, p, v, c in sb[label]}
        if option == "disable_or_statements":
            # a = disabled (default), b = enabled: single-valued constraints stay; a disjunction replaces a
            # non-literal constraint of the same (direction, predicate, cardinality)
            single_b = {k: c for k, c in kb.items() if len(k[2]) == 1}
            multi_b = {k: c for k, c in kb.items() if len(k[2]) > 1}
            for k, c in single_b.items():
                if ka.get(k) != c:
                    fails.append((None, "enabling OR changes the single constraint %r %s -> %r" % (k, ka.get(k), c)))
            for k, c in multi_b.items():
                cand = [ka2 for ka2 in ka if ka2[0] == k[0] and ka2[1] == k[1] and len(ka2[2]) == 1
                        and (ka2[2][0] in k[2] or ka2[2][0] in ("IRI", "BNode", "NONLITERAL"))]
                if not cand:
                    fails.append((None, "disjunction %r has no counterpart without OR" % (k,)))
                elif ka[cand[0]] != c:
                    fails.append((None, "disjunction %r changes the cardinality %s -> %s" % (k, ka[cand[0]], c)))
            for k in ka:
                if k not in single_b and not any(m[0] == k[0] and m[1] == k[1] for m in multi_b):
                    fails.append((None, "enabling OR loses constraint %r" % (k,)))
            continue
        if set(ka) != set(kb):
            fails.append((None, "option %s changes the constraints of %s: %r" % (option, label, sorted(set(ka) ^ set(kb))[:2])))
            continue
        for k in ka:
            ca, cb = ka[k], kb[k]
            if option == "all_instances_are_compliant_mode":
                # a = on, b = off: only constraints relaxed to ?/* may differ, and the off-mode never has ?/*
                if cb in ("?", "*"):
                    fails.append((None, "mode off yields cardinality %s on %r" % (cb, k)))
                if ca != cb and ca not in ("?", "*"):
                    fails.append((None, "all-compliant mode changes %r: %s vs %s" % (k, ca, cb)))
            elif option == "allow_opt_cardinality":
                # a = True, b = False: only ? -> *
                if ca != cb and not (ca == "?" and cb == "*"):
                    fails.append((None, "allow_opt_cardinality=False changes %r: %s -> %s" % (k, ca, cb)))
                if cb == "?":
                    fails.append((None, "allow_opt_cardinality=False still prints ? on %r" % (k,)))
            elif option == "disable_exact_cardinality":
                # a = False, b = True: only {k>1} -> +
                big = ca.startswith("{") and int(ca.strip("{}")) > 1
                if ca != cb and not (big and cb == "+"):
                    fails.append((None, "disable_exact_cardinality changes %r: %s -> %s" % (k, ca, cb)))
                if cb.startswith("{") and int(cb.strip("{}")) > 1:
                    fails.append((None, "disable_exact_cardinality keeps %s on %r" % (cb, k)))
    return fails


# --------------------------------------------------------------------------
# C09: statement order and blank-node labels
# --------------------------------------------------------------------------

def rename_facts(facts, sigma_label):
    return facts


def evidence_of(doc, tau):
    return {"labels": {sh["label"]: sh["n"] for sh in doc["shapes"]},
            "keys": keys_by_label(doc, tau),
            "facts": {k: v for k, v in facts_of(doc).items() if k[3] != "NONLITERAL"},
            "chosen": structure_of(doc)}


def tie_root_causes(ts, cfg):
    """root causes under which the current code's result may depend on statement order"""
    inst, n_of, occ, cnt = spec_counts(ts, cfg)
    rcs = set()
    by = collections.defaultdict(list)
    for (c, d, p, k, card), n in occ.items():
        by[(c, d, p)].append((k, card, n))
    for (c, d, p), lst in by.items():
        if p == cfg["tau"]:
            continue
        refs = [(k, n) for k, card, n in lst if k.startswith("@") and card == "+"]
        if len(refs) >= 2:
            ns = sorted(n for _, n in refs)
            if any(a == b for a, b in zip(ns, ns[1:])):
                rcs.add("rc_reference_tie")
        kinds = collections.defaultdict(list)
        for k, card, n in lst:
            if card != "+":
                kinds[k].append(n)
        for k, ns in kinds.items():
            ns = sorted(ns)
            if any(a == b for a, b in zip(ns, ns[1:])):
                rcs.add("rc_cardinality_tie")
        # the node-kind choice (IRI vs BNode vs reference) on equal counts
        plus = sorted(n for k, card, n in lst if card == "+" and (k in ("IRI", "BNode") or k.startswith("@")))
        if any(a == b for a, b in zip(plus, plus[1:])):
            rcs.add("rc_kind_tie")
    return rcs
