"""Canonicalisers shared by the pipeline properties.

parse_shexc(text): the ShExC subset sheXer emits -> prefixes (document order), shapes
(document order) with label, header decorations and, per triple constraint line, the
tokens (sense, predicate, value expression(s), cardinality), their reading (direction,
predicate IRI, restriction, min, max), the trailing figure comment and the comment
lines that follow.

parse_shacl(text): Turtle -> rdflib -> per node shape the target classes, the pattern
and, per property shape, the constraint tuple and the canonical arc strings.  Blank
nodes are never compared by label.

Restrictions are tuples: ("datatype", iri) | ("kind", "IRI"|"BNode"|"NONLITERAL"|"LITERAL"|".")
| ("ref", iri) | ("value", iri) | ("or", [restriction, ...]) | ("none",) | ("multi", [...])."""
import re

SH = "http://www.w3.org/ns/shacl#"
RDF = "http://www.w3.org/1999/02/22-rdf-syntax-ns#"
XSD_INTEGER = "http://www.w3.org/2001/XMLSchema#integer"
_BASE = "http://vp-base.invalid/"

KEYWORDS = {"IRI": "IRI", "BNode": "BNode", "BNODE": "BNode", "NONLITERAL": "NONLITERAL",
            "LITERAL": "LITERAL", ".": "."}
_CARD = re.compile(r"^(\+|\*|\?|\{\d+(,(\d+|\*)?)?\})$")


class CanonError(Exception):
    pass


def tokens_of_line(line):
    """(tokens, comment): split on white space outside <...>; '#' outside <...> starts a
    comment, '//' starts an annotation (kept in the comment part)."""
    toks = []
    cur = ""
    depth = 0
    i = 0
    n = len(line)
    comment = None
    while i < n:
        ch = line[i]
        if depth == 0 and ch == "#":
            comment = line[i:]
            break
        if depth == 0 and ch == "/" and line[i:i + 2] == "//":
            comment = line[i:]
            break
        if ch == "<":
            depth += 1
        elif ch == ">" and depth > 0:
            depth -= 1
        if depth == 0 and ch.isspace():
            if cur:
                toks.append(cur)
                cur = ""
        else:
            cur += ch
        i += 1
    if cur:
        toks.append(cur)
    return toks, comment


def expand_iri(tok, prefixes):
    """<iri> or prefix:local with the document's PREFIX declarations (a later declaration
    of a prefix overrides an earlier one)"""
    if tok.startswith("<") and tok.endswith(">") and len(tok) >= 2:
        return tok[1:-1]
    if ":" in tok:
        p, l = tok.split(":", 1)
        ns = None
        for (pp, nn) in prefixes:
            if pp == p:
                ns = nn
        if ns is None:
            raise CanonError("undeclared prefix in %r" % tok)
        return ns + l
    raise CanonError("not an IRI token: %r" % tok)


def read_value(tok, prefixes):
    if tok.startswith("[") and tok.endswith("]"):
        return ("value", expand_iri(tok[1:-1].strip(), prefixes))
    if tok.startswith("@"):
        return ("ref", expand_iri(tok[1:], prefixes))
    if tok in KEYWORDS:
        return ("kind", KEYWORDS[tok])
    return ("datatype", expand_iri(tok, prefixes))


def read_card(tok):
    """the table of property C11: {k}->k..k, '+'->1.., '*'->0.., '?'->0..1, absent->1..1"""
    if tok == "":
        return (1, 1)
    if tok == "+":
        return (1, None)
    if tok == "*":
        return (0, None)
    if tok == "?":
        return (0, 1)
    m = re.match(r"^\{(\d+)(,(\d+|\*)?)?\}$", tok)
    if not m:
        raise CanonError("cardinality %r" % tok)
    lo = int(m.group(1))
    if m.group(2) is None:
        return (lo, lo)
    hi = m.group(3)
    return (lo, None if hi in (None, "*") else int(hi))


def parse_constraint(line, prefixes):
    toks, comment = tokens_of_line(line)
    if not toks:
        raise CanonError("empty constraint line %r" % line)
    raw_tokens = list(toks)
    if toks[-1].endswith(";"):
        toks[-1] = toks[-1][:-1]
        if toks[-1] == "":
            toks.pop()
    sense = ""
    if toks and toks[0] == "^":
        sense = "^"
        toks = toks[1:]
    if len(toks) < 2:
        raise CanonError("constraint line %r" % line)
    ptok = toks[0]
    rest = toks[1:]
    ctok = ""
    if len(rest) >= 2 and _CARD.match(rest[-1]):
        ctok = rest[-1]
        rest = rest[:-1]
    vtoks = [t for t in rest if t != "OR"]
    if len(vtoks) != (len(rest) + 1) // 2:
        raise CanonError("value expression %r" % line)
    restrs = [read_value(v, prefixes) for v in vtoks]
    mn, mx = read_card(ctok)
    return {"raw": line, "tokens": raw_tokens, "sense": sense, "ptok": ptok, "vtoks": vtoks,
            "vtok": vtoks[0] if len(vtoks) == 1 else " OR ".join(vtoks), "ctok": ctok,
            "inv": sense == "^", "pred": expand_iri(ptok, prefixes),
            "restr": restrs[0] if len(restrs) == 1 else ("or", restrs), "min": mn, "max": mx,
            "comment": comment, "comments": []}


def parse_shexc(text):
    prefixes = []
    shapes = []
    lines = text.split("\n")
    i = 0
    n = len(lines)
    cur = None
    state = "top"
    while i < n:
        line = lines[i]
        s = line.strip()
        i += 1
        if state == "top":
            if not s:
                continue
            m = re.match(r"^PREFIX\s+([^\s:]*):\s*<([^>]*)>\s*$", s)
            if m:
                prefixes.append((m.group(1), m.group(2)))
                continue
            toks, comment = tokens_of_line(s)
            if not toks:
                raise CanonError("unexpected line %r" % line)
            cur = {"label_tok": toks[0], "label": expand_iri(toks[0], prefixes), "min_iri": None,
                   "n_instances": None, "header_comment": comment, "constraints": [], "example": None}
            if len(toks) >= 3 and toks[1].startswith("[<") and toks[2] == "AND":
                cur["min_iri"] = toks[1][2:toks[1].rfind(">")]
            if comment:
                m = re.match(r"^#\s*(\d+) instances?\.", comment)
                if m:
                    cur["n_instances"] = int(m.group(1))
            state = "open"
        elif state == "open":
            if s != "{":
                raise CanonError("expected '{', got %r" % line)
            state = "body"
        elif state == "body":
            if s.startswith("}"):
                if len(s) > 1:
                    cur["example"] = s[1:].strip()
                shapes.append(cur)
                cur = None
                state = "top"
            elif not s:
                continue
            elif s.startswith("#") or s.startswith("//"):
                if not cur["constraints"]:
                    raise CanonError("comment before any constraint: %r" % line)
                cur["constraints"][-1]["comments"].append(s)
            else:
                cur["constraints"].append(parse_constraint(s, prefixes))
    if state != "top":
        raise CanonError("unterminated shape")
    return {"prefixes": prefixes, "shapes": shapes}


def constraint_tuple(c):
    return (c["inv"], c["pred"], c["restr"], c["min"], c["max"])


# ---------------------------------------------------------------- SHACL

def _rel(u):
    u = str(u)
    return u[len(_BASE):] if u.startswith(_BASE) else u


def node_str(g, o, depth=0):
    """same text as Model/EntryC11.rnode_str, nested blank nodes with sorted arcs"""
    import rdflib
    if isinstance(o, rdflib.URIRef):
        return "<%s>" % _rel(o)
    if isinstance(o, rdflib.Literal):
        return '"%s"^^<%s>' % (str(o), _rel(o.datatype) if o.datatype is not None else "")
    if depth > 6:
        raise CanonError("blank node nesting too deep")
    arcs = sorted("<%s> %s;" % (_rel(p), node_str(g, v, depth + 1)) for p, v in g.predicate_objects(o))
    return "[" + "".join(arcs) + "]"


def _read_list(g, node):
    import rdflib
    out = []
    seen = 0
    while node != rdflib.RDF.nil:
        firsts = list(g.objects(node, rdflib.RDF.first))
        rests = list(g.objects(node, rdflib.RDF.rest))
        if len(firsts) != 1 or len(rests) != 1:
            return None
        out.append(firsts[0])
        node = rests[0]
        seen += 1
        if seen > 1000:
            return None
    return out


def property_shape_tuple(g, b):
    """(inv, pred, restriction, min, max) of one property shape; absent minCount = 0,
    absent maxCount = unbounded"""
    import rdflib
    sh = lambda x: rdflib.URIRef(SH + x)
    paths = list(g.objects(b, sh("path")))
    nested = list(g.objects(b, sh("property")))
    inv, pred = None, None
    if len(paths) == 1 and not nested and isinstance(paths[0], rdflib.URIRef):
        inv, pred = False, _rel(paths[0])
    elif not paths and len(nested) == 1:
        ips = list(g.objects(nested[0], sh("inversePath")))
        if len(ips) == 1 and len(list(g.predicate_objects(nested[0]))) == 1:
            inv, pred = True, _rel(ips[0])
    restrs = []
    for d in g.objects(b, sh("dataType")):
        restrs.append(("datatype", _rel(d)))
    for d in g.objects(b, sh("datatype")):
        restrs.append(("datatype-standard-spelling", _rel(d)))
    kinds = {SH + "IRI": "IRI", SH + "BlankNode": "BNode", SH + "BlankNodeOrIRI": "NONLITERAL",
             SH + "Literal": "LITERAL"}
    for k in g.objects(b, sh("nodeKind")):
        restrs.append(("kind", kinds.get(str(k), str(k))))
    for r in g.objects(b, sh("node")):
        restrs.append(("ref", _rel(r)))
    for l in g.objects(b, sh("in")):
        items = _read_list(g, l)
        if items is not None and len(items) == 1 and isinstance(items[0], rdflib.URIRef):
            restrs.append(("value", _rel(items[0])))
        else:
            restrs.append(("in", repr(items)))
    restr = restrs[0] if len(restrs) == 1 else (("none",) if not restrs else ("multi", tuple(sorted(map(repr, restrs)))))

    def count(prop, dflt):
        vs = list(g.objects(b, sh(prop)))
        if not vs:
            return dflt
        if len(vs) == 1 and isinstance(vs[0], rdflib.Literal) and str(vs[0].datatype) == XSD_INTEGER \
                and re.match(r"^\d+$", str(vs[0])):
            return int(str(vs[0]))
        return ("bad", tuple(sorted(node_str(g, v) for v in vs)))
    return (inv, pred, restr, count("minCount", 0), count("maxCount", None))


def parse_shacl(text):
    import rdflib
    g = rdflib.Graph()
    g.parse(data=text, format="turtle", publicID=_BASE)
    sh = lambda x: rdflib.URIRef(SH + x)
    out = {}
    for s in g.subjects(rdflib.RDF.type, sh("NodeShape")):
        props = []
        for b in g.objects(s, sh("property")):
            arcs = sorted("<%s> %s" % (_rel(p), node_str(g, v, 1)) for p, v in g.predicate_objects(b))
            props.append({"tuple": property_shape_tuple(g, b), "arcs": arcs})
        out[_rel(s)] = {"targets": sorted(_rel(t) for t in g.objects(s, sh("targetClass"))),
                        "patterns": sorted(str(t) for t in g.objects(s, sh("pattern"))),
                        "props": props,
                        "other": sorted(_rel(p) for p in g.predicates(s, None)
                                        if str(p) not in (SH + "property", SH + "targetClass", SH + "pattern",
                                                          RDF + "type"))}
    return out
