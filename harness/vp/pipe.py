"""Shared machinery of the extraction-pipeline properties (C01, C02, C03, C04,
C05, C09, C12, C13, C14, C16): graph and configuration generators, the real
Shaper runner, the model table encoding, the ratio-printing shim and the
canonicaliser of ShExC text.

Abstract graph: list of triples (s, p, o) with s = (kind, id), kind in "IB";
o = ("I"|"B", id) or ("L", content, datatype IRI [, lang]); ("L", content,
xsd:string, "^^") is the same abstract literal written with its datatype
("..."^^xsd:string).  Blank-node ids carry their "_:" prefix (that is what
sheXer's BNode.iri holds).
"""
import random
import re
import signal
import warnings

RDF_TYPE = "http://www.w3.org/1999/02/22-rdf-syntax-ns#type"
XSD = "http://www.w3.org/2001/XMLSchema#"
LANGSTRING = "http://www.w3.org/1999/02/22-rdf-syntax-ns#langString"
# well-formed BCP 47 tags: one, two and three subtags, digits in a subtag
LANG_TAGS = ["en", "en", "es", "en-GB", "zh-Hant-TW", "de-CH-1996", "sr-Latn-RS", "zh-hans"]
DEFAULT_SHAPES_NS = "http://weso.es/shapes/"

SWITCHES = ["all_instances_are_compliant_mode", "keep_less_specific",
            "discard_useless_constraints_with_positive_closure", "allow_opt_cardinality",
            "inverse_paths", "disable_exact_cardinality"]


# --------------------------------------------------------------------------
# generators
# --------------------------------------------------------------------------

def gen_graph(r, general=True, max_nodes=6, namespaces=("http://ex.org/",)):
    """small-scope random graph; general=False gives schema-consistent graphs
    (per (class, property) homogeneous non-literal neighbours)."""
    ns = list(namespaces)
    ncls = r.randint(1, 4)
    classes = [r.choice(ns) + "C%d" % i for i in range(ncls)]
    nodes = [("I", r.choice(ns) + "n%d" % i) for i in range(r.randint(2, max_nodes))]
    nodes += [("B", "_:b%d" % i) for i in range(r.choice([0, 0, 1, 2]))]
    props = [r.choice(ns) + "p%d" % i for i in range(r.randint(1, 4))]
    dts = [XSD + "string", XSD + "integer", LANGSTRING, "http://ex.org/dt", XSD + "date"]
    triples = []
    seen = set()

    def add(t):
        if t not in seen:
            seen.add(t)
            triples.append(t)

    tau = RDF_TYPE
    if general:
        for n in nodes:
            for c in classes:
                if r.random() < 0.42:
                    add((n, tau, ("I", c)))
        untyped = [("I", "http://ex.org/u%d" % i) for i in range(3)] + [("B", "_:u0")]
        for n in nodes:
            for p in props:
                for _ in range(r.choice([0, 0, 1, 1, 2, 3])):
                    k = r.random()
                    if k < 0.35:
                        dt = r.choice(dts)
                        o = ("L", "v%d" % r.randint(0, 9), dt) + ((r.choice(LANG_TAGS),) if dt == LANGSTRING else ())
                    elif k < 0.5:
                        o = r.choice(untyped)
                    else:
                        o = r.choice(nodes)
                    add((n, p, o))
    else:
        # schema-consistent: every node has exactly one class; per (class, prop) one value kind
        cls_of = {}
        for n in nodes:
            cls_of[n] = r.choice(classes)
            add((n, tau, ("I", cls_of[n])))
        for c in classes:
            members = [n for n in nodes if cls_of[n] == c]
            for p in props:
                kind = r.choice(["lit", "lit2", "iri-untyped", "bnode-untyped", "ref", "none"])
                refc = r.choice(classes)
                refs = [n for n in nodes if cls_of[n] == refc]
                refs = [n for n in refs if n[0] == refs[0][0]] if refs else []
                for n in members:
                    for j in range(r.choice([0, 1, 1, 1, 2, 3])):
                        if kind == "lit":
                            o = ("L", "v%d" % r.randint(0, 9), dts[0])
                        elif kind == "lit2":
                            o = ("L", "v%d" % r.randint(0, 9), r.choice(dts[:2]))
                        elif kind == "iri-untyped":
                            o = ("I", "http://ex.org/u%d" % r.randint(0, 5))
                        elif kind == "bnode-untyped":
                            o = ("B", "_:u%d" % r.randint(0, 5))
                        elif kind == "ref" and refs:
                            o = r.choice(refs)
                        else:
                            continue
                        add((n, p, o))
    r.shuffle(triples)
    return triples


def nt_term(x):
    if x[0] == "I":
        return "<%s>" % x[1]
    if x[0] == "B":
        return x[1]
    if x[2] == XSD + "string" and not (len(x) > 3 and x[3] == "^^"):     # ("L", lex, xsd:string, "^^"): datatype written out
        return '"%s"' % x[1]
    if x[2] == LANGSTRING:
        return '"%s"@%s' % (x[1], x[3] if len(x) > 3 else "en")
    return '"%s"^^<%s>' % (x[1], x[2])


def nt_doc(ts):
    return "".join("%s <%s> %s .\n" % (nt_term(s), p, nt_term(o)) for s, p, o in ts)


def class_sizes(ts, tau=RDF_TYPE):
    n = {}
    for s, p, o in ts:
        if p == tau and o[0] != "L":
            n.setdefault(o[1], set()).add(s[1])
    return {c: len(v) for c, v in n.items()}


def thresholds_for(ts, r, extra=True):
    """every k/n boundary of the class sizes present, 0, 1, a few odd ones"""
    out = [(0, 1), (1, 1)]
    for n in sorted(set(class_sizes(ts).values())):
        for k in range(1, n):
            out.append((k, n))
    if extra:
        out += [(1, 2), (51, 100), (1, 3), (2, 3), (r.randint(1, 99), 100)]
    seen = []
    for t in out:
        if t not in seen:
            seen.append(t)
    return seen


def base_cfg():
    return {"tau": RDF_TYPE, "all_classes": True, "targets": [], "ns": [], "shapes_ns": DEFAULT_SHAPES_NS,
            "cap": -1, "inverse_paths": False, "remove_empty_shapes": True,
            "discard_useless_constraints_with_positive_closure": True, "keep_less_specific": True,
            "all_instances_are_compliant_mode": True, "disable_or_statements": True, "allow_redundant_or": False,
            "allow_opt_cardinality": True, "disable_exact_cardinality": False, "disable_comments": False,
            "mode": "mixed", "thr": (0, 1), "decimals": -1, "detect_minimal_iri": False}


def switch_cfg(idx, cfg=None):
    """the idx-th (mod 64) assignment of the six inference switches"""
    cfg = dict(cfg or base_cfg())
    for b, name in enumerate(SWITCHES):
        cfg[name] = bool((idx >> b) & 1)
    return cfg


# --------------------------------------------------------------------------
# the real code
# --------------------------------------------------------------------------

class Hang(Exception):
    pass


def _alarm(signum, frame):
    raise Hang()


def shaper_kwargs(cfg):
    kw = dict(all_classes_mode=cfg["all_classes"],
              target_classes=None if cfg["all_classes"] else list(cfg["targets"]),
              namespaces_dict={n: p for n, p in cfg["ns"]},
              instantiation_property=cfg["tau"], shapes_namespace=cfg["shapes_ns"], instances_cap=cfg["cap"],
              inverse_paths=cfg["inverse_paths"], remove_empty_shapes=cfg["remove_empty_shapes"],
              discard_useless_constraints_with_positive_closure=cfg["discard_useless_constraints_with_positive_closure"],
              keep_less_specific=cfg["keep_less_specific"],
              all_instances_are_compliant_mode=cfg["all_instances_are_compliant_mode"],
              disable_or_statements=cfg["disable_or_statements"], allow_redundant_or=cfg["allow_redundant_or"],
              allow_opt_cardinality=cfg["allow_opt_cardinality"],
              disable_exact_cardinality=cfg["disable_exact_cardinality"], disable_comments=cfg["disable_comments"],
              instances_report_mode=cfg["mode"], decimals=cfg["decimals"])
    if cfg.get("detect_minimal_iri"):
        kw["detect_minimal_iri"] = True
    return kw


def impl_shexc(ts, cfg, doc=None, timeout=10.0, extra_kw=None, output_format=None):
    """('ok', text) | ('err', exception class name, innermost shexer frame)"""
    from shexer.shaper import Shaper
    warnings.filterwarnings("ignore")
    kw = shaper_kwargs(cfg)
    if extra_kw:
        kw.update(extra_kw)
    k, m = cfg["thr"]
    old = signal.signal(signal.SIGALRM, _alarm)
    signal.setitimer(signal.ITIMER_REAL, timeout)
    try:
        sh = Shaper(raw_graph=doc if doc is not None else nt_doc(ts), **kw)
        okw = {} if output_format is None else {"output_format": output_format}
        text = sh.shex_graph(string_output=True, acceptance_threshold=(k / m), **okw)
        return ("ok", text)
    except Hang:
        return ("err", "Hang", "")
    except Exception as e:  # noqa: BLE001 - the observable is the exception class
        import traceback
        frames = [f for f in traceback.extract_tb(e.__traceback__) if "/shexer/" in f.filename]
        where = "%s:%d:%s" % (frames[-1].filename.split("/shexer/")[-1], frames[-1].lineno, frames[-1].name) if frames else ""
        return ("err", type(e).__name__, where)
    finally:
        signal.setitimer(signal.ITIMER_REAL, 0)
        signal.signal(signal.SIGALRM, old)


def impl_other(ts, cfg, kind, timeout=10.0):
    """SHACL output ('shacl') or profile_graph ('profile') of the real Shaper"""
    from shexer.shaper import Shaper
    from shexer.consts import SHACL_TURTLE
    warnings.filterwarnings("ignore")
    kw = shaper_kwargs(cfg)
    k, m = cfg["thr"]
    old = signal.signal(signal.SIGALRM, _alarm)
    signal.setitimer(signal.ITIMER_REAL, timeout)
    try:
        sh = Shaper(raw_graph=nt_doc(ts), **kw)
        if kind == "shacl":
            text = sh.shex_graph(string_output=True, acceptance_threshold=(k / m), output_format=SHACL_TURTLE)
        elif kind == "shexc_file":
            import os
            d = os.path.join(os.path.dirname(os.path.dirname(os.path.dirname(os.path.abspath(__file__)))), "work", "sink")
            os.makedirs(d, exist_ok=True)
            path = os.path.join(d, "out_%d.shex" % os.getpid())
            with open(path, "w") as f:          # the path is being reused: what it held must disappear
                f.write("# stale content of an earlier extraction\n:Stale {\n   :p  IRI\n}\n}}} <<<stale ]] @@\n" * 3)
            sh.shex_graph(output_file=path, acceptance_threshold=(k / m))
            with open(path, newline="") as f:
                text = f.read()
            os.remove(path)
        elif kind == "profile_file":
            import os
            d = os.path.join(os.path.dirname(os.path.dirname(os.path.dirname(os.path.abspath(__file__)))), "work", "sink")
            os.makedirs(d, exist_ok=True)
            path = os.path.join(d, "profile_%d.json" % os.getpid())
            with open(path, "w") as f:
                f.write('{"stale": [{}, {}]}\n' * 40)
            sh.profile_graph(output_file=path)
            with open(path) as f:
                text = f.read()
            os.remove(path)
            import json as _json
            _json.loads(text)          # a truncated / invalid file counts as a failure
        else:
            text = sh.profile_graph(string_output=True)
        return ("ok", text if isinstance(text, str) else repr(text))
    except Hang:
        return ("err", "Hang", "")
    except Exception as e:  # noqa: BLE001
        import traceback
        frames = [f for f in traceback.extract_tb(e.__traceback__) if "/shexer/" in f.filename]
        where = "%s:%d:%s" % (frames[-1].filename.split("/shexer/")[-1], frames[-1].lineno, frames[-1].name) if frames else ""
        return ("err", type(e).__name__, where)
    finally:
        signal.setitimer(signal.ITIMER_REAL, 0)
        signal.signal(signal.SIGALRM, old)


# --------------------------------------------------------------------------
# the model
# --------------------------------------------------------------------------

def _b(x):
    return "1" if x else "0"


def model_table(ts, cfg):
    k, m = cfg["thr"]
    row0 = [cfg["tau"], _b(cfg["all_classes"]), cfg["shapes_ns"], str(cfg["cap"]), _b(cfg["inverse_paths"]),
            _b(cfg["remove_empty_shapes"]), _b(cfg["discard_useless_constraints_with_positive_closure"]),
            _b(cfg["keep_less_specific"]), _b(cfg["all_instances_are_compliant_mode"]),
            _b(cfg["disable_or_statements"]), _b(cfg["allow_redundant_or"]), _b(cfg["allow_opt_cardinality"]),
            _b(cfg["disable_exact_cardinality"]), _b(cfg["disable_comments"]), cfg["mode"], str(k), str(m)]
    t = [row0]
    for n, p in cfg["ns"]:
        t.append(["N", n, p])
    if not cfg["all_classes"]:
        for c in cfg["targets"]:
            t.append(["C", c])
    for s, p, o in ts:
        if o[0] == "L":
            t.append(["T", s[0], s[1], p, "L", o[1], o[2]])
        else:
            t.append(["T", s[0], s[1], p, o[0], o[1], ""])
    return t


_PH = re.compile("\x01([^\x02]*)\x02")


def render_prob(tok, decimals):
    """the Python expressions of RatioFreqSerializer, on the figure the model names"""
    f = tok.split(":")
    if f[0] == "r":
        p = float(int(f[1])) / float(int(f[2]))
    elif f[0] == "s":
        n = float(int(f[3]))
        p = float(int(f[1])) / n + float(int(f[2])) / n
    elif f[0] == "o":
        p = 1
    else:
        raise ValueError("bad placeholder %r" % tok)
    if decimals < 0:
        return str(p * 100)
    if decimals == 0:
        return str(int(p * 100))
    return ("{:." + str(decimals) + "f}").format(p * 100)


def shim(text, decimals):
    return _PH.sub(lambda m: render_prob(m.group(1), decimals), text)


def model_shexc(mb, ts, cfg):
    out = mb.call("pipe_shexc", model_table(ts, cfg))
    row = out[0]
    if row[0] == "ok":
        return ("ok", shim(row[1], cfg["decimals"]))
    return ("err", row[1])


# --------------------------------------------------------------------------
# canonicaliser: ShExC text -> records
# --------------------------------------------------------------------------

_PREFIX = re.compile(r"^PREFIX (\S*): <([^>]*)>$")
_HEADER = re.compile(r"^(\S+)(?:\s+\[<([^>]*)>~\]\s+AND)?(?:\s+# (\d+) instances?\.)?\s*$")
_FIG = r"(?:# (?:([0-9.eE+-]+) %)?\s*\(?(?:(\d+) instances?)?\)?\.?)"
_CONS = re.compile(r"^   (\^  )?(\S+)  (.+?)  ([+*?]|\{\d+\})?;?(?:\s+# (.*))?$")
_COMM = re.compile(r"^            # (.*)$")


def expand(tok, prefixes):
    """prefixed name / <iri> / @label / [value] -> canonical string with full IRIs"""
    if tok.startswith("[") and tok.endswith("]"):
        return "[" + expand(tok[1:-1], prefixes) + "]"
    if tok.startswith("@"):
        return "@" + expand(tok[1:], prefixes)
    if tok.startswith("<") and tok.endswith(">"):
        return tok[1:-1]
    if tok in ("IRI", "BNode", "NONLITERAL", "LITERAL", "."):
        return tok
    if ":" in tok:
        p, local = tok.split(":", 1)
        if p in prefixes:
            return prefixes[p] + local
    return tok


def parse_figure(s):
    """'66.6 % (2 instances).' / '2 instances.' / '66.6 %' -> (ratio str|None, count|None)"""
    m = re.match(r"^(?:([0-9.eE+-]+) %)?\s*(?:\(?(\d+) instances?\)?\.?)?", s)
    return (m.group(1), int(m.group(2)) if m.group(2) else None)


def canon(text):
    """{'prefixes': {p: ns}, 'dups': [...], 'shapes': [ {label, stem, n, constraints:[{inv,pred,values,card,fig,comments}]} ]}"""
    prefixes = {}
    dup_prefixes = []
    shapes = []
    cur = None
    last = None
    unparsed = []
    in_body = False
    for line in text.split("\n"):
        if not line.strip():
            continue
        m = _PREFIX.match(line)
        if m and cur is None:
            if m.group(1) in prefixes:
                dup_prefixes.append(m.group(1))
            prefixes[m.group(1)] = m.group(2)
            continue
        if line.startswith("{"):
            in_body = True
            continue
        if line.startswith("}"):
            in_body = False
            if cur is not None:
                cur["example"] = line[1:].strip() or None
            continue
        if not in_body:
            m = _HEADER.match(line)
            if m:
                cur = {"label": expand(m.group(1), prefixes), "raw_label": m.group(1), "stem": m.group(2),
                       "n": int(m.group(3)) if m.group(3) else None, "constraints": [], "example": None}
                shapes.append(cur)
                last = None
                continue
            unparsed.append(line)
            continue
        m = _COMM.match(line)
        if m and last is not None:
            body = m.group(1)
            mm = re.match(r"^(.*?)\s*obj: (\S+)\. Cardinality: (\S+)\s*$", body)
            if mm:
                last["comments"].append({"fig": parse_figure(mm.group(1)), "obj": expand(mm.group(2), prefixes),
                                         "card": mm.group(3)})
            else:
                mm = re.match(r"^(.*?)\s*with cardinality (\S+)\s*$", body)
                if mm:
                    last["comments"].append({"fig": parse_figure(mm.group(1)), "obj": None, "card": mm.group(2)})
                else:
                    last["comments"].append({"raw": body})
            continue
        m = _CONS.match(line)
        if m:
            inv, pred, vals, card, fig = m.groups()
            values = [expand(v, prefixes) for v in vals.split("  OR  ")]
            last = {"inv": bool(inv), "pred": expand(pred, prefixes), "values": values, "card": card or "{1}",
                    "fig": parse_figure(fig) if fig else (None, None), "comments": []}
            cur["constraints"].append(last)
            continue
        unparsed.append(line)
    return {"prefixes": prefixes, "dup_prefixes": dup_prefixes, "shapes": shapes, "unparsed": unparsed}


def value_class(values, pred, tau=RDF_TYPE):
    """the key component of the property texts: literal datatype | 'nonliteral' | class value"""
    v = values[0]
    if pred == tau:
        return v[1:-1] if v.startswith("[") and v.endswith("]") else v
    if v in ("IRI", "BNode", "NONLITERAL") or v.startswith("@"):
        return "nonliteral"
    return v


def keys_of_shape(sh, tau=RDF_TYPE):
    return [(c["inv"], c["pred"], value_class(c["values"], c["pred"], tau)) for c in sh["constraints"]]
