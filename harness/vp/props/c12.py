"""C12 -- raising the acceptance threshold only removes constraints.

Oracle: metamorphic relation between real runs of fresh Shapers at every
ordered pair of a threshold grid (pipespec.check_monotone), the two anchor
claims of the property (threshold 0 omits nothing observed, threshold 1 keeps
only features of all the instances) judged against an independent recount over
the SET of triples of the document, and "no figure exceeds its shape's instance
count / 100 %".

Streams: graphs as C01; the shape-map stream (vp.pipemap); documents in which
statements occur more than once (typing statements and ordinary ones -- what a
concatenation of dumps looks like): the pipeline model takes a LIST of triples,
so such documents are inside the byte-exact correspondence; the oracle recounts
on the set."""
import random
import re
from fractions import Fraction

from vp import pipeprops, pipespec, pipe, pipemap

pipemap.install()      # shape-map runs (cfg["smap"]) go through Model.RunMap / Shaper(shape_map_raw=...)

RC_CAP_REPEATED = "rc_repeated_typing_fills_cap"
_ANCHOR = re.compile(r"^threshold 0 omits observed key .* of (\S+)$|^threshold 1 keeps key .* of (\S+) held by \S+ of the instances$")


def dedup(ts):
    """the set of triples of a document, in order of first occurrence"""
    return list(dict.fromkeys(ts))


def typing_multiplicities(ts, tau=pipe.RDF_TYPE):
    """class -> number of typing STATEMENTS (what the header of the unchanged code counts: finding C10-F7)"""
    n = {}
    for s, p, o in ts:
        if p == tau and o[0] != "L":
            n[o[1]] = n.get(o[1], 0) + 1
    return n


def repeat_statements(r, ts, tau=pipe.RDF_TYPE):
    """ts with some statements written again: 1..3 typing statements (1..3 further copies each) and, in half of
    the documents, 1..3 ordinary statements; a copy lands right after its original, at the end of the document or
    anywhere.  A class of k instances often ends up with >= k statements of a proper subset of them."""
    out = list(ts)
    typing = [t for t in ts if t[1] == tau and t[2][0] != "L"]
    other = [t for t in ts if t[1] != tau]
    picks = []
    if typing:
        for t in r.sample(typing, r.randint(1, min(3, len(typing)))):
            picks += [t] * r.choice([1, 1, 1, 2, 2, 3])
    if other and (r.random() < 0.5 or not typing):
        for t in r.sample(other, r.randint(1, min(3, len(other)))):
            picks += [t] * r.choice([1, 1, 2])
    r.shuffle(picks)
    for t in picks:
        k = r.random()
        if k < 0.35:
            out.insert(out.index(t) + 1, t)
        elif k < 0.65:
            out.append(t)
        else:
            out.insert(r.randint(0, len(out)), t)
    return out


def thresholds_repeated(ts, r):
    """the grid of pipe.thresholds_for plus every k/n boundary of the statement counts per class (the sizes the
    unchanged code works with on such documents)"""
    out = list(pipe.thresholds_for(dedup(ts), r))
    for n in sorted(set(typing_multiplicities(ts).values())):
        for k in range(1, n):
            if (k, n) not in out:
                out.append((k, n))
    return out


def repeated_stream(tier, rnd, n_quick, n_thorough):
    n = n_thorough if tier == "thorough" else n_quick
    cases = []
    for i in range(n):
        r = random.Random(rnd.getrandbits(48))
        base = pipe.gen_graph(r, general=(i % 3 != 0), max_nodes=r.choice([3, 4, 6]))
        ts = repeat_statements(r, base)
        cfg = pipeprops.random_cfg(r, base, i)
        grid = sorted(set(thresholds_repeated(ts, r)), key=lambda t: Fraction(*t))
        if len(grid) > 7:
            grid = [grid[0]] + sorted(r.sample(grid[1:-1], 5), key=lambda t: Fraction(*t)) + [grid[-1]]
        runs = []
        for t in grid:
            c = dict(cfg)
            c["thr"] = t
            runs.append((ts, c))
        cases.append({"runs": runs, "meta": {"stream": "repeated", "i": i,
                                             "repeated": len(ts) - len(base)}})
    return cases


def figures_within_bounds(docs):
    """no figure of a shape exceeds the shape's own instance count, no ratio exceeds 100 % (the figure of the merged
    NONLITERAL alternative is exempt: known finding C12-F1)"""
    fails = []
    for d in docs:
        for sh in d["shapes"]:
            for con in sh["constraints"]:
                figs = [(con["values"][0] if len(con["values"]) == 1 else "OR", con["fig"])]
                # a comment without 'obj:' is the figure of the merged non-literal alternative of a disjunction
                figs += [(k.get("obj") or "merged", k["fig"]) for k in con["comments"] if "fig" in k]
                for kind, (rs, cnt) in figs:
                    # the merged figure adds the counts of the per-kind survivors (C12-F1 / C01-F3): not a count
                    rc = "rc_nonliteral_sum_of_variants" if kind in ("NONLITERAL", "merged") else None
                    if rs is not None and float(rs) > 100 + 1e-9:
                        fails.append((rc, "%s: %s%s %s reports %s %% of the instances" % (
                            sh["label"], "^ " if con["inv"] else "", con["pred"], kind, rs)))
                    if cnt is not None and sh["n"] is not None and cnt > sh["n"]:
                        fails.append((rc, "%s: %s%s %s reports %d instances, the shape has %d" % (
                            sh["label"], "^ " if con["inv"] else "", con["pred"], kind, cnt, sh["n"])))
    return fails


def figures_reach_threshold(cfgs, docs):
    """every figure reported at threshold t -- on a constraint line or for an alternative in a comment -- is at
    least t: a candidate (property, kind, cardinality) below the threshold is filtered before anything is printed, so
    "at threshold 1 only features of all instances remain" holds for the alternatives too, not only for the keys
    (seed C12-m5: the exact-cardinality buckets of an entry whose '+' bucket passes were let through unchecked).
    Counts are compared exactly (count / instances of the shape), ratios with the tolerance of their rounding."""
    fails = []
    for c, d in zip(cfgs, docs):
        t = Fraction(*c["thr"])
        if t == 0:
            continue
        for sh in d["shapes"]:
            for con in sh["constraints"]:
                figs = [(con["values"][0] if len(con["values"]) == 1 else "OR", con.get("card"), con["fig"])]
                figs += [(k.get("obj") or "merged", k.get("card"), k["fig"]) for k in con["comments"] if "fig" in k]
                for kind, card, (rs, cnt) in figs:
                    low = None
                    if cnt is not None and sh["n"]:
                        low = Fraction(cnt, sh["n"]) < t
                    elif rs is not None:
                        low = float(rs) / 100 < float(t) - 1e-4
                    if low:
                        fails.append((None, "threshold %s: %s %s%s %s %s is reported with %s" % (
                            t, sh["label"], "^ " if con["inv"] else "", con["pred"], kind, card,
                            ("%s %%" % rs) if rs is not None else ("%d of %s instances" % (cnt, sh["n"])))))
    return fails


def check_repeated(ts, cfgs, docs):
    """the anchors are judged on the set of triples.  One adjustment, computed from the data: with instances_cap the
    unchanged code lets every typing STATEMENT take a place under the cap (C10-F7's root cause: no membership test
    in annotate_class), so a class whose first `cap` typing statements name fewer than `cap` nodes is profiled on
    fewer instances than the set of triples gives it; anchor failures about such a class carry the tag of C12-F3."""
    sts = dedup(ts)
    fails, n = pipespec.check_monotone(sts, cfgs, docs)
    cfg = cfgs[0]
    starved = set()
    if cfg["cap"] > 0:
        by_list, by_set = pipespec.spec_instances(ts, cfg), pipespec.spec_instances(sts, cfg)
        members = lambda inst, c: {i for i, cs in inst.items() if c in cs}
        for c in {c for cs in by_set.values() for c in cs}:
            if members(by_list, c) != members(by_set, c):
                starved.add(c)
    out = []
    for rc, desc in fails:
        m = _ANCHOR.match(desc)
        if rc is None and m and (m.group(1) or m.group(2)) in starved:
            rc = RC_CAP_REPEATED
        out.append((rc, desc))
    return out, n


class Spec(pipeprops.PropSpec):
    pid = "C12"
    theorems = "see Props/C12.v (names are read from the file at run time)"
    uses_bin64 = True
    projection = staticmethod(pipeprops.proj_figures)
    projection_name = "per shape label, instance count, constraint keys and all figures (lines and comments)"
    rule = ("graphs as C01 x a grid of thresholds containing 0, 1, every k/n boundary of the class sizes present and a "
            "few odd values: one fresh Shaper per threshold, all ordered pairs compared; switch assignments "
            "round-robin; non-trivial = some class with >= 2 instances and some non-typing triple; plus the shape-map "
            "stream (vp.pipemap; selectors answering IRIs) at a grid of thresholds on the k/n boundaries of the label "
            "sizes; plus documents with repeated statements (1..3 typing statements and, in half of them, 1..3 "
            "ordinary ones written 2..4 times) at a grid that also holds the k/n boundaries of the statement counts; "
            "on documents without repeated statements every figure reported at threshold t (line or comment) must be "
            ">= t")

    def gen_cases(self, tier, rnd):
        n = 6000 if tier == "thorough" else 400
        cases = []
        for i in range(n):
            r = random.Random(rnd.getrandbits(48))
            ts = pipe.gen_graph(r, general=(i % 3 != 0))
            cfg = pipeprops.random_cfg(r, ts, i)
            grid = sorted(set(pipe.thresholds_for(ts, r)), key=lambda t: Fraction(*t))
            if len(grid) > 7:
                grid = [grid[0]] + sorted(r.sample(grid[1:-1], 5), key=lambda t: Fraction(*t)) + [grid[-1]]
            runs = []
            for t in grid:
                c = dict(cfg)
                c["thr"] = t
                runs.append((ts, c))
            cases.append({"runs": runs, "meta": {"i": i}})
        cases += pipemap.stream(tier, rnd, 400, 4000, only_iri=True, grid=True)
        cases += repeated_stream(tier, rnd, 200, 3000)
        return cases

    def oracle(self, case, impl):
        if any(r[0] != "ok" for r in impl):
            return [], 0
        ts = case["runs"][0][0]
        cfgs = [rn[1] for rn in case["runs"]]
        docs = [pipe.canon(r[1]) for r in impl]
        if pipemap.is_map(cfgs[0]):
            fails, n = pipemap.check_monotone_map(ts, cfgs, docs)
        elif len(set(ts)) != len(ts):
            fails, n = check_repeated(ts, cfgs, docs)
        else:
            fails, n = pipespec.check_monotone(ts, cfgs, docs)
        if len(set(ts)) == len(ts):
            fails = fails + figures_reach_threshold(cfgs, docs)
        return fails + figures_within_bounds(docs), n


def run(tier, seed, replay=None):
    return pipeprops.run_property(Spec(), tier, seed, replay)
