"""C12 -- raising the acceptance threshold only removes constraints.

Oracle: metamorphic relation between real runs of fresh Shapers at every
ordered pair of a threshold grid (pipespec.check_monotone)."""
import random
from fractions import Fraction

from vp import pipeprops, pipespec, pipe, pipemap

pipemap.install()      # shape-map runs (cfg["smap"]) go through Model.RunMap / Shaper(shape_map_raw=...)


class Spec(pipeprops.PropSpec):
    pid = "C12"
    theorems = "see Props/C12.v (names are read from the file at run time)"
    uses_bin64 = True
    projection = staticmethod(pipeprops.proj_figures)
    projection_name = "per shape label, instance count, constraint keys and all figures (lines and comments)"
    rule = ("graphs as C01 x a grid of thresholds containing 0, 1, every k/n boundary of the class sizes present and a "
            "few odd values: one fresh Shaper per threshold, all ordered pairs compared; switch assignments "
            "round-robin; non-trivial = some class with >= 2 instances and some non-typing triple; plus the shape-map "
            "stream (vp.pipemap; selectors answering IRIs) at a grid of thresholds on the k/n boundaries of the label sizes")

    def gen_cases(self, tier, rnd):
        n = 6000 if tier == "thorough" else 400
        cases = []
        for i in range(n):
            r = random.Random(rnd.getrandbits(48))
            ts = pipe.gen_graph(r, general=(i % 3 != 0))
            cfg = pipeprops.random_cfg(r, ts, i)
            grid = sorted(set(pipe.thresholds_for(ts, r)), key=lambda t: Fraction(*t))
            if len(grid) > 7:
                grid = [grid[0]] + sorted(r.sample(grid[1:-1], 5), key=lambda t: Fraction(*t)) + [grid[-1]]
            runs = []
            for t in grid:
                c = dict(cfg)
                c["thr"] = t
                runs.append((ts, c))
            cases.append({"runs": runs, "meta": {"i": i}})
        cases += pipemap.stream(tier, rnd, 400, 4000, only_iri=True, grid=True)
        return cases

    def oracle(self, case, impl):
        if any(r[0] != "ok" for r in impl):
            return [], 0
        ts = case["runs"][0][0]
        cfgs = [rn[1] for rn in case["runs"]]
        if pipemap.is_map(cfgs[0]):
            return pipemap.check_monotone_map(ts, cfgs, [pipe.canon(r[1]) for r in impl])
        return pipespec.check_monotone(ts, cfgs, [pipe.canon(r[1]) for r in impl])


def run(tier, seed, replay=None):
    return pipeprops.run_property(Spec(), tier, seed, replay)
