"""C01 -- every reported instance count and frequency is exact.

Theorems: Props/C01.v.  Correspondence: all figures (header counts, constraint
lines, comments) of the real ShExC output vs the model's.  Oracle: every figure
recomputed from the abstract triples (pipespec.check_figures), independent of
model and code.
"""
from vp import pipeprops, pipespec, pipe, pipemap

pipemap.install()      # shape-map runs (cfg["smap"]) go through Model.RunMap / Shaper(shape_map_raw=...)


class Spec(pipeprops.PropSpec):
    pid = "C01"
    theorems = "see Props/C01.v (names are read from the file at run time)"
    uses_bin64 = True
    projection = staticmethod(pipeprops.proj_figures)
    projection_name = "all figures: per shape the header count; per constraint and per comment (direction, predicate, kind, cardinality, count, ratio), order included"
    rule = ("random small-scope graphs (1-4 classes, 2-8 nodes incl. blank nodes, multi-typed nodes, 1-4 properties, "
            "literal datatypes incl. language tags, untyped/typed IRI and BNode values, general and schema-consistent) x "
            "all 2^6 inference-switch assignments round-robin x thresholds on every k/n boundary x report modes x "
            "targets/all-classes x caps x namespace dictionaries; distinct = distinct (document, configuration); "
            "non-trivial = some class with >= 2 instances and some non-typing triple")
    assumptions = ["figures on lines rewritten {k>1} -> '+' by disable_exact_cardinality are accepted when they equal "
                   "the figure of '+' or of some exact cardinality k>1 of the same (property, kind) (documented behaviour)"]

    def gen_cases(self, tier, rnd):
        return pipeprops.gen_basic(tier, rnd, 2500, 40000) + pipemap.stream(tier, rnd, 1000, 10000, only_iri=True)

    def oracle(self, case, impl):
        ts, cfg = case["runs"][0]
        if impl[0][0] != "ok":
            return [], 0          # crashes are C04's subject
        if cfg["disable_comments"]:
            return [], 0
        doc = pipe.canon(impl[0][1])
        fails, n = pipespec.check_figures(ts, cfg, doc)
        if doc["unparsed"]:
            fails.append((None, "unparsed output line %r" % doc["unparsed"][0]))
        return fails, n

    def domain_note(self):
        return "NONLITERAL figures are exempt when an instance has both IRI and BNode values (finding C01-F1); " \
               "references to classes sharing a shape label are exempt (finding C01-F2)"


def _profile_figures():
    """profile_graph: the figures of the profile TEXT (Props/C01.v: C01_profile_json_figures, C01_profile_round_trip).
    Every second case also runs Shaper.profile_graph on its (graph, configuration), string and file sink
    alternating: the text is compared byte for byte with Model.RunProfile.run_profile_json and every figure in it
    is recounted from the abstract triples by the independent oracle (vp.pipeprofile.check_profile_text)."""
    from vp import pipeprofile
    pipeprofile.attach(Spec, every=2, oracle_map=True)
    Spec.theorems += ", C01_profile_json_figures, C01_profile_round_trip, C01_profile_text_figures"


_profile_figures()


def run(tier, seed, replay=None):
    return pipeprops.run_property(Spec(), tier, seed, replay)
