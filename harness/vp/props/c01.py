"""C01 -- every reported instance count and frequency is exact.

Theorems: Props/C01.v.  Correspondence: all figures (header counts, constraint
lines, comments) of the real ShExC output vs the model's.  Oracle: every figure
recomputed from the abstract triples (pipespec.check_figures), independent of
model and code.

Streams: random graphs x configurations (pipeprops.gen_basic); shape-map runs
(pipemap.stream); literal_and_tau_cases / literal_and_tau_map_cases: literals spelled
like the IRI or blank-node label of a selected node, a class or a property (they are
literal values of their subject and nothing for the node they spell: the model's graph
keeps a literal's datatype, Spec/Rdf.v) and custom instantiation properties under
which rdf:type is an ordinary multi-valued property (cardinalities {2}, {3}, '+').
"""
import random

from vp import pipeprops, pipespec, pipe, pipemap
from vp.props import c14

pipemap.install()      # shape-map runs (cfg["smap"]) go through Model.RunMap / Shaper(shape_map_raw=...)

E = "http://ex.org/"
# instantiation properties other than rdf:type (Shaper(instantiation_property=...))
TAUS = [E + "kind", "http://www.wikidata.org/prop/direct/P31", "http://other.org/ns#isA"]
STATS = pipemap.STATS      # generation-time statistics (parent process), printed under coverage.shape_map_stream


def retype(r, ts, tau):
    """the same graph under the instantiation property `tau`: every rdf:type statement becomes a `tau` statement,
    and rdf:type is used as an ORDINARY property: 0-3 values per subject, drawn from the class IRIs, three further
    IRIs, the typed nodes of the graph (so that some values are instances of a shape) and a blank node -- with two
    or more values of one kind on many nodes (cardinalities {2}, {3}, '+' for rdf:type)."""
    out = [(s, tau if p == pipe.RDF_TYPE else p, o) for s, p, o in ts]
    subjects = list(dict.fromkeys(s for s, _, _ in ts))
    classes = list(dict.fromkeys(o for _, p, o in ts if p == pipe.RDF_TYPE and o[0] == "I"))
    typed = list(dict.fromkeys(s for s, p, o in ts if p == pipe.RDF_TYPE and o[0] != "L"))
    pool = classes + [("I", E + "T%d" % k) for k in range(3)]
    extra = []
    for s in subjects:
        k = r.choice([0, 1, 2, 2, 3, 3])
        vals = r.sample(pool, min(k, len(pool)))
        if typed and r.random() < 0.25:
            vals.append(r.choice(typed))
        if r.random() < 0.1:
            vals.append(("B", "_:t0"))
        for v in vals:
            extra.append((s, pipe.RDF_TYPE, v))
    for t in dict.fromkeys(extra):
        if t not in out:
            out.insert(r.randint(0, len(out)), t)
    return out


def note(ts, cfg, stream):
    """what the inputs of the added streams hold (counted at generation time)"""
    inst = pipespec.spec_instances(ts, cfg)
    tau = cfg["tau"]
    STATS["c01:%s_cases" % stream] += 1
    if cfg["inverse_paths"]:
        STATS["c01:%s_cases_with_inverse_paths" % stream] += 1
    spelled = [o for s, p, o in ts if o[0] == "L" and p != tau and o[1] in inst and s[1] in inst]
    if spelled:
        STATS["c01:%s_cases_with_a_literal_value_spelling_an_instance" % stream] += 1
        STATS["c01:literal_values_spelling_an_instance"] += len(spelled)
        if any(o[1].startswith("_:") for o in spelled):
            STATS["c01:%s_cases_with_a_literal_spelling_a_blank_node_label" % stream] += 1
    if tau != pipe.RDF_TYPE:
        STATS["c01:%s_cases_with_custom_instantiation_property" % stream] += 1
        per = {}
        for s, p, o in ts:
            if p == pipe.RDF_TYPE and s[1] in inst and o[0] != "L":
                per[(s[1], o[0])] = per.get((s[1], o[0]), 0) + 1
        if any(v >= 2 for v in per.values()):
            STATS["c01:%s_cases_where_an_instance_has_2+_rdf:type_values_of_one_kind" % stream] += 1


def literal_and_tau_cases(tier, rnd, n_quick, n_thorough):
    """class-target runs on C01's graphs with (a) 1-4 literals spelled like the IRI / blank-node label of a typed
    node, of an object, a class IRI or a property IRI (plain, "..."^^xsd:string, xsd:anyURI, @en;
    vp.props.c14.plant_iri_literals), (b) a custom instantiation property with rdf:type as an ordinary multi-valued
    property (retype), (c) both; the six inference switches (inverse_paths among them) round-robin"""
    n = n_thorough if tier == "thorough" else n_quick
    cases = []
    for i in range(n):
        r = random.Random(rnd.getrandbits(48))
        ts = pipe.gen_graph(r, general=(i % 3 != 0))
        cfg = pipeprops.random_cfg(r, ts, i // 3)      # targets and thresholds from the classes of the graph
        fam = i % 3
        if fam >= 1:
            cfg["tau"] = TAUS[(i // 3) % len(TAUS)]
            ts = retype(r, ts, cfg["tau"])
        if fam != 1:
            ts = c14.plant_iri_literals(r, ts, tau=cfg["tau"])
        stream = ["iri-literals", "custom-tau", "custom-tau+iri-literals"][fam]
        note(ts, cfg, stream)
        cases.append({"runs": [(ts, cfg)], "meta": {"stream": stream, "i": i}})
    return cases


def literal_and_tau_map_cases(tier, rnd, n_quick, n_thorough):
    """the same three families as shape-map runs (random selectors answering IRIs over the graph; vp.pipemap)"""
    n = n_thorough if tier == "thorough" else n_quick
    cases = []
    for i in range(n):
        r = random.Random(rnd.getrandbits(48))
        ts = pipe.gen_graph(r, general=(i % 6 != 3))
        base = pipe.switch_cfg(i // 3)
        base["mode"] = r.choice(["mixed", "mixed", "mixed", "ratio", "abs"])
        base["remove_empty_shapes"] = r.random() < 0.7
        fam = i % 3
        if fam >= 1:
            base["tau"] = TAUS[(i // 3) % len(TAUS)]
            ts = retype(r, ts, base["tau"])
        if fam != 1:
            ts = c14.plant_iri_literals(r, ts, tau=base["tau"])
        ts, cfg = pipemap.to_map_run(r, ts, base, only_iri=True)
        cfg["thr"] = r.choice(pipemap.thresholds_map(ts, cfg, r))
        stream = "map:" + ["iri-literals", "custom-tau", "custom-tau+iri-literals"][fam]
        pipemap.note_case("general", cfg)
        note(ts, cfg, stream)
        cases.append({"runs": [(ts, cfg)], "meta": {"stream": "shape-map", "family": stream, "i": i}})
    return cases


class Spec(pipeprops.PropSpec):
    pid = "C01"
    theorems = "see Props/C01.v (names are read from the file at run time)"
    uses_bin64 = True
    projection = staticmethod(pipeprops.proj_figures)
    projection_name = "all figures: per shape the header count; per constraint and per comment (direction, predicate, kind, cardinality, count, ratio), order included"
    rule = ("random small-scope graphs (1-4 classes, 2-8 nodes incl. blank nodes, multi-typed nodes, 1-4 properties, "
            "literal datatypes incl. language tags, untyped/typed IRI and BNode values, general and schema-consistent) x "
            "all 2^6 inference-switch assignments round-robin x thresholds on every k/n boundary x report modes x "
            "targets/all-classes x caps x namespace dictionaries; distinct = distinct (document, configuration); "
            "non-trivial = some class with >= 2 instances and some non-typing triple; plus shape-map runs (vp.pipemap); "
            "plus, as class-target and as shape-map runs, the same graphs with 1-4 literals spelled like the IRI / "
            "blank-node label of a typed node, an object, a class or a property (plain, ^^xsd:string, xsd:anyURI, @en), "
            "with a custom instantiation property (ex:kind, wdt:P31, oth:isA) under which rdf:type is an ordinary "
            "property with 0-5 values per node, and with both (counts under coverage.shape_map_stream, keys c01:*)")
    literal_contents = ("literal contents are alphanumeric, or the IRI / blank-node label of a node, a class or a "
                        "property of the document (no character that N-Triples escapes)")
    assumptions = ["figures on lines rewritten {k>1} -> '+' by disable_exact_cardinality are accepted when they equal "
                   "the figure of '+' or of some exact cardinality k>1 of the same (property, kind) (documented behaviour)"]

    def gen_cases(self, tier, rnd):
        return pipeprops.gen_basic(tier, rnd, 2500, 40000) + pipemap.stream(tier, rnd, 1000, 10000, only_iri=True) \
            + literal_and_tau_cases(tier, rnd, 600, 9000) + literal_and_tau_map_cases(tier, rnd, 300, 4500)

    def oracle(self, case, impl):
        ts, cfg = case["runs"][0]
        if impl[0][0] != "ok":
            return [], 0          # crashes are C04's subject
        if cfg["disable_comments"]:
            return [], 0
        doc = pipe.canon(impl[0][1])
        fails, n = pipespec.check_figures(ts, cfg, doc)
        if doc["unparsed"]:
            fails.append((None, "unparsed output line %r" % doc["unparsed"][0]))
        return fails, n

    def domain_note(self):
        return "NONLITERAL figures are exempt when an instance has both IRI and BNode values (finding C01-F1); " \
               "references to classes sharing a shape label are exempt (finding C01-F2)"


def _profile_figures():
    """profile_graph: the figures of the profile TEXT (Props/C01.v: C01_profile_json_figures, C01_profile_round_trip).
    Every second case also runs Shaper.profile_graph on its (graph, configuration), string and file sink
    alternating: the text is compared byte for byte with Model.RunProfile.run_profile_json and every figure in it
    is recounted from the abstract triples by the independent oracle (vp.pipeprofile.check_profile_text)."""
    from vp import pipeprofile
    pipeprofile.attach(Spec, every=2, oracle_map=True)
    Spec.theorems += ", C01_profile_json_figures, C01_profile_round_trip, C01_profile_text_figures"


_profile_figures()


def run(tier, seed, replay=None):
    return pipeprops.run_property(Spec(), tier, seed, replay)
