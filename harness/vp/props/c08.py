"""C08 -- the extracted shapes do not depend on how the graph is delivered.

Theorems: Props/C08.v (partition invisible for line-compositional readers,
both passes see the same stream / independence of the blank-node renamings,
dispatch total on its domain, the TSV reader reads N-Triples semantics).

Oracle (metamorphic, written from the property text): for every generated
graph the canonical evidence (labels, instance counts, constraint keys,
cardinalities, figures, comments) of the real Shaper through every delivery
channel equals that of the raw N-Triples string; where two candidates tie
(pipespec.tie_root_causes) only the evidence sets are compared; blank-node
instances are compared only among the channels with stable labels.

Correspondence: Model.Channels (extracted) against the real yielders -- the
line readers (bounded-exhaustive over a byte alphabet), the TSV reader, the
factory's dispatch (every accepted combination), the conversion of rdflib
terms, and for every generated graph and line-based channel the whole stream
(both passes, with the yielders' counters) with the real single-document
reader plugged in as `read`; the pipeline over the two recorded streams
(Model.Channels.run_shexc2) against the real output.  Monitored assumptions:
codecs are the identity on content; what an rdflib channel delivers is a
permutation of the graph up to an injective blank-node renaming.
"""
import gzip
import itertools
import json
import lzma
import os
import random
import shutil
import signal
import time
import warnings
import zipfile

from vp import core, pipe, pipespec

PID = "C08"
TAU = pipe.RDF_TYPE
XSD = pipe.XSD
LANGSTRING = pipe.LANGSTRING
BASE = os.path.join(core.WORK, "c08")
TIMEOUT = 10.0

THEOREMS = ("C08_partition_invisible, C08_partition_invisible_tsv, C08_both_passes_same, "
            "C08_renamings_invisible_partial, C08_dispatch_total, C08_tsv_reads_nt_semantics (Props/C08.v)")


def workdir():
    d = os.path.join(BASE, str(os.getpid()))
    os.makedirs(d, exist_ok=True)
    return d


# --------------------------------------------------------------------------
# abstract graphs
# --------------------------------------------------------------------------

CONTENTS = ["two words", "café", "x-y_z", "semi;colon", "1a"]


def gen_case_graph(r, i):
    """pipe.gen_graph plus richer literal contents; three streams:
    0 IRI instances only, 1 blank-node instances allowed, 2 IRI instances with a plain literal holding '@'"""
    ns = ("http://ex.org/", "http://other.org/ns#") if i % 4 == 0 else ("http://ex.org/",)
    ts = pipe.gen_graph(r, general=(i % 3 != 0), namespaces=ns)
    stream = (i % 7 == 3) and 1 or ((i % 11 == 5) and 2 or 0)
    out = []
    for s, p, o in ts:
        if o[0] == "L":
            # well-typed lexical forms (rdflib's serialisers rewrite ill-typed numbers / dates)
            if o[2] == XSD + "integer":
                o = ("L", str(r.randint(0, 99)), o[2])
            elif o[2] == XSD + "date":
                o = ("L", "2020-01-%02d" % r.randint(1, 28), o[2])
            elif r.random() < 0.3:
                o = ("L", r.choice(CONTENTS)) + tuple(o[2:])
        out.append((s, p, o))
    ts = out
    if stream != 1:
        inst = {s[1] for s, p, o in ts if p == TAU and s[0] == "B"} | {o[1] for s, p, o in ts if p == TAU and o[0] == "B"}
        f = lambda x: ("I", "http://ex.org/bn_" + x[1][2:]) if x[0] == "B" and x[1] in inst else x
        ts = [(f(s), p, f(o)) for s, p, o in ts]
    if stream == 2:
        subj = [s for s, p, o in ts if p == TAU]
        if subj:
            ts = ts + [(r.choice(subj), "http://ex.org/mail", ("L", "user%d@ex.org" % r.randint(0, 9), XSD + "string"))]
    seen, ded = set(), []
    for t in ts:
        if t not in seen:
            seen.add(t)
            ded.append(t)
    return ded, stream


def has_bnode_instance(ts):
    return any(p == TAU and s[0] == "B" for s, p, o in ts)


def has_at_plain(ts):
    return any(o[0] == "L" and o[2] == XSD + "string" and "@" in o[1] for s, p, o in ts)


def kinded(ts):
    """the model objects the N-Triples semantics gives: (sk, sid, p, ok, oid|'', datatype|'')"""
    out = []
    for s, p, o in ts:
        if o[0] == "L":
            out.append((s[0], s[1], p, "L", "", o[2]))
        else:
            out.append((s[0], s[1], p, o[0], o[1], ""))
    return out


# --------------------------------------------------------------------------
# renderings
# --------------------------------------------------------------------------

def tsv_doc(ts):
    return "".join("%s\t<%s>\t%s\n" % (pipe.nt_term(s), p, pipe.nt_term(o)) for s, p, o in ts)


TTL_PREFIXES = [("ex", "http://ex.org/"), ("oth", "http://other.org/ns#"), ("xsd", XSD)]


def _ttl_iri(u):
    for p, ns in TTL_PREFIXES:
        if u.startswith(ns) and u[len(ns):].replace("_", "").isalnum():
            return "%s:%s" % (p, u[len(ns):])
    return "<%s>" % u


def ttl_term(x):
    if x[0] == "I":
        return _ttl_iri(x[1])
    if x[0] == "B":
        return x[1]
    if x[2] == XSD + "string":
        return '"%s"' % x[1]
    if x[2] == LANGSTRING:
        return '"%s"@%s' % (x[1], x[3] if len(x) > 3 else "en")
    if x[2].startswith(XSD):
        return '"%s"^^xsd:%s' % (x[1], x[2][len(XSD):])
    return '"%s"^^<%s>' % (x[1], x[2])


def ttl_doc(ts):
    """the dialect of the streaming reader: prefix header, one triple per line"""
    head = "".join("@prefix %s: <%s> .\n" % (p, ns) for p, ns in TTL_PREFIXES)
    return head + "".join("%s %s %s .\n" % (ttl_term(s), "a" if p == TAU else _ttl_iri(p), ttl_term(o)) for s, p, o in ts)


def rdflib_graph(ts):
    import rdflib
    g = rdflib.Graph()
    g.bind("ex", "http://ex.org/")
    g.bind("oth", "http://other.org/ns#")

    def term(x):
        if x[0] == "I":
            return rdflib.URIRef(x[1])
        if x[0] == "B":
            return rdflib.BNode(x[1][2:])
        if x[2] == XSD + "string":
            return rdflib.Literal(x[1])
        if x[2] == LANGSTRING:
            return rdflib.Literal(x[1], lang=x[3] if len(x) > 3 else "en")
        return rdflib.Literal(x[1], datatype=rdflib.URIRef(x[2]))
    for s, p, o in ts:
        g.add((term(s), rdflib.URIRef(p), term(o)))
    return g


RDFLIB_FORMATS = {"turtle": "turtle", "xml": "xml", "json-ld": "json-ld", "n3": "n3", "nt": "nt"}


def rdflib_text(ts, fmt):
    out = rdflib_graph(ts).serialize(format=RDFLIB_FORMATS[fmt])
    return out.decode("utf-8") if isinstance(out, bytes) else out


def partition(items, r, kmax=4, allow_empty=True):
    k = r.randint(1, kmax)
    cuts = sorted(r.randint(0, len(items)) for _ in range(k - 1))
    parts = [items[a:b] for a, b in zip([0] + cuts, cuts + [len(items)])]
    if not allow_empty:
        parts = [p for p in parts if p] or [[]]
    return parts


# --------------------------------------------------------------------------
# files
# --------------------------------------------------------------------------

def write_stored(path, data, cm):
    """data: bytes of the document; cm in (None, 'gz', 'xz'); returns the stored bytes"""
    if cm is None:
        with open(path, "wb") as f:
            f.write(data)
    elif cm == "gz":
        with gzip.open(path, "wb") as f:
            f.write(data)
    elif cm == "xz":
        with lzma.open(path, "wb") as f:
            f.write(data)
    else:
        raise ValueError(cm)
    with open(path, "rb") as f:
        return f.read()


def write_zip(path, members):
    with zipfile.ZipFile(path, "w") as z:
        for name, data in members:
            z.writestr(name, data)
    with open(path, "rb") as f:
        return f.read()


# --------------------------------------------------------------------------
# channels
# --------------------------------------------------------------------------

LINE_FAMILIES = {"nt": "nt", "tsv_spo": "tsv", "turtle_iter": "ttl"}
CHANNELS = [
    # name, input_format, compression, layout
    ("nt_raw", "nt", None, "raw"),
    ("nt_raw_nofinalnl", "nt", None, "raw-nonl"),
    ("nt_file", "nt", None, "file"),
    ("nt_gz", "nt", "gz", "file"),
    ("nt_xz", "nt", "xz", "file"),
    ("nt_zip", "nt", "zip", "zip1"),
    ("nt_files", "nt", None, "files"),
    ("nt_files_gz", "nt", "gz", "files"),
    ("nt_zip_members", "nt", "zip", "zipn"),
    ("nt_zips", "nt", "zip", "zips"),
    ("tsv_raw", "tsv_spo", None, "raw"),
    ("tsv_file", "tsv_spo", None, "file"),
    ("tsv_xz", "tsv_spo", "xz", "file"),
    ("tsv_files", "tsv_spo", None, "files"),
    ("tsv_zip_members", "tsv_spo", "zip", "zipn"),
    ("ttli_raw", "turtle_iter", None, "raw"),
    ("ttli_file", "turtle_iter", None, "file"),
    ("ttli_gz", "turtle_iter", "gz", "file"),
    ("ttli_files", "turtle_iter", None, "files"),
    ("turtle_file", "turtle", None, "file"),
    ("turtle_raw", "turtle", None, "raw"),
    ("turtle_gz", "turtle", "gz", "file"),
    ("turtle_files", "turtle", None, "files"),
    ("turtle_zip_members", "turtle", "zip", "zipn"),
    ("xml_file", "xml", None, "file"),
    ("jsonld_file", "json-ld", None, "file"),
    ("n3_file", "n3", None, "file"),
    ("nt_url", "nt", None, "url"),
    ("turtle_url", "turtle", None, "url"),
    ("turtle_urls", "turtle", None, "urls"),
    ("rdflib_graph", "nt", None, "graph"),
]
STABLE = {"nt", "tsv_spo", "turtle_iter"}      # + the rdflib Graph object


def channel_is_stable(ch):
    return ch[1] in STABLE and ch[3] not in ("url", "urls") or ch[3] == "graph"


def channel_is_line(ch):
    return ch[1] in LINE_FAMILIES and ch[3] not in ("url", "urls", "graph")


def doc_for(fmt, ts):
    if fmt == "nt":
        return pipe.nt_doc(ts)
    if fmt == "tsv_spo":
        return tsv_doc(ts)
    if fmt == "turtle_iter":
        return ttl_doc(ts)
    return rdflib_text(ts, fmt)


def build_channel(ch, ts, r, d):
    """writes the files of one channel; returns {'kw': Shaper source kwargs, 'src': model source rows, ...}"""
    name, fmt, cm, layout = ch
    ext = {"nt": "nt", "tsv_spo": "tsv", "turtle_iter": "ttl", "turtle": "ttl", "xml": "xml", "json-ld": "json",
           "n3": "n3"}[fmt]
    info = {"name": name, "fmt": fmt, "cm": cm, "layout": layout, "gz": [], "xz": [], "zip": [], "pieces": []}
    kw = {"input_format": fmt}
    if cm is not None:
        kw["compression_mode"] = cm
    parts_ok = layout in ("files", "zipn", "zips", "urls")
    if parts_ok:
        parts = partition(ts, r, 4, allow_empty=(fmt in ("nt", "tsv_spo")))
    else:
        parts = [ts]
    docs = [doc_for(fmt, p).encode("utf-8") for p in parts]
    info["parts"] = [len(p) for p in parts]

    def stored_file(i, data, cmode):
        path = os.path.join(d, "%s_%d.%s%s" % (name, i, ext, "" if cmode is None else "." + cmode))
        st = write_stored(path, data, cmode)
        if cmode in ("gz", "xz"):
            info[cmode].append((st, data))
        return path, st

    if layout == "raw":
        kw["raw_graph"] = docs[0].decode("utf-8")
        info["kind"], info["src"] = "raw", [docs[0]]
        info["pieces"] = [("raw", docs[0])]
    elif layout == "raw-nonl":
        doc = docs[0][:-1] if docs[0].endswith(b"\n") else docs[0]
        kw["raw_graph"] = doc.decode("utf-8")
        info["kind"], info["src"] = "raw", [doc]
        info["pieces"] = [("raw", doc)]
    elif layout == "file":
        path, st = stored_file(0, docs[0], cm)
        kw["graph_file_input"] = path
        info["kind"], info["src"] = "file", [st]
        info["pieces"] = [("text" if cm is None else "bytes", docs[0])]
    elif layout == "files":
        paths = []
        info["src"] = []
        for i, data in enumerate(docs):
            path, st = stored_file(i, data, cm)
            paths.append(path)
            info["src"].append(st)
            info["pieces"].append(("text" if cm is None else "bytes", data))
        kw["graph_list_of_files_input"] = paths
        info["kind"] = "files"
    elif layout in ("zip1", "zipn"):
        members = [("m%d.%s" % (i, ext), data) for i, data in enumerate(docs)]
        path = os.path.join(d, "%s.zip" % name)
        st = write_zip(path, members)
        info["zip"].append((st, members))
        if r.random() < 0.5:
            kw["graph_file_input"] = path
            info["kind"], info["src"] = "file", [st]
        else:
            kw["graph_list_of_files_input"] = [path]
            info["kind"], info["src"] = "files", [st]
        info["pieces"] = [("bytes", data) for _, data in members]
    elif layout == "zips":
        # several archives, each with several members
        groups = partition(list(range(len(docs))), r, 3, allow_empty=True)
        paths, info["src"] = [], []
        for gi, grp in enumerate(groups):
            members = [("a%d_m%d.%s" % (gi, i, ext), docs[i]) for i in grp]
            path = os.path.join(d, "%s_%d.zip" % (name, gi))
            st = write_zip(path, members)
            info["zip"].append((st, members))
            paths.append(path)
            info["src"].append(st)
            info["pieces"] += [("bytes", data) for _, data in members]
        kw["graph_list_of_files_input"] = paths
        info["kind"] = "files"
    elif layout == "url":
        path, st = stored_file(0, docs[0], None)
        kw["url_graph_input"] = "file://" + path
        info["kind"], info["src"] = "url", [st]
    elif layout == "urls":
        urls = []
        for i, data in enumerate(docs):
            path, st = stored_file(i, data, None)
            urls.append("file://" + path)
        kw["list_of_url_input"] = urls
        info["kind"], info["src"] = "urls", []
    elif layout == "graph":
        kw["rdflib_graph"] = rdflib_graph(ts)
        kw.pop("input_format")
        info["kind"], info["src"] = "graph", []
    info["kw"] = kw
    info["n"] = len(docs)
    return info


# --------------------------------------------------------------------------
# the real code, with the two yielders recorded
# --------------------------------------------------------------------------

class Hang(Exception):
    pass


def _alarm(signum, frame):
    raise Hang()


def guarded(fn, *a, **k):
    old = signal.signal(signal.SIGALRM, _alarm)
    signal.setitimer(signal.ITIMER_REAL, TIMEOUT)
    try:
        return fn(*a, **k)
    finally:
        signal.setitimer(signal.ITIMER_REAL, 0)
        signal.signal(signal.SIGALRM, old)


def tup(t):
    s, p, o = t

    def f(x):
        n = type(x).__name__
        if n == "Literal":
            return ("L", str(x), x.elem_type)
        return ("I" if n == "IRI" else "B", x.iri, "")
    a, b = f(s), f(o)
    return (a[0], a[1], str(p), b[0], b[1], b[2])


_LOG = []


class Recorder(object):
    def __init__(self, inner):
        self._inner = inner

    def yield_triples(self, *a, **k):
        rec = {"cls": type(self._inner).__name__, "triples": [], "done": False}
        _LOG.append(rec)
        for t in self._inner.yield_triples(*a, **k):
            rec["triples"].append(tup(t))
            yield t
        rec["done"] = True
        rec["yielded"] = self._inner.yielded_triples
        rec["errors"] = self._inner.error_triples

    def __getattr__(self, name):
        return getattr(self._inner, name)


_PATCHED = False


def patch_factories():
    global _PATCHED
    if _PATCHED:
        return
    import shexer.utils.factories.instance_tracker_factory as itf
    import shexer.utils.factories.class_profiler_factory as cpf
    from shexer.utils.factories.triple_yielders_factory import get_triple_yielder as real

    def rec_get(*a, **k):
        return Recorder(real(*a, **k))
    itf.get_triple_yielder = rec_get
    cpf.get_triple_yielder = rec_get
    _PATCHED = True


def exc_name(e):
    import traceback
    frames = [f for f in traceback.extract_tb(e.__traceback__) if "/shexer/" in f.filename]
    where = "%s:%s" % (frames[-1].filename.split("/shexer/")[-1], frames[-1].name) if frames else ""
    return type(e).__name__, where


def real_shaper(src_kw, cfg):
    """-> (('ok', text) | ('err', class, where), recorded passes)"""
    from shexer.shaper import Shaper
    warnings.filterwarnings("ignore")
    patch_factories()
    del _LOG[:]
    kw = pipe.shaper_kwargs(cfg)
    kw.update(src_kw)
    k, m = cfg["thr"]
    try:
        def go():
            sh = Shaper(**kw)
            return sh.shex_graph(string_output=True, acceptance_threshold=(k / m))
        text = guarded(go)
        res = ("ok", text)
    except Hang:
        res = ("err", "Hang", "")
    except Exception as e:  # noqa: BLE001
        res = ("err",) + exc_name(e)
    return res, [dict(r) for r in _LOG]


class ListLineReader(object):
    def __init__(self, lines):
        self._lines = lines

    def read_lines(self):
        return iter(self._lines)


def real_read(family, lines):
    """the real single-document reader on the lines a line reader delivers"""
    from shexer.io.graph.yielder.nt_triples_yielder import NtTriplesYielder
    from shexer.io.graph.yielder.tsv_nt_triples_yielder import TsvNtTriplesYielder
    from shexer.io.graph.yielder.big_ttl_triples_yielder import BigTtlTriplesYielder
    cls = {"nt": NtTriplesYielder, "tsv": TsvNtTriplesYielder, "ttl": BigTtlTriplesYielder}[family]
    try:
        def go():
            y = cls(source_file=None, raw_graph="", allow_untyped_numbers=True)
            y._line_reader = ListLineReader(lines)
            ts = [tup(t) for t in y.yield_triples()]
            return ("ok", y.yielded_triples, y.error_triples, ts)
        return guarded(go)
    except Hang:
        return ("Hang",)
    except Exception as e:  # noqa: BLE001
        return (type(e).__name__,)


def real_yielder(info):
    """what get_triple_yielder(...) of the real factory delivers for the channel's source"""
    from shexer.utils.factories.triple_yielders_factory import get_triple_yielder
    kw = dict(info["kw"])
    tr = {"graph_file_input": "source_file", "graph_list_of_files_input": "list_of_source_files",
          "url_graph_input": "url_input"}
    kw = {tr.get(k, k): v for k, v in kw.items()}
    kw["allow_untyped_numbers"] = True
    try:
        def go():
            y = get_triple_yielder(**kw)
            ts = [tup(t) for t in y.yield_triples()]
            return ("ok", type(y).__name__, y.yielded_triples, y.error_triples, ts)
        return guarded(go)
    except Hang:
        return ("err", "Hang")
    except Exception as e:  # noqa: BLE001
        return ("err", type(e).__name__)


# --------------------------------------------------------------------------
# the model
# --------------------------------------------------------------------------

_MB = None


def mb():
    global _MB
    if _MB is None:
        _MB = core.ModelBin()
    return _MB


def _opt(x):
    return "N" if x is None else "S" + x


def model_lines(pieces):
    """pieces: [(reader, bytes)] -> per piece ('ok', [line bytes]) | ('err', name)"""
    out = mb().call("c08_lines", [[rd, data] for rd, data in pieces], raw=True)
    return [("ok", row[1:]) if row[0] == b"ok" else ("err", row[1].decode()) for row in out]


def rd_row(lines, rr):
    """an 'rd' row of c08_channel: what the real reader gave for these lines"""
    if rr[0] != "ok":
        return ["rd", rr[0], "0", "0", str(len(lines))] + list(lines)
    flat = []
    for t in rr[3]:
        flat += [t[0], t[1], t[2], t[3], t[4], t[5]]
    return ["rd", "ok", str(rr[1]), str(rr[2]), str(len(lines))] + list(lines) + flat


def parse_rd_rows(rows):
    if rows[0][0] == "err":
        return ("err", rows[0][1])
    ts = [(r[1], r[2], r[4], r[5], r[6], r[7]) for r in rows[1:]]      # r = t sk sa sb p ok oa ob
    return ("ok", int(rows[0][1]), int(rows[0][2]), ts)


def model_channel(info, family):
    """the model's channel with the real reader plugged in -> (class | err, rd)"""
    lines = model_lines(info["pieces"])
    table = [["cfg", info["fmt"], _opt(info["cm"]), info["kind"]], ["src"] + list(info["src"])]
    for st, data in info["gz"]:
        table.append(["gz", st, data])
    for st, data in info["xz"]:
        table.append(["xz", st, data])
    for st, members in info["zip"]:
        table.append(["zip", st] + [x for nm, data in members for x in (nm, data)])
    seen = set()
    for ln in lines:
        if ln[0] != "ok":
            continue
        key = tuple(ln[1])
        if key in seen:
            continue
        seen.add(key)
        rr = real_read(family, [b.decode("utf-8", "surrogateescape") for b in ln[1]])
        table.append(rd_row(ln[1], rr))
    out = mb().call("c08_channel", table)
    cls = out[0]
    return (cls[0], cls[1]), parse_rd_rows(out[1:])


def model_run2(g1, g2, cfg):
    """Model.Channels.run_shexc2 over the two recorded streams (tuples as tup())"""
    t = pipe.model_table([], cfg)
    for tag, g in (("T", g1), ("U", g2)):
        for sk, sid, p, ok, oa, ob in g:
            t.append([tag, sk, sid, p, ok, oa, ob])
    row = mb().call("c08_run2", t)[0]
    if row[0] == "ok":
        return ("ok", pipe.shim(row[1], cfg["decimals"]))
    return ("err", row[1])


# --------------------------------------------------------------------------
# oracle
# --------------------------------------------------------------------------

def evidence(res, cfg):
    if res[0] != "ok":
        return None
    return pipespec.evidence_of(pipe.canon(res[1]), cfg["tau"])


def compare_evidence(e_ref, e_ch, rcs, cfg):
    """-> list of descriptions of differences the property does not allow"""
    out = []
    if e_ref["labels"] != e_ch["labels"]:
        out.append("shapes / instance counts differ: %r vs %r" % (e_ref["labels"], e_ch["labels"]))
    if e_ref["keys"] != e_ch["keys"]:
        d = [(k, sorted(e_ref["keys"].get(k, set()) ^ e_ch["keys"].get(k, set()))[:2])
             for k in set(e_ref["keys"]) | set(e_ch["keys"]) if e_ref["keys"].get(k) != e_ch["keys"].get(k)]
        out.append("constraint keys differ: %r" % (d[:2],))
    card_tie = "rc_cardinality_tie" in rcs and not cfg["keep_less_specific"]
    if e_ref["facts"] != e_ch["facts"] and not ("rc_reference_tie" in rcs or card_tie):
        d = sorted(set(e_ref["facts"].items()) ^ set(e_ch["facts"].items()), key=repr)[:2]
        out.append("reported figures / comments differ: %r" % (d,))
    if e_ref["chosen"] != e_ch["chosen"] and not ("rc_kind_tie" in rcs or "rc_reference_tie" in rcs or card_tie):
        d = [(k, sorted(e_ref["chosen"][k] ^ e_ch["chosen"].get(k, set()), key=repr)[:2]) for k in e_ref["chosen"]
             if e_ref["chosen"][k] != e_ch["chosen"].get(k)]
        out.append("chosen constraints / cardinalities differ without a tie: %r" % (d[:1],))
    return out


def canon_stream(ts):
    """sorted tuples with blank nodes replaced by a canonical name derived from a stable signature
    (iterated: good enough for the small generated graphs), literal contents dropped"""
    ts = [(t[0], t[1], t[2], t[3], "" if t[3] == "L" else t[4], t[5]) for t in ts]
    return sorted(ts)


def same_up_to_bnodes(a, b):
    """is b a permutation of a up to an injective renaming of blank nodes?  (search, small graphs)"""
    a = [(t[0], t[1], t[2], t[3], "" if t[3] == "L" else t[4], t[5]) for t in a]
    b = [(t[0], t[1], t[2], t[3], "" if t[3] == "L" else t[4], t[5]) for t in b]
    if len(a) != len(b):
        return False
    ba = sorted({t[1] for t in a if t[0] == "B"} | {t[4] for t in a if t[3] == "B"})
    bb = sorted({t[1] for t in b if t[0] == "B"} | {t[4] for t in b if t[3] == "B"})
    if len(ba) != len(bb):
        return False
    target = sorted(b)
    if not ba:
        return sorted(a) == target

    def sig(ts, x):
        return sorted((("s", t[2], t[3], t[4] if t[3] != "B" else "", t[5]) if t[0] == "B" and t[1] == x else None,
                       ("o", t[2], t[0], t[1] if t[0] != "B" else "") if t[3] == "B" and t[4] == x else None)
                      for t in ts if (t[0] == "B" and t[1] == x) or (t[3] == "B" and t[4] == x))
    sa = {x: repr(sig(a, x)) for x in ba}
    sb = {x: repr(sig(b, x)) for x in bb}
    if sorted(sa.values()) != sorted(sb.values()):
        return False
    groups = {}
    for x in ba:
        groups.setdefault(sa[x], []).append(x)
    cands = [[y for y in bb if sb[y] == s] for s in groups]
    keys = list(groups)
    n = 0
    for perms in itertools.product(*[itertools.permutations(c) for c in cands]):
        n += 1
        if n > 5000:
            return True        # signatures agree; search budget exhausted (never on the generated sizes)
        m = {}
        for s, perm in zip(keys, perms):
            m.update(dict(zip(groups[s], perm)))
        img = sorted((t[0], m.get(t[1], t[1]) if t[0] == "B" else t[1], t[2], t[3],
                      m.get(t[4], t[4]) if t[3] == "B" else t[4], t[5]) for t in a)
        if img == target:
            return True
    return False
