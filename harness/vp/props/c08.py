"""C08 -- the extracted shapes do not depend on how the graph is delivered.

Theorems: Props/C08.v (partition invisible for line-compositional readers,
both passes see the same stream / independence of the blank-node renamings,
dispatch total on its domain, the TSV reader reads N-Triples semantics).

Oracle (metamorphic, written from the property text): for every generated
graph the canonical evidence (labels, instance counts, constraint keys,
cardinalities, figures, comments) of the real Shaper through every delivery
channel equals that of the raw N-Triples string; where two candidates tie
(pipespec.tie_root_causes) only the evidence sets are compared; blank-node
instances are compared only among the channels with stable labels.

Correspondence: Model.Channels (extracted) against the real yielders -- the
line readers (bounded-exhaustive over a byte alphabet), the TSV reader, the
factory's dispatch (every accepted combination), the conversion of rdflib
terms, and for every generated graph and line-based channel the whole stream
(both passes, with the yielders' counters) with the real single-document
reader plugged in as `read`; the pipeline over the two recorded streams
(Model.Channels.run_shexc2) against the real output.  Monitored assumptions:
codecs are the identity on content; what an rdflib channel delivers is a
permutation of the graph up to an injective blank-node renaming.
"""
import gzip
import itertools
import json
import lzma
import os
import random
import shutil
import signal
import time
import warnings
import zipfile

from vp import core, pipe, pipespec

PID = "C08"
TAU = pipe.RDF_TYPE
XSD = pipe.XSD
LANGSTRING = pipe.LANGSTRING
BASE = os.path.join(core.WORK, "c08")
TIMEOUT = 10.0

THEOREMS = ("C08_partition_invisible(_file,_zip,_zips,_tsv), C08_tsv_line_compositional, C08_both_passes_same, "
            "C08_same_stream_single_graph, C08_renamings_invisible_partial, C08_feature_pass_same_ids, "
            "C08_dispatch_total, C08_tsv_reads_nt_semantics, C08_tsv_channel_kinded, C08_channel_independent_lines, "
            "C08_tsv_channel_independent, C08_rdflib_counts_invariant (Props/C08.v)")


_RUN_ID = None


def workdir():
    """work/c08/<pid of the check>/<pid of the worker>: removed as a whole when the run ends"""
    d = os.path.join(BASE, _RUN_ID or str(os.getpid()), str(os.getpid()))
    os.makedirs(d, exist_ok=True)
    return d


# --------------------------------------------------------------------------
# abstract graphs
# --------------------------------------------------------------------------

CONTENTS = ["two words", "café", "x-y_z", "semi;colon", "1a"]
# literal VALUES whose lexical form needs escapes (quote, backslash): the text renderings write backslash-quote and two backslashes (esc_lex),
# the rdflib terms / JSON-LD carry the value itself
ESCAPED_CONTENTS = ['say "hi"', '{"a": "b\\\\c"}', '<a href="x">y</a>', "a\\b", '"', "\\", 'x\\"y', "end\\", '""',
                    'q"@en', 'q"^^<http://ex.org/o>', 'a "b" . c', '"^^', 'x" .', 'a\\"', '# "x"', 'a "#b" c',
                    '{"k": ["v", "w"]}', '<p class="c">é "q"</p>']
RDF_NS = "http://www.w3.org/1999/02/22-rdf-syntax-ns#"
TYPED_DTS = [RDF_NS + "JSON", RDF_NS + "HTML", "http://ex.org/dt", "http://ex.org/types#custom"]


def gen_case_graph(r, i):
    """pipe.gen_graph plus richer literal contents; three streams:
    0 IRI instances only, 1 blank-node instances allowed, 2 IRI instances with a plain literal holding '@',
    3 IRI instances, literals (plain, tagged, TYPED: rdf:JSON, rdf:HTML, custom) whose lexical forms hold escaped
    quotes / backslashes, one of them planted on the instances of a class"""
    ns = ("http://ex.org/", "http://other.org/ns#") if i % 4 == 0 else ("http://ex.org/",)
    ts = pipe.gen_graph(r, general=(i % 3 != 0), namespaces=ns)
    stream = (i % 7 == 3) and 1 or ((i % 11 == 5) and 2 or ((i % 5 == 2) and 3 or 0))
    out = []
    for s, p, o in ts:
        if o[0] == "L":
            # well-typed lexical forms (rdflib's serialisers rewrite ill-typed numbers / dates)
            if o[2] == XSD + "integer":
                o = ("L", str(r.randint(0, 99)), o[2])
            elif o[2] == XSD + "date":
                o = ("L", "2020-01-%02d" % r.randint(1, 28), o[2])
            elif stream == 3 and r.random() < 0.6:
                o = ("L", r.choice(ESCAPED_CONTENTS)) + tuple(o[2:])
                if o[2] == "http://ex.org/dt":
                    o = (o[0], o[1], r.choice(TYPED_DTS))
            elif r.random() < 0.3:
                o = ("L", r.choice(CONTENTS)) + tuple(o[2:])
        out.append((s, p, o))
    ts = out
    if stream != 1:
        inst = {s[1] for s, p, o in ts if p == TAU and s[0] == "B"} | {o[1] for s, p, o in ts if p == TAU and o[0] == "B"}
        f = lambda x: ("I", "http://ex.org/bn_" + x[1][2:]) if x[0] == "B" and x[1] in inst else x
        ts = [(f(s), p, f(o)) for s, p, o in ts]
    if stream == 2:
        subj = [s for s, p, o in ts if p == TAU]
        if subj:
            ts = ts + [(r.choice(subj), "http://ex.org/mail", ("L", "user%d@ex.org" % r.randint(0, 9), XSD + "string"))]
    if stream == 3:
        by_class = {}
        for s, p, o in ts:
            if p == TAU and o[0] == "I":
                by_class.setdefault(o[1], []).append(s)
        if by_class:
            members = by_class[r.choice(sorted(by_class))]
            keep = [s for s in members if r.random() < 0.8] or members[:1]
            dt = r.choice(TYPED_DTS)
            ts = ts + [(s, "http://ex.org/payload", ("L", r.choice(ESCAPED_CONTENTS), dt)) for s in keep]
    seen, ded = set(), []
    for t in ts:
        if t not in seen:
            seen.add(t)
            ded.append(t)
    return ded, stream


def has_bnode_instance(ts):
    return any(p == TAU and s[0] == "B" for s, p, o in ts)


def has_at_plain(ts):
    return any(o[0] == "L" and o[2] == XSD + "string" and "@" in o[1] for s, p, o in ts)


def kinded(ts):
    """the model objects the N-Triples semantics gives: (sk, sid, p, ok, oid|'', datatype|'')"""
    out = []
    for s, p, o in ts:
        if o[0] == "L":
            out.append((s[0], s[1], p, "L", "", o[2]))
        else:
            out.append((s[0], s[1], p, o[0], o[1], ""))
    return out


# --------------------------------------------------------------------------
# renderings
# --------------------------------------------------------------------------

def esc_lex(v):
    """the lexical form as N-Triples / Turtle write it inside "...": backslash and quote escaped (ECHAR)"""
    return v.replace("\\", "\\\\").replace('"', '\\"')


def esc_ts(ts):
    """the abstract graph with every literal VALUE replaced by its escaped lexical form (what the text renderings of
    pipe.nt_term / ttl_term put between the quotes); rdflib terms and JSON-LD are built from the values themselves"""
    return [(s, p, (("L", esc_lex(o[1])) + tuple(o[2:])) if o[0] == "L" and ('"' in o[1] or "\\" in o[1]) else o)
            for s, p, o in ts]


def nt_doc(ts):
    """the raw N-Triples document of the graph (the reference channel)"""
    return pipe.nt_doc(esc_ts(ts))


def tsv_doc(ts):
    return "".join("%s\t<%s>\t%s\n" % (pipe.nt_term(s), p, pipe.nt_term(o)) for s, p, o in esc_ts(ts))


TTL_PREFIXES = [("ex", "http://ex.org/"), ("oth", "http://other.org/ns#"), ("xsd", XSD)]


def _ttl_iri(u):
    for p, ns in TTL_PREFIXES:
        if u.startswith(ns) and u[len(ns):].replace("_", "").isalnum():
            return "%s:%s" % (p, u[len(ns):])
    return "<%s>" % u


def ttl_term(x):
    if x[0] == "I":
        return _ttl_iri(x[1])
    if x[0] == "B":
        return x[1]
    if x[2] == XSD + "string":
        return '"%s"' % x[1]
    if x[2] == LANGSTRING:
        return '"%s"@%s' % (x[1], x[3] if len(x) > 3 else "en")
    if x[2].startswith(XSD):
        return '"%s"^^xsd:%s' % (x[1], x[2][len(XSD):])
    return '"%s"^^<%s>' % (x[1], x[2])


def ttl_doc(ts):
    """the dialect of the streaming reader: prefix header, one triple per line"""
    head = "".join("@prefix %s: <%s> .\n" % (p, ns) for p, ns in TTL_PREFIXES)
    return head + "".join("%s %s %s .\n" % (ttl_term(s), "a" if p == TAU else _ttl_iri(p), ttl_term(o))
                          for s, p, o in esc_ts(ts))


def rdflib_graph(ts):
    import rdflib
    g = rdflib.Graph()
    g.bind("ex", "http://ex.org/")
    g.bind("oth", "http://other.org/ns#")

    def term(x):
        if x[0] == "I":
            return rdflib.URIRef(x[1])
        if x[0] == "B":
            return rdflib.BNode(x[1][2:])
        if x[2] == XSD + "string":
            return rdflib.Literal(x[1])
        if x[2] == LANGSTRING:
            return rdflib.Literal(x[1], lang=x[3] if len(x) > 3 else "en")
        return rdflib.Literal(x[1], datatype=rdflib.URIRef(x[2]))
    for s, p, o in ts:
        g.add((term(s), rdflib.URIRef(p), term(o)))
    return g


RDFLIB_FORMATS = {"turtle": "turtle", "xml": "xml", "json-ld": "json-ld", "n3": "n3", "nt": "nt"}


def jsonld_text(ts):
    """flattened, expanded JSON-LD written here (rdflib 6.0.2's JSON-LD serialiser drops blank-node cycles)"""
    nodes = {}
    for s, p, o in ts:
        node = nodes.setdefault(s[1], {"@id": s[1]})
        if o[0] in "IB":
            v = {"@id": o[1]}
        elif o[2] == XSD + "string":
            v = {"@value": o[1]}
        elif o[2] == LANGSTRING:
            v = {"@value": o[1], "@language": o[3] if len(o) > 3 else "en"}
        else:
            v = {"@value": o[1], "@type": o[2]}
        node.setdefault(p, []).append(v)
    return json.dumps(list(nodes.values()), indent=1, ensure_ascii=False)


class LossySerialisation(Exception):
    pass


def rdflib_text(ts, fmt):
    """the document rdflib writes for the graph; checked to denote the graph (a harness precondition)"""
    import rdflib
    if fmt == "json-ld":
        out = jsonld_text(ts)
    else:
        out = rdflib_graph(ts).serialize(format=RDFLIB_FORMATS[fmt])
        out = out.decode("utf-8") if isinstance(out, bytes) else out
    back = rdflib.Graph().parse(data=out, format=RDFLIB_FORMATS[fmt])
    if len(back) != len(set(ts)):
        raise LossySerialisation(fmt)
    return out


def partition(items, r, kmax=4, allow_empty=True):
    k = r.randint(1, kmax)
    cuts = sorted(r.randint(0, len(items)) for _ in range(k - 1))
    parts = [items[a:b] for a, b in zip([0] + cuts, cuts + [len(items)])]
    if not allow_empty:
        parts = [p for p in parts if p] or [[]]
    return parts


# --------------------------------------------------------------------------
# files
# --------------------------------------------------------------------------

def write_stored(path, data, cm):
    """data: bytes of the document; cm in (None, 'gz', 'xz'); returns the stored bytes"""
    if cm is None:
        with open(path, "wb") as f:
            f.write(data)
    elif cm == "gz":
        with gzip.open(path, "wb") as f:
            f.write(data)
    elif cm == "xz":
        with lzma.open(path, "wb") as f:
            f.write(data)
    else:
        raise ValueError(cm)
    with open(path, "rb") as f:
        return f.read()


def write_zip(path, members):
    with zipfile.ZipFile(path, "w") as z:
        for name, data in members:
            z.writestr(name, data)
    with open(path, "rb") as f:
        return f.read()


# --------------------------------------------------------------------------
# channels
# --------------------------------------------------------------------------

LINE_FAMILIES = {"nt": "nt", "tsv_spo": "tsv", "turtle_iter": "ttl"}
CHANNELS = [
    # name, input_format, compression, layout
    ("nt_raw", "nt", None, "raw"),
    ("nt_raw_nofinalnl", "nt", None, "raw-nonl"),
    ("nt_raw_zipmode", "nt", "zip", "raw"),
    ("nt_file", "nt", None, "file"),
    ("nt_file_blankline", "nt", None, "file-blank"),
    ("nt_gz", "nt", "gz", "file"),
    ("nt_gz_nofinalnl", "nt", "gz", "file-nonl"),
    ("nt_xz", "nt", "xz", "file"),
    ("nt_zip", "nt", "zip", "zip1"),
    ("nt_files", "nt", None, "files"),
    ("nt_files_gz", "nt", "gz", "files"),
    ("nt_zip_members", "nt", "zip", "zipn"),
    ("nt_zips", "nt", "zip", "zips"),
    ("nt_zip_nested", "nt", "zip", "zipn-nested"),
    ("nt_zips_nested", "nt", "zip", "zips-nested"),
    ("tsv_raw", "tsv_spo", None, "raw"),
    ("tsv_file", "tsv_spo", None, "file"),
    ("tsv_file_blankline", "tsv_spo", None, "file-blank"),
    ("tsv_xz", "tsv_spo", "xz", "file"),
    ("tsv_files", "tsv_spo", None, "files"),
    ("tsv_zip_members", "tsv_spo", "zip", "zipn"),
    ("tsv_zip_nested", "tsv_spo", "zip", "zipn-nested"),
    ("ttli_raw", "turtle_iter", None, "raw"),
    ("ttli_file", "turtle_iter", None, "file"),
    ("ttli_gz", "turtle_iter", "gz", "file"),
    ("ttli_files", "turtle_iter", None, "files"),
    ("turtle_file", "turtle", None, "file"),
    ("turtle_raw", "turtle", None, "raw"),
    ("turtle_raw_gzmode", "turtle", "gz", "raw"),
    ("turtle_gz", "turtle", "gz", "file"),
    ("turtle_files", "turtle", None, "files"),
    ("turtle_zip_members", "turtle", "zip", "zipn"),
    ("turtle_zip_nested", "turtle", "zip", "zipn-nested"),
    ("xml_file", "xml", None, "file"),
    ("jsonld_file", "json-ld", None, "file"),
    ("n3_file", "n3", None, "file"),
    ("nt_url", "nt", None, "url"),
    ("turtle_url", "turtle", None, "url"),
    ("turtle_urls", "turtle", None, "urls"),
    ("rdflib_graph", "nt", None, "graph"),
    ("rdflib_graph_zipmode", "nt", "zip", "graph"),
]
STABLE = {"nt", "tsv_spo", "turtle_iter"}      # + the rdflib Graph object


def channel_is_stable(ch):
    return ch[1] in STABLE and ch[3] not in ("url", "urls") or ch[3] == "graph"


def channel_is_line(ch):
    return ch[1] in LINE_FAMILIES and ch[3] not in ("url", "urls", "graph")


# documents with comment lines (finding C06-F9, root cause rc_comment_line): the text formats that have '#' comments get
# a comment line, a COMMENTED-OUT STATEMENT about an instance of the graph, and a blank line.  They state the same
# graph: every channel must give the evidence of the (undecorated) raw N-Triples reference.
_COMMENTS = [False]
COMMENTED_P = "http://ex.org/commentedOut"
COMMENTED_O = "http://ex.org/CommentedOut"


def commented_out(fmt, ts):
    """the lines put in front of a document of `ts`"""
    subj = next((s for s, p, o in ts if p == TAU and s[0] == "I"), None) or ("I", "http://ex.org/nobody")
    st = (subj, COMMENTED_P, ("I", COMMENTED_O))
    if fmt == "tsv_spo":
        line = "# " + tsv_doc([st])
    elif fmt == "nt":
        line = "# " + nt_doc([st])
    else:
        line = "# %s <%s> <%s> .\n" % (pipe.nt_term(subj), COMMENTED_P, COMMENTED_O)
    return "# a comment line\n" + line + "\n"


def doc_for(fmt, ts):
    head = commented_out(fmt, ts) if (_COMMENTS[0] and fmt in ("nt", "tsv_spo", "turtle_iter", "turtle", "n3")) else ""
    if fmt == "nt":
        return head + nt_doc(ts)
    if fmt == "tsv_spo":
        return head + tsv_doc(ts)
    if fmt == "turtle_iter":
        return head + ttl_doc(ts)
    return head + rdflib_text(ts, fmt)


def build_channel(ch, ts, r, d):
    """writes the files of one channel; returns {'kw': Shaper source kwargs, 'src': model source rows, ...}"""
    name, fmt, cm, layout = ch
    # "-nested": the archive of a zipped folder -- a directory entry first (namelist() lists it; opening it
    # gives an empty member) and members whose names hold '/'
    nested = layout.endswith("-nested")
    layout = layout[:-len("-nested")] if nested else layout
    ext = {"nt": "nt", "tsv_spo": "tsv", "turtle_iter": "ttl", "turtle": "ttl", "xml": "xml", "json-ld": "json",
           "n3": "n3"}[fmt]
    info = {"name": name, "fmt": fmt, "cm": cm, "layout": layout, "gz": [], "xz": [], "zip": [], "pieces": []}
    kw = {"input_format": fmt}
    if cm is not None:
        kw["compression_mode"] = cm
    parts_ok = layout in ("files", "zipn", "zips", "urls")
    if parts_ok:
        parts = partition(ts, r, 4, allow_empty=(fmt in ("nt", "tsv_spo")))
        if nested and len(parts) == 1 and len(ts) > 1:
            parts = [ts[:len(ts) // 2], ts[len(ts) // 2:]]
    else:
        parts = [ts]
    docs = [doc_for(fmt, p).encode("utf-8") for p in parts]
    info["parts"] = [len(p) for p in parts]
    info["part_triples"] = parts

    def stored_file(i, data, cmode):
        path = os.path.join(d, "%s_%d.%s%s" % (name, i, ext, "" if cmode is None else "." + cmode))
        st = write_stored(path, data, cmode)
        if cmode in ("gz", "xz"):
            info[cmode].append((st, data))
        return path, st

    if layout == "raw":
        kw["raw_graph"] = docs[0].decode("utf-8")
        info["kind"], info["src"] = "raw", [docs[0]]
        info["pieces"] = [("raw", docs[0])]
    elif layout == "raw-nonl":
        doc = docs[0][:-1] if docs[0].endswith(b"\n") else docs[0]
        kw["raw_graph"] = doc.decode("utf-8")
        info["kind"], info["src"] = "raw", [doc]
        info["pieces"] = [("raw", doc)]
    elif layout == "file-blank":
        lines = docs[0].split(b"\n")
        j = r.randint(0, max(0, len(lines) - 1))
        doc = b"\n".join(lines[:j] + [r.choice([b"", b"  ", b"\t"])] + lines[j:])
        path, st = stored_file(0, doc, cm)
        kw["graph_file_input"] = path
        info["kind"], info["src"] = "file", [st]
        info["pieces"] = [("text", doc)]
    elif layout == "file-nonl":
        doc = docs[0][:-1] if docs[0].endswith(b"\n") else docs[0]
        path, st = stored_file(0, doc, cm)
        kw["graph_file_input"] = path
        info["kind"], info["src"] = "file", [st]
        info["pieces"] = [("text" if cm is None else "bytes", doc)]
    elif layout == "file":
        path, st = stored_file(0, docs[0], cm)
        kw["graph_file_input"] = path
        info["kind"], info["src"] = "file", [st]
        info["pieces"] = [("text" if cm is None else "bytes", docs[0])]
    elif layout == "files":
        paths = []
        info["src"] = []
        for i, data in enumerate(docs):
            path, st = stored_file(i, data, cm)
            paths.append(path)
            info["src"].append(st)
            info["pieces"].append(("text" if cm is None else "bytes", data))
        kw["graph_list_of_files_input"] = paths
        info["kind"] = "files"
    elif layout in ("zip1", "zipn"):
        members = [("m%d.%s" % (i, ext), data) for i, data in enumerate(docs)]
        if nested:
            members = [("graph/", b"")] + [(("graph/sub/" if i % 2 else "graph/") + nm, data)
                                           for i, (nm, data) in enumerate(members)]
            if r.random() < 0.5:         # a flat member next to the folder
                members[1] = (members[1][0].split("/")[-1], members[1][1])
        path = os.path.join(d, "%s.zip" % name)
        st = write_zip(path, members)
        info["zip"].append((st, members))
        if r.random() < 0.5:
            kw["graph_file_input"] = path
            info["kind"], info["src"] = "file", [st]
        else:
            kw["graph_list_of_files_input"] = [path]
            info["kind"], info["src"] = "files", [st]
        info["pieces"] = [("bytes", data) for _, data in members]
    elif layout == "zips":
        # several archives, each with several members
        groups = partition(list(range(len(docs))), r, 3, allow_empty=True)
        paths, info["src"] = [], []
        for gi, grp in enumerate(groups):
            members = [("a%d_m%d.%s" % (gi, i, ext), docs[i]) for i in grp]
            if nested:
                members = [("d%d/" % gi, b"")] + [("d%d/%s" % (gi, nm), data) for nm, data in members]
            path = os.path.join(d, "%s_%d.zip" % (name, gi))
            st = write_zip(path, members)
            info["zip"].append((st, members))
            paths.append(path)
            info["src"].append(st)
            info["pieces"] += [("bytes", data) for _, data in members]
        kw["graph_list_of_files_input"] = paths
        info["kind"] = "files"
    elif layout == "url":
        path, st = stored_file(0, docs[0], None)
        kw["url_graph_input"] = "file://" + path
        info["kind"], info["src"] = "url", [st]
    elif layout == "urls":
        urls = []
        for i, data in enumerate(docs):
            path, st = stored_file(i, data, None)
            urls.append("file://" + path)
        kw["list_of_url_input"] = urls
        info["kind"], info["src"] = "urls", []
    elif layout == "graph":
        kw["rdflib_graph"] = rdflib_graph(ts)
        kw.pop("input_format")
        info["kind"], info["src"] = "graph", []
    info["kw"] = kw
    info["n"] = len(docs)
    return info


# --------------------------------------------------------------------------
# the real code, with the two yielders recorded
# --------------------------------------------------------------------------

class Hang(Exception):
    pass


def _alarm(signum, frame):
    raise Hang()


def guarded(fn, *a, **k):
    old = signal.signal(signal.SIGALRM, _alarm)
    signal.setitimer(signal.ITIMER_REAL, TIMEOUT)
    try:
        return fn(*a, **k)
    finally:
        signal.setitimer(signal.ITIMER_REAL, 0)
        signal.signal(signal.SIGALRM, old)


def tup(t):
    s, p, o = t

    def f(x):
        n = type(x).__name__
        if n == "Literal":
            return ("L", str(x), x.elem_type)
        return ("I" if n == "IRI" else "B", x.iri, "")
    a, b = f(s), f(o)
    return (a[0], a[1], str(p), b[0], b[1], b[2])


_LOG = []


class Recorder(object):
    def __init__(self, inner):
        self._inner = inner

    def yield_triples(self, *a, **k):
        rec = {"cls": type(self._inner).__name__, "triples": [], "done": False}
        _LOG.append(rec)
        for t in self._inner.yield_triples(*a, **k):
            rec["triples"].append(tup(t))
            yield t
        rec["done"] = True
        rec["yielded"] = self._inner.yielded_triples
        rec["errors"] = self._inner.error_triples

    def __getattr__(self, name):
        return getattr(self._inner, name)


_PATCHED = False


def patch_factories():
    global _PATCHED
    if _PATCHED:
        return
    import shexer.utils.factories.instance_tracker_factory as itf
    import shexer.utils.factories.class_profiler_factory as cpf
    from shexer.utils.factories.triple_yielders_factory import get_triple_yielder as real

    def rec_get(*a, **k):
        return Recorder(real(*a, **k))
    itf.get_triple_yielder = rec_get
    cpf.get_triple_yielder = rec_get
    _PATCHED = True


def exc_name(e):
    import traceback
    frames = [f for f in traceback.extract_tb(e.__traceback__) if "/shexer/" in f.filename]
    where = "%s:%s" % (frames[-1].filename.split("/shexer/")[-1], frames[-1].name) if frames else ""
    return type(e).__name__, where


def real_shaper(src_kw, cfg):
    """-> (('ok', text) | ('err', class, where), recorded passes)"""
    from shexer.shaper import Shaper
    warnings.filterwarnings("ignore")
    patch_factories()
    del _LOG[:]
    kw = pipe.shaper_kwargs(cfg)
    kw.update(src_kw)
    k, m = cfg["thr"]
    try:
        def go():
            sh = Shaper(**kw)
            return sh.shex_graph(string_output=True, acceptance_threshold=(k / m))
        text = guarded(go)
        res = ("ok", text)
    except Hang:
        res = ("err", "Hang", "")
    except Exception as e:  # noqa: BLE001
        res = ("err",) + exc_name(e)
    return res, [dict(r) for r in _LOG]


class ListLineReader(object):
    def __init__(self, lines):
        self._lines = lines

    def read_lines(self):
        return iter(self._lines)


def real_read(family, lines):
    """the real single-document reader on the lines a line reader delivers"""
    from shexer.io.graph.yielder.nt_triples_yielder import NtTriplesYielder
    from shexer.io.graph.yielder.tsv_nt_triples_yielder import TsvNtTriplesYielder
    from shexer.io.graph.yielder.big_ttl_triples_yielder import BigTtlTriplesYielder
    cls = {"nt": NtTriplesYielder, "tsv": TsvNtTriplesYielder, "ttl": BigTtlTriplesYielder}[family]
    try:
        def go():
            y = cls(source_file=None, raw_graph="", allow_untyped_numbers=True)
            y._line_reader = ListLineReader(lines)
            ts = [tup(t) for t in y.yield_triples()]
            return ("ok", y.yielded_triples, y.error_triples, ts)
        return guarded(go)
    except Hang:
        return ("Hang",)
    except Exception as e:  # noqa: BLE001
        return (type(e).__name__,)


def real_yielder(info):
    """what get_triple_yielder(...) of the real factory delivers for the channel's source"""
    from shexer.utils.factories.triple_yielders_factory import get_triple_yielder
    kw = dict(info["kw"])
    tr = {"graph_file_input": "source_file", "graph_list_of_files_input": "list_of_source_files",
          "url_graph_input": "url_input"}
    kw = {tr.get(k, k): v for k, v in kw.items()}
    kw["allow_untyped_numbers"] = True
    try:
        def go():
            y = get_triple_yielder(**kw)
            ts = [tup(t) for t in y.yield_triples()]
            return ("ok", type(y).__name__, y.yielded_triples, y.error_triples, ts)
        return guarded(go)
    except Hang:
        return ("err", "Hang")
    except Exception as e:  # noqa: BLE001
        return ("err", type(e).__name__)


# --------------------------------------------------------------------------
# the model
# --------------------------------------------------------------------------

_MB = None


def mb():
    """one model process per OS process (a forked worker must not share its parent's pipe)"""
    global _MB
    if _MB is None or _MB[0] != os.getpid():
        _MB = (os.getpid(), core.ModelBin())
    return _MB[1]


def _opt(x):
    return "N" if x is None else "S" + x


def model_lines(pieces):
    """pieces: [(reader, bytes)] -> per piece ('ok', [line bytes]) | ('err', name)"""
    out = mb().call("c08_lines", [[rd, data] for rd, data in pieces], raw=True)
    return [("ok", row[1:]) if row[0] == b"ok" else ("err", row[1].decode()) for row in out]


def rd_row(lines, rr):
    """an 'rd' row of c08_channel: what the real reader gave for these lines"""
    if rr[0] != "ok":
        return ["rd", rr[0], "0", "0", str(len(lines))] + list(lines)
    flat = []
    for t in rr[3]:
        flat += [t[0], t[1], t[2], t[3], t[4], t[5]]
    return ["rd", "ok", str(rr[1]), str(rr[2]), str(len(lines))] + list(lines) + flat


def parse_rd_rows(rows):
    if rows[0][0] == "err":
        return ("err", rows[0][1])
    ts = [(r[1], r[2], r[4], r[5], r[6], r[7]) for r in rows[1:]]      # r = t sk sa sb p ok oa ob
    return ("ok", int(rows[0][1]), int(rows[0][2]), ts)


def model_channel(info, family):
    """the model's channel with the real reader plugged in -> (class | err, rd)"""
    lines = model_lines(info["pieces"])
    table = [["cfg", info["fmt"], _opt(info["cm"]), info["kind"]], ["src"] + list(info["src"])]
    for st, data in info["gz"]:
        table.append(["gz", st, data])
    for st, data in info["xz"]:
        table.append(["xz", st, data])
    for st, members in info["zip"]:
        table.append(["zip", st] + [x for nm, data in members for x in (nm, data)])
    seen = set()
    for ln in lines:
        if ln[0] != "ok":
            continue
        key = tuple(ln[1])
        if key in seen:
            continue
        seen.add(key)
        rr = real_read(family, [b.decode("utf-8", "surrogateescape") for b in ln[1]])
        table.append(rd_row(ln[1], rr))
    out = mb().call("c08_channel", table)
    cls = out[0]
    return (cls[0], cls[1]), parse_rd_rows(out[1:])


def model_run2(g1, g2, cfg):
    """Model.Channels.run_shexc2 over the two recorded streams (tuples as tup())"""
    t = pipe.model_table([], cfg)
    for tag, g in (("T", g1), ("U", g2)):
        for sk, sid, p, ok, oa, ob in g:
            t.append([tag, sk, sid, p, ok, oa, ob])
    row = mb().call("c08_run2", t)[0]
    if row[0] == "ok":
        return ("ok", pipe.shim(row[1], cfg["decimals"]))
    return ("err", row[1])


# --------------------------------------------------------------------------
# oracle
# --------------------------------------------------------------------------

def evidence(res, cfg):
    if res[0] != "ok":
        return None
    return pipespec.evidence_of(pipe.canon(res[1]), cfg["tau"])


def compare_evidence(e_ref, e_ch, rcs, cfg):
    """-> list of descriptions of differences the property does not allow"""
    out = []
    if e_ref["labels"] != e_ch["labels"]:
        out.append("shapes / instance counts differ: %r vs %r" % (e_ref["labels"], e_ch["labels"]))
    if e_ref["keys"] != e_ch["keys"]:
        d = [(k, sorted(e_ref["keys"].get(k, set()) ^ e_ch["keys"].get(k, set()))[:2])
             for k in set(e_ref["keys"]) | set(e_ch["keys"]) if e_ref["keys"].get(k) != e_ch["keys"].get(k)]
        out.append("constraint keys differ: %r" % (d[:2],))
    card_tie = "rc_cardinality_tie" in rcs and not cfg["keep_less_specific"]
    if e_ref["facts"] != e_ch["facts"] and not ("rc_reference_tie" in rcs or card_tie):
        d = sorted(set(e_ref["facts"].items()) ^ set(e_ch["facts"].items()), key=repr)[:2]
        out.append("reported figures / comments differ: %r" % (d,))
    if e_ref["chosen"] != e_ch["chosen"] and not ("rc_kind_tie" in rcs or "rc_reference_tie" in rcs or card_tie):
        d = [(k, sorted(e_ref["chosen"][k] ^ e_ch["chosen"].get(k, set()), key=repr)[:2]) for k in e_ref["chosen"]
             if e_ref["chosen"][k] != e_ch["chosen"].get(k)]
        out.append("chosen constraints / cardinalities differ without a tie: %r" % (d[:1],))
    return out


def canon_stream(ts):
    """sorted tuples with blank nodes replaced by a canonical name derived from a stable signature
    (iterated: good enough for the small generated graphs), literal contents dropped"""
    ts = [(t[0], t[1], t[2], t[3], "" if t[3] == "L" else t[4], t[5]) for t in ts]
    return sorted(ts)


def same_up_to_bnodes(a, b):
    """is b a permutation of a up to an injective renaming of blank nodes?  (search, small graphs)"""
    a = [(t[0], t[1], t[2], t[3], "" if t[3] == "L" else t[4], t[5]) for t in a]
    b = [(t[0], t[1], t[2], t[3], "" if t[3] == "L" else t[4], t[5]) for t in b]
    if len(a) != len(b):
        return False
    ba = sorted({t[1] for t in a if t[0] == "B"} | {t[4] for t in a if t[3] == "B"})
    bb = sorted({t[1] for t in b if t[0] == "B"} | {t[4] for t in b if t[3] == "B"})
    if len(ba) != len(bb):
        return False
    target = sorted(b)
    if not ba:
        return sorted(a) == target

    def sig(ts, x):
        return sorted(((("s", t[2], t[3], t[4] if t[3] != "B" else "", t[5]) if t[0] == "B" and t[1] == x else None,
                        ("o", t[2], t[0], t[1] if t[0] != "B" else "") if t[3] == "B" and t[4] == x else None)
                      for t in ts if (t[0] == "B" and t[1] == x) or (t[3] == "B" and t[4] == x)), key=repr)
    sa = {x: repr(sig(a, x)) for x in ba}
    sb = {x: repr(sig(b, x)) for x in bb}
    if sorted(sa.values()) != sorted(sb.values()):
        return False
    groups = {}
    for x in ba:
        groups.setdefault(sa[x], []).append(x)
    cands = [[y for y in bb if sb[y] == s] for s in groups]
    keys = list(groups)
    n = 0
    for perms in itertools.product(*[itertools.permutations(c) for c in cands]):
        n += 1
        if n > 5000:
            return True        # signatures agree; search budget exhausted (never on the generated sizes)
        m = {}
        for s, perm in zip(keys, perms):
            m.update(dict(zip(groups[s], perm)))
        img = sorted((t[0], m.get(t[1], t[1]) if t[0] == "B" else t[1], t[2], t[3],
                      m.get(t[4], t[4]) if t[3] == "B" else t[4], t[5]) for t in a)
        if img == target:
            return True
    return False


# --------------------------------------------------------------------------
# bounded-exhaustive correspondences of the plumbing
# --------------------------------------------------------------------------

BYTE_ALPHABET = [b"a", b" ", b"\n", b"\r", b"\t", b"\xc3", b"\xa9", b"\xe0", b"\xa0", b"\xed"]
CHAR_ALPHABET = ["a", " ", "\n", "\r", "\t", "é", "."]


def _real_lines(kind, data, path):
    """('ok', [bytes]) | ('err', name) from the real line reader"""
    from shexer.io.line_reader.file_line_reader import FileLineReader
    from shexer.io.line_reader.raw_string_line_reader import RawStringLineReader
    from shexer.io.line_reader.gz_line_reader import GzFileLineReader
    from shexer.io.line_reader.xz_line_reader import XzFileLineReader
    from shexer.io.line_reader.zip_file_line_reader import ZipFileLineReader
    try:
        if kind == "raw":
            lr = RawStringLineReader(raw_string=data.decode("utf-8"))
        elif kind == "text":
            with open(path, "wb") as f:
                f.write(data)
            lr = FileLineReader(source_file=path)
        elif kind == "gz":
            with gzip.open(path, "wb") as f:
                f.write(data)
            lr = GzFileLineReader(gz_file=path)
        elif kind == "xz":
            with lzma.open(path, "wb") as f:
                f.write(data)
            lr = XzFileLineReader(xz_file=path)
        else:
            with zipfile.ZipFile(path, "w") as z:
                z.writestr("m", data)
            lr = ZipFileLineReader(zip_archive=zipfile.ZipFile(path, "r"), zip_target="m")
        return ("ok", [ln.encode("utf-8") for ln in lr.read_lines()])
    except UnicodeDecodeError:
        return ("err", "UnicodeDecodeError")
    except Exception as e:  # noqa: BLE001
        return ("err", type(e).__name__)


def _lines_chunk(chunk):
    d = workdir()
    path = os.path.join(d, "lr_%d" % os.getpid())
    out = []
    model = model_lines([({"raw": "raw", "text": "text"}.get(k, "bytes"), data) for k, data in chunk])
    for (k, data), m in zip(chunk, model):
        r = guarded(_real_lines, k, data, path)
        if r != (m[0], m[1] if m[0] == "err" else list(m[1])):
            out.append({"reader": k, "bytes": data.hex(), "impl": [r[0], [x.hex() for x in r[1]] if r[0] == "ok" else r[1]],
                        "model": [m[0], [x.hex() for x in m[1]] if m[0] == "ok" else m[1]]})
    return (len(chunk), out)


def check_line_readers(tier):
    n = 5 if tier == "thorough" else 4
    items = []
    for ln in range(n + 1):
        for tup_ in itertools.product(BYTE_ALPHABET, repeat=ln):
            data = b"".join(tup_)
            items.append(("text", data))
            items.append(("gz", data))
            if ln <= 3:
                items.append(("xz", data))
                items.append(("zip", data))
    for ln in range(n + 2):
        for tup_ in itertools.product(CHAR_ALPHABET, repeat=ln):
            items.append(("raw", "".join(tup_).encode("utf-8")))
    chunks = [items[i:i + 500] for i in range(0, len(items), 500)]
    res = core.pool_map(_lines_chunk, chunks, chunksize=1)
    bad = [b for _, bs in res for b in bs]
    return sum(n_ for n_, _ in res), bad


TSV_TOKENS = ["<http://e/a>", "<http://e/p>", "_:b1", '"x"', '"a b"@en', '"5"^^<http://www.w3.org/2001/XMLSchema#integer>',
              '"v"^^xsd:date', '"w"^^<http://e/dt>', "<http://e/a", "abc", "12", "1.50", "[]", "", '"q', " <http://e/s> ",
              '"a@b"', '"x"^^foo',
              # tokens on which the two texts of decide_literal_type differ (C06 repair B)
              '"a"^^<http://e/a@b>', '"^^"', '"xsd:"^^<http://e/dt>', '"xsd:int"^^xsd:string',
              '"5"^^<http://www.w3.org/2001/XMLSchema#integer>.', '"a"^^ <http://e/dt> ',
              # escaped quotes / backslashes inside the lexical form of a typed and of a tagged literal
              '"a\\"b"^^<http://e/dt>', '"x\\\\"@en']


def _tsv_real(line):
    rr = real_read("tsv", [line])
    if rr[0] == "ok":
        return ("ok", rr[1], rr[2], rr[3])
    return ("err", rr[0])


def _tsv_chunk(lines):
    out = mb().call("c08_tsv", [[ln] for ln in lines])
    bad = []
    i = 0
    for ln in lines:
        n = int(out[i][1])
        m = parse_rd_rows(out[i + 1:i + 1 + n])
        i += 1 + n
        r = _tsv_real(ln)
        if m != r:
            bad.append({"line": ln, "impl": r, "model": m})
    return (len(lines), bad)


def check_tsv_reader(tier, rnd):
    lines = []
    for a, b, c in itertools.product(TSV_TOKENS, repeat=3):
        lines.append("%s\t%s\t%s" % (a, b, c))
    for a, b in itertools.product(TSV_TOKENS, repeat=2):
        lines.append("%s\t%s" % (a, b))
        lines.append("%s\t%s\t<http://e/o>\t." % (a, b))
    for _ in range(3000 if tier == "thorough" else 600):
        k = rnd.choice([3, 3, 3, 1, 2, 4])
        toks = [rnd.choice(TSV_TOKENS) for _ in range(k)]
        lines.append(rnd.choice(["", " ", "\t"]) + "\t".join(toks) + rnd.choice(["", "\n", " \n", "\r\n", "\t"]))
    # blank lines and comment lines (c08_tsv_skips_comment_lines: skipped; otherwise split like any other line)
    lines += ["", " ", "\t", " \n", "# comment", "#", "  # x", "\t#\ty", "#a\tb\tc", "\t#\t\t", "# \t \t ",
              "# <http://e/s>\t<http://e/p>\t<http://e/o>", "#<http://e/s>\t<http://e/p>\t\"x\"@en\n",
              "<http://e/s>\t<http://e/p>\t\"# not a comment\"", "<http://e/s#a>\t<http://e/p>\t<http://e/o>"]
    lines += [rnd.choice(["#", "# ", " #", "\t# "]) + ln for ln in lines[:40]]
    chunks = [lines[i:i + 400] for i in range(0, len(lines), 400)]
    res = core.pool_map(_tsv_chunk, chunks, chunksize=1)
    bad = [b for _, bs in res for b in bs]
    # whole documents: the counters add up, an exception ends the stream
    docs = []
    good = [ln for ln in lines if _tsv_real(ln)[0] == "ok"][:4000]
    for _ in range(200 if tier == "thorough" else 60):
        docs.append([rnd.choice(good) if rnd.random() < 0.8 else rnd.choice(["", "  ", "# c", "# " + rnd.choice(good)])
                     for _ in range(rnd.randint(0, 6))])
    out = mb().call("c08_tsv", docs)
    i = 0
    for doc in docs:
        n = int(out[i][1])
        m = parse_rd_rows(out[i + 1:i + 1 + n])
        i += 1 + n
        rr = real_read("tsv", doc)
        r = ("ok", rr[1], rr[2], rr[3]) if rr[0] == "ok" else ("err", rr[0])
        if m != r:
            bad.append({"doc": doc, "impl": r, "model": m})
    return len(lines) + len(docs), bad


FORMATS_ALL = ["nt", "tsv_spo", "n3", "turtle", "xml", "json-ld", "turtle_iter", "bogus"]
COMPR_ALL = [None, "gz", "xz", "zip"]
KINDS_ALL = [("file", 1), ("files", 0), ("files", 1), ("files", 2), ("files", 3), ("raw", 0), ("url", 0), ("urls", 2),
             ("graph", 0)]
ERRMAP = {"ValueError": "ValueError", "TypeError": "TypeError"}


def check_dispatch():
    """every (format, compression, source kind): class of the yielder the real factory returns vs the model"""
    from shexer.utils.factories.triple_yielders_factory import get_triple_yielder
    import rdflib
    d = workdir()
    zp = os.path.join(d, "disp.zip")
    write_zip(zp, [("m0.nt", b""), ("m1.nt", b"")])
    plain = os.path.join(d, "disp.nt")
    with open(plain, "wb") as f:
        f.write(b"")
    g = rdflib.Graph()
    rows, real = [], []
    for fmt in FORMATS_ALL:
        for cm in COMPR_ALL:
            for kind, n in KINDS_ALL:
                path = zp if cm == "zip" else plain
                kw = {"input_format": fmt, "compression_mode": cm}
                if kind == "file":
                    kw["source_file"] = path
                elif kind == "files":
                    kw["list_of_source_files"] = [path] * n
                elif kind == "raw":
                    kw["raw_graph"] = ""
                elif kind == "url":
                    kw["url_input"] = "file://" + plain
                elif kind == "urls":
                    kw["list_of_url_input"] = ["file://" + plain] * n
                else:
                    kw["rdflib_graph"] = g
                try:
                    y = guarded(get_triple_yielder, **kw)
                    r = ["ok", type(y).__name__]
                except Exception as e:  # noqa: BLE001
                    r = ["err", type(e).__name__]
                rows.append([fmt, _opt(cm), kind, str(n)])
                real.append(r)
    model = mb().call("c08_dispatch", rows)
    bad = [{"combo": row, "impl": r, "model": m} for row, r, m in zip(rows, real, model) if r != m]
    dist = {}
    for r in real:
        dist[r[1]] = dist.get(r[1], 0) + 1
    return len(rows), bad, dist, list(zip(rows, real))


def check_rdflib_terms():
    import rdflib
    from shexer.io.graph.yielder.rdflib_triple_yielder import RdflibTripleYielder
    y = RdflibTripleYielder(rdflib_graph=rdflib.Graph())
    lexes = ["v", "two words", "a@b.org", "@", 'q"uote', 'x"^^y', '"^^xsd:int', 'a"^^<http://e/dt>', "", "café",
             'e"@en', "xsd:string", 'p"^^rdf:x', 'k"^^dt:second', 'g"^^geo:wkt']
    terms, rows = [], []
    for lex in lexes:
        for dt in (None, XSD + "string", XSD + "integer", "http://e/dt"):
            terms.append(rdflib.Literal(lex, datatype=rdflib.URIRef(dt)) if dt else rdflib.Literal(lex))
            rows.append(["L", lex, _opt(dt), "N"])
        for lang in ("en", "en-GB"):
            terms.append(rdflib.Literal(lex, lang=lang))
            rows.append(["L", lex, "N", _opt(lang)])
    terms += [rdflib.URIRef("http://e/a"), rdflib.BNode("b0"), rdflib.Variable("x")]
    rows += [["U", "http://e/a", "N", "N"], ["B", "b0", "N", "N"], ["O", "", "N", "N"]]
    real = []
    for t in terms:
        try:
            o = guarded(y._turn_rdflib_token_into_model_obj, t)
            n = type(o).__name__
            real.append(["ok", "L", str(o), o.elem_type] if n == "Literal" else ["ok", "I" if n == "IRI" else "B", o.iri, ""])
        except Exception as e:  # noqa: BLE001
            real.append(["err", type(e).__name__])
    model = mb().call("c08_rdftok", rows)
    bad = [{"term": row, "impl": r, "model": m} for row, r, m in zip(rows, real, model) if r != m]
    return len(rows), bad


# --------------------------------------------------------------------------
# one generated graph through every channel
# --------------------------------------------------------------------------

_KNOWN_RCS = set()        # root-cause tags of the findings listed as known (set by run() before the pool forks)


def nontrivial_graph(ts):
    sizes = pipe.class_sizes(ts, TAU)
    return bool(sizes) and max(sizes.values()) >= 2 and any(p != TAU for _, p, _ in ts)


def gen_case(seed, i):
    r = random.Random(seed)
    ts, stream = gen_case_graph(r, i)
    cfg = pipe.switch_cfg(i)
    cfg["thr"] = r.choice(pipe.thresholds_for(ts, r))
    if i % 5 == 1:
        cls = sorted(pipe.class_sizes(ts))
        if cls:
            cfg["all_classes"] = False
            cfg["targets"] = r.sample(cls, r.randint(1, len(cls)))
    if i % 6 == 2:
        cfg["ns"] = [("http://ex.org/", "ex")]
    # every 8th graph: the documents of the text formats carry comment lines and a commented-out statement
    return {"ts": ts, "cfg": cfg, "stream": stream, "seed": seed, "i": i, "comments": i % 8 == 6}


def run_case(case):
    """-> compact result of one graph through all channels"""
    from vp import pipeprops
    ts, cfg = case["ts"], case["cfg"]
    r = random.Random(case["seed"] ^ 0x5EED)
    d = os.path.join(workdir(), "case_%d" % case["i"])
    os.makedirs(d, exist_ok=True)
    out = {"i": case["i"], "runs": 0, "spec_fail": [], "known": {}, "corr_fail": [], "assume_fail": [],
           "tie_skipped": 0, "compared": 0, "excluded_bnode": 0, "corr_checked": 0, "run2_checked": 0,
           "monitored": 0, "outcomes": {}, "vm": []}
    _COMMENTS[0] = bool(case.get("comments"))
    try:
        ref, rec = real_shaper({"raw_graph": nt_doc(ts)}, cfg)
        out["runs"] += 1
        e_ref = evidence(ref, cfg)
        rcs = pipespec.tie_root_causes(ts, cfg)
        bn = has_bnode_instance(ts)
        at = has_at_plain(ts)
        kin = kinded(ts)
        for ch in CHANNELS:
            name = ch[0]
            try:
                info = build_channel(ch, ts, r, d)
            except LossySerialisation:
                out["outcomes"]["skipped: rdflib serialiser lossy"] = out["outcomes"].get("skipped: rdflib serialiser lossy", 0) + 1
                continue
            res, rec = real_shaper(info["kw"], cfg)
            out["runs"] += 1
            oc = res[0] if res[0] == "ok" else res[1]
            out["outcomes"][oc] = out["outcomes"].get(oc, 0) + 1
            stable = channel_is_stable(ch)
            line = channel_is_line(ch)
            # ---- (i) oracle: evidence of the channel == evidence of the raw N-Triples reference
            fails = []
            if (res[0] == "ok") != (ref[0] == "ok"):
                fails.append("outcome differs: reference %s, channel %s" % (ref[:2] if ref[0] != "ok" else "ok",
                                                                              res[:3] if res[0] != "ok" else "ok"))
            elif res[0] == "ok":
                if bn and not stable:
                    out["excluded_bnode"] += 1
                    if compare_evidence(e_ref, evidence(res, cfg), rcs, cfg) and "rc_bnode_relabel_per_pass" in _KNOWN_RCS:
                        out["known"]["rc_bnode_relabel_per_pass"] = out["known"].get("rc_bnode_relabel_per_pass", 0) + 1
                else:
                    out["compared"] += 1
                    # line-based channels deliver the reference's statement order: compared in full; the rdflib
                    # channels permute the statements: where candidates tie only the evidence sets are compared
                    if rcs and not line:
                        out["tie_skipped"] += 1
                    fails = compare_evidence(e_ref, evidence(res, cfg), set() if line else rcs, cfg)
            elif res[1] != ref[1]:
                fails.append("exception class differs: reference %s, channel %s" % (ref[1], res[1]))
            if fails:
                rc = None
                if _COMMENTS[0] and line and ch[1] in ("nt", "tsv_spo") and "rc_comment_line" in _KNOWN_RCS:
                    rc = "rc_comment_line"      # the commented-out statement was read as a statement
                elif ch[1] == "tsv_spo" and ch[3] == "file-blank" and res[0] == "err" and res[1] == "TypeError":
                    rc = "rc_tsv_discarded_line_crashes"
                elif at and not line:
                    rc = "rc_at_in_plain_literal"
                elif ch[2] is not None and ch[3] in ("raw", "graph") and res[0] == "err" and res[1] == "TypeError":
                    rc = "rc_zip_nonfile_source"
                if rc in _KNOWN_RCS:
                    out["known"][rc] = out["known"].get(rc, 0) + 1
                else:
                    out["spec_fail"].append({"channel": name, "what": fails[0][:600], "partition": info["parts"]})
            # ---- the graph is read twice by two independently built yielders
            if res[0] == "ok" and len(rec) != 2:
                out["corr_fail"].append({"channel": name, "what": "%d yielders were built, the model says 2" % len(rec)})
            # ---- (ii) correspondence, line-based channels: the whole stream with the real reader plugged in
            if line:
                fam = LINE_FAMILIES[ch[1]]
                (st, cls), mrd = model_channel(info, fam)
                ry = real_yielder(info)
                out["corr_checked"] += 1
                if ry[0] == "ok":
                    ok = (st == "cls" and cls == ry[1] and mrd[0] == "ok" and mrd[1] == ry[2] and mrd[2] == ry[3]
                          and mrd[3] == ry[4])
                else:
                    ok = mrd[0] == "err"
                if not ok:
                    out["corr_fail"].append({"channel": name, "what": "stream / counters / class of the yielder",
                                             "impl": [ry[0], ry[1]] + ([ry[2], ry[3], ry[4][:6]] if ry[0] == "ok" else []),
                                             "model": [st, cls, mrd[0]] + ([mrd[1], mrd[2], mrd[3][:6]] if mrd[0] == "ok" else [mrd[1]]),
                                             "partition": info["parts"]})
                elif mrd[0] == "ok":
                    for k_, p_ in enumerate(rec):
                        if p_["done"] and (p_["triples"] != mrd[3] or p_["cls"] != cls):
                            out["corr_fail"].append({"channel": name, "what": "pass %d of the Shaper saw another stream "
                                                     "than the model's channel" % (k_ + 1)})
                # monitored assumption: the codecs are the identity on content
                for st_, data in info["gz"]:
                    out["monitored"] += 1
                    if gzip.decompress(st_) != data:
                        out["assume_fail"].append({"channel": name, "what": "gunzip(stored) != content"})
                for st_, data in info["xz"]:
                    out["monitored"] += 1
                    if lzma.decompress(st_) != data:
                        out["assume_fail"].append({"channel": name, "what": "unxz(stored) != content"})
            else:
                # ---- monitored assumption, rdflib channels: a permutation of G up to an injective bnode renaming
                for k_, p_ in enumerate(rec):
                    if not p_["done"]:
                        continue
                    out["monitored"] += 1
                    if at and "rc_at_in_plain_literal" in _KNOWN_RCS:
                        continue        # while finding C08-F1 is open it changes the datatype on these channels
                    # several documents: each one is parsed on its own (its own permutation and renaming)
                    segs, pos, good = [], 0, sum(info["parts"]) == len(p_["triples"])
                    for part in info["part_triples"]:
                        segs.append((kinded(part), p_["triples"][pos:pos + len(part)]))
                        pos += len(part)
                    if not good or not all(same_up_to_bnodes(a_, b_) for a_, b_ in segs):
                        out["assume_fail"].append({"channel": name, "what": "pass %d did not deliver, document by document, "
                                                   "a permutation of the triples up to a blank-node renaming" % (k_ + 1),
                                                   "delivered": p_["triples"][:8], "expected": kin[:8]})
            # ---- the pipeline over the two recorded streams (Model.Channels.run_shexc2)
            if len(rec) == 2 and all(p_["done"] for p_ in rec) and res[0] == "ok":
                m2 = model_run2(rec[0]["triples"], rec[1]["triples"], cfg)
                out["run2_checked"] += 1
                if pipeprops.proj_figures(m2) != pipeprops.proj_figures(res):
                    out["corr_fail"].append({"channel": name, "what": "run_shexc2 over the two recorded streams differs "
                                             "from the Shaper's output", "model": list(m2)[:2], "impl": list(res)[:2]})
        out["nontrivial"] = nontrivial_graph(ts)
        out["doc"] = nt_doc(ts)
    except Exception as e:  # noqa: BLE001
        import traceback
        out["internal"] = "case %d crashed: %s %s" % (case["i"], type(e).__name__, traceback.format_exc()[-800:])
    finally:
        _COMMENTS[0] = False
        shutil.rmtree(d, ignore_errors=True)
    out["comments"] = 1 if case.get("comments") else 0
    return out



# --------------------------------------------------------------------------
# one big non-ASCII document through the file / compressed line channels
# --------------------------------------------------------------------------
# The small graphs never leave the first buffer of a reader.  This document is a few hundred KB long, its IRIs and
# literals are dense in 2-, 3- and 4-byte UTF-8 characters, and -- in the rendering of the channel's own format:
# one graph per format family, differing in the filler literals only -- a multi-byte character of the subject IRI of a
# typing statement straddles EVERY multiple of 64 KiB: a reader that decodes its input block by block sees both halves.  Oracle only for the Shaper runs (evidence of every channel == evidence of the raw string; the
# pipeline model is not run on 2 500 triples, and the extracted line-reader model needs minutes on 300 KB: neither
# takes part -- this is an implementation-against-implementation comparison, raw string vs file / compressed file).

BLOCK = 1 << 16
NON_ASCII = "ñéüßçλωЖдשע中文節点あア한€𝄞😀𐍈"
BIG_EX = "http://ex.org/"
BIG_CHANNELS = [
    ("nt_file", "nt", None, "file"), ("nt_gz", "nt", "gz", "file"), ("nt_xz", "nt", "xz", "file"),
    ("nt_zip", "nt", "zip", "zip1"), ("tsv_xz", "tsv_spo", "xz", "file"), ("tsv_file", "tsv_spo", None, "file"),
    ("ttli_gz", "turtle_iter", "gz", "file"), ("ttli_xz", "turtle_iter", "xz", "file"),
]


def _big_lines(fmt):
    """(bytes of the document's header, function: triples -> bytes of their lines) in the rendering of `fmt`"""
    if fmt == "nt":
        return 0, lambda ts: pipe.nt_doc(esc_ts(ts)).encode("utf-8")
    if fmt == "tsv_spo":
        return 0, lambda ts: tsv_doc(ts).encode("utf-8")
    head = len(ttl_doc([]).encode("utf-8"))
    return head, lambda ts: ttl_doc(ts).encode("utf-8")[head:]


def gen_big_graph(r, n_bytes=300000, fmt="nt"):
    """instances of three classes, names made of non-ASCII characters; filler statements (ASCII literal of the needed
    length) put, in the rendering of `fmt`, the first byte of the first non-ASCII character of an instance's typing
    statement before every multiple of BLOCK and the rest of the character after it"""
    head, lines = _big_lines(fmt)

    def word(lo, hi):
        return "".join(r.choice(NON_ASCII) for _ in range(r.randint(lo, hi)))
    classes = [("I", BIG_EX + "C" + word(3, 6)) for _ in range(3)]
    props = [BIG_EX + "p" + word(3, 8) for _ in range(4)]
    ts, size, k, inst, seen = [], head, 1, [], set()

    def add(t):
        nonlocal size
        if t in seen:
            return
        seen.add(t)
        ts.append(t)
        size += len(lines([t]))
    i = 0
    filler_base = len(lines([(("I", BIG_EX + "filler"), BIG_EX + "pad", ("L", "", XSD + "string"))]))
    while size < n_bytes:
        s = ("I", BIG_EX + word(3, 9) + "%d" % i)
        i += 1
        typing = (s, TAU, r.choice(classes))
        if k * BLOCK - size < 2500:
            first = next(j for j, b in enumerate(lines([typing])) if b >= 0x80)
            n = k * BLOCK - (first + 1) - size - filler_base
            add((("I", BIG_EX + "filler"), BIG_EX + "pad", ("L", ("%d" % k + "x" * n)[:n], XSD + "string")))
            k += 1
        add(typing)
        for p in props:
            for _ in range(r.choice([0, 1, 1, 2])):
                c = r.random()
                if c < 0.3:
                    o = ("L", word(2, 12) + " " + word(1, 5), XSD + "string")
                elif c < 0.45:
                    o = ("L", word(2, 12), LANGSTRING, r.choice(["es", "zh-Hant", "el"]))
                elif c < 0.6:
                    o = ("L", word(1, 6), BIG_EX + "dt" + word(2, 4))
                elif c < 0.8 and inst:
                    o = r.choice(inst)
                else:
                    o = ("I", BIG_EX + "u" + word(2, 6))
                add((s, p, o))
        inst.append(s)
    return ts


def straddled_boundaries(doc):
    """how many multiples of BLOCK fall inside a multi-byte character of the (bytes) document"""
    return sum(1 for b in range(BLOCK, len(doc), BLOCK) if doc[b] & 0xC0 == 0x80)


def run_big_case(case):
    """same result record as run_case"""
    global TIMEOUT
    cfg = case["cfg"]
    r = random.Random(case["seed"])
    d = os.path.join(workdir(), "big_%d" % case["i"])
    os.makedirs(d, exist_ok=True)
    out = {"i": case["i"], "runs": 0, "spec_fail": [], "known": {}, "corr_fail": [], "assume_fail": [],
           "tie_skipped": 0, "compared": 0, "excluded_bnode": 0, "corr_checked": 0, "run2_checked": 0,
           "monitored": 0, "outcomes": {}, "vm": [], "nontrivial": False, "comments": 0, "big": {}}
    old_timeout, TIMEOUT = TIMEOUT, 120.0
    try:
        graphs = {}
        for fmt_ in ("nt", "tsv_spo", "turtle_iter"):
            ts_ = gen_big_graph(random.Random(case["seed"]), case.get("bytes", 300000), fmt_)
            ref_, _ = real_shaper({"raw_graph": nt_doc(ts_)}, cfg)
            out["runs"] += 1
            graphs[fmt_] = (ts_, ref_, evidence(ref_, cfg))
        ts = graphs["nt"][0]
        raw = nt_doc(ts)
        data = raw.encode("utf-8")
        out["doc"] = raw[:400]
        out["big"] = {"triples": len(ts), "bytes": len(data), "block_boundaries": (len(data) - 1) // BLOCK,
                      "boundaries_inside_a_character": {}}
        for ch in BIG_CHANNELS:
            ts_, ref, e_ref = graphs[ch[1]]
            info = build_channel(ch, ts_, r, d)
            out["big"]["boundaries_inside_a_character"][ch[0]] = straddled_boundaries(info["pieces"][0][1])
            res, _ = real_shaper(info["kw"], cfg)
            out["runs"] += 1
            oc = res[0] if res[0] == "ok" else res[1]
            out["outcomes"][oc] = out["outcomes"].get(oc, 0) + 1
            fails = []
            if (res[0] == "ok") != (ref[0] == "ok"):
                fails.append("outcome differs: reference %s, channel %s" % (ref[:2] if ref[0] != "ok" else "ok",
                                                                              res[:3] if res[0] != "ok" else "ok"))
            elif res[0] == "ok":
                out["compared"] += 1
                fails = compare_evidence(e_ref, evidence(res, cfg), set(), cfg)
            elif res[1] != ref[1]:
                fails.append("exception class differs: reference %s, channel %s" % (ref[1], res[1]))
            if fails:
                out["spec_fail"].append({"channel": ch[0] + " (big non-ASCII document)", "what": fails[0][:600],
                                         "partition": info["parts"]})
            for cm_ in ("gz", "xz"):
                for st_, dat_ in info[cm_]:
                    out["monitored"] += 1
                    if (gzip if cm_ == "gz" else lzma).decompress(st_) != dat_:
                        out["assume_fail"].append({"channel": ch[0], "what": "decompress(stored) != content"})
        # the four file line readers on the bytes of the N-Triples document: the same lines (the extracted line-reader
        # model needs minutes on a document of this size: it is corresponded on short byte strings only, see
        # check_line_readers; this comparison is implementation against implementation)
        path = os.path.join(d, "lr")
        got = {k_: guarded(_real_lines, k_, data, path) for k_ in ("text", "gz", "xz", "zip")}
        base_ = [ln.rstrip(b"\r\n") for ln in got["text"][1]] if got["text"][0] == "ok" else None
        for k_ in ("gz", "xz", "zip"):
            out["monitored"] += 1
            mine = [ln.rstrip(b"\r\n") for ln in got[k_][1]] if got[k_][0] == "ok" else None
            if mine != base_:
                j = next((j for j, (a_, b_) in enumerate(zip(mine or [], base_ or [])) if a_ != b_), None)
                out["spec_fail"].append({
                    "channel": "line reader %s (big non-ASCII document)" % k_, "partition": [len(ts)],
                    "what": "the %s line reader does not deliver the lines FileLineReader delivers for the same content: "
                            "%s / %s; first differing line %r: %r vs %r" % (
                                k_, got[k_][0], got["text"][0], j,
                                (mine[j].decode("utf-8", "replace")[:160] if j is not None else None),
                                (base_[j].decode("utf-8", "replace")[:160] if j is not None else None))})
    except Exception as e:  # noqa: BLE001
        import traceback
        out["internal"] = "big case crashed: %s %s" % (type(e).__name__, traceback.format_exc()[-800:])
    finally:
        TIMEOUT = old_timeout
        shutil.rmtree(d, ignore_errors=True)
    return out


def run_job(case):
    return run_big_case(case) if case.get("big") else run_case(case)


# --------------------------------------------------------------------------
# pinned reproducers of the known findings
# --------------------------------------------------------------------------

def replay_finding(f):
    """-> True when the finding still reproduces on the real code"""
    rp = f["reproducer"]
    kind = rp["kind"]
    d = os.path.join(workdir(), "finding")
    os.makedirs(d, exist_ok=True)
    try:
        if kind == "channel-evidence":
            ts = pipeprops_tuplify(rp["ts"])
            cfg = rp["cfg"]
            ref, _ = real_shaper({"raw_graph": nt_doc(ts)}, cfg)
            ch = [c for c in CHANNELS if c[0] == rp["channel"]][0]
            info = build_channel(ch, ts, random.Random(1), d)
            res, _ = real_shaper(info["kw"], cfg)
            if ref[0] != "ok" or res[0] != "ok":
                return False
            return bool(compare_evidence(evidence(ref, cfg), evidence(res, cfg), set(), cfg))
        if kind == "channel-evidence-comments":
            # the channel's document carries comment lines and a commented-out statement; same graph, same evidence
            ts = pipeprops_tuplify(rp["ts"])
            cfg = rp["cfg"]
            ref, _ = real_shaper({"raw_graph": nt_doc(ts)}, cfg)
            ch = [c for c in CHANNELS if c[0] == rp["channel"]][0]
            _COMMENTS[0] = True
            try:
                info = build_channel(ch, ts, random.Random(1), d)
            finally:
                _COMMENTS[0] = False
            res, _ = real_shaper(info["kw"], cfg)
            if ref[0] != "ok":
                return False
            return res[0] != "ok" or bool(compare_evidence(evidence(ref, cfg), evidence(res, cfg), set(), cfg))
        if kind == "two-channels":
            path = os.path.join(d, "doc")
            with open(path, "w") as fh:
                fh.write(rp["doc"])
            a, _ = real_shaper({"raw_graph": rp["doc"], "input_format": rp["fmt"]}, pipe.base_cfg())
            b, _ = real_shaper({"graph_file_input": path, "input_format": rp["fmt"]}, pipe.base_cfg())
            return a[0] == "ok" and b[0] == "err" and b[1] == rp["expect_file"]
        if kind == "shaper-exception":
            import rdflib
            kw = dict(rp["kwargs"])
            if kw.pop("rdflib_graph_from_nt", None):
                kw["rdflib_graph"] = rdflib.Graph().parse(data=rp["nt"], format="nt")
            if kw.pop("url_graph_input_from_nt", None):
                path = os.path.join(d, "f.nt")
                with open(path, "w") as fh:
                    fh.write(rp["nt"])
                kw["url_graph_input"] = "file://" + path
            if kw.pop("raw_graph_from_nt", None):
                kw["raw_graph"] = rp["nt"]
            res, _ = real_shaper(kw, pipe.base_cfg())
            return res[0] == "err" and res[1] == rp["expect"]
        return False
    finally:
        shutil.rmtree(d, ignore_errors=True)


def corpus_failures(known_ids=()):
    """regression cases of repaired findings (corpus/C08/*.json): the defect must not reproduce.  A case whose
    finding is still listed as known waits for the repair (the finding's own reproducer is replayed instead)"""
    d = os.path.join(core.VERIF, "corpus", PID)
    bad, n = [], 0
    if os.path.isdir(d):
        for fn in sorted(os.listdir(d)):
            if not fn.endswith(".json"):
                continue
            with open(os.path.join(d, fn)) as fh:
                c = json.load(fh)
            if c.get("id") in known_ids:
                continue
            n += 1
            try:
                again = replay_finding(c)
            except Exception as e:  # noqa: BLE001
                again = True
                c = dict(c, crashed="%s: %s" % (type(e).__name__, e))
            if again:
                bad.append(dict(c, file=fn))
    return n, bad


def pipeprops_tuplify(ts):
    return [(tuple(s), p, tuple(o)) for s, p, o in ts]


# --------------------------------------------------------------------------
# the check
# --------------------------------------------------------------------------

def run(tier, seed, replay=None):
    global _RUN_ID
    _RUN_ID = str(os.getpid())
    run_ = core.Run(PID, tier, seed)
    bs = core.build(PID)
    proofs_ok = core.proof_gate(run_, bs)
    rnd = random.Random(seed)
    findings = {f["id"]: f for f in core.load_findings(PID)}
    known_rc = {f["root_cause_tag"]: fid for fid, f in findings.items()
                if f.get("status") == "known" and f.get("root_cause_tag")}
    global _KNOWN_RCS
    _KNOWN_RCS = set(known_rc)
    os.makedirs(BASE, exist_ok=True)
    t0 = time.time()
    internal = []
    static = {}
    corr_static = []

    if not bs.model_ok:
        run_.notes.append("model binary unavailable: " + bs.model_log[-800:])

    # ---- pinned reproducers first
    for fid, f in findings.items():
        if f.get("status") != "known" or "reproducer" not in f:
            continue
        try:
            still = replay_finding(f)
        except Exception as e:  # noqa: BLE001
            still = False
            run_.notes.append("replay of %s crashed: %s" % (fid, e))
        if still:
            run_.known_finding(fid, f["what"])
        else:
            run_.notes.append("finding %s no longer reproduces on its pinned input" % fid)

    # ---- regression cases of the repaired findings, replayed first
    n_corpus, corpus_bad = (0, []) if replay else corpus_failures(
        set(fid for fid, f in findings.items() if f.get("status") == "known"))
    for c in corpus_bad[:3]:
        run_.violation("C08 fails on the implementation: regression case %s (%s) reproduces again" % (c["file"], c["id"]),
                       {"corpus_case": c, "reproducer": c["reproducer"]})

    # ---- cases
    big_cases = []
    if replay:
        with open(replay) as fh:
            rp = json.load(fh)
        cases = []
        if "reproducer" in rp and replay_finding(rp):
            run_.violation("C08 fails on the implementation: the recorded reproducer fails again",
                           {"reproducer": rp["reproducer"]})
        if "case" in rp and rp["case"].get("big"):
            big_cases = [dict(rp["case"])]
        elif "case" in rp:
            c = rp["case"]
            cases = [{"ts": pipeprops_tuplify(c["ts"]), "cfg": c["cfg"], "stream": c.get("stream", 0), "seed": c["seed"],
                      "i": c["i"], "comments": c.get("comments", False)}]
    else:
        n = 3000 if tier == "thorough" else 150
        cases = [gen_case(rnd.getrandbits(48), i) for i in range(n)]
        # big non-ASCII documents (regenerated from their seed: the replay record holds the seed, not the triples)
        big_rnd = random.Random(seed ^ 0xB16)
        for j in range(6 if tier == "thorough" else 1):
            cfg = pipe.switch_cfg(big_rnd.randrange(64)) if j else pipe.base_cfg()
            cfg["thr"] = (0, 1)
            big_cases.append({"big": True, "seed": big_rnd.getrandbits(48), "cfg": cfg, "i": j,
                              "bytes": 300000 if j < 2 else big_rnd.choice([140000, 200000, 600000])})

    results = []
    if bs.model_ok:
        if not replay:
            try:
                t1 = time.time()
                n_lr, bad = check_line_readers(tier)
                static["line_readers"] = {"cases": n_lr, "disagreements": len(bad), "exhaustive": True,
                                          "rule": "every byte string of length <= %d over %r through FileLineReader and "
                                                  "GzFileLineReader (length <= 3: Xz, Zip), every str of length <= %d over %r "
                                                  "through RawStringLineReader" % (5 if tier == "thorough" else 4,
                                                                                   [b.hex() for b in BYTE_ALPHABET],
                                                                                   6 if tier == "thorough" else 5, CHAR_ALPHABET),
                                          "wall_s": round(time.time() - t1, 1)}
                corr_static += [("line readers (Model.Channels.lines_raw/lines_text/lines_bytes)", b) for b in bad[:3]]
                t1 = time.time()
                n_tsv, bad = check_tsv_reader(tier, rnd)
                static["tsv_reader"] = {"cases": n_tsv, "disagreements": len(bad), "wall_s": round(time.time() - t1, 1),
                                        "rule": "every 2- and 3-token line over %d tokens (well-formed and malformed), random "
                                                "lines with edge white space, random documents" % len(TSV_TOKENS)}
                corr_static += [("TSV reader (Model.Channels.read_tsv)", b) for b in bad[:3]]
                n_d, bad, dist, table = check_dispatch()
                static["dispatch"] = {"cases": n_d, "disagreements": len(bad), "exhaustive": True, "classes": dist,
                                      "rule": "8 formats x 4 compression modes x 9 source kinds, class of the yielder "
                                              "get_triple_yielder returns / exception class"}
                corr_static += [("dispatch (Model.Channels.dispatch over Gen.Consts.c08_*)", b) for b in bad[:3]]
                n_t, bad = check_rdflib_terms()
                static["rdflib_terms"] = {"cases": n_t, "disagreements": len(bad)}
                corr_static += [("rdflib term conversion (Model.Channels.turn_token)", b) for b in bad[:3]]
            except Exception as e:  # noqa: BLE001
                import traceback
                internal.append("plumbing correspondence crashed: %s %s" % (type(e).__name__, traceback.format_exc()[-800:]))
        # the big documents first (the longest jobs), one per task
        results = core.pool_map(run_job, big_cases + cases, chunksize=1 if len(cases) < 400 else 2)
    big_results, results = results[:len(big_cases)], results[len(big_cases):]

    spec_fail, corr_fail, assume_fail, known_hits = [], [], [], {}
    tot = {"runs": 0, "compared": 0, "tie_skipped": 0, "excluded_bnode": 0, "corr_checked": 0, "run2_checked": 0,
           "monitored": 0}
    outcomes = {}
    distinct = set()
    for case, res in list(zip(big_cases, big_results)) + list(zip(cases, results)):
        if "internal" in res:
            internal.append(res["internal"])
            continue
        for k in tot:
            tot[k] += res[k]
        for k, v in res["outcomes"].items():
            outcomes[k] = outcomes.get(k, 0) + v
        for rc, nhit in res["known"].items():
            if rc in known_rc:
                known_hits[known_rc[rc]] = known_hits.get(known_rc[rc], 0) + nhit
            else:
                spec_fail.append((case, {"channel": "?", "what": "root cause %s is not a listed known finding" % rc}))
        for sf in res["spec_fail"]:
            spec_fail.append((case, sf))
        for cf in res["corr_fail"]:
            corr_fail.append((case, cf))
        for af in res["assume_fail"]:
            assume_fail.append((case, af))
        if res.get("nontrivial"):
            distinct.add(res["doc"])

    def case_payload(case, extra):
        if case.get("big"):
            d = {"case": dict(case), "document": "regenerated from the seed: c08.doc_for(fmt, c08.gen_big_graph("
                 "random.Random(seed), bytes, fmt)) for fmt in nt / tsv_spo / turtle_iter (the channel's format); "
                 "%d bytes of N-Triples" % len(nt_doc(gen_big_graph(
                     random.Random(case["seed"]), case.get("bytes", 300000))).encode("utf-8"))}
            d.update(extra)
            return d
        d = {"case": {"ts": [[list(s), p, list(o)] for s, p, o in case["ts"]],
                      "cfg": case["cfg"], "stream": case["stream"], "seed": case["seed"], "i": case["i"],
                      "comments": bool(case.get("comments"))},
             "document": nt_doc(case["ts"])}
        d.update(extra)
        return d

    for case, sf in spec_fail[:5]:
        run_.violation("C08 fails on the implementation: channel %s vs raw N-Triples: %s" % (sf["channel"], sf["what"][:300]),
                       case_payload(case, {"oracle_failure": sf}))
    if not spec_fail and not corpus_bad:
        if corr_fail or corr_static or assume_fail:
            if corr_fail:
                case, cf = corr_fail[0]
                run_.violation("correspondence Model.Channels vs shexer's yielders no longer checks (channel %s: %s)" % (
                    cf["channel"], cf["what"]),
                    case_payload(case, {"broken": "correspondence Model.Channels.channel / run_shexc2 vs "
                                                  "get_triple_yielder(...).yield_triples() / Shaper.shex_graph",
                                        "first_disagreement": cf, "n_disagreements": len(corr_fail)}), failing_input=False)
            elif corr_static:
                what, b = corr_static[0]
                run_.violation("correspondence of the %s no longer checks" % what,
                               {"broken": "correspondence " + what, "first_disagreement": b,
                                "n_disagreements": len(corr_static)}, failing_input=False)
            else:
                case, af = assume_fail[0]
                run_.violation("monitored assumption of the C08 theorems no longer holds: %s" % af["what"],
                               case_payload(case, {"broken": "assumption: " + af["what"], "detail": af}), failing_input=False)
        elif not proofs_ok:
            run_.violation("proof obligations of C08 no longer check",
                           {"broken": "theorems of Props/C08.v: " + THEOREMS,
                            "log": run_.notes[-1] if run_.notes else ""}, failing_input=False)
        elif not bs.model_ok:
            run_.violation("model no longer builds", {"broken": "Model/Entry extraction", "log": bs.model_log[-1500:]},
                           failing_input=False)

    # ---- vm_compute cross-check of a sample of the binary's answers
    vm_n = 0
    if bs.model_ok and not replay and cases:
        try:
            vcases = []
            m = core.ModelBin()
            rows = [[f, _opt(c), k, str(n_)] for f in ("nt", "turtle", "tsv_spo") for c in (None, "zip") for k, n_ in KINDS_ALL[:6]]
            vcases.append(("c08_dispatch", rows, m.call("c08_dispatch", rows)))
            rows = [["text", "a\r\nb \n\n c"], ["raw", "a\r\nb \n\n c"], ["bytes", b"caf\xc3\xa9\nx\xe0\n"], ["text", b"x\xe0\xa0y\n"]]
            vcases.append(("c08_lines", rows, m.call("c08_lines", rows, raw=True)))
            rows = [["%s\t%s\t%s" % (a, b, c)] for a, b, c in [rnd.sample(TSV_TOKENS, 3) for _ in range(12)]]
            vcases.append(("c08_tsv", rows, m.call("c08_tsv", rows)))
            for case in rnd.sample(cases, min(len(cases), 8 if tier == "thorough" else 3)):
                g = kinded(case["ts"])
                t = pipe.model_table([], case["cfg"])
                for tag in ("T", "U"):
                    t += [[tag] + list(x) for x in g]
                vcases.append(("c08_run2", t, m.call("c08_run2", t)))
                # a small multi-file channel with the real reader's answers
                r = random.Random(case["seed"])
                d = os.path.join(workdir(), "vm")
                os.makedirs(d, exist_ok=True)
                info = build_channel(("nt_files", "nt", None, "files"), case["ts"][:6], r, d)
                lines = model_lines(info["pieces"])
                table = [["cfg", "nt", "N", "files"], ["src"] + list(info["src"])]
                for ln in lines:
                    rr = real_read("nt", [b.decode("utf-8") for b in ln[1]])
                    table.append(rd_row(ln[1], rr))
                vcases.append(("c08_channel", table, m.call("c08_channel", table)))
                shutil.rmtree(d, ignore_errors=True)
            m.close()
            vm_n, mism, log = core.vm_crosscheck(vcases, "c08", per_file=3, timeout=900)
            if mism:
                internal.append("extracted binary and vm_compute disagree (C08): %s %s" % (mism[:5], log[-300:]))
        except Exception as e:  # noqa: BLE001
            import traceback
            internal.append("vm cross-check crashed: %s %s" % (type(e).__name__, traceback.format_exc()[-600:]))

    run_.internal_errors += internal
    shutil.rmtree(os.path.join(BASE, _RUN_ID), ignore_errors=True)

    n_channels = len(CHANNELS)
    run_.coverage.update({
        "evaluations": tot["runs"],
        "cases": len(cases),
        "channels": [c[0] for c in CHANNELS],
        "distinct_nontrivial": len(distinct) * n_channels,
        "rule": "graphs: pipe.gen_graph (general 2/3, schema-consistent 1/3; 1-2 namespaces) with well-typed integer/date "
                "literals, plain / typed / language-tagged literals incl. non-ASCII and multi-word contents; three streams: "
                "IRI instances only; blank-node instances (every 7th graph; compared only among the stable-label channels); "
                "a plain literal holding '@' (every 11th; finding C08-F1, repaired); literals whose lexical forms hold "
                "escaped quotes / backslashes -- plain, language-tagged and typed rdf:JSON / rdf:HTML / custom datatypes, one "
                "of them planted on the instances of a class (every 5th: the text channels write the escapes, the rdflib "
                "terms and JSON-LD carry the values).  Each graph goes through the %d channels with a "
                "fresh random partition into 1..4 files / members / archives (empty files allowed for nt and tsv); switch "
                "assignments round-robin, thresholds on the class-size grid, target classes every 5th case.  "
                "distinct_nontrivial = (distinct documents with a class of >= 2 instances and a non-typing triple) x "
                "channels" % n_channels,
        "comparisons_with_reference": tot["compared"],
        "big_non_ascii_documents": [dict(r_.get("big", {}), seed=c_["seed"], channels=[ch[0] for ch in BIG_CHANNELS])
                                    for c_, r_ in zip(big_cases, big_results)],
        "graphs_whose_text_documents_carry_comment_lines": sum(1 for r_ in results if r_.get("comments")),
        "rdflib_channel_comparisons_with_a_tie_in_the_graph": tot["tie_skipped"],
        "blank_node_instance_runs_excluded": tot["excluded_bnode"],
        "streams_corresponded_line_channels": tot["corr_checked"],
        "pipeline_over_recorded_passes_corresponded": tot["run2_checked"],
        "monitored_assumption_checks": tot["monitored"],
        "outcome_distribution": outcomes,
        "known_finding_hits": known_hits,
        "corpus_cases_replayed_first": n_corpus,
        "plumbing_correspondence": static,
        "vm_compute_crosschecked": vm_n,
        "disagreements_model_vs_impl": len(corr_fail) + len(corr_static),
        "assumption_violations": len(assume_fail),
        "samples": [{"document": nt_doc(cases[i]["ts"])[:1200], "stream": cases[i]["stream"],
                     "config": {k: v for k, v in cases[i]["cfg"].items() if v != pipe.base_cfg().get(k)},
                     "outcomes": results[i].get("outcomes")}
                    for i in sorted(set([0, len(cases) // 2, len(cases) - 1])) if cases and results and "internal" not in results[i]],
        "exhaustive": False,
        "impl_wall_s": round(time.time() - t0, 1),
    })
    run_.assumptions = [
        "the N-Triples and streaming-Turtle document readers are external to this model (C06 / C07): the check plugs the "
        "real single-document reader in as `read`; theorem (a) assumes the N-Triples reader line-compositional",
        "gzip / xz / zipfile are the identity on content (monitored on every compressed file written)",
        "what an rdflib channel delivers on a pass is a permutation of the graph up to an injective blank-node renaming "
        "(monitored on both passes of every rdflib channel)",
        "FileLineReader decodes with the locale's preferred encoding, UTF-8 here; Unicode-aware str.strip() on non-ASCII "
        "white space is not modelled (generators avoid it at line edges)",
        "CPython float() is a parameter of the model; the TSV correspondence sends only plain decimal numerals"]
    return run_.finish(bs)
