"""C19 -- extraction is deterministic across processes.

Theorems: Props/C19.v (independence from the random oracle unless all four priority prefixes
are taken; independence from the iteration order of the two "shapes to remove" sets; for the
set of target nodes of endpoint mode only the multiset of fetched triples is order-independent
-> known finding C19-F2).

This check
 (1) ties the model's list of oracle sites to the source: AST scan of /repo/shexer
     (tools/scan_oracle_sites.py) against corpus/C19/sites.json; a site the list does not know
     breaks the tie;
 (2) runs every case (graphs x configurations x {ShExC, SHACL}) in FRESH interpreters under 8
     (quick) / 64 (thorough) different PYTHONHASHSEED values -- not the harness's pinned one -- and
     requires one SHA-256 of the ShExC text / one canonical hash of the SHACL graph per case;
 (3) correspondence of the three modelled sites with the real functions, with the nondeterministic
     choice forced: find_adequate_prefix_for_shapes_namespaces with a scripted random source,
     ClassProfiler._iteration_remove_empty_shapes and SGraph.yield_p_o_triples_of_target_nodes with
     explicit orders (all permutations of small sets).
"""
import itertools
import json
import os
import random
import subprocess
import sys
import warnings

from vp import core

D = os.path.join(core.WORK, "c19")
RS = "`"
T = "http://www.w3.org/1999/02/22-rdf-syntax-ns#type"
XSD = "http://www.w3.org/2001/XMLSchema#"

KINDS_MAIN = ["nt_classes", "nt_all_ex", "nt_file", "nt_or", "tsv", "ttl_iter", "sm_focus", "sm_sparql", "sm_mixed",
              "prefixes3", "mix_node", "mix_focus", "mix_sparql"]
# mix_*: a shape map next to all_classes_mode=True -- MixedInstanceTracker merges the dictionary of the shape-map
# tracker with the class tracker's (_integrate_dicts); absolute shape labels, so SHACL is compared as well
# pfx_<b0b1b2b3>: which of the four default prefixes of the shapes namespace the user's namespaces_dict already binds
# (all 16 subsets: every k in 0..4 and, for k = 3, each choice of the free one)
PRIORITY = ["", "weso-s", "shapes", "w-shapes"]
KINDS_PREFIX = ["pfx_" + "".join(b) for b in itertools.product("01", repeat=4)]
KINDS_RDFLIB = ["rdflib_obj", "ttl_parsed", "xml_parsed"]
KINDS_ENDPOINT = ["endpoint_classes", "endpoint_all", "endpoint_nocache", "endpoint_sm"]
KINDS_RANDOM_ALLOWED = ["prefixes4"]
SHEXC_ONLY = {"sm_focus", "sm_sparql", "sm_mixed", "endpoint_sm", "nt_or"}   # SHACL cannot print relative shape labels

sys.path.insert(0, os.path.join(core.VERIF, "tools"))


def root_cause(kind):
    if kind in KINDS_RDFLIB:
        return "C19-F1"
    # endpoint kinds: C19-F2 is fixed (target nodes keep their insertion order): must be deterministic
    if kind in KINDS_RANDOM_ALLOWED:
        return "allowed"      # the property's own exception: all four priority prefixes taken
    return None


# --------------------------------------------------------------------------
# graphs: many ties (equally frequent constraints), so that any order leak shows
# --------------------------------------------------------------------------

def fixed_graph():
    L = []
    for i in range(12):
        L.append("<http://ex.org/n%d> <%s> <http://ex.org/C%d> ." % (i, T, i % 2))
        L.append('<http://ex.org/n%d> <http://ex.org/p%d> "v%d" .' % (i, i % 3, i))
        L.append("<http://ex.org/n%d> <http://ex.org/k> <http://ex.org/n%d> ." % (i, (i + 1) % 12))
        L.append('<http://ex.org/n%d> <http://ex.org/q%d> "7"^^<%sinteger> .' % (i, i % 4, XSD))
    return {"nt": "\n".join(L) + "\n", "classes": ["http://ex.org/C0", "http://ex.org/C1"],
            "preds": ["http://ex.org/k"]}


def random_graph(rnd):
    ncls = rnd.randint(1, 3)
    classes = ["http://ex.org/K%d" % c for c in range(ncls)]
    nodes = ["http://ex.org/%s%d" % (rnd.choice("abcxyz"), i) for i in range(rnd.randint(4, 10))]
    preds = ["http://ex.org/%s" % p for p in rnd.sample(["p", "q", "r", "s", "t", "u", "knows", "name"], rnd.randint(2, 6))]
    L = []
    for n in nodes:
        for c in rnd.sample(classes, rnd.randint(1, min(2, ncls))):
            L.append("<%s> <%s> <%s> ." % (n, T, c))
    for n in nodes:
        for p in preds:
            r = rnd.random()
            if r < 0.35:
                L.append('<%s> <%s> "%s" .' % (n, p, rnd.choice(["a", "b", "x y"])))
            elif r < 0.55:
                L.append("<%s> <%s> <%s> ." % (n, p, rnd.choice(nodes)))
            elif r < 0.65:
                L.append('<%s> <%s> "%d"^^<%sinteger> .' % (n, p, rnd.randint(0, 9), XSD))
            elif r < 0.7:
                L.append('<%s> <%s> "hola"@es .' % (n, p))
    rnd.shuffle(L)
    return {"nt": "\n".join(L) + "\n", "classes": classes, "preds": [preds[0]]}


def repeated_typing_graph(rnd):
    """a random graph in which some nodes with two classes have one of their typing statements written twice (the
    line-based readers deliver both; rdflib collapses them): the class list of such an instance, hence the order of
    the shapes and the winner of a reference tie, must not pass through a set (seed C19-m5)"""
    for _ in range(50):
        g = random_graph(rnd)
        L = g["nt"].splitlines()
        by = {}
        for l in L:
            s_, p_, o_ = l.split(" ")[:3]
            if p_ == "<%s>" % T:
                by.setdefault(s_, []).append(l)
        two = [ls for ls in by.values() if len(ls) >= 2]
        if len(two) >= 2:
            break
    for ls in two[:max(2, len(two) // 2)]:
        for _ in range(rnd.choice([1, 1, 2])):
            L.insert(rnd.randint(0, len(L)), rnd.choice(ls))
    g["nt"] = "\n".join(L) + "\n"
    return g


WORDS = ["gadget", "widget", "sprocket", "flange", "gizmo", "doohickey", "thing", "part", "item", "unit", "piece", "bit"]
PROPS = ["colour", "weight", "height", "width", "depth", "vendor", "price", "mass", "size", "shape", "origin", "grade",
         "batch", "model", "serial", "owner", "state", "level", "range", "power"]


def tie_graph(rnd):
    """every instance of a class uses properties of its own, so that ALL the constraints of a shape tie at 1/n:
    their order in ShExC is the order in which the instances sit in the instance dictionary.  An untyped hub
    (a natural shape-map target) links to some of them."""
    ncls = rnd.randint(1, 3)
    words = rnd.sample(WORDS, ncls)
    classes = ["http://ex.org/%s" % w.capitalize() for w in words]
    props = rnd.sample(PROPS, len(PROPS))
    hub = "http://ex.org/hub"
    blocks = [['<%s> <http://ex.org/label> "the hub" .' % hub]]
    nodes = [hub]
    for w, c in zip(words, classes):
        for i in range(rnd.randint(3, 7)):
            n = "http://ex.org/%s%d" % (w, rnd.randrange(1000))
            if n in nodes:
                continue
            nodes.append(n)
            b = ["<%s> <%s> <%s> ." % (n, T, c)]
            for _ in range(rnd.randint(1, 2)):
                if not props:
                    break
                pr = props.pop()
                b.append('<%s> <http://ex.org/%s> "v%d" .' % (n, pr, rnd.randrange(10)) if rnd.random() < 0.7 else
                         '<%s> <http://ex.org/%s> "%d"^^<%sinteger> .' % (n, pr, rnd.randrange(10), XSD))
            if rnd.random() < 0.4:
                b.append("<%s> <http://ex.org/part> <%s> ." % (hub, n))
            blocks.append(b)
    L = [l for b in blocks for l in b]
    return {"nt": "\n".join(L) + "\n", "classes": classes, "preds": ["http://ex.org/part" if any(
        "/part>" in l for l in L) else "http://ex.org/label"], "nodes": nodes}


def make_cases(tier, rnd):
    import rdflib
    os.makedirs(D, exist_ok=True)
    graphs = {"g0": fixed_graph()}
    for i in range(1, (20 if tier == "thorough" else 5) + 1):
        graphs["g%d" % i] = random_graph(rnd)
    for i in range(1, (8 if tier == "thorough" else 3) + 1):
        graphs["t%d" % i] = tie_graph(rnd)
    for i in range(1, (6 if tier == "thorough" else 2) + 1):
        graphs["d%d" % i] = repeated_typing_graph(rnd)
    for name, g in graphs.items():
        with open(os.path.join(D, name + ".nt"), "w") as f:
            f.write(g["nt"])
        rdflib.Graph().parse(data=g["nt"], format="nt").serialize(destination=os.path.join(D, name + ".xml"), format="xml")
    cases = []
    for gname in sorted(graphs):
        # the tie graphs skip the (slow) fake-endpoint kinds: 4 x 2 extractions through rdflib's SPARQL engine each
        kinds = KINDS_MAIN + KINDS_RDFLIB + ([] if gname[0] in "td" else KINDS_ENDPOINT + KINDS_RANDOM_ALLOWED)
        for kind in kinds:
            for fmt in ("ShEx", "Shacl"):
                if fmt == "Shacl" and kind in SHEXC_ONLY:
                    continue
                cases.append({"id": "%s/%s/%s" % (gname, kind, fmt), "graph": gname, "kind": kind, "fmt": fmt})
    for gname, fmts in (("g0", ("ShEx", "Shacl")), ("t1", ("ShEx",))):
        for kind in KINDS_PREFIX:
            for fmt in fmts:
                cases.append({"id": "%s/%s/%s" % (gname, kind, fmt), "graph": gname, "kind": kind, "fmt": fmt})
    return graphs, cases


def run_seeds(spec_path, seeds, text=False, timeout=900, infos=None):
    """one fresh interpreter per seed, NCPU at a time; infos (a dict) receives the workers' side observations"""
    worker = os.path.join(os.path.dirname(os.path.abspath(__file__)), "c19_worker.py")
    results = {}
    pending = list(seeds)
    running = []
    while pending or running:
        while pending and len(running) < core.NCPU:
            s = pending.pop(0)
            env = dict(os.environ)
            env.update(PYTHONHASHSEED=str(s), PYTHONPATH=core.REPO, PYTHONWARNINGS="ignore", PYTHONDONTWRITEBYTECODE="1")
            p = subprocess.Popen([core.PY, worker, spec_path] + (["--text"] if text else []), env=env,
                                 stdout=subprocess.PIPE, stderr=subprocess.DEVNULL)
            running.append((s, p))
        s, p = running.pop(0)
        try:
            out, _ = p.communicate(timeout=timeout)
            last = out.decode("utf-8", "replace").strip().split("\n")[-1]
            results[s] = json.loads(last)["digests"]
            if infos is not None:
                infos[s] = json.loads(last).get("info", {})
        except Exception as e:  # noqa
            p.kill()
            results[s] = {"__worker__": "FAILED %s" % e}
    return results


# --------------------------------------------------------------------------
# (3) correspondence of the modelled sites
# --------------------------------------------------------------------------

def show_dict(d):
    return ",".join("%s=%s" % (p, n) for n, p in d.items())


def corr_prefix(mb, rnd, n):
    import shexer.utils.namespaces as NS
    prio = list(NS._PRIORITY_PREFIXES_FOR_SHAPES)
    rows, impl = [], []
    orig = NS.get_random_string
    n_all = 0
    for i in range(n):
        taken = [p for p in prio if rnd.random() < (0.85 if i % 2 else 0.4)]
        n_all += len(taken) == len(prio)
        others = rnd.sample(["ex", "foaf", "abc", "abd", "xyz", "rdf", "sh"], rnd.randint(0, 4))
        vals = taken + others
        rnd.shuffle(vals)
        d = {"http://n%d.org/" % j: v for j, v in enumerate(vals)}
        cands = [rnd.choice(["abc", "abd", "xyz", "qqq", "foaf"]) for _ in range(rnd.randint(0, 4))] + ["fresh%d" % i]
        it = iter(cands)
        NS.get_random_string = lambda length, it=it: next(it)
        try:
            impl.append(NS.find_adequate_prefix_for_shapes_namespaces(d))
        except StopIteration:
            impl.append("hang")
        rows.append([show_dict(d), str(len(cands))] + cands)
    NS.get_random_string = orig
    model = [r[0] for r in mb.call("c19_prefix", rows)]
    bad = [(rows[i], impl[i], model[i]) for i in range(n) if impl[i] != model[i]]
    return rows, model, bad, n_all


def corr_remove(mb, rnd, n):
    from shexer.core.profiling.class_profiler import ClassProfiler
    rows, bad, perm_bad = [], [], []
    outs = []
    for i in range(n):
        classes = ["c%d" % j for j in range(rnd.randint(1, 4))]
        prof = {}
        entries = []
        for c in classes:
            prof[c] = {}
            entries.append(RS.join([c, "", ""]))
            for p in rnd.sample(["p", "q", "r"], rnd.randint(0, 3)):
                prof[c][p] = {}
                entries.append(RS.join([c, p, ""]))
                for t in rnd.sample(classes + ["IRI", "xsd:string"], rnd.randint(1, 3)):
                    prof[c][p][t] = {"1": 1}
                    entries.append(RS.join([c, p, t]))
        targets = rnd.sample(classes + ["zz"], rnd.randint(0, min(3, len(classes))))
        first = None
        for order in itertools.permutations(targets):
            import copy
            obj = object.__new__(ClassProfiler)
            obj._classes_shape_dict = copy.deepcopy(prof)
            obj._iteration_remove_empty_shapes(list(order))
            flat = []
            for c, props in obj._classes_shape_dict.items():
                flat.append(RS.join(["C", c]))
                for p, types in props.items():
                    flat.append(RS.join(["P", c, p]))
                    for t in types:
                        flat.append(RS.join(["T", c, p, t]))
            rows.append([",".join(order)] + entries)
            outs.append(flat)
            if first is None:
                first = flat
            elif flat != first:
                perm_bad.append((targets, order))
    model = mb.call("c19_remove", rows)
    for r, o, m in zip(rows, outs, model):
        if o != m:
            bad.append((r, o, m))
    return rows, model, bad, perm_bad


def corr_targets(mb, rnd, n):
    from shexer.model.graph.abstract_sgraph import SGraph

    class Stub(SGraph):
        def __init__(self, po, cls):
            super().__init__()
            self.po, self.cls = po, cls

        def yield_p_o_triples_of_an_s(self, target_node):
            for t in self.po.get(target_node, []):
                yield t

        def yield_class_triples_of_an_s(self, target_node, instantiation_property):
            for c in self.cls.get(target_node, []):
                yield (target_node, "a", c)
    rows, outs, perm_bad = [], [], []
    for i in range(n):
        nodes = ["<n%d>" % j for j in range(rnd.randint(2, 5))]
        po, cls, recs = {}, {}, []
        for s in nodes:
            for _ in range(rnd.randint(0, 3)):
                if rnd.random() < 0.6:
                    o = rnd.choice(nodes + ["<m1>", "<m2>"])
                    kind = "i"
                else:
                    o, kind = '"lit%d"' % rnd.randint(0, 3), "l"
                p = "<%s>" % rnd.choice("pqr")
                po.setdefault(s, []).append((s, p, o))
                recs.append(RS.join(["T", s, p, o, kind]))
        for s in nodes + ["<m1>", "<m2>"]:
            for c in rnd.sample(["<C>", "<D>"], rnd.randint(0, 2)):
                cls.setdefault(s, []).append(c)
                recs.append(RS.join(["K", s, c]))
        targets = rnd.sample(nodes, rnd.randint(1, min(4, len(nodes))))
        last = rnd.random() < 0.6
        first = None
        for order in itertools.permutations(targets):
            got = [RS.join(t) for t in Stub(po, cls).yield_p_o_triples_of_target_nodes(
                list(order), depth=1, classes_at_last_level=last, instantiation_property="a",
                strict_syntax_with_uri_corners=True)]
            rows.append([",".join(order), "1" if last else "0"] + recs)
            outs.append(got)
            if first is None:
                first = sorted(got)
            elif sorted(got) != first:
                perm_bad.append((targets, order))
    model = mb.call("c19_targets", rows)
    bad = [(r, o, [f for f in m]) for r, o, m in zip(rows, outs, model) if o != list(m)]
    return rows, model, bad, perm_bad


def corr_integrate(mb, rnd, n):
    """MixedInstanceTracker._integrate_dicts on random pairs of dictionaries (shared and unshared instances in
    unrelated orders, class names that collide with labels of the reference dictionary), compared with
    Model/Selectors.integrate_dicts INCLUDING the order of the keys and of each class list"""
    from shexer.core.instances.mix.mixed_instance_tracker import MixedInstanceTracker
    from shexer.core.instances.instance_tracker import InstanceTracker
    import shexer.core.instances.abstract_instance_tracker as AIT
    rows, outs = [], []
    keep = AIT._TRACKERS_DISAM_COUNT
    n_new_keys = 0
    for i in range(n):
        insts = ["http://e/%s%d" % (rnd.choice("abnxyz"), j) for j in range(rnd.randint(1, 8))]
        labels = ["<S%d>" % j for j in range(3)] + ["http://e/C0", "http://e/C1"]
        classes = ["http://e/C%d" % j for j in range(4)] + ["<S0>"]
        ref = {k: rnd.sample(labels, rnd.randint(1, 2)) for k in rnd.sample(insts, rnd.randint(0, len(insts)))}
        new = {k: rnd.sample(classes, rnd.randint(0, 3)) for k in rnd.sample(insts, rnd.randint(0, len(insts)))}
        n_new_keys += sum(1 for k in new if k not in ref)
        n0 = rnd.randint(0, 12)
        rows.append([str(n0)] + [RS.join(["R", k] + v) for k, v in ref.items()] + [RS.join(["N", k] + v) for k, v in new.items()])
        AIT._TRACKERS_DISAM_COUNT = n0
        d = {k: list(v) for k, v in ref.items()}
        object.__new__(MixedInstanceTracker)._integrate_dicts(reference_dict=d, new_dict={k: list(v) for k, v in new.items()},
                                                              new_tracker=object.__new__(InstanceTracker))
        outs.append([RS.join([k] + v) for k, v in d.items()] + [str(AIT._TRACKERS_DISAM_COUNT)])
    AIT._TRACKERS_DISAM_COUNT = keep
    model = mb.call("c19_integrate", rows)
    bad = [(r, o, list(m)) for r, o, m in zip(rows, outs, model) if o != list(m)]
    return rows, model, bad, n_new_keys


# --------------------------------------------------------------------------

def run(tier, seed, replay=None):
    run = core.Run("C19", tier, seed)
    bs = core.build("C19")
    proofs_ok = core.proof_gate(run, bs)
    rnd = random.Random(seed)
    warnings.filterwarnings("ignore")
    os.makedirs(D, exist_ok=True)
    findings = {f["id"]: f for f in core.load_findings("C19")}
    known_ids = {fid for fid, f in findings.items() if f.get("status") == "known"}

    # ---- (1) the tie between the site list and the source
    import scan_oracle_sites as scan
    new_sites, gone_sites, cur_sites = scan.compare(core.REPO)
    if gone_sites:
        run.notes.append("recorded oracle sites no longer present: %r" % gone_sites[:5])

    # ---- (2) fresh interpreters
    nseeds = 64 if tier == "thorough" else 8
    seeds = sorted(set([1, 2, 3] + [rnd.randrange(1, 2 ** 32 - 1) for _ in range(nseeds * 2)]))
    seeds = [s for s in seeds if str(s) != os.environ.get("PYTHONHASHSEED")][:nseeds]
    if replay:
        with open(replay) as f:
            rp = json.load(f)
        graphs = {"g": rp["graph"]}
        cases = [{"id": "replay", "graph": "g", "kind": rp["kind"], "fmt": rp["fmt"]}]
        seeds = rp.get("seeds", seeds)
        import rdflib
        with open(os.path.join(D, "g.nt"), "w") as f:
            f.write(rp["graph"]["nt"])
        rdflib.Graph().parse(data=rp["graph"]["nt"], format="nt").serialize(destination=os.path.join(D, "g.xml"), format="xml")
    else:
        graphs, cases = make_cases(tier, rnd)
    spec_path = os.path.join(D, "cases_%d.json" % os.getpid())
    with open(spec_path, "w") as f:
        json.dump({"graphs": graphs, "cases": cases}, f)
    infos = {}
    results = run_seeds(spec_path, seeds, infos=infos)
    worker_fail = [s for s, r in results.items() if "__worker__" in r]
    if worker_fail:
        run.internal_errors.append("C19 worker interpreters failed for seeds %r: %s" % (
            worker_fail[:3], results[worker_fail[0]]["__worker__"][:200]))

    differing = []           # (case, {digest: [seeds]})
    errors = []
    known_hits = {}
    allowed_random = 0
    n_eval = 0
    for c in cases:
        by = {}
        for s in seeds:
            d = results.get(s, {}).get(c["id"], "MISSING")
            by.setdefault(d, []).append(s)
            n_eval += 1
        bad = [d for d in by if d.startswith(("EXC", "HANG", "MISSING"))]
        if bad and not worker_fail:
            errors.append((c, bad[0]))
            continue
        if len(by) > 1:
            rc = root_cause(c["kind"])
            if rc == "allowed":
                allowed_random += 1
            elif rc in known_ids:
                known_hits[rc] = known_hits.get(rc, 0) + 1
            else:
                differing.append((c, by))

    # ---- (2b) the prefix of the shapes namespace: the FIRST default prefix the user has not bound (what
    # C19_prefix_oracle_independent says of the model); a random one only when all four are bound
    wrong_prefix = []
    n_prefix_checked = 0
    prefix_seen = {}
    for c in cases:
        if not c["kind"].startswith("pfx_") or c["fmt"] != "ShEx":
            continue
        taken = [PRIORITY[i] for i in range(4) if c["kind"][4 + i] == "1"]
        free = [q for q in PRIORITY if q not in taken]
        for s in seeds:
            got = infos.get(s, {}).get(c["id"], {}).get("shape_prefix", "MISSING")
            if got == "MISSING":
                continue            # the extraction failed in that interpreter: reported through `errors`
            n_prefix_checked += 1
            prefix_seen.setdefault(c["kind"], set()).add(got)
            ok = (got == free[0]) if free else (got is not None and got not in taken)
            if not ok:
                wrong_prefix.append((c, s, got, free[0] if free else "any prefix the user has not bound"))

    # ---- (3) modelled sites against the real functions
    corr_bad = []
    corr_n = 0
    vm_cases = []
    if bs.model_ok and not replay:
        mb = core.ModelBin()
        n = 400 if tier == "thorough" else 120
        rows, model, bad, all_taken = corr_prefix(mb, rnd, n * 3)
        corr_n += len(rows)
        corr_bad += [("find_adequate_prefix_for_shapes_namespaces", b) for b in bad]
        vm_cases.append(("c19_prefix", rows[:60], [[m] for m in model[:60]]))
        rows, model, bad, pbad = corr_remove(mb, rnd, n)
        corr_n += len(rows)
        corr_bad += [("ClassProfiler._iteration_remove_empty_shapes", b) for b in bad]
        corr_bad += [("ClassProfiler._iteration_remove_empty_shapes: result depends on the order", b) for b in pbad]
        vm_cases.append(("c19_remove", rows[:40], model[:40]))
        rows, model, bad, pbad = corr_targets(mb, rnd, n)
        corr_n += len(rows)
        corr_bad += [("SGraph.yield_p_o_triples_of_target_nodes", b) for b in bad]
        corr_bad += [("SGraph.yield_p_o_triples_of_target_nodes: multiset depends on the order", b) for b in pbad]
        vm_cases.append(("c19_targets", rows[:40], model[:40]))
        rows, model, bad, n_new_keys = corr_integrate(mb, rnd, n * 3)
        corr_n += len(rows)
        corr_bad += [("MixedInstanceTracker._integrate_dicts (entries of the merged dictionary, in order)", b) for b in bad]
        vm_cases.append(("c19_integrate", rows[:40], model[:40]))
        run.coverage["site_correspondence_integrate_dicts"] = {"cases": len(rows), "keys_only_in_second_dictionary": n_new_keys}
        vm_n, mism, log = core.vm_crosscheck(vm_cases, "c19", per_file=1)
        if mism:
            run.internal_errors.append("extracted binary and vm_compute disagree (C19): %s %s" % (mism[:5], log[-300:]))
        mb.close()
        run.coverage["site_correspondence_all_priority_prefixes_taken"] = all_taken
    elif not bs.model_ok:
        run.notes.append("model binary unavailable: " + bs.model_log[-800:])

    # ---- pinned reproducers: known findings must still differ, fixed ones must agree (regression)
    for fid in sorted(findings):
        f = findings[fid]
        if f.get("status") not in ("known", "fixed") or "seeds" not in f.get("reproducer", {}):
            continue
        rp = f["reproducer"]
        pj = os.path.join(D, "kf_%s_%d.json" % (fid, os.getpid()))
        import rdflib
        with open(os.path.join(D, "kf.nt"), "w") as fh:
            fh.write(rp["graph"]["nt"])
        rdflib.Graph().parse(data=rp["graph"]["nt"], format="nt").serialize(destination=os.path.join(D, "kf.xml"), format="xml")
        with open(pj, "w") as fh:
            json.dump({"graphs": {"kf": rp["graph"]}, "cases": [{"id": "kf", "graph": "kf", "kind": rp["kind"],
                                                                   "fmt": rp["fmt"]}]}, fh)
        r = run_seeds(pj, rp["seeds"])
        ds = {r[s].get("kf") for s in rp["seeds"]}
        if f.get("status") == "fixed":
            if len(ds) > 1:
                differing.append(({"id": "regression " + fid, "graph": "kf", "kind": rp["kind"], "fmt": rp["fmt"]},
                                  {d: [s for s in rp["seeds"] if r[s].get("kf") == d] for d in ds}))
                graphs["kf"] = rp["graph"]
        elif len(ds) > 1:
            run.known_finding(fid, "%s [%d digests over PYTHONHASHSEED in %r]" % (f["what"], len(ds), rp["seeds"]))
        else:
            run.notes.append("finding %s no longer reproduces" % fid)

    # ---- verdicts
    for c, by in differing[:5]:
        two = sorted(by.items(), key=lambda kv: kv[1][0])[:2]
        run.violation("output depends on the interpreter's hash seed",
                      {"kind": c["kind"], "fmt": c["fmt"], "graph": graphs[c["graph"]],
                       "seeds": [two[0][1][0], two[1][1][0]], "digests": {d: ss[:4] for d, ss in by.items()},
                       "new_oracle_sites": new_sites[:5]})
    for c, s, got, want in wrong_prefix[:3]:
        run.violation("the prefix bound to the shapes namespace is %r, expected %r (the first default prefix that the "
                      "namespaces_dict leaves free)" % (got, want),
                      {"kind": c["kind"], "fmt": c["fmt"], "graph": graphs[c["graph"]], "seeds": [s],
                       "namespaces_dict_prefixes": [PRIORITY[i] for i in range(4) if c["kind"][4 + i] == "1"]})
    for c, e in errors[:3]:
        run.violation("extraction failed in a fresh interpreter", {"kind": c["kind"], "fmt": c["fmt"],
                                                                   "graph": graphs[c["graph"]], "error": e})
    if not differing and not errors and not wrong_prefix:
        if new_sites:
            run.violation("the list of oracle sites no longer matches the source (new nondeterminism site)",
                          {"broken": "tie corpus/C19/sites.json <-> AST scan of shexer/ (theorems of Props/C19.v quantify "
                                     "over the recorded sites only)", "new_sites": new_sites}, failing_input=False)
        elif corr_bad:
            run.violation("correspondence of a modelled oracle site no longer checks",
                          {"broken": "Model/Determinism.v vs " + corr_bad[0][0], "first_case": repr(corr_bad[0][1])[:1500],
                           "n_disagreements": len(corr_bad)}, failing_input=False)
        elif not proofs_ok:
            run.violation("proof obligations of C19 no longer check",
                          {"broken": "Props/C19.v", "log": run.notes[-1] if run.notes else ""}, failing_input=False)

    main_cases = [c for c in cases if root_cause(c["kind"]) is None]
    run.coverage.update({
        "evaluations": n_eval + corr_n,
        "subprocess_extractions": n_eval,
        "distinct_nontrivial": len(cases),
        "rule": "distinct (graph, configuration, output format) cases, each extracted in %d fresh interpreters with "
                "distinct PYTHONHASHSEED; every graph has equally frequent constraints (ties), the situation in which an "
                "order leak is visible; graphs d1..: nodes with two classes whose typing statement is written twice "
                "(line-based readers deliver both)" % len(seeds),
        "exhaustive": False,
        "hash_seeds": seeds,
        "cases": len(cases),
        "cases_required_deterministic": len(main_cases),
        "cases_in_known_finding_territory": len(cases) - len(main_cases),
        "known_finding_hits": known_hits,
        "allowed_random_prefix_cases_differing": allowed_random,
        "shapes_prefix_checked": n_prefix_checked,
        "shapes_prefix_by_bound_defaults": {k: sorted(map(str, v))[:6] for k, v in sorted(prefix_seen.items())},
        "oracle_sites_scanned": len(cur_sites), "new_oracle_sites": new_sites, "vanished_oracle_sites": gone_sites,
        "site_correspondence_cases": corr_n,
        "disagreements_model_vs_impl": len(corr_bad),
        "samples": [{"case": c["id"], "digest_by_seed": {str(s): results.get(s, {}).get(c["id"], "")[:12] for s in seeds[:4]}}
                    for c in (cases[:2] + cases[len(cases) // 2:len(cases) // 2 + 2] + cases[-2:])],
    })
    run.assumptions = [
        "rdflib's iteration order and blank-node ids are external and not modelled; sources that pass through rdflib "
        "are known-finding territory (C19-F1)",
        "the in-process fake SPARQL endpoint answers with rdflib and SORTS its bindings: an endpoint's answer is input",
        "SHACL graphs are compared by a blank-node-free signature hash (property shapes are trees)",
        "the AST scan recognises: set()/frozenset()/set displays and comprehensions, iteration or sequence conversion "
        "of set-valued names/attributes/parameters (interprocedural by name), random/uuid/secrets/time/datetime/tempfile, "
        "hash(), id(), directory listings, argument-less pop()/popitem(), rdflib BNode()",
    ]
    try:
        os.remove(spec_path)
    except OSError:
        pass
    return run.finish(bs)
