"""C18 -- results depend only on the arguments, not on output channel or call history.

Theorems: Props/C18.v  (state of the code after notes/proposed_fixes/C18-*.diff)
  C18_file_eq_string   (all line lists, all flush sizes: file = string = concat)
  C18_pure             (all pipelines, ALL well-formed histories of any length: run = spec)
  C18_free_pure        (the instance this check runs)
  findings C18-F1..F4 are fixed; their pinned histories are replayed as regression cases

Implementation side: the real Shaper driven through call histories -- ALL sequences of
length <= 3 over the 13-operation alphabet {shex_graph(ShExC|SHACL, string|file,
threshold 0|.5|1), profile_graph} on one Shaper, for several graphs/configurations
(one whose ShExC text exceeds 10 000 lines: two buffer flushes), plus pairs of Shapers
that share the caller's namespaces dictionary.  File sink = real files under work/.

Oracle (property text, independent of the model): every call's output equals the output
of a FRESH Shaper built from copies of the same arguments and asked the same thing with
string_output=True (ShExC, profile: byte for byte; SHACL: same prefix lines + isomorphic
graph, since rdflib orders blank nodes by their random ids).

Correspondence: Model/ShaperApi.v run on the free instance (Model/ApiFree.v) predicts, for
every call of every history, which threshold / which dictionary contents reached which
stage, and the caller-visible dictionaries after every operation.  Compared with the real
run: (1) dictionaries after every op, (2) the text denoted by the prediction (reference
text of the predicted threshold, PREFIX block of the predicted dictionary, example comments
repeated as often as predicted) where that is computable from references, (3) everywhere:
equal predictions => equal real outputs.
"""
import hashlib
import itertools
import json
import os
import random
import re
import time
import warnings

from vp import core

RS, US, GS = "`", "^", "\\"
T = "<http://www.w3.org/1999/02/22-rdf-syntax-ns#type>"
SHEXC, SHACL = "ShEx", "Shacl"
THRS = [("0", 0), ("0.5", 0.5), ("1", 1)]
THR = dict(THRS)
D = os.path.join(core.WORK, "c18")
SHAPES_NS = "http://weso.es/shapes/"
OTHER_NS = "http://other.org/shapes/"

FINDINGS = {"thr": "C18-F1", "sh": "C18-F2", "shared": "C18-F3", "ex": "C18-F4"}


# --------------------------------------------------------------------------
# graphs and configurations
# --------------------------------------------------------------------------

def small_graph():
    L = []
    for i, props in enumerate([("p", "q", "r"), ("p", "q"), ("p",), ("p",)]):
        s = "<http://ex.org/a%d>" % i
        L.append("%s %s <http://ex.org/C> ." % (s, T))
        for p in props:
            L.append('%s <http://ex.org/%s> "v%d" .' % (s, p, i))
    L.append("<http://ex.org/a0> <http://ex.org/k> <http://ex.org/d0> .")
    L.append("<http://ex.org/a1> <http://ex.org/k> <http://ex.org/d0> .")
    L.append("<http://ex.org/d0> %s <http://ex.org/D> ." % T)
    L.append('<http://ex.org/d0> <http://ex.org/n> "7"^^<http://www.w3.org/2001/XMLSchema#integer> .')
    L.append("<http://ex.org/d1> %s <http://ex.org/D> ." % T)
    return "\n".join(L) + "\n"


def big_graph(nclasses=600, nprops=14):
    """ShExC output > 10 000 lines at every threshold of the alphabet (two flushes of 5000)"""
    L = []
    for c in range(nclasses):
        for i in range(2):
            s = "<http://ex.org/i%d_%d>" % (c, i)
            L.append("%s %s <http://ex.org/C%d> ." % (s, T, c))
            for p in range(nprops - (i * (c % 3))):
                L.append('%s <http://ex.org/p%d> "v%d" .' % (s, p, c))
    return "\n".join(L) + "\n"


_CFG = {}


def configs():
    if _CFG:
        return _CFG
    import rdflib
    g = small_graph()
    xsd = "http://www.w3.org/2001/XMLSchema#"
    _CFG["small"] = dict(kwargs=dict(raw_graph=g, all_classes_mode=True), ns=None, ex=None)
    _CFG["ns"] = dict(kwargs=dict(raw_graph=g, target_classes=["http://ex.org/C", "http://ex.org/D"],
                                  instances_report_mode="mixed", detect_minimal_iri=True),
                      ns={"http://ex.org/": "ex", xsd: "xsd"}, ex=None)
    _CFG["examples"] = dict(kwargs=dict(raw_graph=g, all_classes_mode=True, examples_mode="all"),
                            ns={"http://ex.org/": "ex"}, ex="all")
    _CFG["rdflib"] = dict(kwargs=dict(rdflib_graph=rdflib.Graph().parse(data=g, format="nt"), all_classes_mode=True),
                          ns={"http://ex.org/": "ex"}, ex=None)
    # one instance of C on another host: no stem for C (the annotation stores None), a stem for D -- a later
    # shex_graph call with another threshold annotates the shapes again (finding C18-X-minirinone)
    _CFG["stems"] = dict(kwargs=dict(raw_graph=g.replace("<http://ex.org/a1>", "<http://other.org/z/a1>"),
                                     all_classes_mode=True, detect_minimal_iri=True),
                         ns={"http://ex.org/": "ex"}, ex=None)
    _CFG["big"] = dict(kwargs=dict(raw_graph=big_graph(), all_classes_mode=True), ns={"http://ex.org/": "ex"}, ex=None)
    return _CFG


# --------------------------------------------------------------------------
# histories.  op = ("N", who, dictarg) | ("S", who, fmt, sink, thr) | ("P", who, sink)
#   who = index of the Shaper; dictarg = "own" (a copy of the configuration's dict / None) |
#   ("shared", j) (the object Shaper j was given) ; a second Shaper may use another shapes namespace
# --------------------------------------------------------------------------

ALPHABET = [("S", 0, f, s, t) for f in (SHEXC, SHACL) for s in ("s", "f") for t, _ in THRS] + [("P", 0, "s")]
SUB_ALPHABET = [o for o in ALPHABET if o[0] == "P" or o[2] == SHEXC]


def single_histories(alphabet=ALPHABET, maxlen=3):
    out = []
    for n in range(1, maxlen + 1):
        for h in itertools.product(alphabet, repeat=n):
            out.append((("N", 0, "own", SHAPES_NS),) + h)
    return out


def pair_histories():
    """two Shapers; the second is built on the dictionary OBJECT of the first ('shared') with the same or
    another shapes namespace, or on its own copy (control)."""
    calls = [("S", w, f, "s", "0") for w in (0, 1) for f in (SHEXC, SHACL)] + [("P", 0, "s")]
    out = []
    for how, ns2 in ((("shared", 0), SHAPES_NS), (("shared", 0), OTHER_NS), ("own", SHAPES_NS)):
        nb = ("N", 1, how, ns2)
        for n in range(1, 5):
            for h in itertools.product([nb] + calls, repeat=n):
                if sum(1 for o in h if o[0] == "N") != 1:
                    continue
                k = h.index(nb)
                if any(o[0] != "N" and o[1] == 1 for o in h[:k]):
                    continue
                if not any(o[0] != "N" for o in h):
                    continue
                out.append((("N", 0, "own", SHAPES_NS),) + h)
    return out


# --------------------------------------------------------------------------
# real runs
# --------------------------------------------------------------------------

def shacl_canon(text):
    """prefix lines + a hash of the graph in which every blank node is replaced by the (recursive) signature of
    what it says -- the property shapes of sheXer are trees hanging off the node shapes"""
    import rdflib
    g = rdflib.Graph().parse(data=text, format="turtle")
    memo = {}

    def sig(n, depth=0):
        if not isinstance(n, rdflib.BNode):
            return n.n3()
        if n in memo:
            return memo[n]
        if depth > 8:
            return "_:deep"
        s = "[" + ";".join(sorted("%s %s" % (p.n3(), sig(o, depth + 1)) for p, o in g.predicate_objects(n))) + "]"
        memo[n] = s
        return s
    lines = sorted("%s %s %s" % (sig(s), p.n3(), sig(o)) for s, p, o in g if not isinstance(s, rdflib.BNode))
    pref = tuple(sorted(l for l in text.split("\n") if l.startswith("@prefix")))
    return "SHACL\n" + "\n".join(pref) + "\n#" + hashlib.sha256("\n".join(lines).encode()).hexdigest()


def canon(fmt, text):
    return shacl_canon(text) if fmt == SHACL else text


class Runner(object):
    """applies a history to real Shapers built from copies of a configuration's arguments"""

    def __init__(self, cfg, tag):
        self.cfg = cfg
        self.shapers = {}
        self.dicts = []          # dictionary objects in creation order
        self.dict_of = {}        # shaper -> index in self.dicts
        self.path = os.path.join(D, "out_%s_%d.txt" % (tag, os.getpid()))

    def apply(self, op):
        from shexer.shaper import Shaper
        if op[0] == "N":
            _, who, how, sns = op
            kw = dict(self.cfg["kwargs"])
            if how == "own":
                d = dict(self.cfg["ns"]) if self.cfg["ns"] is not None else None
                sh = Shaper(namespaces_dict=d, shapes_namespace=sns, **kw)
                # the caller's object (never written any more); for namespaces_dict=None there is none: an empty
                # stand-in keeps the numbering of the model's list of caller dictionaries
                self.dicts.append(d if d is not None else {})
                self.dict_of[who] = len(self.dicts) - 1
            else:
                j = self.dict_of[how[1]]
                sh = Shaper(namespaces_dict=self.dicts[j], shapes_namespace=sns, **kw)
                self.dict_of[who] = j
            self.shapers[who] = sh
            return "new"
        sh = self.shapers[op[1]]
        if op[0] == "P":
            if op[2] == "s":
                return "T" + sh.profile_graph(string_output=True)
            with open(self.path, "w") as f:
                f.write("stale content that must disappear\n" * 3)
            r = sh.profile_graph(output_file=self.path)
            with open(self.path) as f:
                return ("F" if r is None else "F?returned ") + f.read()
        _, who, fmt, sink, thr = op
        if sink == "s":
            return "T" + canon(fmt, sh.shex_graph(string_output=True, output_format=fmt, acceptance_threshold=THR[thr]))
        with open(self.path, "w") as f:
            f.write("stale content that must disappear\n" * 3)
        r = sh.shex_graph(output_file=self.path, output_format=fmt, acceptance_threshold=THR[thr])
        with open(self.path) as f:
            return ("F" if r is None else "F?returned ") + canon(fmt, f.read())

    def snapshot(self):
        return [[(p, n) for n, p in d.items()] for d in self.dicts]


def run_history(cfg, h, tag="h"):
    warnings.filterwarnings("ignore")
    r = Runner(cfg, tag)
    outs, snaps = [], []
    for op in h:
        try:
            outs.append(r.apply(op))
        except BaseException as e:  # noqa
            outs.append("EXC %s: %s" % (type(e).__name__, str(e)[:120]))
        snaps.append(r.snapshot())
    return outs, snaps


def reference(cfg, op, sns=SHAPES_NS):
    """pure: a fresh Shaper, fresh copies of the arguments, string sink, this call only"""
    first = ("N", 0, "own", sns)
    call = ("P", 0, "s") if op[0] == "P" else ("S", 0, op[2], "s", op[4])
    outs, snaps = run_history(cfg, (first, call), "ref")
    return outs[1][1:], snaps


# --------------------------------------------------------------------------
# model side
# --------------------------------------------------------------------------

def show_dict(items):
    return ",".join("%s=%s" % (p, n) for p, n in items)


def model_row(cfg, h, reader):
    row = []
    for op in h:
        if op[0] == "N":
            _, who, how, sns = op
            if how == "own":
                darg = "-" if cfg["ns"] is None else "D" + show_dict([(p, n) for n, p in cfg["ns"].items()])
            else:
                darg = "R%d" % how[1]     # in these histories the dict of Shaper j is dictionary object j == 0
            row.append(RS.join(["N", cfg["name"] + "~" + sns, sns, "N" if cfg["ex"] is None else "S" + cfg["ex"],
                                show_dict(reader), darg]))
        elif op[0] == "P":
            row.append(RS.join(["P", str(op[1]), op[2]]))
        else:
            row.append(RS.join(["S", str(op[1]), "c" if op[2] == SHEXC else "x", op[3], op[4]]))
    return row


def parse_descr(s):
    """model outcome -> dict(kind, sink, ser, ex, core, thr, ...) or None for new/err/hang"""
    if s in ("new", "err", "hang"):
        return None
    sink, body = s[0], s[1:]
    f = body.split(US)
    d = {"sink": sink, "kind": f[0], "raw": body}
    if f[0] == "shexc":
        d.update(ser=f[1], ex=re.findall(r"E\(([^)]*)\)", f[2]), core=f[3])
    elif f[0] == "shacl":
        d.update(ser=f[1], ex=[], core=f[2])
    else:
        d.update(ser=None, ex=[], core=f[1])
    m = re.match(r"^S\[([^|]*)\|([^|]*)\|", d["core"])
    d["thr"] = m.group(1) if m else None
    d["shex_dict"] = m.group(2) if m else None
    return d


# --------------------------------------------------------------------------
# denotation of a prediction in terms of reference texts (trusted shim)
# --------------------------------------------------------------------------

_EX_LINE = re.compile(r"^\s+// rdfs:comment .* ;$")


def neutral(d_model, d_pure, corpus):
    """the two dictionaries agree on every namespace that occurs in the reference texts"""
    f = lambda d: [e for e in d.split(",") if e and e.split("=", 1)[1] in corpus]
    return f(d_model) == f(d_pure)


def denote(pred, pure, ref_text, corpus):
    """expected real output for prediction `pred`, given the prediction `pure` of the reference call that has the
    same format and the predicted threshold and that call's real text; None when not computable from it"""
    if pred["raw"] == pure["raw"]:
        return ref_text
    if pred["core"] != pure["core"] or pred["kind"] != pure["kind"]:
        return None
    if pred["kind"] == "profile":
        return ref_text
    if not neutral(pred["ser"], pure["ser"], corpus):
        return None
    if any(not neutral(e, pure["ser"], corpus) for e in pred["ex"]):
        return None
    if pred["kind"] == "shacl":
        # rdflib prints the bindings it uses; a neutral namespace is not used
        return ref_text
    k, k0 = len(pred["ex"]), len(pure["ex"])
    lines = ref_text.split("\n")
    i = lines.index("")
    head = ["PREFIX %s: <%s>" % tuple(e.split("=", 1)) for e in pred["ser"].split(",") if e]
    body = []
    for l in lines[i:]:
        if _EX_LINE.match(l) and k0 == 1:
            body.extend([l] * k)
        else:
            body.append(l)
    if k0 == 0 and k != 0:
        return None
    return "\n".join(head + body)


# --------------------------------------------------------------------------
# root causes (independent of the model): why a call may legitimately differ today
# --------------------------------------------------------------------------

def root_causes(cfg, h, k):
    op = h[k]
    if op[0] == "N":
        return set()
    who = op[1]
    dict_of = {}
    nd = 0
    for o in h[:k + 1]:
        if o[0] == "N":
            if o[2] == "own":
                dict_of[o[1]] = nd
                nd += 1
            else:
                dict_of[o[1]] = dict_of[o[2][1]]
    rc = set()
    mine = dict_of[who]
    if sum(1 for w, j in dict_of.items() if j == mine) > 1:
        rc.add("shared")
    if op[0] == "S":
        first = next(o for o in h if o[0] == "S" and o[1] == who)
        if first[4] != op[4]:
            rc.add("thr")
        if op[2] == SHEXC and any(o[0] == "S" and o[2] == SHACL and dict_of[o[1]] == mine for o in h[:k]):
            rc.add("sh")
        if op[2] == SHEXC and cfg["ex"] in ("all", "cons") and \
                any(o[0] == "S" and o[2] == SHEXC and o[1] == who for o in h[:k]):
            rc.add("ex")
    return rc


# --------------------------------------------------------------------------
# evaluation of a batch of histories of one configuration (runs in pool workers)
# --------------------------------------------------------------------------

_G = {}


def _h(s):
    return hashlib.sha256(s.encode("utf-8", "replace")).hexdigest()[:16]


def eval_history(idx):
    cfg, hs, preds, refs, purep, corpus = _G["cfg"], _G["hs"], _G["preds"], _G["refs"], _G["purep"], _G["corpus"]
    h = hs[idx]
    outs, snaps = run_history(cfg, h)
    mrow = preds[idx]
    res = {"idx": idx, "spec_fail": [], "corr_fail": [], "groups": [], "exact": 0, "calls": 0, "exc": []}
    for k, op in enumerate(h):
        m_out, m_spec, m_store = mrow[1 + 3 * k], mrow[2 + 3 * k], mrow[3 + 3 * k]
        real_store = GS.join(show_dict(d) for d in snaps[k])
        if real_store != m_store:
            res["corr_fail"].append((k, "dictionaries after the operation", real_store, m_store))
        if op[0] == "N":
            if outs[k] != m_out:
                res["corr_fail"].append((k, "constructor outcome", outs[k], m_out))
            continue
        res["calls"] += 1
        if outs[k].startswith("EXC"):
            res["exc"].append((k, outs[k]))
        sns = next(o[3] for o in h if o[0] == "N" and o[1] == op[1])
        key = ("P",) if op[0] == "P" else (op[2], op[4])
        want = refs[(sns,) + key]
        got_sink, got = outs[k][0], outs[k][1:]
        want_sink = "T" if (op[3] if op[0] == "S" else op[2]) == "s" else "F"
        # ---- oracle: output == pure(own arguments), on the channel asked for
        if got != want or got_sink != want_sink or outs[k].startswith("F?"):
            res["spec_fail"].append((k, sorted(root_causes(cfg, h, k))))
        # ---- correspondence
        pred = parse_descr(m_out)
        if pred is None or pred["sink"] != got_sink:
            res["corr_fail"].append((k, "outcome kind", outs[k][:60], m_out[:60]))
            continue
        res["groups"].append((pred["raw"], _h(got)))
        pkey = ("P",) if pred["kind"] == "profile" else (SHEXC if pred["kind"] == "shexc" else SHACL, pred["thr"])
        if (sns,) + pkey in refs:
            exp = denote(pred, purep[(sns,) + pkey], refs[(sns,) + pkey], corpus)
            if exp is not None:
                res["exact"] += 1
                if exp != got:
                    res["corr_fail"].append((k, "text denoted by the model's prediction", _h(got), _h(exp)))
    return res


def evaluate(cfg, hs, mb, procs=None):
    """references, model predictions, real runs, comparison -- for one configuration"""
    refs, corpus_parts = {}, []
    reader = []
    sns_used = sorted({o[3] for h in hs for o in h if o[0] == "N"} | {SHAPES_NS}, key=lambda x: x != SHAPES_NS)
    for sns in sns_used:
        for op in ALPHABET:
            key = (sns,) + (("P",) if op[0] == "P" else (op[2], op[4]))
            if key not in refs:
                refs[key], snaps = reference(cfg, op, sns)
                corpus_parts.append(refs[key])
                if sns == SHAPES_NS and op[0] == "S" and op[2] == SHEXC and not reader:
                    ctor_items = run_history(cfg, (("N", 0, "own", sns),))[1][0][0]
                    reader = [e for e in snaps[1][0] if e not in ctor_items]
    corpus = "\n".join(corpus_parts)
    # model predictions
    table = [model_row(cfg, h, reader) for h in hs]
    pure_hist = {}
    for sns in sns_used:
        for op in ALPHABET:
            key = (sns,) + (("P",) if op[0] == "P" else (op[2], op[4]))
            pure_hist[key] = (("N", 0, "own", sns), ("P", 0, "s") if op[0] == "P" else ("S", 0, op[2], "s", op[4]))
    pkeys = sorted(pure_hist)
    out = mb.call("c18_run", table + [model_row(cfg, pure_hist[k], reader) for k in pkeys])
    preds = out[:len(hs)]
    purep = {k: parse_descr(r[4]) for k, r in zip(pkeys, out[len(hs):])}
    _G.update(cfg=cfg, hs=hs, preds=preds, refs=refs, purep=purep, corpus=corpus)
    results = core.pool_map(eval_history, list(range(len(hs))), chunksize=max(1, min(32, len(hs) // (4 * core.NCPU) or 1)),
                            procs=procs)
    return results, table, preds, refs


def history_json(cfg_name, h):
    return {"config": cfg_name, "history": [list(o[:2]) + ([list(o[2])] if isinstance(o[2], tuple) else [o[2]]) + list(o[3:])
                                            for o in h]}


def history_from_json(j):
    return tuple(tuple(tuple(x) if isinstance(x, list) else x for x in o) for o in j["history"])


# --------------------------------------------------------------------------
# the profile channel (Props/C18.v (d): C18_profile_file_eq_string, C18_profile_run_file_eq_string)
# --------------------------------------------------------------------------

_PMB = {}


def _profile_case(case):
    """one Shaper, a short history with profile_graph on BOTH sinks; every profile output must be the text a fresh
    Shaper returns with string_output=True (oracle), and that text must be Model.RunProfile.run_profile_json's
    (entries profile_json / profile_json_file), byte for byte"""
    from shexer.shaper import Shaper
    from vp import pipe, pipeprofile
    warnings.filterwarnings("ignore")
    ts, cfg, variant = case["ts"], case["cfg"], case["variant"]
    doc = case.get("doc") or pipe.nt_doc(ts)
    kw = pipe.shaper_kwargs(cfg)
    k, m = cfg["thr"]
    path = os.path.join(D, "profile_%d.json" % os.getpid())

    def guarded(f):
        import signal
        old = signal.signal(signal.SIGALRM, pipe._alarm)
        signal.setitimer(signal.ITIMER_REAL, 20.0)
        try:
            return f()
        except pipe.Hang:
            return "EXC Hang"
        except Exception as e:  # noqa: BLE001
            return "EXC " + type(e).__name__
        finally:
            signal.setitimer(signal.ITIMER_REAL, 0)
            signal.signal(signal.SIGALRM, old)

    def prof_s(sh):
        return guarded(lambda: "T" + sh.profile_graph(string_output=True))

    def prof_f(sh):
        def go():
            with open(path, "w") as f:
                f.write("stale content that must disappear\n" * 3)
            r = sh.profile_graph(output_file=path)
            with open(path, newline="") as f:
                return ("T" if r is None else "?returned %r " % (r,)) + f.read()
        return guarded(go)

    def shex_s(sh):
        return guarded(lambda: "T" + sh.shex_graph(string_output=True, acceptance_threshold=k / m))

    fresh_p = prof_s(Shaper(raw_graph=doc, **kw))
    fresh_s = shex_s(Shaper(raw_graph=doc, **kw))
    ops = {0: "sf", 1: "fs", 2: "Xfs", 3: "sXf", 4: "fXsf"}[variant % 5]
    sh = guarded(lambda: Shaper(raw_graph=doc, **kw))
    outs = []
    if isinstance(sh, str):
        outs = [sh] * len(ops)
    else:
        for o in ops:
            outs.append(prof_s(sh) if o == "s" else prof_f(sh) if o == "f" else shex_s(sh))
    spec_fail = []
    after_exc = 0
    raised = False
    for i, (o, got) in enumerate(zip(ops, outs)):
        want = fresh_s if o == "X" else fresh_p
        if raised:
            # the state of a Shaper after a call that raised is outside the property (no result was produced);
            # a retry is monitored, not judged
            after_exc += got != want
        elif got != want:
            spec_fail.append((i, o, got[:400], want[:400]))
        raised = raised or got.startswith("EXC")
    mb = _PMB.get(os.getpid())
    if mb is None:
        mb = _PMB[os.getpid()] = core.ModelBin()
    corr_fail = []
    if "doc" not in case or case.get("ts") is not None:
        t = pipe.model_table(ts, cfg)
        for entry in ("profile_json", "profile_json_file"):
            row = mb.call(entry, t)[0]
            mod = ("T" + row[1]) if row[0] == "ok" else ("EXC " + row[1])
            if mod != fresh_p:
                corr_fail.append((entry, mod[:400], fresh_p[:400]))
    return {"spec_fail": spec_fail, "corr_fail": corr_fail, "ops": ops, "ok": fresh_p.startswith("T"), "after_exc": after_exc,
            "len": len(fresh_p), "nonascii": any(ord(c) > 126 for c in doc)}


def profile_channel(run, tier, rnd, replay=None):
    """profile_graph on the string and the file sink, inside short histories, on random graphs x configurations
    (both values of inverse_paths, targets, caps) and on pinned documents with non-ASCII IRIs; adds its verdicts
    and its coverage to `run`"""
    from vp import pipe, pipeprops
    e = "http://ex.org/"
    uni = [(("I", e + "aé"), pipe.RDF_TYPE, ("I", e + "C€")),
           (("I", e + "aé"), e + "p\U0001F600", ("I", e + "b￿")),
           (("I", e + "b￿"), pipe.RDF_TYPE, ("I", e + "D\U00010000")),
           (("I", e + "b￿"), e + "q\u007f", ("L", "x", e + "dtĀ")),
           (("I", e + "aé"), e + "p\U0001F600", ("B", "_:x"))]
    cases = []
    if replay:
        with open(replay) as f:
            rp = json.load(f)
        if "profile_case" in rp:
            c = rp["profile_case"]
            cases.append({"ts": pipeprops.tuplify(c["ts"]), "cfg": c["cfg"], "variant": c["variant"]})
        else:
            return
    else:
        n = 6000 if tier == "thorough" else 600
        for i in range(n):
            r = random.Random(rnd.getrandbits(48))
            ts = pipe.gen_graph(r, general=(i % 3 != 0))
            if i % 11 == 0:
                ts.append((ts[0][0], pipe.RDF_TYPE, ("L", "x", pipe.XSD + "string")))     # AttributeError on every channel
            cfg = pipeprops.random_cfg(r, ts, i)
            cfg["inverse_paths"] = bool(i % 2)
            cases.append({"ts": ts, "cfg": cfg, "variant": i})
        for v in range(5):
            for inv in (False, True):
                cfg = pipe.base_cfg()
                cfg["inverse_paths"] = inv
                cases.append({"ts": uni, "cfg": cfg, "variant": v})
    t0 = time.time()
    results = core.pool_map(_profile_case, cases, chunksize=8)
    spec_fail = [(c, r) for c, r in zip(cases, results) if r["spec_fail"]]
    corr_fail = [(c, r) for c, r in zip(cases, results) if r["corr_fail"]]

    def payload(c, extra):
        d = {"profile_case": {"ts": [list(map(list, (s, o))) [:1] + [p] + [list(o)] for s, p, o in c["ts"]],
                              "cfg": c["cfg"], "variant": c["variant"]},
             "document": pipe.nt_doc(c["ts"])[:3000]}
        d["profile_case"]["ts"] = [[list(s), p, list(o)] for s, p, o in c["ts"]]
        d.update(extra)
        return d

    for c, r in spec_fail[:3]:
        i, o, got, want = r["spec_fail"][0]
        what = "shex_graph after profile_graph" if o == "X" else "profile_graph (%s sink)" % ("file" if o == "f" else "string")
        run.violation("%s: output differs from what a fresh Shaper answers with string_output=True (history %s, op %d)"
                      % (what, r["ops"], i), payload(c, {"history": r["ops"], "failing_op": i, "got": got, "want": want}))
    if not spec_fail and corr_fail:
        c, r = corr_fail[0]
        entry, mod, real = r["corr_fail"][0]
        run.violation("correspondence of the profile-text model (Model.RunProfile.%s) vs Shaper.profile_graph no longer "
                      "checks" % entry,
                      payload(c, {"broken": "correspondence Model.RunProfile.run_profile_json vs Shaper.profile_graph, "
                                            "byte for byte", "model": mod, "real": real,
                                  "n_disagreements": len(corr_fail)}), failing_input=False)
    run.coverage["profile_channel"] = {
        "cases": len(cases), "profile_calls": sum(sum(1 for o in r["ops"] if o != "X") for r in results),
        "texts": sum(1 for r in results if r["ok"]), "exceptions_same_on_every_channel": sum(1 for r in results if not r["ok"]),
        "documents_with_non_ascii_iris": sum(1 for r in results if r["nonascii"]),
        "histories": "sf fs Xfs sXf fXsf (s/f = profile_graph to string/file, X = shex_graph), round-robin",
        "oracle_failures": len(spec_fail), "disagreements_model_vs_impl": len(corr_fail),
        "longest_text_bytes": max([r["len"] for r in results] or [0]), "wall_s": round(time.time() - t0, 1),
        "monitored_not_judged": {"calls_after_a_raising_call_that_answer_differently_from_a_fresh_Shaper":
                                 sum(r["after_exc"] for r in results)},
        "rule": "random graphs of vp.pipe.gen_graph x random accepted configurations, inverse_paths alternating; "
                "every profile output (either sink, anywhere in the history) = fresh Shaper's string output = both "
                "entries of the model"}


# --------------------------------------------------------------------------

def run(tier, seed, replay=None):
    run = core.Run("C18", tier, seed)
    bs = core.build("C18")
    proofs_ok = core.proof_gate(run, bs)
    rnd = random.Random(seed)
    os.makedirs(D, exist_ok=True)
    warnings.filterwarnings("ignore")
    findings = {f["id"]: f for f in core.load_findings("C18")}
    known_ids = {fid for fid, f in findings.items() if f.get("status") == "known"}
    cfgs = configs()
    for name, c in cfgs.items():
        c["name"] = name
    if not bs.model_ok:
        run.violation("model no longer builds", {"broken": "Model/Entry extraction", "log": bs.model_log[-1500:]},
                      failing_input=False)
        return run.finish(bs)
    mb = core.ModelBin()

    plan = []      # (config name, list of histories, label)
    if replay:
        with open(replay) as f:
            rp = json.load(f)
        if "history" in rp:
            plan.append((rp["config"], [history_from_json(rp)], "replay"))
    else:
        singles = single_histories()
        for name in ("small", "ns", "examples", "rdflib", "stems"):
            plan.append((name, singles, "all histories <= 3 over the 13-op alphabet"))
        pairs = pair_histories()
        for name in ("ns", "rdflib", "examples"):
            plan.append((name, pairs, "pairs of Shapers, second one on the first one's dict object / own copy"))
        if tier == "thorough":
            first = ("N", 0, "own", SHAPES_NS)
            len4 = [(first,) + tuple(rnd.choice(ALPHABET) for _ in range(4)) for _ in range(3000)]
            len4 = sorted(set(len4))
            for name in ("small", "examples"):
                plan.append((name, len4, "sample of %d histories of length 4" % len(len4)))
        sub = single_histories(SUB_ALPHABET, 3 if tier == "thorough" else 2)
        nsample = 300 if tier == "thorough" else 24
        plan.append(("big", sub + rnd.sample(singles, nsample),
                     "big graph: all histories <= %d over the 7 ShExC/profile ops + %d sampled from the full alphabet"
                     % (3 if tier == "thorough" else 2, nsample)))

    evaluations = 0
    calls = 0
    exact = 0
    nontrivial = 0
    spec_fail_unknown = []
    corr_fail = []
    group_conflicts = []
    known_hits = {}
    vm_cases = []
    dom_in = dom_out = 0
    dom_viol = []
    samples = []
    per_cfg = {}
    big_lines = None
    for name, hs, label in plan:
        cfg = cfgs[name]
        t_plan = time.time()
        results, table, preds, refs = evaluate(cfg, hs, mb)
        if name == "big":
            big_lines = {t: refs[(SHAPES_NS, SHEXC, t)].count("\n") for t, _ in THRS}
        groups = {}
        n_sf = 0
        for r in results:
            h = hs[r["idx"]]
            evaluations += 1
            calls += r["calls"]
            exact += r["exact"]
            in_dom = preds[r["idx"]][0] == "1"
            dom_in += in_dom
            dom_out += not in_dom
            if len(h) > 2:
                nontrivial += 1
            for k, rcs in r["spec_fail"]:
                n_sf += 1
                if in_dom:
                    dom_viol.append((name, h, k))
                ids = {FINDINGS[x] for x in rcs}
                if ids and ids <= known_ids:
                    for i in ids:
                        known_hits[i] = known_hits.get(i, 0) + 1
                else:
                    spec_fail_unknown.append((name, h, k, sorted(rcs)))
            for cf in r["corr_fail"]:
                corr_fail.append((name, h) + tuple(cf))
            for k, e in r["exc"]:
                spec_fail_unknown.append((name, h, k, ["exception " + e]))
            for descr, hh in r["groups"]:
                g = groups.setdefault(descr, {})
                g.setdefault(hh, h)
        for descr, g in groups.items():
            if len(g) > 1:
                group_conflicts.append((name, descr, list(g.items())[:2]))
        per_cfg.setdefault(name, []).append({"what": label, "histories": len(hs), "calls_deviating_from_pure": n_sf,
                                             "distinct_predictions": len(groups),
                                             "wall_s": round(time.time() - t_plan, 1)})
        pick = rnd.sample(range(len(hs)), min(len(hs), 6 if tier == "quick" else 12))
        vm_cases.append(("c18_run", [table[i] for i in pick], [preds[i] for i in pick]))
        i = pick[0]
        samples.append({"config": name, "history": history_json(name, hs[i])["history"],
                        "model_in_dom": preds[i][0], "model_prediction_last_op": preds[i][-3][:160]})

    # ---- cross-check the extracted binary against vm_compute
    vm_n = 0
    if not replay:
        vm_n, mism, log = core.vm_crosscheck(vm_cases, "c18", per_file=2)
        vm_n = sum(len(c[1]) for c in vm_cases)
        if mism:
            run.internal_errors.append("extracted binary and vm_compute disagree (C18): %s %s" % (mism[:5], log[-300:]))
    mb.close()

    # ---- pinned reproducers: known findings must still fail, fixed ones must pass (regression cases)
    regressions = []
    for fid in sorted(findings):
        f = findings[fid]
        if f.get("status") not in ("known", "fixed") or "history" not in f.get("reproducer", {}):
            continue
        rp = f["reproducer"]
        cfg = cfgs[rp["config"]]
        h = history_from_json(rp)
        outs, _ = run_history(cfg, h, "kf")
        k = rp["failing_op"]
        op = h[k]
        sns = next(o[3] for o in h if o[0] == "N" and o[1] == op[1])
        want, _ = reference(cfg, op, sns)
        if f.get("status") == "fixed":
            if outs[k][1:] != want:
                regressions.append((fid, rp["config"], h, k))
        elif outs[k][1:] != want:
            run.known_finding(fid, "%s [history %s, op %d differs from a fresh Shaper's answer]" % (
                f["what"], rp["config"], k))
        else:
            run.notes.append("finding %s no longer reproduces" % fid)
    for fid, name, h, k in regressions:
        spec_fail_unknown.append((name, h, k, ["regression of fixed finding " + fid]))

    profile_channel(run, tier, rnd, replay)      # profile_graph: file sink = string sink = model text

    # ---- verdicts
    for name, h, k, rcs in spec_fail_unknown[:5]:
        outs, snaps = run_history(cfgs[name], h, "viol")
        op = h[k]
        sns = next(o[3] for o in h if o[0] == "N" and o[1] == op[1])
        want = reference(cfgs[name], op, sns)[0] if op[0] != "N" else ""
        run.violation("a call's output differs from what a fresh Shaper answers to the same arguments",
                      dict(history_json(name, h), failing_op=k, root_causes=rcs,
                           got=outs[k][:2000], want=want[:2000]))
    for name, h, k in dom_viol[:3]:
        if not spec_fail_unknown:
            run.violation("oracle fails inside C18_dom (theorem C18_pure covers this history)",
                          dict(history_json(name, h), failing_op=k))
    if not spec_fail_unknown and not dom_viol:
        if corr_fail or group_conflicts:
            if corr_fail:
                name, h, k, what, got, exp = corr_fail[0]
                payload = dict(history_json(name, h), failing_op=k, disagreement=what, real=got[:600], model=exp[:600])
            else:
                name, descr, g = group_conflicts[0]
                payload = {"config": name, "prediction": descr[:400], "two_histories_with_different_outputs":
                           [history_json(name, x[1]) for x in g]}
            payload["broken"] = "correspondence Model.ShaperApi (free instance) vs shexer.shaper call histories"
            payload["n_disagreements"] = len(corr_fail) + len(group_conflicts)
            run.violation("correspondence of the call-history model no longer checks", payload, failing_input=False)
        elif not proofs_ok:
            run.violation("proof obligations of C18 no longer check",
                          {"broken": "Props/C18.v", "log": run.notes[-1] if run.notes else ""}, failing_input=False)

    run.coverage.update({
        "evaluations": evaluations,
        "calls_compared": calls,
        "distinct_nontrivial": nontrivial,
        "rule": "distinct (configuration, history) pairs by construction (enumeration / sample without repetition); "
                "non-trivial = at least two operations after the first constructor (some state is carried over)",
        "exhaustive": (not replay),
        "exhaustive_what": "every sequence of length 1..3 over the 13 operations (2379 histories) on each of the "
                           "configurations small, ns, examples, rdflib, stems; every admissible sequence of length 1..4 of "
                           "{second constructor, 4 calls x 2 Shapers, profile} for 3 ways of building the second Shaper",
        "plan": per_cfg,
        "big_graph_shexc_lines": big_lines,
        "histories_in_C18_dom": dom_in, "histories_outside": dom_out,
        "calls_with_exact_text_prediction": exact,
        "known_finding_hits": known_hits,
        "vm_compute_crosschecked": vm_n,
        "disagreements_model_vs_impl": len(corr_fail) + len(group_conflicts),
        "samples": samples[:8],
    })
    run.assumptions = [
        "SHACL texts are compared as prefix lines + graph up to blank-node renaming (rdflib orders blank nodes by "
        "random id; two serialisations of one graph differ textually)",
        "rdflib Graph.serialize / json.dump write to a file what they return as a string (external; monitored here)",
        "hypothesis shacl_ignores_examples of C18_pure: monitored by every SHACL-after-ShExC call of the "
        "'examples' configuration",
        "the denotation shim (reference text + PREFIX block + repeated example comments) is trusted harness code",
    ]
    return run.finish(bs)
