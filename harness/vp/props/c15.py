"""C15 -- extraction from a SPARQL endpoint equals extraction from the same graph locally.

Theorems: Props/C15.v (C15_triples, C15_cache_same_result, C15_cache_log,
C15_equals_local_partial; *_refuted witnesses for the known findings).

The endpoint is an in-process fake: ``shexer.io.sparql.query._query_endpoint_json_result``
is replaced by a function that lets rdflib evaluate the query text on the served
graph, checks the solutions against the harness's own matcher (monitor of the
"SPARQL evaluation" assumption), orders them by a per-run ranking of the
statements (document order, or a shuffle) and answers SPARQL-JSON.  It never
raises, so the retry/sleep loop of the real HTTP client is never entered.

(i)  ORACLE (property text, metamorphic, real runs only): evidence of the
     endpoint run == evidence of the local run ``Shaper(raw_graph=NT(G), ...)``;
     cache on vs off: same evidence, log_cache a sub-multiset of log_nocache and
     no (kind, node) fetched twice with the cache.
(ii) CORRESPONDENCE: Model/Endpoint.v (extracted binary) vs the real run: the
     sequence of (kind, node) queries and the sequence of delivered triples of
     each pass, given the observed set-iteration order as the oracle.
"""
import collections
import json
import os
import random
import re
import signal
import time
import traceback
import warnings

from vp import core, pipe, pipespec

RDF_TYPE = pipe.RDF_TYPE
XSD = pipe.XSD
STRING = XSD + "string"
INTEGER = XSD + "integer"
LANGSTRING = pipe.LANGSTRING
URL = "http://fake.endpoint/sparql"

# --------------------------------------------------------------------------
# abstract terms <-> rdflib / SPARQL-JSON
# --------------------------------------------------------------------------


def rdflib_term(x):
    import rdflib
    if x[0] == "I":
        return rdflib.URIRef(x[1])
    if x[0] == "B":
        return rdflib.BNode(x[1][2:])
    if len(x) > 3 and x[3]:
        return rdflib.Literal(x[1], lang=x[3])
    if x[2] == STRING:
        return rdflib.Literal(x[1])
    return rdflib.Literal(x[1], datatype=rdflib.URIRef(x[2]), normalize=False)


def term_json(x):
    """the SPARQL 1.1 JSON binding of an abstract term"""
    if x[0] == "I":
        return {"type": "uri", "value": x[1]}
    if x[0] == "B":
        return {"type": "bnode", "value": x[1][2:]}
    d = {"type": "literal", "value": x[1]}
    if len(x) > 3 and x[3]:
        d["xml:lang"] = x[3]
    elif x[2] != STRING:
        d["datatype"] = x[2]
    return d


def _key(d):
    return tuple(sorted(d.items()))


_RE = [
    ("classes", re.compile(r"^SELECT distinct \?o where \{ \?s <([^>]*)> \?o \. \}$")),
    ("selclass", re.compile(r"^(?:PREFIX [^\n]*\n)*select \?s where \{ \?s <([^>]*)> <([^>]*)> \. "
                            r"FILTER \(!isBlank\(\?s\)\) \} (?:LIMIT (-?\d+))?$")),
    ("focus", re.compile(r"^(?:PREFIX [^\n]*\n)*SELECT \?f WHERE \{(\S+) (\S+) (\S+) \. \} $")),
    ("po", re.compile(r"^SELECT \?p \?o WHERE \{ <([^>]*)> \?p \?o \.\} $")),
    ("sp", re.compile(r"^SELECT \?s \?p WHERE \{ \?s \?p <([^>]*)> \.\}$")),
    ("types", re.compile(r"^SELECT \?o WHERE \{ <([^>]*)> <([^>]*)> \?o \. \}$")),
]


def parse_query(text):
    """query string -> (kind, node text) as the model logs it; ('other', text) when not recognised"""
    for kind, rx in _RE:
        m = rx.match(text)
        if not m:
            continue
        if kind == "classes":
            return ("classes", m.group(1)), m
        if kind == "selclass":
            return ("sel", m.group(2) + ("" if m.group(3) is None else " LIMIT " + m.group(3))), m
        if kind == "focus":
            return ("sel", "%s %s %s" % m.groups()), m
        return (kind, m.group(1)), m
    return ("other", text), None


class Fake(object):
    """the served graph: abstract statements `ts` ranked by `order` (a permutation of range(len(ts)))"""

    def __init__(self, ts, order, per_query_shuffle=None):
        import rdflib
        self.ts = [ts[i] for i in order]
        self.g = rdflib.Graph()
        for s, p, o in self.ts:
            self.g.add((rdflib_term(s), rdflib.URIRef(p), rdflib_term(o)))
        self.log = []          # (kind, node)
        self.texts = []
        self.monitor = []      # disagreements between rdflib's evaluation and the harness matcher
        self.sel_answers = []  # (query, [values]) of the single-variable selects
        self.per_query_shuffle = per_query_shuffle

    # the harness's own reading of the queries (in ranking order)
    def _mine(self, q, m):
        kind = q[0]
        rows = []
        if kind == "po":
            for s, p, o in self.ts:
                if s == ("I", q[1]):
                    rows.append({"p": {"type": "uri", "value": p}, "o": term_json(o)})
            return ["p", "o"], rows
        if kind == "sp":
            for s, p, o in self.ts:
                if o[:2] == ("I", q[1]):
                    rows.append({"s": term_json(s), "p": {"type": "uri", "value": p}})
            return ["s", "p"], rows
        if kind == "types":
            for s, p, o in self.ts:
                if s == ("I", m.group(1)) and p == m.group(2):
                    rows.append({"o": term_json(o)})
            return ["o"], rows
        if kind == "classes":
            seen = []
            for s, p, o in self.ts:
                if p == q[1] and o not in seen:
                    seen.append(o)
                    rows.append({"o": term_json(o)})
            return ["o"], rows
        if m.re is _RE[1][1]:
            tau, c, lim = m.group(1), m.group(2), m.group(3)
            for s, p, o in self.ts:
                if p == tau and o[:2] == ("I", c) and s[0] != "B":
                    rows.append({"s": term_json(s)})
            if lim is not None:
                rows = rows[:max(0, int(lim))]
            return ["s"], rows
        # FOCUS pattern
        a, b, c = m.groups()

        def fits(tok, term):
            return tok.startswith("?") or (term[0] == "I" and tok == "<%s>" % term[1])
        for s, p, o in self.ts:
            if fits(a, s) and b == "<%s>" % p and fits(c, o):
                rows.append({"f": term_json(s if a == "?f" else o)})
        return ["f"], rows

    def __call__(self, endpoint_url, str_query, max_retries=5, sleep_time=2, fake_user_agent=True):
        q, m = parse_query(str_query)
        self.log.append(q)
        self.texts.append(str_query)
        text = str_query
        limited = m is not None and m.re is _RE[1][1] and m.group(3) is not None
        if limited:
            text = str_query[:str_query.rfind("LIMIT")]
        try:
            theirs = json.loads(self.g.query(text).serialize(format="json"))
        except Exception as e:  # noqa: BLE001 - a query rdflib cannot evaluate answers nothing
            self.monitor.append("rdflib could not evaluate %r: %s" % (str_query, e))
            theirs = {"head": {"vars": []}, "results": {"bindings": []}}
        if m is None:
            return theirs
        vars_, mine = self._mine(q, m)
        tb = theirs["results"]["bindings"]
        if limited:
            full = self._mine(q, _RE[1][1].match(str_query[:str_query.rfind("LIMIT")]))[1]
            same = collections.Counter(_key2(r) for r in full) == collections.Counter(_key2(r) for r in tb)
        else:
            same = collections.Counter(_key2(r) for r in mine) == collections.Counter(_key2(r) for r in tb)
        if not same:
            self.monitor.append("solutions of %r differ: rdflib %r, matcher %r" % (str_query, tb[:3], mine[:3]))
            return theirs
        if self.per_query_shuffle is not None and not limited:
            self.per_query_shuffle.shuffle(mine)
        if len(vars_) == 1 and q[0] == "sel":
            self.sel_answers.append((q, [r[vars_[0]]["value"] for r in mine]))
        return {"head": {"vars": vars_}, "results": {"bindings": mine}}


def _key2(row):
    return tuple(sorted((k, _key(v)) for k, v in row.items()))


# --------------------------------------------------------------------------
# the real code against the fake endpoint
# --------------------------------------------------------------------------

def _abs_node(x):
    from shexer.model.IRI import IRI
    from shexer.model.bnode import BNode
    from shexer.model.Literal import Literal
    if isinstance(x, IRI):
        return ("I", str(x))
    if isinstance(x, BNode):
        return ("B", str(x))
    if isinstance(x, Literal):
        return ("L", str(x), x.elem_type)
    return ("?", repr(x))


def target_kwargs(mode):
    """mode = ('classes', [iris]) | ('all',) | ('map', [items]); item = ('node', n) | ('focusS', p, o|None) |
    ('focusO', s|None, p), each with a label"""
    if mode[0] == "classes":
        return dict(target_classes=list(mode[1]), all_classes_mode=False)
    if mode[0] == "all":
        return dict(target_classes=None, all_classes_mode=True)
    lines = []
    for k, it in enumerate(mode[1]):
        label = "<http://shapes.ex/S%d>" % k
        if it[0] == "node":
            sel = "<%s>" % it[1]
        elif it[0] == "focusS":
            sel = "{FOCUS <%s> %s}" % (it[1], "_" if it[2] is None else "<%s>" % it[2])
        else:
            sel = "{%s <%s> FOCUS}" % ("_" if it[1] is None else "<%s>" % it[1], it[2])
        lines.append("%s@%s" % (sel, label))
    return dict(target_classes=None, all_classes_mode=False, shape_map_raw="\n".join(lines))


def run_endpoint(ts, order, mode, cfg, cache, limit=-1, per_query_shuffle=None, timeout=20.0):
    """one real extraction against the fake endpoint.
    -> dict(out, log, passes=[[delivered triples]...], collected=[[targets]...], monitor, sel_answers)"""
    import shexer.io.sparql.query as Q
    import shexer.io.graph.yielder.remote.sgraph_from_selectors_triple_yielder as Y
    from shexer.shaper import Shaper
    warnings.filterwarnings("ignore")
    fake = Fake(ts, order, per_query_shuffle)
    passes, collected = [], []
    cls = Y.SgraphFromSelectorsTripleYielder
    orig_yield, orig_collect = cls.yield_triples, cls._collect_every_target_node

    def yield_triples(self):
        mine = []
        passes.append(mine)
        for t in orig_yield(self):
            mine.append((_abs_node(t[0]), str(t[1]), _abs_node(t[2])))
            yield t

    def collect(self):
        r = orig_collect(self)
        collected.append(list(r))
        return r

    kw = pipe.shaper_kwargs(cfg)
    kw.update(target_kwargs(mode))
    kw.update(url_endpoint=URL, disable_endpoint_cache=not cache, limit_remote_instances=limit)
    k, m = cfg["thr"]
    old_q = Q._query_endpoint_json_result
    Q._query_endpoint_json_result = fake
    cls.yield_triples, cls._collect_every_target_node = yield_triples, collect
    old = signal.signal(signal.SIGALRM, pipe._alarm)
    signal.setitimer(signal.ITIMER_REAL, timeout)
    try:
        sh = Shaper(**kw)
        out = ("ok", sh.shex_graph(string_output=True, acceptance_threshold=(k / m)))
    except pipe.Hang:
        out = ("err", "Hang", "")
    except BaseException as e:  # noqa: BLE001 - the observable is the exception class
        frames = [f for f in traceback.extract_tb(e.__traceback__) if "/shexer/" in f.filename]
        where = "%s:%d:%s" % (frames[-1].filename.split("/shexer/")[-1], frames[-1].lineno, frames[-1].name) if frames else ""
        out = ("err", type(e).__name__, where)
    finally:
        signal.setitimer(signal.ITIMER_REAL, 0)
        signal.signal(signal.SIGALRM, old)
        Q._query_endpoint_json_result = old_q
        cls.yield_triples, cls._collect_every_target_node = orig_yield, orig_collect
    return {"out": out, "log": list(fake.log), "passes": passes, "collected": collected,
            "monitor": fake.monitor, "sel_answers": fake.sel_answers, "texts": fake.texts}


def run_local(ts, mode, cfg, timeout=20.0):
    extra = target_kwargs(mode)
    c = dict(cfg)
    return pipe.impl_shexc(ts, c, extra_kw=extra, timeout=timeout)


# --------------------------------------------------------------------------
# the model
# --------------------------------------------------------------------------

def _opt(x):
    return "N" if x is None else "S" + x


def model_table(ts, order, mode, cfg, cache, limit, collected):
    b = pipe._b
    row0 = [cfg["tau"], b(cache), b(cfg["inverse_paths"]), b(cfg.get("allow_num", True)), b(cfg.get("last_level", False)),
            str(limit), str(cfg["cap"]), {"classes": "classes", "all": "all", "map": "map"}[mode[0]]]
    t = [row0]
    if mode[0] == "classes":
        t += [["C", c] for c in mode[1]]
    if mode[0] == "map":
        for it in mode[1]:
            if it[0] == "node":
                t.append(["S", "node", it[1]])
            elif it[0] == "focusS":
                t.append(["S", "focusS", it[1], _opt(it[2])])
            else:
                t.append(["S", "focusO", _opt(it[1]), it[2]])
    first = 2 if mode[0] == "map" else 1
    for k, lst in enumerate(collected):
        t += [["R", str(first + k), n] for n in lst]
    for i in order:
        s, p, o = ts[i]
        sk, sv = ("B", s[1][2:]) if s[0] == "B" else ("I", s[1])
        if o[0] == "L":
            lang = o[3] if len(o) > 3 and o[3] else None
            dt = None if (o[2] == STRING or lang) else o[2]
            t.append(["T", sk, sv, p, "L", o[1], _opt(dt), _opt(lang)])
        elif o[0] == "B":
            t.append(["T", sk, sv, p, "B", o[1][2:], "N", "N"])
        else:
            t.append(["T", sk, sv, p, "I", o[1], "N", "N"])
    return t


def parse_model(out):
    """-> dict(ok, dom, log, passes={1: [...], 2: [...]}, err)"""
    res = {"ok": out[0][0] == "ok", "dom": out[0][1] == "1", "log": [], "passes": {"1": [], "2": []}, "err": None}
    for r in out[1:]:
        if r[1] == "Q":
            res["log"].append((r[2], r[3]))
        elif r[1] == "Y":
            o = ("L", r[6], r[7]) if r[5] == "L" else (r[5], r[6])
            res["passes"][r[0]].append(((r[2], r[3]), r[4], o))
        else:
            res["err"] = r[2]
    return res


_MB = None


def mb():
    global _MB
    if _MB is None:
        _MB = core.ModelBin()
    return _MB


# --------------------------------------------------------------------------
# generators
# --------------------------------------------------------------------------

def in_domain_literal(o):
    """the property's literal domain: plain strings (that no reader could take for anything else) and integers"""
    if o[0] != "L":
        return True
    if len(o) > 3 and o[3]:
        return False
    if o[2] == STRING:
        return re.match(r"^[A-Za-z][A-Za-z ]*$", o[1]) is not None and not o[1].startswith("http") \
            and _not_float(o[1])
    if o[2] == INTEGER:
        return re.match(r"^-?[0-9]{1,15}$", o[1]) is not None
    return False


def _not_float(s):
    try:
        float(s)
        return False
    except ValueError:
        return True


def syntactic_domain(ts, tau):
    for s, p, o in ts:
        if s[0] != "I" or o[0] == "B" or not in_domain_literal(o):
            return False
        if p == tau and o[0] != "I":
            return False
    return True


WEIRD_STRINGS = ["42", "1.5", "-7", "inf", "nan", "3.0", " 5", "http://ex.org/n0", "https://x.org/a", "x y", "_:b",
                 "[]", "<a>", "a@b", "1e3", "1_0", "é", "٣", "0x10", ".5", "5.", "+"]


def gen_case_graph(r, in_domain):
    ts = pipe.gen_graph(r, general=r.random() < 0.7, max_nodes=6)
    out = []
    seen = set()
    for s, p, o in ts:
        if in_domain:
            if s[0] == "B" or o[0] == "B":
                continue
            if o[0] == "L":
                if o[2] == INTEGER or (o[2] not in (STRING,) and r.random() < 0.5):
                    o = ("L", str(r.randint(0, 99)) if r.random() < 0.8 else "-%d" % r.randint(1, 9), INTEGER)
                else:
                    o = ("L", r.choice(["v", "w", "abc", "x y", "Zed"]) + r.choice(["", "a", "b", " c"]), STRING)
            if p == RDF_TYPE and o[0] != "I":
                continue
        else:
            if o[0] == "L" and r.random() < 0.3:
                o = ("L", r.choice(WEIRD_STRINGS), r.choice([STRING, STRING, INTEGER, XSD + "float", XSD + "date"]))
            elif o[0] == "L" and o[2] == INTEGER and r.random() < 0.6:
                o = ("L", str(r.randint(0, 99)), INTEGER)
        t = (s, p, o)
        if t not in seen:
            seen.add(t)
            out.append(t)
    return out


def gen_mode(r, ts, tau, kind):
    classes = sorted(pipe.class_sizes(ts, tau))
    if kind == "classes":
        cl = classes + (["http://ex.org/Cnone"] if r.random() < 0.2 else [])
        if not cl:
            cl = ["http://ex.org/Cnone"]
        return ("classes", r.sample(cl, r.randint(1, len(cl))))
    if kind == "all":
        return ("all",)
    nodes = sorted({s[1] for s, p, o in ts if s[0] == "I"} | {o[1] for s, p, o in ts if o[0] == "I" and p != tau})
    props = sorted({p for s, p, o in ts if p != tau})
    items = []
    for _ in range(r.randint(1, 3)):
        k = r.random()
        if k < 0.4 and nodes:
            items.append(("node", r.choice(nodes)))
        elif k < 0.75 and classes:
            items.append(("focusS", tau, r.choice(classes)))
        elif k < 0.9 and props:
            items.append(("focusS", r.choice(props), None))
        elif props and nodes:
            items.append(("focusO", r.choice(nodes + [None]), r.choice(props)))
    if not items:
        items = [("node", "http://ex.org/n0")]
    return ("map", items)
