"""C15 -- extraction from a SPARQL endpoint equals extraction from the same graph locally.

Theorems: Props/C15.v (C15_triples, C15_delivered_once, C15_cache_same_result,
C15_cache_log_partial, C15_equals_local_partial; regression examples of the repaired
findings F1, F2, F4, F5; *_refuted witnesses for the known findings F3, F6, F7, F8, F9, F10, each with the
regression example of its repair stated under the generated flag).

The endpoint is an in-process fake: ``shexer.io.sparql.query._query_endpoint_json_result``
is replaced by a function that lets rdflib evaluate the query text on the served
graph, checks the solutions against the harness's own matcher (monitor of the
"SPARQL evaluation" assumption), orders them by a per-run ranking of the
statements (document order, or a shuffle) and answers SPARQL-JSON.  It never
raises, so the retry/sleep loop of the real HTTP client is never entered.

(i)  ORACLE (property text, metamorphic, real runs only): evidence of the
     endpoint run == evidence of the local run ``Shaper(raw_graph=NT(G), ...)``;
     cache on vs off: same evidence, log_cache a sub-multiset of log_nocache and
     no (kind, node) fetched twice with the cache.
(ii) CORRESPONDENCE: Model/Endpoint.v (extracted binary) vs the real run: the
     sequence of (kind, node) queries and the sequence of delivered triples of
     each pass, given the observed set-iteration order as the oracle.
"""
import collections
import json
import os
import random
import re
import signal
import time
import traceback
import warnings

from vp import core, pipe, pipespec

RDF_TYPE = pipe.RDF_TYPE
XSD = pipe.XSD
STRING = XSD + "string"
INTEGER = XSD + "integer"
LANGSTRING = pipe.LANGSTRING
URL = "http://fake.endpoint/sparql"

# --------------------------------------------------------------------------
# abstract terms <-> rdflib / SPARQL-JSON
# --------------------------------------------------------------------------


def rdflib_term(x):
    import rdflib
    if x[0] == "I":
        return rdflib.URIRef(x[1])
    if x[0] == "B":
        return rdflib.BNode(x[1][2:])
    if len(x) > 3 and x[3]:
        return rdflib.Literal(x[1], lang=x[3])
    if x[2] == STRING:
        return rdflib.Literal(x[1])
    return rdflib.Literal(x[1], datatype=rdflib.URIRef(x[2]), normalize=False)


def term_json(x):
    """the SPARQL 1.1 JSON binding of an abstract term"""
    if x[0] == "I":
        return {"type": "uri", "value": x[1]}
    if x[0] == "B":
        return {"type": "bnode", "value": x[1][2:]}
    d = {"type": "literal", "value": x[1]}
    if len(x) > 3 and x[3]:
        d["xml:lang"] = x[3]
    elif x[2] != STRING:
        d["datatype"] = x[2]
    return d


def _key(d):
    return tuple(sorted(d.items()))


_RE = [
    ("classes", re.compile(r"^SELECT distinct \?o where \{ \?s <([^>]*)> \?o \. \}$")),
    ("selclass", re.compile(r"^(?:PREFIX [^\n]*\n)*select \?s where \{ \?s <([^>]*)> <([^>]*)> \. "
                            r"FILTER \(!isBlank\(\?s\)\) \} (?:LIMIT (-?\d+))?$")),
    ("focus", re.compile(r"^(?:PREFIX [^\n]*\n)*SELECT \?f WHERE \{(\S+) (\S+) (\S+) \. \} $")),
    ("po", re.compile(r"^SELECT \?p \?o WHERE \{ <([^>]*)> \?p \?o \.\} $")),
    ("sp", re.compile(r"^SELECT \?s \?p WHERE \{ \?s \?p <([^>]*)> \.\}$")),
    ("types", re.compile(r"^SELECT \?o WHERE \{ <([^>]*)> <([^>]*)> \?o \. \}$")),
]


def parse_query(text):
    """query string -> (kind, node text) as the model logs it; ('other', text) when not recognised"""
    for kind, rx in _RE:
        m = rx.match(text)
        if not m:
            continue
        if kind == "classes":
            return ("classes", m.group(1)), m
        if kind == "selclass":
            return ("sel", m.group(2) + ("" if m.group(3) is None else " LIMIT " + m.group(3))), m
        if kind == "focus":
            return ("sel", "%s %s %s" % m.groups()), m
        return (kind, m.group(1)), m
    return ("other", text), None


class Fake(object):
    """the served graph: abstract statements `ts` ranked by `order` (a permutation of range(len(ts)))"""

    def __init__(self, ts, order, per_query_shuffle=None, flip_repeats=False):
        import rdflib
        self.ts = [ts[i] for i in order]
        self.g = rdflib.Graph()
        for s, p, o in self.ts:
            self.g.add((rdflib_term(s), rdflib.URIRef(p), rdflib_term(o)))
        self.log = []          # (kind, node)
        self.texts = []
        self.monitor = []      # disagreements between rdflib's evaluation and the harness matcher
        self.sel_answers = []  # (query, [values]) of the single-variable selects
        self.per_query_shuffle = per_query_shuffle
        self.flip_repeats = flip_repeats   # list the instances of a class in reverse order from the 2nd time on
        self.seen = collections.Counter()

    # the harness's own reading of the queries (in ranking order)
    def _mine(self, q, m):
        kind = q[0]
        rows = []
        if kind == "po":
            for s, p, o in self.ts:
                if s == ("I", q[1]):
                    rows.append({"p": {"type": "uri", "value": p}, "o": term_json(o)})
            return ["p", "o"], rows
        if kind == "sp":
            for s, p, o in self.ts:
                if o[:2] == ("I", q[1]):
                    rows.append({"s": term_json(s), "p": {"type": "uri", "value": p}})
            return ["s", "p"], rows
        if kind == "types":
            for s, p, o in self.ts:
                if s == ("I", m.group(1)) and p == m.group(2):
                    rows.append({"o": term_json(o)})
            return ["o"], rows
        if kind == "classes":
            seen = []
            for s, p, o in self.ts:
                if p == q[1] and o not in seen:
                    seen.append(o)
                    rows.append({"o": term_json(o)})
            return ["o"], rows
        if m.re is _RE[1][1]:
            tau, c, lim = m.group(1), m.group(2), m.group(3)
            for s, p, o in self.ts:
                if p == tau and o[:2] == ("I", c) and s[0] != "B":
                    rows.append({"s": term_json(s)})
            if self.flip_repeats and self.seen[(tau, c)] > 1:
                rows.reverse()
            if lim is not None:
                rows = rows[:max(0, int(lim))]
            return ["s"], rows
        # FOCUS pattern
        a, b, c = m.groups()

        def fits(tok, term):
            return tok.startswith("?") or (term[0] == "I" and tok == "<%s>" % term[1])
        for s, p, o in self.ts:
            if fits(a, s) and b == "<%s>" % p and fits(c, o):
                rows.append({"f": term_json(s if a == "?f" else o)})
        return ["f"], rows

    def __call__(self, endpoint_url, str_query, max_retries=5, sleep_time=2, fake_user_agent=True):
        q, m = parse_query(str_query)
        if m is not None and m.re is _RE[1][1]:
            self.seen[(m.group(1), m.group(2))] += 1
        self.log.append(q)
        self.texts.append(str_query)
        text = str_query
        limited = m is not None and m.re is _RE[1][1] and m.group(3) is not None
        if limited:
            text = str_query[:str_query.rfind("LIMIT")]
        try:
            theirs = json.loads(self.g.query(text).serialize(format="json"))
        except Exception as e:  # noqa: BLE001 - a query rdflib cannot evaluate answers nothing
            self.monitor.append("rdflib could not evaluate %r: %s" % (str_query, e))
            theirs = {"head": {"vars": []}, "results": {"bindings": []}}
        if m is None:
            return theirs
        vars_, mine = self._mine(q, m)
        tb = theirs["results"]["bindings"]
        if limited:
            full = self._mine(q, _RE[1][1].match(str_query[:str_query.rfind("LIMIT")]))[1]
            same = collections.Counter(_key2(r) for r in full) == collections.Counter(_key2(r) for r in tb)
        else:
            same = collections.Counter(_key2(r) for r in mine) == collections.Counter(_key2(r) for r in tb)
        if not same:
            self.monitor.append("solutions of %r differ: rdflib %r, matcher %r" % (str_query, tb[:3], mine[:3]))
            return theirs
        if self.per_query_shuffle is not None and not limited:
            self.per_query_shuffle.shuffle(mine)
        if len(vars_) == 1 and q[0] == "sel":
            self.sel_answers.append((q, [r[vars_[0]]["value"] for r in mine]))
        return {"head": {"vars": vars_}, "results": {"bindings": mine}}


def _key2(row):
    return tuple(sorted((k, _key(v)) for k, v in row.items()))


# --------------------------------------------------------------------------
# the real code against the fake endpoint
# --------------------------------------------------------------------------

def _abs_node(x):
    from shexer.model.IRI import IRI
    from shexer.model.bnode import BNode
    from shexer.model.Literal import Literal
    if isinstance(x, IRI):
        return ("I", str(x))
    if isinstance(x, BNode):
        return ("B", str(x))
    if isinstance(x, Literal):
        return ("L", str(x), x.elem_type)
    return ("?", repr(x))


def target_kwargs(mode, spelling=None):
    """mode = ('classes', [iris]) | ('all',) | ('map', [items]); item = ('node', n) | ('focusS', p, o|None) |
    ('focusO', s|None, p), each with a label.  spelling: the target classes as the user writes them (full IRI,
    <IRI> or prefixed name of cfg['ns']), parallel to mode[1]"""
    if mode[0] == "classes":
        return dict(target_classes=list(spelling or mode[1]), all_classes_mode=False)
    if mode[0] == "all":
        return dict(target_classes=None, all_classes_mode=True)
    lines = []
    for k, it in enumerate(mode[1]):
        label = "<http://shapes.ex/S%d>" % k
        if it[0] == "node":
            sel = "<%s>" % it[1]
        elif it[0] == "focusS":
            sel = "{FOCUS <%s> %s}" % (it[1], "_" if it[2] is None else "<%s>" % it[2])
        else:
            sel = "{%s <%s> FOCUS}" % ("_" if it[1] is None else "<%s>" % it[1], it[2])
        lines.append("%s@%s" % (sel, label))
    return dict(target_classes=None, all_classes_mode=False, shape_map_raw="\n".join(lines))


_WARM = False


def _warm_up():
    """rdflib builds its SPARQL grammar on first use (seconds under load): do it outside the timed region"""
    global _WARM
    if not _WARM:
        import logging
        import rdflib
        # a literal answered by {_ p FOCUS} becomes URIRef(lexical form) in the fetch (outside the domain): rdflib logs
        # "... does not look like a valid URI" for each; keep the check's output readable
        logging.getLogger("rdflib.term").setLevel(logging.ERROR)
        list(rdflib.Graph().query("SELECT ?s WHERE { ?s ?p ?o . FILTER (!isBlank(?s)) } LIMIT 1"))
        _WARM = True


def run_endpoint(ts, order, mode, cfg, cache, limit=-1, per_query_shuffle=None, timeout=60.0, flip_repeats=False,
                 spelling=None):
    """one real extraction against the fake endpoint.
    -> dict(out, log, passes=[[delivered triples]...], collected=[[targets]...], monitor, sel_answers)"""
    import shexer.io.sparql.query as Q
    import shexer.io.graph.yielder.remote.sgraph_from_selectors_triple_yielder as Y
    from shexer.shaper import Shaper
    warnings.filterwarnings("ignore")
    _warm_up()
    fake = Fake(ts, order, per_query_shuffle, flip_repeats)
    passes, collected = [], []
    cls = Y.SgraphFromSelectorsTripleYielder
    orig_yield, orig_collect = cls.yield_triples, cls._collect_every_target_node

    def yield_triples(self):
        mine = []
        passes.append(mine)
        for t in orig_yield(self):
            mine.append((_abs_node(t[0]), str(t[1]), _abs_node(t[2])))
            yield t

    def collect(self):
        r = orig_collect(self)
        collected.append(list(r))
        return r

    kw = pipe.shaper_kwargs(cfg)
    kw.update(target_kwargs(mode, spelling))
    kw.update(url_endpoint=URL, disable_endpoint_cache=not cache, limit_remote_instances=limit)
    k, m = cfg["thr"]
    old_q = Q._query_endpoint_json_result
    Q._query_endpoint_json_result = fake
    cls.yield_triples, cls._collect_every_target_node = yield_triples, collect
    old = signal.signal(signal.SIGALRM, pipe._alarm)
    signal.setitimer(signal.ITIMER_REAL, timeout)
    try:
        sh = Shaper(**kw)
        out = ("ok", sh.shex_graph(string_output=True, acceptance_threshold=(k / m)))
    except pipe.Hang:
        out = ("err", "Hang", "")
    except BaseException as e:  # noqa: BLE001 - the observable is the exception class
        frames = [f for f in traceback.extract_tb(e.__traceback__) if "/shexer/" in f.filename]
        where = "%s:%d:%s" % (frames[-1].filename.split("/shexer/")[-1], frames[-1].lineno, frames[-1].name) if frames else ""
        out = ("err", type(e).__name__, where)
    finally:
        signal.setitimer(signal.ITIMER_REAL, 0)
        signal.signal(signal.SIGALRM, old)
        Q._query_endpoint_json_result = old_q
        cls.yield_triples, cls._collect_every_target_node = orig_yield, orig_collect
    return {"out": out, "log": list(fake.log), "passes": passes, "collected": collected,
            "monitor": fake.monitor, "sel_answers": fake.sel_answers, "texts": fake.texts}


def nt_escape(x):
    """the abstract term with its lexical form written as N-Triples needs it (backslash and double quote escaped)"""
    if x[0] != "L" or not ('"' in x[1] or "\\" in x[1]):
        return x
    return (x[0], x[1].replace("\\", "\\\\").replace('"', '\\"')) + tuple(x[2:])


def nt_doc(ts):
    return pipe.nt_doc([(s, p, nt_escape(o)) for s, p, o in ts])


def run_local(ts, mode, cfg, timeout=60.0, spelling=None):
    extra = target_kwargs(mode, spelling)
    c = dict(cfg)
    return pipe.impl_shexc(ts, c, doc=nt_doc(ts), extra_kw=extra, timeout=timeout)


_FLAGS = None


def tree_flags():
    """which text of the repaired functions is in the tree under test, read from the Gen/Consts*.v that the build has
    just regenerated from it: token = the cache stores the literal of the token (C15-F7/F8 repaired), all_tau =
    all_classes_mode lists the classes of the instantiation property (C15-F9 repaired), kw_once = the selector parser
    removes the leading keyword only (C15-F10 repaired).  A missing flag reads as 'not repaired'."""
    global _FLAGS
    if _FLAGS is None:
        out = {}
        for key, fn, name in (("token", "ConstsC15.v", "lsg_token_literal"), ("all_tau", "ConstsC15.v", "all_classes_passes_tau"),
                              ("kw_once", "Consts.v", "c_sel_sparql_strip_once")):
            try:
                with open(os.path.join(core.ROCQ, "theories", "Gen", fn)) as f:
                    m = re.search(r"^Definition %s : bool := (true|false)\.$" % name, f.read(), re.M)
            except OSError:
                m = None
            out[key] = bool(m) and m.group(1) == "true"
        _FLAGS = out
    return _FLAGS


# --------------------------------------------------------------------------
# the model
# --------------------------------------------------------------------------

def _opt(x):
    return "N" if x is None else "S" + x


def model_table(ts, order, mode, cfg, cache, limit, collected):
    b = pipe._b
    row0 = [cfg["tau"], b(cache), b(cfg["inverse_paths"]), b(cfg.get("allow_num", True)), b(cfg.get("last_level", False)),
            str(limit), str(cfg["cap"]), {"classes": "classes", "all": "all", "map": "map"}[mode[0]]]
    t = [row0]
    if mode[0] == "classes":
        t += [["C", c] for c in mode[1]]
    if mode[0] == "map":
        for it in mode[1]:
            if it[0] == "node":
                t.append(["S", "node", it[1]])
            elif it[0] == "focusS":
                t.append(["S", "focusS", it[1], _opt(it[2])])
            else:
                t.append(["S", "focusO", _opt(it[1]), it[2]])
    first = 2 if mode[0] == "map" else 1
    for k, lst in enumerate(collected):
        t += [["R", str(first + k), n] for n in lst]
    for i in order:
        s, p, o = ts[i]
        sk, sv = ("B", s[1][2:]) if s[0] == "B" else ("I", s[1])
        if o[0] == "L":
            lang = o[3] if len(o) > 3 and o[3] else None
            dt = None if (o[2] == STRING or lang) else o[2]
            t.append(["T", sk, sv, p, "L", o[1], _opt(dt), _opt(lang)])
        elif o[0] == "B":
            t.append(["T", sk, sv, p, "B", o[1][2:], "N", "N"])
        else:
            t.append(["T", sk, sv, p, "I", o[1], "N", "N"])
    return t


def parse_model(out):
    """-> dict(ok, dom, log, passes={1: [...], 2: [...]}, err)"""
    res = {"ok": out[0][0] == "ok", "dom": out[0][1] == "1", "names": len(out[0]) > 2 and out[0][2] == "1",
           "log": [], "passes": {"1": [], "2": []}, "err": None}
    for r in out[1:]:
        if r[1] == "Q":
            res["log"].append((r[2], r[3]))
        elif r[1] == "Y":
            o = ("L", r[6], r[7]) if r[5] == "L" else (r[5], r[6])
            res["passes"][r[0]].append(((r[2], r[3]), r[4], o))
        else:
            res["err"] = r[2]
    return res


_MB = None


def mb():
    global _MB
    if _MB is None:
        _MB = core.ModelBin()
    return _MB


# --------------------------------------------------------------------------
# generators
# --------------------------------------------------------------------------

_DLT = None


def dlt_from_suffix():
    """does utils/uri.decide_literal_type read the kind of a literal after its last quote (C06 repair B)?"""
    global _DLT
    if _DLT is None:
        import inspect
        import shexer.utils.uri as U
        _DLT = "suffix" in inspect.getsource(U.decide_literal_type)
    return _DLT


def in_domain_literal(o):
    """literals both paths read alike since the repair of C15-F1: any datatype or language tag; the lexical form has no
    double quote and -- only while decide_literal_type searches the whole token -- no '^^' and, for a typed literal,
    none of the prefixes it searches for"""
    if o[0] != "L":
        return True
    if '"' in o[1] or "\\" in o[1]:
        return False
    if dlt_from_suffix():
        return True
    if "^^" in o[1]:
        return False
    lang = len(o) > 3 and o[3]
    if not lang and o[2] != STRING and any(k in o[1] + o[2] for k in ("xsd:", "rdf:", "dt:", "geo:", "@")):
        return False
    return True


def syntactic_domain(ts, tau):
    for s, p, o in ts:
        if s[0] != "I" or o[0] == "B" or not in_domain_literal(o):
            return False
        if p == tau and o[0] != "I":
            return False
    return True


WEIRD_STRINGS = ["42", "1.5", "-7", "inf", "nan", "3.0", " 5", "http://ex.org/n0", "https://x.org/a", "x y", "_:b",
                 "[]", "<a>", "a@b", "1e3", "1_0", "é", "٣", "0x10", ".5", "5.", "+", "007", "@en"]


SUFFIX_STRINGS = ["^^", "a^^<b>", "xsd:integer", "a dt:b", "geo:x rdf:y", "^^xsd:int"]


def _other_schemes(ts, r):
    """IRI nodes are not only http(s): rename some value nodes (urn:, mailto:) and some described nodes (urn:)"""
    names = sorted({x[1] for s, p, o in ts for x in (s, o) if x[0] == "I" and p != RDF_TYPE}
                   | {s[1] for s, p, o in ts if s[0] == "I"})
    ren = {}
    for n in names:
        local = n.rsplit("/", 1)[-1]
        k = r.random()
        if local.startswith("u") and k < 0.45:
            ren[n] = ("urn:ex:%s" % local) if k < 0.25 else ("mailto:%s@ex.org" % local)
        elif local.startswith("n") and k < 0.15:
            ren[n] = "urn:ex:%s" % local
    f = lambda x: ("I", ren[x[1]]) if x[0] == "I" and x[1] in ren else x
    return [(f(s), p, f(o) if p != RDF_TYPE else o) for s, p, o in ts]


def gen_case_graph(r, in_domain):
    ts = _other_schemes(pipe.gen_graph(r, general=r.random() < 0.7, max_nodes=6), r)
    out = []
    seen = set()
    for s, p, o in ts:
        if in_domain and (s[0] == "B" or o[0] == "B"):
            continue
        if o[0] == "L":
            k = r.random()
            if k < 0.3:
                dt = r.choice([STRING, STRING, INTEGER, XSD + "float", XSD + "date", "http://ex.org/dt"]
                              + (["mailto:dt@ex.org", "urn:xsd:int"] if dlt_from_suffix() else []))
                o = ("L", r.choice(WEIRD_STRINGS + (SUFFIX_STRINGS if dlt_from_suffix() else [])), dt)
            elif k < 0.5 and o[2] == INTEGER:
                o = ("L", str(r.randint(0, 99)), INTEGER)
            elif k < 0.6 and o[2] == STRING:
                o = ("L", r.choice(["v", "w", "abc", "x y", "Zed"]) + r.choice(["", "a", "b", " c"]), STRING)
        if in_domain and p == RDF_TYPE and o[0] != "I":
            continue
        t = (s, p, o)
        if t not in seen:
            seen.add(t)
            out.append(t)
    return out


KW = "SPARQL"
TAUS = ["http://ex.org/isA", "http://ex.org/kind#of", "http://ex.org/SPARQLtype"]
QUOTED = ['"a"', '"b"', '"a" c', '"', 'a"b', '']


def plant_twins(r, ts, tau):
    """several literals of one (subject, predicate) that a reader must keep apart: the same lexical form under different
    language tags; lexical forms that share the text before an embedded double quote (plain, language-tagged or typed);
    the two together.  Valid RDF: distinct terms, one statement each."""
    subs = sorted({s for s, p, o in ts if s[0] == "I"})
    props = sorted({p for s, p, o in ts if p not in (tau, RDF_TYPE)}) or ["http://ex.org/p0"]   # never a typing property
    if not subs:
        return ts, None
    s, p = r.choice(subs), r.choice(props)
    kind = r.choice(["lang", "lang", "quote", "quote", "both"])
    new = []
    if kind in ("lang", "both"):
        lex = r.choice(["chat", "v1", "x y", "a@b"])
        for tag in r.sample(["en", "fr", "es", "en-GB", "de-CH-1996"], r.randint(2, 3)):
            new.append((s, p, ("L", lex, LANGSTRING, tag)))
    if kind in ("quote", "both"):
        stem = r.choice(["x ", "say ", "", "v1"])
        shape = r.choice(["plain", "plain", "lang", "typed"])
        for q in r.sample(QUOTED, r.randint(2, 3)):
            lex = stem + q
            o = ("L", lex, STRING) if shape == "plain" else ("L", lex, LANGSTRING, "en") if shape == "lang" \
                else ("L", lex, "http://ex.org/dt")
            new.append((s, p, o))
    seen = set(ts)
    out = list(ts)
    for t in new:
        if t not in seen:
            seen.add(t)
            out.insert(r.randint(0, len(out)), t)
    return out, kind


def rename(ts, ren):
    f = lambda x: ("I", ren[x[1]]) if x[0] == "I" and x[1] in ren else x
    out, seen = [], set()
    for s, p, o in ts:
        t = (f(s), ren.get(p, p), f(o))
        if t not in seen:
            seen.add(t)
            out.append(t)
    return out


def plant_names(r, ts, cfg, kind):
    """an instantiation property other than rdf:type (some rdf:type statements stay: ordinary statements then); class,
    predicate and node IRIs that hold the keyword of the SPARQL selectors.  -> (ts, tags)"""
    tags = []
    k = r.random()
    if k < 0.22:
        tau = r.choice(TAUS if kind != "map" else TAUS[:2] + TAUS)
        keep = r.random() < 0.5          # half of the time some statements keep rdf:type
        out = []
        for s, p, o in ts:
            out.append((s, tau, o) if p == RDF_TYPE and not (keep and r.random() < 0.3) else (s, p, o))
        ts = out
        cfg["tau"] = tau
        tags.append("custom_tau")
    if r.random() < 0.2:
        classes = sorted(pipe.class_sizes(ts, cfg["tau"]))
        props = sorted({p for s, p, o in ts if p != cfg["tau"] and p != RDF_TYPE})
        nodes = sorted({s[1] for s, p, o in ts if s[0] == "I"})
        ren = {}
        what = r.choice(["class", "class", "class+twin", "pred", "node", "all"])
        if what in ("class", "class+twin", "all") and classes:
            c = r.choice(classes)
            local = c.rsplit("/", 1)[-1]
            others = [x for x in classes if x != c]
            if what == "class+twin" and others:
                # the name without the keyword is another class of the graph
                ren[c] = r.choice(["http://ex.org/%s%s", "http://ex.org/%s%s"]) % (KW, r.choice(others).rsplit("/", 1)[-1])
            else:
                ren[c] = r.choice(["http://ex.org/" + KW + local, "http://ex.org/" + local + KW, "http://ex.org/" + KW,
                                   "http://ex.org/" + local[:1] + KW + local[1:]])
        if what in ("pred", "all") and props:
            q = r.choice(props)
            ren[q] = "http://ex.org/" + KW + q.rsplit("/", 1)[-1]
        if what in ("node", "all") and nodes:
            n = r.choice(nodes)
            ren[n] = "http://ex.org/n" + KW + n.rsplit("/", 1)[-1].replace(":", "_")[-3:]
        ren = {a: b for a, b in ren.items() if b not in classes and b not in nodes and b not in props}
        if ren:
            ts = rename(ts, ren)
            tags.append("kw_" + what)
    return ts, tags


NS_EX = ("http://ex.org/", "ex")
NS_MORE = [("http://xmlns.com/foaf/0.1/", "foaf"), (XSD, "xsd"), ("http://ex.org/voc/", "voc"), ("urn:ex:", "u")]


def spell_class(r, c, ns):
    """a class IRI as a user may hand it over: bare, <bracketed>, or prefix:local with a declared prefix"""
    k = r.random()
    if k < 0.5:
        for n, p in ns:
            if c.startswith(n) and c[len(n):] and not re.search(r"[/#]", c[len(n):]):
                return "%s:%s" % (p, c[len(n):])
    if k < 0.75:
        return "<%s>" % c
    return c


def gen_mode(r, ts, tau, kind):
    classes = sorted(pipe.class_sizes(ts, tau))
    if kind == "classes":
        cl = classes + (["http://ex.org/Cnone"] if r.random() < 0.2 else [])
        if not cl:
            cl = ["http://ex.org/Cnone"]
        return ("classes", r.sample(cl, r.randint(1, len(cl))))
    if kind == "all":
        return ("all",)
    nodes = sorted({s[1] for s, p, o in ts if s[0] == "I"} | {o[1] for s, p, o in ts if o[0] == "I" and p != tau})
    props = sorted({p for s, p, o in ts if p != tau})
    items = []
    for _ in range(r.randint(1, 3)):
        k = r.random()
        if k < 0.4 and nodes:
            items.append(("node", r.choice(nodes)))
        elif k < 0.75 and classes:
            items.append(("focusS", tau, r.choice(classes)))
        elif k < 0.9 and props:
            items.append(("focusS", r.choice(props), None))
        elif props and nodes:
            items.append(("focusO", r.choice(nodes + [None]), r.choice(props)))
    if not items:
        items = [("node", "http://ex.org/n0")]
    return ("map", items)


# --------------------------------------------------------------------------
# the oracle (property text; real runs and the abstract input only)
# --------------------------------------------------------------------------

def oracle_targets(ts, mode, cfg, real, limit=-1):
    """the nodes the endpoint was asked to describe: what the selectors denote on the abstract graph; for the
    class selectors with a LIMIT, the instances the (fake) endpoint returned to the first pass"""
    tau = cfg["tau"]
    if mode[0] == "map":
        T = []
        for it in mode[1]:
            if it[0] == "node":
                T.append(it[1])
            elif it[0] == "focusS":
                T += [s[1] for s, p, o in ts if p == it[1] and (it[2] is None or o[:2] == ("I", it[2])) and s[0] == "I"]
            else:
                T += [o[1] for s, p, o in ts if p == it[2] and (it[1] is None or s == ("I", it[1])) and o[0] == "I"]
        return set(T)
    if limit < 0 and cfg["cap"] <= 0:
        # no LIMIT: the instances of the target classes (of every class, in all_classes_mode); blank subjects are not asked for
        return {s[1] for s, p, o in ts if p == tau and s[0] == "I" and o[0] == "I" and (mode[0] == "all" or o[1] in mode[1])}
    first = {}
    for q, vals in real["sel_answers"]:
        first.setdefault(q, vals)
    return {v for vals in first.values() for v in vals}


def restrict(ts, T, inverse):
    return [t for t in ts if (t[0][0] == "I" and t[0][1] in T) or (inverse and t[2][0] == "I" and t[2][1] in T)]


def root_causes(ts, mode, cfg, limit, T, flip=False):
    tau = cfg["tau"]
    rcs = set()
    if any(not in_domain_literal(o) for _, _, o in ts) or any(p == tau and o[0] == "L" for _, p, o in ts):
        rcs.add("rc_literal_reader")
    if any(s[0] == "B" or o[0] == "B" for s, _, o in ts):
        rcs.add("rc_bnode")
    if cfg["inverse_paths"] and any(s[0] == "I" and s[1] in T and o[0] == "I" and o[1] in T for s, _, o in ts):
        rcs.add("rc_inverse_double")
    if cfg["cap"] == 0 and mode[0] != "map":
        rcs.add("rc_cap_zero")
    if mode[0] == "all" and not any(p == tau for _, p, _ in ts):
        rcs.add("rc_no_class")
    if flip and mode[0] != "map" and (limit >= 0 or cfg["cap"] > 0):
        rcs.add("rc_limit_two_selects")     # the endpoint lists the instances in another order the second time
    fl = tree_flags()
    if not fl["token"]:
        # what RdflibSgraph.add_triple keeps of a literal: the content up to its first inner quote and the type the
        # local path gives it; two different literals of one (subject, predicate) with one such key are one node
        by = collections.defaultdict(list)
        for s, p, o in dict.fromkeys(ts):
            if o[0] == "L":
                lang = o[3] if len(o) > 3 and o[3] else None
                by[(s, p, o[1].split('"')[0], LANGSTRING if lang else o[2])].append((o[1], lang))
        for lits in by.values():
            if len(lits) > 1:
                if len({lex for lex, _ in lits}) < len(lits):
                    rcs.add("rc_cache_lang_merge")        # the same lexical form under several language tags
                if len({lex for lex, _ in lits}) > 1:
                    rcs.add("rc_cache_quote_merge")       # lexical forms that differ after an embedded quote only
    if not fl["all_tau"] and mode[0] == "all" and tau != RDF_TYPE:
        rcs.add("rc_all_classes_default_tau")
    if not fl["kw_once"] and mode[0] != "map":
        tau_used = tau if (fl["all_tau"] or mode[0] != "all") else RDF_TYPE
        names = [tau] + (list(mode[1]) if mode[0] == "classes" else
                         [o[1] for _, p, o in ts if p == tau_used and o[0] == "I"])
        if any(KW in x for x in names):
            rcs.add("rc_sparql_kw_in_class_selector")
    return rcs


def names_domain(ts, mode, cfg):
    """mirror of Model.Endpoint.C15_names_dom (the harness's own reading, compared with the model's on every case)"""
    fl = tree_flags()
    tau = cfg["tau"]
    strip = (lambda x: x) if fl["kw_once"] else (lambda x: x.replace(KW, ""))
    if mode[0] == "map":
        return True
    if strip(tau) != tau:
        return False
    if mode[0] == "classes":
        return all(strip(c) == c for c in mode[1])
    if not fl["all_tau"] and tau != RDF_TYPE:
        return False
    return all(strip(o[1]) == o[1] for _, p, o in ts if p == tau)


def compare_evidence(a, b, ties, kls):
    """C09's reading of 'the same shapes': labels/counts and key sets always; reported facts unless two references
    tie; chosen constraints unless candidates tie (those order dependences are C09's findings, not C15's)"""
    out = []
    if a["labels"] != b["labels"]:
        out.append("shapes / instance counts differ: %r vs %r" % (a["labels"], b["labels"]))
    if a["keys"] != b["keys"]:
        d = {k: sorted(a["keys"].get(k, set()) ^ b["keys"].get(k, set()))[:2] for k in set(a["keys"]) | set(b["keys"])
             if a["keys"].get(k) != b["keys"].get(k)}
        out.append("constraint keys differ: %r" % (d,))
    if "rc_reference_tie" not in ties and not ("rc_cardinality_tie" in ties and not kls):
        if a["facts"] != b["facts"]:
            out.append("reported facts differ: %r" % (sorted(set(a["facts"].items()) ^ set(b["facts"].items()))[:2],))
        if "rc_kind_tie" not in ties and a["chosen"] != b["chosen"]:
            d = [(k, sorted(a["chosen"][k] ^ b["chosen"].get(k, set()))[:2]) for k in a["chosen"]
                 if a["chosen"][k] != b["chosen"].get(k)]
            out.append("chosen constraints differ: %r" % (d[:1],))
    return out


def map_instances(ts, mode):
    """shape-map mode: node -> labels, one per answer row of each item (ShapeMapInstanceTracker)"""
    inst = collections.OrderedDict()
    for k, it in enumerate(mode[1]):
        label = "http://shapes.ex/S%d" % k
        if it[0] == "node":
            rows = [it[1]]
        elif it[0] == "focusS":
            rows = [s[1] for s, p, o in ts if p == it[1] and (it[2] is None or o[:2] == ("I", it[2]))]
        else:
            rows = [o[1] for s, p, o in ts if p == it[2] and (it[1] is None or s == ("I", it[1]))]
        for n in rows:
            if label not in inst.setdefault(n, []):      # a node answered several times carries the label once (9a400c9)
                inst[n].append(label)
    return inst


def ties_for(ts, mode, cfg):
    """C09's order-dependence root causes for the local extraction of `ts` in this mode"""
    if mode[0] != "map":
        return pipespec.tie_root_causes(ts, dict(cfg, all_classes=(mode[0] == "all"),
                                                 targets=mode[1] if mode[0] == "classes" else []))
    inst = map_instances(ts, mode)
    orig = pipespec.spec_instances
    pipespec.spec_instances = lambda ts_, cfg_: inst
    try:
        return pipespec.tie_root_causes(ts, dict(cfg, all_classes=False, targets=[]))
    finally:
        pipespec.spec_instances = orig


def evidence(res, tau):
    return pipespec.evidence_of(pipe.canon(res[1]), tau)


def is_fetch(q):
    return q[0] in ("po", "sp", "types")


def oracle(case, runs, local, local_T, ts_T=None):
    """-> (failures [(description)], n_checked)"""
    ts, mode, cfg, limit = case["ts"], case["mode"], case["cfg"], case["limit"]
    tau = cfg["tau"]
    on, off = runs[True], runs[False]
    fails = []
    n = 0
    # cache: only the number of queries may change
    lc = collections.Counter(map(tuple, on["log"]))
    ln = collections.Counter(map(tuple, off["log"]))
    n += 1
    if len(on["log"]) > len(off["log"]):
        fails.append("caching sends more queries (%d) than no caching (%d)" % (len(on["log"]), len(off["log"])))
    if lc - ln:
        fails.append("queries sent only with the cache: %r" % (list((lc - ln).items())[:2],))
    twice = [q for q, k in lc.items() if k > 1 and is_fetch(q)]
    if twice:
        fails.append("with the cache a node is fetched twice: %r" % (twice[:2],))
    ties = ties_for(ts if ts_T is None else ts_T, mode, cfg)
    kls = cfg["keep_less_specific"]
    n += 1
    if (on["out"][0] == "ok") != (off["out"][0] == "ok"):
        fails.append("cache on: %r, cache off: %r" % (on["out"][:2], off["out"][:2]))
    elif on["out"][0] == "ok":
        fails += ["cache on vs off: " + d for d in compare_evidence(evidence(on["out"], tau), evidence(off["out"], tau), ties, kls)]
    # endpoint vs local
    for name, loc in (("local extraction from G", local), ("local extraction from the statements of the returned instances", local_T)):
        if loc is None:
            continue
        n += 1
        for cache, r in ((True, on), (False, off)):
            if r["out"][0] != loc[0]:
                fails.append("endpoint (cache %s) answers %r, %s answers %r" % (cache, r["out"][:2], name, loc[:2]))
            elif loc[0] == "ok":
                fails += ["endpoint (cache %s) vs %s: %s" % (cache, name, d)
                          for d in compare_evidence(evidence(r["out"], tau), evidence(loc, tau), ties, kls)]
    return fails, n


# --------------------------------------------------------------------------
# one case: real runs, model runs, oracle, correspondence
# --------------------------------------------------------------------------

ENDPOINT_FILES = ("io/graph/yielder/remote", "model/graph/", "io/sparql/", "utils/triple_yielders.py", "utils/uri.py",
                  "core/instances/")


def correspondence(case, cache, real):
    """model vs real run -> (ok, description, model dict, table)"""
    ts, order, mode, cfg, limit = case["ts"], case["order"], case["mode"], case["cfg"], case["limit"]
    t = model_table(ts, order, mode, cfg, cache, limit, real["collected"])
    out = mb().call("c15_run", t)
    m = parse_model(out)
    if m["err"] == "unmodelled":
        return None, "unmodelled token (float() syntax outside the modelled subset)", m, (t, out)
    why = []
    if m["log"] != [tuple(q) for q in real["log"]]:
        why.append("query log differs")
    rp = list(real["passes"])
    if mode[0] == "map":
        mp = [m["passes"]["2"]]
        if not rp:
            rp = [[]]
    else:
        mp = [m["passes"]["1"], m["passes"]["2"]]
        rp = rp + [[]] * (2 - len(rp))
    if mp != rp:
        why.append("delivered triples differ")
    if m["ok"] and real["out"][0] != "ok":
        where = real["out"][2] if len(real["out"]) > 2 else ""
        if any(f in where for f in ENDPOINT_FILES):
            why.append("real run raises %s at %s, model finishes" % (real["out"][1], where))
    if not m["ok"]:
        if real["out"][0] == "ok":
            why.append("model raises %s, real run finishes" % m["err"])
        elif m["err"] != real["out"][1]:
            why.append("model raises %s, real run raises %s" % (m["err"], real["out"][1]))
    return (not why), "; ".join(why), m, (t, out)


def run_case(case):
    try:
        return _run_case(case)
    except Exception as e:  # noqa: BLE001 - harness trouble is an internal error, never a verdict
        return {"internal": "%s %s" % (type(e).__name__, traceback.format_exc()[-800:])}


def _run_case(case):
    ts, order, mode, cfg, limit = case["ts"], case["order"], case["mode"], case["cfg"], case["limit"]
    runs = {}
    for cache in (True, False):
        runs[cache] = run_endpoint(ts, order, mode, cfg, cache, limit, flip_repeats=case.get("flip", False),
                                   spelling=case.get("spelling"))
    T = oracle_targets(ts, mode, cfg, runs[True], limit)
    limited = mode[0] != "map" and (limit >= 0 or cfg["cap"] > 0)
    local = local_T = gT = None
    note = None
    if not limited:
        local = run_local(ts, mode, cfg, spelling=case.get("spelling"))   # instances_cap: "a positive value" caps; 0 does not (README)
    elif any(q[0] == "other" for q in runs[True]["log"] + runs[False]["log"]):
        note = "unrecognised_query"                # the instances the endpoint returned are not known to the oracle
    else:
        gT = restrict(ts, T, cfg["inverse_paths"])
        if cfg["cap"] > 0:
            sizes = collections.Counter()
            for s, p, o in gT:
                if p == cfg["tau"] and o[0] == "I" and s[1] in T and (mode[0] == "all" or o[1] in mode[1]):
                    sizes[o[1]] += 1
            if any(v > cfg["cap"] for v in sizes.values()):
                note = "cap_order_dependent"       # which instances the tracker keeps depends on delivery order
            else:
                local_T = run_local(gT, mode, cfg, spelling=case.get("spelling"))
        else:
            local_T = run_local(gT, mode, cfg, spelling=case.get("spelling"))
    fails, nitems = oracle(case, runs, local, local_T, gT if local_T is not None else None)
    rcs = sorted(root_causes(ts, mode, cfg, limit, T, case.get("flip", False)))
    res = {"fails": fails, "rcs": rcs, "nitems": nitems, "note": note, "corr": [], "unmodelled": 0,
           "monitor": runs[True]["monitor"] + runs[False]["monitor"], "vm": [],
           "syntactic_domain": syntactic_domain(ts, cfg["tau"]), "names_domain": names_domain(ts, mode, cfg),
           "outcomes": [runs[True]["out"][0] if runs[True]["out"][0] == "ok" else runs[True]["out"][1],
                        runs[False]["out"][0] if runs[False]["out"][0] == "ok" else runs[False]["out"][1]],
           "queries": (len(runs[True]["log"]), len(runs[False]["log"])),
           "delivered": sum(len(p) for p in runs[False]["passes"])}
    if not case.get("flip") and not res["monitor"]:
        for cache in (True, False):
            ok, why, m, tv = correspondence(case, cache, runs[cache])
            if ok is None:
                res["unmodelled"] += 1
                continue
            res["model_dom"] = m["dom"]
            res["model_names"] = m["names"]
            if not ok:
                res["corr"].append({"cache": cache, "why": why, "model_log": m["log"], "real_log": runs[cache]["log"],
                                    "model_passes": m["passes"], "real_passes": runs[cache]["passes"],
                                    "real_out": list(runs[cache]["out"])[:3], "model_err": m["err"]})
            if case.get("keep_vm") and cache:
                res["vm"].append(("c15_run", tv[0], tv[1]))
    if fails:
        res["outputs"] = {"cache_on": list(runs[True]["out"]), "cache_off": list(runs[False]["out"]),
                          "local": list(local) if local else None, "local_T": list(local_T) if local_T else None,
                          "log_on": runs[True]["log"], "log_off": runs[False]["log"]}
    return res


def gen_cases(tier, rnd, n):
    cases = []
    kinds = ["classes", "all", "map"]
    for i in range(n):
        r = random.Random(rnd.getrandbits(48))
        in_dom = (i % 5) != 4                       # one case in five from the out-of-domain stream
        ts = gen_case_graph(r, in_dom)
        cfg = pipe.switch_cfg(i // 3)
        cfg["mode"] = "mixed"
        cfg["inverse_paths"] = bool((i // 3) % 2)
        cfg["thr"] = r.choice([(0, 1), (0, 1), (1, 2), (1, 1)])
        kind = kinds[i % 3]
        r2 = random.Random(r.getrandbits(48))       # the plants draw from their own stream
        ts, planted = plant_names(r2, ts, cfg, kind)
        if r2.random() < 0.22:
            ts, twin = plant_twins(r2, ts, cfg["tau"])
            if twin:
                planted.append("twins_" + twin)
        mode = gen_mode(r, ts, cfg["tau"], kind)
        spelling = None
        if r2.random() < 0.35:
            # the user declares prefixes and may write the target classes with them (or between angle brackets)
            cfg["ns"] = [NS_EX] + [n for n in NS_MORE if r2.random() < 0.5]
            r2.shuffle(cfg["ns"])
            if mode[0] == "classes":
                spelling = [spell_class(r2, c, cfg["ns"]) for c in mode[1]]
                planted.append("class_spelling")
        if in_dom and mode[0] == "map":
            mode = ("map", [it for it in mode[1] if it[0] != "focusO"] or [("node", "http://ex.org/n0")])
        limit = -1
        cfg["cap"] = -1
        if kind != "map":
            k = r.random()
            if k < 0.18:
                limit = r.randint(1, 3)
            elif k < 0.36:
                cfg["cap"] = r.randint(1, 3)
            elif k < 0.41:
                cfg["cap"] = 0
        order = list(range(len(ts)))
        if i % 2:
            r.shuffle(order)
        cases.append({"ts": ts, "order": order, "mode": mode, "cfg": cfg, "limit": limit, "i": i,
                      "stream": "domain" if in_dom else "out-of-domain", "keep_vm": False, "planted": planted,
                      "spelling": spelling})
    return cases


def case_json(case):
    return {"ts": [[list(s), p, list(o)] for s, p, o in case["ts"]], "order": case["order"],
            "mode": case["mode"], "cfg": case["cfg"], "limit": case["limit"], "flip": case.get("flip", False),
            "spelling": case.get("spelling")}


def case_from_json(d):
    mode = d["mode"]
    if mode[0] == "classes":
        mode = ("classes", list(mode[1]))
    elif mode[0] == "map":
        mode = ("map", [tuple(it) for it in mode[1]])
    else:
        mode = ("all",)
    cfg = dict(d["cfg"])
    cfg["thr"] = tuple(cfg["thr"])
    cfg["ns"] = [tuple(x) for x in cfg.get("ns", [])]
    return {"ts": [(tuple(s), p, tuple(o)) for s, p, o in d["ts"]], "order": list(d["order"]), "mode": mode, "cfg": cfg,
            "limit": d["limit"], "flip": d.get("flip", False), "keep_vm": False, "spelling": d.get("spelling")}


def load_corpus():
    """regression cases of repaired defects (corpus/C15/*.json): replayed first, must pass"""
    d = os.path.join(core.VERIF, "corpus", "C15")
    out = []
    if os.path.isdir(d):
        for fn in sorted(os.listdir(d)):
            if fn.endswith(".json"):
                with open(os.path.join(d, fn)) as f:
                    c = case_from_json(json.load(f)["case"])
                c["corpus"] = fn
                c["stream"] = "corpus"
                out.append(c)
    return out


FINDING_OF = {"rc_literal_reader": "C15-F1", "rc_inverse_double": "C15-F2", "rc_bnode": "C15-F3",
              "rc_cap_zero": "C15-F4", "rc_no_class": "C15-F5", "rc_limit_two_selects": "C15-F6",
              "rc_cache_lang_merge": "C15-F7", "rc_cache_quote_merge": "C15-F8",
              "rc_all_classes_default_tau": "C15-F9", "rc_sparql_kw_in_class_selector": "C15-F10"}


# which oracle failures a root cause can explain: a merge inside the cache shows with the cache ON only (against the
# run without it, against the local run); the class-selector defects show against the local run, cache or not
CACHE_ONLY = {"rc_cache_lang_merge", "rc_cache_quote_merge"}
ENDPOINT_VS_LOCAL = {"rc_all_classes_default_tau", "rc_sparql_kw_in_class_selector"}


def explained(rc, msg):
    if rc in CACHE_ONLY:
        return msg.startswith("cache on vs off: ") or msg.startswith("endpoint (cache True)")
    if rc in ENDPOINT_VS_LOCAL:
        return msg.startswith("endpoint (cache ")
    return True


def attribute(rcs, fails, known):
    """the listed findings that explain ALL the failures of a case ([] = not explained: a violation)"""
    present = [rc for rc in rcs if rc in known]
    if present and all(any(explained(rc, m) for rc in present) for m in fails):
        return [known[rc] for rc in present if any(explained(rc, m) for m in fails)]
    return []


def run(tier, seed, replay=None):
    run = core.Run("C15", tier, seed)
    rc, out, _ = core.sh([core.PY, os.path.join(core.VERIF, "tools", "gen_consts_c15.py"), core.REPO], timeout=120)
    bs = core.build("C15")
    if rc != 0:
        bs.gen_ok = False
        bs.gen_log += "\n" + out
    proofs_ok = core.proof_gate(run, bs)
    rnd = random.Random(seed)
    findings = {f["id"]: f for f in core.load_findings("C15")}
    known = {f["root_cause_tag"]: fid for fid, f in findings.items() if f.get("status") == "known" and f.get("root_cause_tag")}
    if not bs.model_ok:
        run.notes.append("model binary unavailable: " + bs.model_log[-800:])
        run.violation("model no longer builds", {"broken": "Model/Entry extraction", "log": bs.model_log[-1500:]},
                      failing_input=False)
        return run.finish(bs)

    if replay:
        with open(replay) as f:
            rp = json.load(f)
        cases = [case_from_json(rp["case"])] if "case" in rp else []
    else:
        cases = load_corpus() + gen_cases(tier, rnd, 8000 if tier == "thorough" else 300)
        nvm = 60 if tier == "thorough" else 16
        for i in rnd.sample(range(len(cases)), min(nvm, len(cases))):
            cases[i]["keep_vm"] = True

    t0 = time.time()
    results = core.pool_map(run_case, cases, chunksize=4)
    spec_fail, corr_fail, known_hits = [], [], collections.Counter()
    stats = collections.Counter()
    outcomes = collections.Counter()
    nitems = 0
    distinct = set()
    vm_cases = []
    qsaved = []
    for k, (case, res) in enumerate(zip(cases, results)):
        if "internal" in res:
            run.internal_errors.append("case %d: %s" % (k, res["internal"]))
            continue
        nitems += res["nitems"]
        stats["stream_" + case.get("stream", "replay")] += 1
        stats["mode_" + case["mode"][0]] += 1
        stats["unmodelled_runs"] += res["unmodelled"]
        stats["fake_monitor_cases"] += bool(res["monitor"])
        stats["inverse"] += bool(case["cfg"]["inverse_paths"])
        stats["limit"] += case["limit"] >= 0
        stats["cap"] += case["cfg"]["cap"] > 0
        stats["shuffled_answers"] += case["order"] != sorted(case["order"])
        if res["note"]:
            stats[res["note"]] += 1
        for o in res["outcomes"]:
            outcomes[o] += 1
        qsaved.append(res["queries"])
        if res["delivered"] >= 4 and res["queries"][1] > res["queries"][0]:
            distinct.add(json.dumps(case_json(case), sort_keys=True))
        vm_cases += res["vm"]
        if res["syntactic_domain"] and res.get("model_dom") is False:
            corr_fail.append((k, [{"why": "C15_dom is false on a graph of the property's syntactic domain"}]))
        if "model_names" in res and res["model_names"] != res["names_domain"]:
            corr_fail.append((k, [{"why": "C15_names_dom is %s, the harness reads %s" % (res["model_names"], res["names_domain"])}]))
        stats["names_domain"] += bool(res["names_domain"])
        for tag in case.get("planted") or []:
            stats["planted_" + tag] += 1
        if res["fails"]:
            hit = attribute(res["rcs"], res["fails"], known)
            if hit:
                for fid in hit[:1]:
                    known_hits[fid] += 1
            else:
                spec_fail.append(k)
        if res["corr"]:
            corr_fail.append((k, res["corr"]))

    # pinned reproducers of the known findings
    for fid, f in findings.items():
        if f.get("status") != "known" or "reproducer" not in f:
            continue
        case = case_from_json(f["reproducer"])
        res = run_case(case)
        if "internal" in res:
            run.internal_errors.append("reproducer %s: %s" % (fid, res["internal"]))
        elif res["fails"]:
            run.known_finding(fid, "%s -> %s" % (f["what"], res["fails"][0][:160]))
        else:
            run.notes.append("finding %s no longer reproduces on its pinned input" % fid)

    vm_n = 0
    if vm_cases and not replay:
        vm_n, mism, log = core.vm_crosscheck(vm_cases, "c15", per_file=2, timeout=600)
        if mism:
            run.internal_errors.append("extracted binary and vm_compute disagree (C15): %s %s" % (mism[:5], log[-300:]))

    for k in spec_fail[:5]:
        res = results[k]
        run.violation("C15 fails on the implementation: %s" % res["fails"][0][:300],
                      {"case": case_json(cases[k]), "document": nt_doc([cases[k]["ts"][i] for i in cases[k]["order"]]),
                       "oracle_failures": res["fails"][:10], "root_causes_present": res["rcs"], "outputs": res.get("outputs")})
    if not spec_fail:
        if corr_fail:
            k, why = corr_fail[0]
            run.violation("correspondence Model.Endpoint.run vs shexer's endpoint path (query log, delivered triples) "
                          "no longer checks",
                          {"broken": "correspondence c15_run: sequence of (kind, node) queries and delivered triples per pass",
                           "case": case_json(cases[k]), "first_disagreement": why[0], "n_disagreements": len(corr_fail),
                           "document": nt_doc([cases[k]["ts"][i] for i in cases[k]["order"]]),
                           "oracle": "the property oracle found no failing input among %d cases" % len(cases)},
                          failing_input=False)
        elif not proofs_ok:
            run.violation("proof obligations of C15 no longer check",
                          {"broken": "theorems of Props/C15.v (C15_triples, C15_delivered_once, C15_cache_same_result, C15_cache_log_partial, "
                                     "C15_equals_local_partial, refuted witnesses)",
                           "log": run.notes[-1] if run.notes else ""}, failing_input=False)

    good = [i for i in range(len(cases)) if "internal" not in results[i]]
    run.coverage.update({
        "evaluations": 3 * len(cases),
        "cases": len(cases),
        "real_runs_per_case": "endpoint with cache, endpoint without cache, local (G, or the statements of the returned instances)",
        "distinct_nontrivial": len(distinct),
        "rule": "regression cases of corpus/C15 first; then graphs from pipe.gen_graph (1-4 classes, 2-6 nodes, multi-typed "
                "nodes, links between instances; some nodes renamed to urn: / mailto: IRIs) with IRI nodes and plain, typed "
                "(integer, float, date, custom datatype; well- and ill-formed lexical forms, numeric- and IRI-looking "
                "strings) and language-tagged literals (4 of 5 cases) or also with blank nodes (1 of 5); planted (own random "
                "stream, counted under distribution.planted_*): several literals of one (subject, predicate) that differ only "
                "in their language tag and / or only after an embedded double quote (22 %), an instantiation property other "
                "than rdf:type, some rdf:type statements kept (22 %), class / predicate / node IRIs and instantiation "
                "properties holding the keyword 'SPARQL', also where the name without it is another class (20 %) "
                "x {target_classes, "
                "all_classes_mode, shape map of node / FOCUS selectors} round-robin x inverse_paths x 2^6 inference switches "
                "x limit_remote_instances / instances_cap in 1..3 (36 %) and instances_cap = 0 (5 %) x answers in document "
                "order or shuffled (every other case) x cache on and off (both, every case); distinct = distinct (graph, "
                "order, mode, configuration); non-trivial = at least 4 triples delivered and the cache saves at least one query",
        "checked_items": nitems,
        "distribution": dict(stats),
        "outcome_distribution": dict(outcomes),
        "queries_cache_vs_nocache_total": [sum(a for a, _ in qsaved), sum(b for _, b in qsaved)],
        "known_finding_hits": dict(known_hits),
        "tree_flags": tree_flags(),
        "corpus_cases_replayed_first": len([c for c in cases if c.get("corpus")]),
        "corpus_cases_failing": sorted({cases[k]["corpus"] for k in spec_fail if cases[k].get("corpus")}),
        "disagreements_model_vs_impl": len(corr_fail),
        "vm_compute_crosschecked": vm_n,
        "correspondence_projection": "per endpoint run (2 per case): the sequence of (kind, node) queries parsed from the "
                                     "recorded query strings, the sequence of triples each pass of the yielder delivered "
                                     "(wrapped yield_triples), success / exception class; oracle inputs: answer order = "
                                     "ranking of the statements, set order = list returned by _collect_every_target_node",
        "samples": [{"document": nt_doc([cases[i]["ts"][j] for j in cases[i]["order"]])[:1200], "mode": cases[i]["mode"],
                     "limit": cases[i]["limit"], "cap": cases[i]["cfg"]["cap"], "inverse": cases[i]["cfg"]["inverse_paths"],
                     "queries_cache_nocache": results[i]["queries"], "outcomes": results[i]["outcomes"]}
                    for i in (good[:1] + good[len(good) // 2:len(good) // 2 + 1] + good[-1:])],
        "exhaustive": False,
        "impl_wall_s": round(time.time() - t0, 1),
    })
    run.assumptions = [
        "the endpoint is an in-process function replacing shexer.io.sparql.query._query_endpoint_json_result; rdflib "
        "evaluates the query text; its solutions are checked against the harness's matcher on every query (monitor) and "
        "answered in the order of a per-run ranking of the statements; LIMIT k = the first k of that order",
        "SPARQL-JSON bindings as rdflib serialises them (type uri / bnode / literal, xml:lang, datatype)",
        "rdflib's Memory store iterates insertion-ordered dictionaries (spo / osp indexes): modelled exactly",
        "float() of an unquoted token is modelled on a stated subset of its syntax; other tokens are an explicit "
        "'unmodelled' outcome of the model and those runs are left out of the correspondence (counted)",
        "equality of shapes is C09's reading (labels, counts, key sets always; facts and chosen constraints unless "
        "candidates tie); equality of the final shapes from equal delivered multisets relies on C09",
        "Shaper defaults for depth_for_building_subgraph (1), track_classes_for_entities_at_last_depth_level (False), "
        "strict_syntax_with_corners (False), infer_numeric_types_for_untyped_literals (True)"]
    return run.finish(bs)
