"""One fresh interpreter of the C19 check: runs every case of a cases file under the
PYTHONHASHSEED it was started with and prints {case id: digest} as JSON on the last line.

usage: PYTHONHASHSEED=<n> PYTHONPATH=<repo> python c19_worker.py <cases.json>
"""
import hashlib
import json
import os
import re
import signal
import sys
import warnings

warnings.filterwarnings("ignore")
sys.path.insert(0, os.path.join(os.path.dirname(os.path.abspath(__file__)), "..", ".."))

T = "http://www.w3.org/1999/02/22-rdf-syntax-ns#type"
_NT = re.compile(r'^(\S+)\s+(\S+)\s+(.*?)\s*\.\s*$')


def tsv_of(nt):
    out = []
    for l in nt.splitlines():
        m = _NT.match(l)
        if m:
            out.append("\t".join(m.groups()))
    return "\n".join(out) + "\n"


class Alarm(Exception):
    pass


def _alarm(*a):
    raise Alarm()


def shape_map_for(kind, classes, preds):
    if kind == "sm_focus":
        return "\n".join("{FOCUS a <%s>}@<S%d>" % (c, i) for i, c in enumerate(classes))
    if kind == "sm_sparql":
        return "\n".join('SPARQL "select ?s where { ?s a <%s> }"@<S%d>' % (c, i) for i, c in enumerate(classes))
    # mixed: a SPARQL selector, a FOCUS-with-wildcard selector over a predicate, overlapping node sets
    return ('SPARQL "select ?s where { ?s a <%s> }"@<S0>\n{FOCUS <%s> _}@<K>' % (classes[0], preds[0]))


PRIORITY = ["", "weso-s", "shapes", "w-shapes"]     # the four default prefixes of the property text, in order
_SHAPES_PREFIX = re.compile(r"^PREFIX (\S*): <http://weso\.es/shapes/>\s*$", re.M)


def shapes_prefix(text):
    m = _SHAPES_PREFIX.search(text)
    return m.group(1) if m else None


def abstract_prefix(text, pfx):
    """the ShExC text with the prefix of the shapes namespace replaced by a fixed mark (PREFIX line, shape
    labels, shape references): what must not depend on the process when the prefix itself may be random"""
    text = _SHAPES_PREFIX.sub("PREFIX \u00a7: <http://weso.es/shapes/>", text)
    return re.sub(r"(^|[\s@\[(])" + re.escape(pfx) + r":(?=[^\s/])", "\\1\u00a7:", text, flags=re.M)


_SUBJ = re.compile(r'^<([^>]*)>\s')
SHAPES = "http://shapes.org/"


def nodes_of(g):
    """subject IRIs in document order (graph dictionaries written before the mix_* kinds carry no node list)"""
    if g.get("nodes"):
        return list(g["nodes"])
    out = []
    for l in g["nt"].splitlines():
        m = _SUBJ.match(l)
        if m and m.group(1) not in out:
            out.append(m.group(1))
    return out


def mixed_shape_map(kind, g):
    """shape maps for the runs WITH all_classes_mode (MixedInstanceTracker): they select a few nodes from the
    middle and the end of the document, so that most typed nodes are known to the class tracker only and the
    selected ones come first in the merged instance dictionary although the document has them later"""
    nodes, classes, preds = nodes_of(g), g["classes"], g["preds"]
    picked = [nodes[len(nodes) // 2], nodes[-1]] if len(nodes) > 1 else nodes
    if kind == "mix_node":
        return "\n".join("<%s>@<%sHub>" % (n, SHAPES) for n in picked)
    if kind == "mix_focus":
        return "{FOCUS a <%s>}@<%sS0>\n<%s>@<%sHub>" % (classes[-1], SHAPES, picked[0], SHAPES)
    if kind == "mix_sparql":
        return 'SPARQL "select ?s where { ?s <%s> ?o }"@<%sK>' % (preds[0], SHAPES)
    raise ValueError(kind)


def build_kwargs(case, graphs, workdir):
    import rdflib
    g = graphs[case["graph"]]
    nt, classes, preds = g["nt"], g["classes"], g["preds"]
    kind = case["kind"]
    kw = {}
    if kind == "nt_classes":
        kw = dict(raw_graph=nt, target_classes=classes)
    elif kind == "nt_all_ex":
        kw = dict(raw_graph=nt, all_classes_mode=True, examples_mode="all", detect_minimal_iri=True, inverse_paths=True,
                  instances_report_mode="mixed")
    elif kind == "nt_file":
        kw = dict(graph_file_input=os.path.join(workdir, case["graph"] + ".nt"), all_classes_mode=True)
    elif kind == "nt_or":
        kw = dict(raw_graph=nt, all_classes_mode=True, disable_or_statements=False, keep_less_specific=False,
                  all_instances_are_compliant_mode=False)
    elif kind == "tsv":
        kw = dict(raw_graph=tsv_of(nt), input_format="tsv_spo", all_classes_mode=True)
    elif kind == "ttl_iter":
        kw = dict(raw_graph=nt, input_format="turtle_iter", all_classes_mode=True)
    elif kind in ("sm_focus", "sm_sparql", "sm_mixed"):
        kw = dict(raw_graph=nt, shape_map_raw=shape_map_for(kind, classes, preds), examples_mode="all",
                  inverse_paths=(kind == "sm_mixed"))
    elif kind in ("mix_node", "mix_focus", "mix_sparql"):
        # shape map AND all_classes_mode: the only configuration that builds a MixedInstanceTracker
        kw = dict(raw_graph=nt, shape_map_raw=mixed_shape_map(kind, g), all_classes_mode=True)
        if kind == "mix_focus":
            kw.update(examples_mode="all", instances_report_mode="mixed")
        elif kind == "mix_sparql":
            kw.update(inverse_paths=True, detect_minimal_iri=True)
    elif kind.startswith("pfx_"):
        # pfx_<b0b1b2b3>: the i-th default prefix of the shapes namespace is bound by the user iff b_i = 1
        kw = dict(raw_graph=nt, all_classes_mode=True,
                  namespaces_dict={"http://n%d.org/" % i: PRIORITY[i] for i in range(4) if kind[4 + i] == "1"})
    elif kind == "prefixes3":
        kw = dict(raw_graph=nt, all_classes_mode=True,
                  namespaces_dict={"http://a.org/": "", "http://b.org/": "weso-s", "http://c.org/": "w-shapes"})
    elif kind == "prefixes4":
        kw = dict(raw_graph=nt, all_classes_mode=True,
                  namespaces_dict={"http://a.org/": "", "http://b.org/": "weso-s", "http://c.org/": "w-shapes",
                                   "http://d.org/": "shapes"})
    elif kind == "rdflib_obj":
        kw = dict(rdflib_graph=rdflib.Graph().parse(data=nt, format="nt"), all_classes_mode=True)
    elif kind == "ttl_parsed":
        kw = dict(raw_graph=nt, input_format="turtle", all_classes_mode=True)
    elif kind == "xml_parsed":
        kw = dict(graph_file_input=os.path.join(workdir, case["graph"] + ".xml"), input_format="xml", all_classes_mode=True)
    elif kind.startswith("endpoint"):
        import shexer.io.sparql.query as Q
        rg = rdflib.Graph().parse(data=nt, format="nt")

        def fake(endpoint_url, str_query, max_retries=5, sleep_time=2, fake_user_agent=True):
            j = json.loads(rg.query(str_query).serialize(format="json"))
            # the endpoint's answer is an INPUT: make it the same in every process
            j["results"]["bindings"].sort(key=lambda b: json.dumps(b, sort_keys=True))
            return j
        Q._query_endpoint_json_result = fake
        kw = dict(url_endpoint="http://fake.invalid/sparql")
        if kind == "endpoint_classes":
            kw.update(target_classes=classes)
        elif kind == "endpoint_all":
            kw.update(all_classes_mode=True)
        elif kind == "endpoint_nocache":
            kw.update(all_classes_mode=True, disable_endpoint_cache=True)
        else:
            kw.update(shape_map_raw=shape_map_for("sm_mixed", classes, preds))
    else:
        raise ValueError(kind)
    return kw


def run_case(case, graphs, workdir):
    from shexer.shaper import Shaper
    from vp.props.c18 import shacl_canon
    kw = build_kwargs(case, graphs, workdir)
    sh = Shaper(**kw)
    text = sh.shex_graph(string_output=True, output_format=case["fmt"])
    if case["fmt"] == "Shacl":
        text = shacl_canon(text)       # the @prefix lines and a hash of the graph
        if case["kind"] == "pfx_1111":  # all four taken: the prefix may be random, the graph may not
            text = re.sub(r"(?m)^@prefix \S*: <http://weso\.es/shapes/> \.\n", "", text)   # (its place in the sorted lines moves too)
    elif case["kind"].startswith("pfx_"):
        pfx = shapes_prefix(text)
        INFO[case["id"]] = {"shape_prefix": pfx}
        if case["kind"] == "pfx_1111" and pfx is not None:     # all four taken: the prefix may be random, the rest not
            text = abstract_prefix(text, pfx)
    return hashlib.sha256(text.encode("utf-8")).hexdigest(), text


INFO = {}


def main():
    with open(sys.argv[1]) as f:
        spec = json.load(f)
    workdir = os.path.dirname(os.path.abspath(sys.argv[1]))
    keep_text = len(sys.argv) > 2 and sys.argv[2] == "--text"
    signal.signal(signal.SIGALRM, _alarm)
    out = {}
    for case in spec["cases"]:
        signal.setitimer(signal.ITIMER_REAL, 30)
        try:
            d, text = run_case(case, spec["graphs"], workdir)
            out[case["id"]] = d if not keep_text else [d, text]
        except Alarm:
            out[case["id"]] = "HANG"
        except BaseException as e:  # noqa
            out[case["id"]] = "EXC %s: %s" % (type(e).__name__, str(e)[:100])
        finally:
            signal.setitimer(signal.ITIMER_REAL, 0)
    sys.stdout.write("\n" + json.dumps({"seed": os.environ.get("PYTHONHASHSEED"), "digests": out, "info": INFO}) + "\n")


if __name__ == "__main__":
    main()
