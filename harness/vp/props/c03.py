"""C03 -- in all-compliant mode every instance conforms to its extracted shape.

Theorems: Props/C03.v.  Correspondence: full canonical structure and figures
of the real ShExC output vs the pipeline model's (both runs of a case).

ORACLE: the real ShExC text is parsed back (pipe.canon) into schema rows and
the validator EXTRACTED from Spec/ShexSem.v (entry c03_validate:
valid_typingb / pair_ok / explain) judges every (instance, shape) pair of the
instance typing against the abstract triples.  Two side claims are checked on
the real runs as well: a '?' constraint never sits on a (class, path, value
expression) for which some instance has two matching values (recounted here
from the triples), and switching the mode off leaves every cardinality that
was not relaxed unchanged and never yields '?'/'*' (pipespec.check_option on
the pair of real runs).

A failure on an input inside the property's strict domain (strict_dom below,
written from the quantifier text) is a VIOLATION.  Outside it a failure is
attributed to one of the three root causes the property names, by predicates
on the data (root_cause below); anything else is a VIOLATION too.
"""
import collections
import itertools
import random

from vp import pipeprops, pipespec, pipe

TAU = pipe.RDF_TYPE
EX = "http://ex.org/"
SW4 = ["allow_opt_cardinality", "disable_exact_cardinality", "discard_useless_constraints_with_positive_closure",
       "inverse_paths"]


# --------------------------------------------------------------------------
# generators
# --------------------------------------------------------------------------

def gen_sc(r, max_inst=4):
    """schema-consistent graph: per (class, property, direction) the non-literal neighbours have one node kind and
    are all untyped or all instances of one single-typed class; literal datatypes mixed in; per-instance
    cardinalities 0-3; blank-node classes; links from untyped subjects; cycles between classes"""
    ncls = r.randint(1, 3)
    classes = [EX + "C%d" % i for i in range(ncls)]
    bn = [r.random() < 0.25 for _ in classes]
    inst = {c: [(("B", "_:b%d_%d" % (ci, j)) if bn[ci] else ("I", EX + "n%d_%d" % (ci, j)))
                for j in range(r.randint(1, max_inst))] for ci, c in enumerate(classes)}
    ts = []
    seen = set()

    def add(t):
        if t not in seen:
            seen.add(t)
            ts.append(t)

    for c in classes:
        for n in inst[c]:
            add((n, TAU, ("I", c)))
    u_i = [("I", EX + "u%d" % i) for i in range(3)]
    u_b = [("B", "_:ub%d" % i) for i in range(3)]
    dts_all = [pipe.XSD + "string", pipe.XSD + "integer", "http://ex.org/dt", pipe.LANGSTRING]
    pid = 0
    has_ref = set()
    targets = set()
    shared_lit = EX + "name"
    for c in classes:
        for _ in range(r.randint(1, 3)):
            kind = r.choice(["lit", "lit", "iri_u", "bn_u", "ref", "ref", "lit+iri_u", "lit+bn_u", "lit+ref"])
            if kind == "lit" and r.random() < 0.3:
                p = shared_lit                 # a literal-only property shared between classes
            else:
                p = EX + "p%d" % pid
                pid += 1
            tgt = r.choice(classes)
            dts = r.sample(dts_all, r.randint(1, 2))
            fixed = r.choice([None, None, 1, 2]) if r.random() < 0.4 else None
            ks = kind.split("+")
            if "ref" in ks:
                has_ref.add(c)
                targets.add(tgt)
            for n in inst[c]:
                nvals = fixed if fixed is not None else r.choice([0, 1, 1, 2, 3])
                for _ in range(nvals):
                    k = r.choice(ks)
                    if k == "lit":
                        dt = r.choice(dts)
                        o = ("L", "v%d" % r.randint(0, 20), dt) + (("en",) if dt == pipe.LANGSTRING else ())
                    elif k == "iri_u":
                        o = r.choice(u_i)
                    elif k == "bn_u":
                        o = r.choice(u_b)
                    else:
                        o = r.choice(inst[tgt])
                    add((n, p, o))
    # untyped subjects pointing at instances (inverse paths see them)
    for c in classes:
        if r.random() < 0.5:
            p = EX + "q%d" % pid
            pid += 1
            src = r.choice([u_i, u_b])
            for n in inst[c]:
                for _ in range(r.choice([0, 1, 2])):
                    add((r.choice(src), p, n))
    # a second class on some instances of a class that neither references nor is referenced
    free = [c for c in classes if c not in has_ref and c not in targets]
    if free and r.random() < 0.3:
        c = r.choice(free)
        for n in inst[c]:
            if r.random() < 0.6:
                add((n, TAU, ("I", EX + "Extra")))
    r.shuffle(ts)
    return ts


def gen_planted(r):
    """general stream: a schema-consistent graph with one of the three named root causes planted"""
    ts = gen_sc(r)
    inst = pipespec.spec_instances(ts, pipe.base_cfg())
    kinds = {s[1]: s[0] for s, p, o in ts}
    ids = sorted(inst)
    what = r.choice(["tie", "overlap", "plain"])
    p = EX + "zz"
    c0 = inst[ids[0]][0]
    members = [i for i in ids if c0 in inst[i]]
    if what == "tie":
        # values typed with a class next to untyped values of the same kind
        tgt = r.choice(ids)
        for i in members:
            ts.append(((kinds[i], i), p, (kinds[tgt], tgt)))
        i = r.choice(members)
        ts.append(((kinds[i], i), p, (kinds[tgt], "_:un" if kinds[tgt] == "B" else EX + "un")))
    elif what == "overlap":
        for i in members:
            if r.random() < 0.7:
                ts.append(((kinds[i], i), p, ("I", EX + "un")))
        i = r.choice(members)
        ts.append(((kinds[i], i), p, ("I", EX + "un")))
        ts.append(((kinds[i], i), p, ("B", "_:un")))
    seen = []
    for t in ts:
        if t not in seen:
            seen.append(t)
    r.shuffle(seen)
    return seen


def cfg_of(idx, kls=True):
    cfg = pipe.base_cfg()
    for b, name in enumerate(SW4):
        cfg[name] = bool((idx >> b) & 1)
    cfg["keep_less_specific"] = kls
    return cfg


def case_of(ts, cfg, meta):
    off = dict(cfg)
    off["all_instances_are_compliant_mode"] = False
    return {"runs": [(ts, cfg), (ts, off)], "meta": meta}


def exhaustive_graphs():
    """2 classes (A: 1-3 subjects, B: 2 targets), one property on A's instances, every assignment of a value subset
    of a 3-element pool to every instance, for 5 pools"""
    A, B = EX + "A", EX + "B"
    out = []
    pools = {
        "literals": [("L", "a", pipe.XSD + "string"), ("L", "b", pipe.XSD + "string"), ("L", "1", pipe.XSD + "integer")],
        "refs+literal": [("I", EX + "b0"), ("I", EX + "b1"), ("L", "a", pipe.XSD + "string")],
        "bnode refs+literal": [("B", "_:b0"), ("B", "_:b1"), ("L", "a", pipe.XSD + "string")],
        "untyped iris+literal": [("I", EX + "u0"), ("I", EX + "u1"), ("L", "a", pipe.XSD + "string")],
        "untyped bnodes+literal": [("B", "_:u0"), ("B", "_:u1"), ("L", "1", pipe.XSD + "integer")],
    }
    subsets = [[x for k, x in enumerate(range(3)) if (m >> k) & 1] for m in range(8)]
    for name, pool in pools.items():
        base = []
        if "refs" in name:
            base = [(pool[0], TAU, ("I", B)), (pool[1], TAU, ("I", B))]
        for n in (1, 2, 3):
            subj = [("I", EX + "a%d" % i) for i in range(n)]
            for assign in itertools.product(range(8), repeat=n):
                ts = list(base) + [(s, TAU, ("I", A)) for s in subj]
                for s, m in zip(subj, assign):
                    ts += [(s, EX + "p", pool[k]) for k in subsets[m]]
                out.append((name, ts))
    return out


# --------------------------------------------------------------------------
# the property's strict domain and the three named root causes (from the quantifier text)
# --------------------------------------------------------------------------

def node_kinds(ts):
    k = {}
    for s, p, o in ts:
        k[s[1]] = s[0]
        if o[0] != "L":
            k[o[1]] = o[0]
    return k


def neighbours(ts, inverse):
    """(instance id, 'd'|'i', p) -> list of neighbour terms"""
    nb = collections.defaultdict(list)
    for s, p, o in ts:
        nb[(s[1], "d", p)].append(o)
        if inverse and o[0] != "L":
            nb[(o[1], "i", p)].append(s)
    return nb


def path_report(ts, cfg):
    """per (class, dir, p), p != tau: (kinds of the non-literal neighbours, set of class tuples of the typed ones,
    any untyped one?, some instance has both an IRI and a BNode neighbour?)"""
    inst = pipespec.spec_instances(ts, cfg)
    nb = neighbours(ts, cfg["inverse_paths"])
    rep = {}
    for (i, d, p), vals in nb.items():
        if i not in inst or p == cfg["tau"]:
            continue
        nl = [v for v in vals if v[0] != "L"]
        both = any(v[0] == "I" for v in nl) and any(v[0] == "B" for v in nl)
        for c in inst[i]:
            e = rep.setdefault((c, d, p), {"kinds": set(), "typed": set(), "untyped": False, "both": False})
            e["kinds"] |= {v[0] for v in nl}
            for v in nl:
                if v[1] in inst:
                    e["typed"].add(tuple(inst[v[1]]))
                else:
                    e["untyped"] = True
            e["both"] = e["both"] or both
    return inst, rep


def cfg_in_domain(cfg):
    return (cfg["keep_less_specific"] and cfg["all_instances_are_compliant_mode"] and cfg["thr"] == (0, 1)
            and cfg["disable_or_statements"] and cfg["all_classes"] and cfg["cap"] <= 0
            and cfg["shapes_ns"] == pipe.DEFAULT_SHAPES_NS and cfg["remove_empty_shapes"])


def strict_dom(ts, cfg):
    """the quantifier's strict domain as a predicate on (graph, configuration)"""
    return cfg_in_domain(cfg) and graph_in_domain(ts, cfg)


def graph_in_domain(ts, cfg):
    """the graph part; inverse neighbours are constrained whether or not inverse_paths is on (as Coq's strict_domb)"""
    cfg = dict(cfg)
    cfg["inverse_paths"] = True
    # the model's graph keeps the datatype of a literal, not its language tag (Spec/Rdf.v): two statements that differ
    # in the tag only are one repeated statement there, and Coq's strict_domb excludes repeated statements
    erased = [(s_, p_, o_[:3] if o_[0] == "L" else o_) for s_, p_, o_ in ts]
    if len(set(erased)) != len(erased):
        return False
    for s_, p_, o_ in ts:                     # blank-node identifiers start with "_:", IRI identifiers do not
        for x in (s_, o_):
            if x[0] != "L" and (x[0] == "B") != x[1].startswith("_:"):
                return False
    inst, rep = path_report(ts, cfg)
    classes = {c for cs in inst.values() for c in cs}
    if len({pipespec.shape_label(c) for c in classes}) != len(classes):
        return False                          # two classes behind one label
    for s, p, o in ts:
        if p == cfg["tau"] and (o[0] != "I" or o[1] in inst):
            return False                      # classes are IRIs and are not themselves instances
    for e in rep.values():
        if len(e["kinds"]) > 1:
            return False                      # homogeneous node kind
        if e["typed"] and (e["untyped"] or len(e["typed"]) > 1 or len(next(iter(e["typed"]))) != 1):
            return False                      # all untyped, or all instances of one single-typed class
    return True


def root_cause(ts, cfg, inst, rep, cls, d, p, doc_shape, kind, card=None, n=0):
    """which of the three root causes the property names explains a failure on path (d, p) of the shape of class
    cls; kind = 'unmatched' (a value matches no constraint) | 'card' (constraint with cardinality `card` has n
    matching values)"""
    e = rep.get((cls, d, p))
    cons = [c for c in doc_shape["constraints"] if c["inv"] == (d == "i") and c["pred"] == p]
    if e is not None:
        # IRI+BNode merge double counting: a NONLITERAL line whose figure counts an instance having both kinds twice
        if kind == "card" and e["both"] and any(c["values"] == ["NONLITERAL"] for c in cons):
            return "rc_c03_nonliteral_overlap"
        # reference promoted because its instance count reaches the node kind's (tie), although some neighbour of
        # that kind is not an instance of the class behind the reference
        refs = [c["values"][0][1:] for c in cons if len(c["values"]) == 1 and c["values"][0].startswith("@")]
        if kind == "unmatched" and refs:
            behind = [c for c in {x for cs in inst.values() for x in cs} if pipespec.shape_label(c) == refs[0]]
            nb = neighbours(ts, cfg["inverse_paths"])
            n_ref = n_iri = n_bn = 0
            stranger = False
            for i, cs in inst.items():
                if cls in cs:
                    vals = [v for v in nb.get((i, d, p), []) if v[0] != "L"]
                    is_ref = [v[1] in inst and any(b in inst[v[1]] for b in behind) for v in vals]
                    stranger = stranger or not all(is_ref)
                    n_ref += any(is_ref)
                    n_iri += any(v[0] == "I" for v in vals)
                    n_bn += any(v[0] == "B" for v in vals)
            tie = n_ref in (n_iri, n_bn, n_iri + n_bn)
            # with keep_less_specific=False the compared counts are those of the most frequent exact cardinalities
            if stranger and (tie or not cfg["keep_less_specific"]):
                return "rc_c03_reference_tie"
    # keep_less_specific=False keeps the most frequent exact cardinality {1} and relaxes it to '?'
    if not cfg["keep_less_specific"] and kind == "card" and card == "?" and n > 1:
        return "rc_c03_keep_less_specific_false"
    return None


# --------------------------------------------------------------------------
# schema rows for the extracted validator
# --------------------------------------------------------------------------

def ve_row(v):
    if v == "IRI":
        return ("I", "")
    if v == "BNode":
        return ("B", "")
    if v == "NONLITERAL":
        return ("N", "")
    if v.startswith("@"):
        return ("R", v[1:])
    if v.startswith("[") and v.endswith("]"):
        return ("V", v[1:-1])
    if v in ("LITERAL", "."):
        raise ValueError("value expression %r is outside Spec/ShexSem" % v)
    return ("D", v)


def card_row(c):
    if c == "+":
        return ("P", "0")
    if c == "*":
        return ("S", "0")
    if c == "?":
        return ("O", "0")
    return ("E", c.strip("{}"))


def validator_table(doc, ts, typing):
    t = []
    for sh in doc["shapes"]:
        t.append(["S", sh["label"]])
        for c in sh["constraints"]:
            if len(c["values"]) != 1:
                raise ValueError("disjunctions are outside Spec/ShexSem")
            vk, va = ve_row(c["values"][0])
            ck, k = card_row(c["card"])
            t.append(["C", sh["label"], "1" if c["inv"] else "0", c["pred"], vk, va, ck, k])
    for s, p, o in ts:
        if o[0] == "L":
            t.append(["T", s[0], s[1], p, "L", o[1], o[2]])
        else:
            t.append(["T", s[0], s[1], p, o[0], o[1], ""])
    for kind, i, label in typing:
        t.append(["Y", kind, i, label])
    return t


def unlabel(name):
    """model shape name '%<iri>' -> iri"""
    return name[2:-1] if name.startswith("%<") and name.endswith(">") else name


def py_matches(v, ve, inst):
    """the same reading of a value expression, in Python, for the recount of the '?' side claim"""
    if ve == "IRI":
        return v[0] == "I"
    if ve == "BNode":
        return v[0] == "B"
    if ve == "NONLITERAL":
        return v[0] != "L"
    if ve.startswith("@"):
        return v[0] != "L" and any(pipespec.shape_label(c) == ve[1:] for c in inst.get(v[1], []))
    if ve.startswith("["):
        return v[0] == "I" and v[1] == ve[1:-1]
    return v[0] == "L" and v[2] == ve


# --------------------------------------------------------------------------
# the check
# --------------------------------------------------------------------------

class Spec(pipeprops.PropSpec):
    pid = "C03"
    theorems = ("C03_mode_off_keeps_cards, C03_mode_on_off, C03_relaxed_card_sound, C03_cardinalities(_binary64), "
                "C03_opt_at_most_one, C03_conformance(_exact), C03_conformance_partial(_exact), C03_conformance_checked (Props/C03.v)")
    projection = staticmethod(pipeprops.proj_figures)
    projection_name = ("full canonical structure: per shape label, instance count, constraints (direction, predicate, "
                       "value expression, cardinality, figures) and comments, order included; both runs (mode on / off)")
    rule = ("schema-consistent graphs (1-3 classes of 1-4 IRI or blank-node instances, 1-3 properties per class with "
            "literal / untyped IRI / untyped BNode / reference values and literal datatypes mixed in, per-instance "
            "cardinalities 0-3, links from untyped subjects, cycles, a second class on unreferenced instances) x "
            "keep_less_specific=True x all 16 assignments of allow_opt_cardinality, disable_exact_cardinality, "
            "discard_useless_constraints_with_positive_closure, inverse_paths, threshold 0, mode on (oracle) and off "
            "(side claim); about 20 % general graphs (pipe.gen_graph general mode and planted root causes, "
            "keep_less_specific both ways); distinct = distinct (document, configuration pair); non-trivial = some "
            "class with >= 2 instances and some non-typing triple")
    assumptions = ["the ShExC text is parsed back by the harness canonicaliser (pipe.canon); a line it cannot parse "
                   "is reported as a failure", "typing = every selected instance paired with the label of each of its "
                   "classes (pipespec.spec_instances / shape_label, recomputed from the triples)",
                   "C03_conformance needs no profile premise (Proofs/ConformBridge.v discharges it from P1); the boolean "
                   "mirror profile_exactb of that premise is still evaluated by the extracted model on every generated "
                   "input whose configuration is in the domain (entry c03_premises) and must hold whenever strict_domb "
                   "does; Coq's strict_domb and this module's graph_in_domain must agree on every such input "
                   "(disagreement = internal error)",
                   "the schema the theorems speak about (Model/SchemaOf.schema_of of the model's shapes) is compared "
                   "with the schema parsed from the implementation's text on every such input (entry c03_model_schema)"]

    def gen_cases(self, tier, rnd):
        cases = []
        ngraphs = 30000 if tier == "thorough" else 500
        per_graph = 2 if tier == "thorough" else 16
        for i in range(ngraphs):
            r = random.Random(rnd.getrandbits(48))
            stream = i % 5
            if stream != 4:
                ts = gen_sc(r)
                kls = [True]
            elif (i // 5) % 2 == 0:
                ts = pipe.gen_graph(r, general=True)
                kls = [True, False]
            else:
                ts = gen_planted(r)
                kls = [True, False]
            idxs = range(16) if per_graph == 16 else [(i * 2 + j) % 16 for j in range(per_graph)]
            for j in idxs:
                k = kls[(i + j) % len(kls)]
                cases.append(case_of(ts, cfg_of(j, k), {"stream": ["sc", "sc", "sc", "sc", "general"][stream], "i": i}))
        # documents that state the class membership of ONE instance twice (concatenated dumps, the same statement in two
        # files): the graph is the same, so every instance must still conform; only classes with another instance, so
        # that the repeated statement does not become an exact cardinality of the whole class (C10-F7's root cause)
        for i in range(3000 if tier == "thorough" else 120):
            r = random.Random(rnd.getrandbits(48))
            ts = gen_sc(r) if i % 2 else pipe.gen_graph(r, general=True)
            typing_ts = [t for t in ts if t[1] == pipe.RDF_TYPE and t[2][0] == "I"]
            by_class = {}
            for t in typing_ts:
                by_class.setdefault(t[2], []).append(t)
            cands = [t for c, l in by_class.items() if len({x[0] for x in l}) >= 2 for t in l]
            if not cands:
                continue
            t = r.choice(cands)
            ts = list(ts)
            ts.insert(r.randint(0, len(ts)), t)
            j = r.randrange(16)
            cases.append(case_of(ts, cfg_of(j, True), {"stream": "repeated-typing", "i": i}))
        if tier == "thorough":
            for name, ts in exhaustive_graphs():
                for j in range(16):
                    cases.append(case_of(ts, cfg_of(j), {"stream": "exhaustive", "pool": name}))
        return cases

    def oracle(self, case, impl):
        ts, cfg = case["runs"][0][:2]
        if impl[0][0] != "ok":
            return [], 0                  # crashes are C04's subject
        fails = []
        doc = pipe.canon(impl[0][1])
        if doc["unparsed"]:
            return [(None, "unparsed output line %r" % doc["unparsed"][0])], 0
        # conformance is judged on the GRAPH the document denotes (a set of triples): a repeated statement is one
        # triple; only the strict-domain test looks at the document (it excludes repeated statements, as Coq's does)
        in_dom = strict_dom(ts, cfg)
        # nodes whose class membership the DOCUMENT states twice and that are the value of some statement: the
        # profiler counts the reference to their class once per statement of membership (finding C03-F4)
        seen_t, twice = set(), set()
        for t in ts:
            if t[1] == cfg["tau"]:
                (twice if t in seen_t else seen_t).add(t)
        dup_values = {t[0] for t in twice} & ({o for (_, p_, o) in ts if o[0] != "L" and p_ != cfg["tau"]} |
                                              {s_ for (s_, p_, _) in ts if p_ != cfg["tau"]})     # value, or (inverse) subject
        ts = list(dict.fromkeys(ts))
        inst, rep = path_report(ts, cfg)
        kinds = node_kinds(ts)
        by_label = {sh["label"]: sh for sh in doc["shapes"]}
        typing = [(kinds[i], i, pipespec.shape_label(c, cfg["shapes_ns"])) for i, cs in inst.items() for c in cs]
        cls_of_pair = {(i, pipespec.shape_label(c, cfg["shapes_ns"])): c for i, cs in inst.items() for c in cs}
        nitems = len(typing)

        def attribute(cls, d, p, label, desc, kind, card=None, n=0):
            rc = None if in_dom else root_cause(ts, cfg, inst, rep, cls, d, p,
                                                by_label.get(label, {"constraints": []}), kind, card, n)
            if rc is None and not in_dom and kind == "card" and dup_values:
                rc = "rc_repeated_typing_of_value"
            fails.append((rc, desc))

        # (1) the extracted validator on every (instance, shape) pair
        if cfg["all_instances_are_compliant_mode"]:
            # the validator judges the GRAPH (a set): a repeated statement of the document is one triple
            out = pipeprops._mb().call("c03_validate", validator_table(doc, ts, typing))
            if out[0][0] != "valid" or len(out) != len(typing) + 1:
                raise RuntimeError("c03_validate answered %r" % (out[:1],))
            all_ok = out[0][1] == "1"
            bad = [row for row in out[1:] if row[3] != "1"]
            if all_ok != (not bad):
                raise RuntimeError("valid_typingb disagrees with the per-pair verdicts")
            for kind, i, label, ok, reason, refined in bad[:6]:
                f = reason.split("|")
                if f[0] == "noshape":
                    fails.append((None, "instance %s has no shape %s" % (i, label)))
                    continue
                d = "i" if f[1] == "1" else "d"
                attribute(cls_of_pair[(i, label)], d, f[2], label,
                          "instance %s does not conform to %s: %s" % (i, label, reason), f[0],
                          f[4] if f[0] == "card" else None, int(f[5]) if f[0] == "card" else 0)
            # (1b) premises of C03_conformance_partial evaluated by the extracted model on this input: the Coq
            #      strict_domb must classify the graph as strict_dom here does, and inside the strict domain the
            #      profile characterisation (premise P1, profile_exactb) must hold of the model's profile
            if cfg_in_domain(cfg):
                prem = pipeprops._mb().call("c03_premises", pipe.model_table(ts, cfg))
                if prem[0][0] != "ok":
                    raise RuntimeError("c03_premises answered %r" % (prem[:1],))
                coq_dom, coq_exact = prem[0][1] == "1", prem[0][2] == "1"
                nitems += 1
                if coq_dom != graph_in_domain(ts, cfg):
                    raise RuntimeError("Coq strict_domb = %s but the harness's strict domain predicate says %s on\n%s\n%r" % (
                        coq_dom, not coq_dom, pipe.nt_doc(ts), {k: v for k, v in cfg.items() if v != pipe.base_cfg().get(k)}))
                if coq_dom and not coq_exact:
                    fails.append((None, "premise profile_exact (P1) of C03_conformance_partial does not hold of the "
                                        "model's profile on this strict-domain input"))
                # the schema the theorems speak about (SchemaOf.schema_of of the model's shapes) is the one parsed
                # from the MODEL's text (which the correspondence compares with the implementation's)
                ms = pipeprops._mb().call("c03_model_schema", pipe.model_table(ts, cfg))
                mt = pipe.model_shexc(pipeprops._mb(), ts, cfg)
                if ms[0][0] == "ok" and mt[0] == "ok":
                    mine = [r for r in validator_table(pipe.canon(mt[1]), [], []) if r[0] in ("S", "C")]
                    theirs = [[f for f in r] for r in ms[1:]]
                    for r in theirs:
                        r[1] = unlabel(r[1])
                        if r[0] == "C" and r[4] == "R":
                            r[5] = unlabel(r[5])
                        if r[0] == "C" and r[6] != "E":
                            r[7] = "0"
                    if [list(map(str, r)) for r in mine] != theirs:
                        raise RuntimeError("schema_of(model shapes) differs from the schema parsed from the model's text: %r vs %r" % (
                            [r for r in theirs if r not in mine][:2], [r for r in mine if r not in theirs][:2]))
            # (2) '?' only where no instance has two matching values (recount from the triples)
            nb = neighbours(ts, cfg["inverse_paths"])
            for sh in doc["shapes"]:
                classes = pipespec.class_of_label(sh["label"], inst, cfg["shapes_ns"])
                for c in sh["constraints"]:
                    if c["card"] != "?" or len(c["values"]) != 1:
                        continue
                    d = "i" if c["inv"] else "d"
                    for cls in classes:
                        for i, cs in inst.items():
                            if cls in cs:
                                n = sum(1 for v in nb.get((i, d, c["pred"]), []) if py_matches(v, c["values"][0], inst))
                                nitems += 1
                                if n > 1:
                                    attribute(cls, d, c["pred"], sh["label"],
                                              "'?' on %s %s %s of %s although instance %s has %d matching values" % (
                                                  d, c["pred"], c["values"][0], sh["label"], i, n), "card", "?", n)
        # (3) mode off never changes a cardinality (two real runs)
        if len(case["runs"]) > 1 and len(impl) > 1 and impl[1][0] == "ok":
            off = case["runs"][1][1]
            if cfg["all_instances_are_compliant_mode"] and not off["all_instances_are_compliant_mode"]:
                nitems += 1
                for rc, desc in pipespec.check_option("all_instances_are_compliant_mode", cfg, off, doc,
                                                      pipe.canon(impl[1][1]), ts):
                    fails.append((None, desc))
        return fails, nitems

    def domain_note(self):
        return ("strict domain (strict_dom): keep_less_specific, threshold 0, all classes, default shapes namespace, no "
                "disjunctions; per (class, property, direction) non-literal neighbours of one node kind, all untyped or "
                "all instances of one single-typed class; classes are IRIs with distinct labels and are not instances; "
                "blank-node identifiers start with '_:' and IRI identifiers do not; no duplicate triple. "
                "Outside it failures are attributed to C03-F1 (reference chosen on a count tie), C03-F2 (NONLITERAL "
                "merge with an instance having both kinds) or C03-F3 (keep_less_specific=False)")


def run(tier, seed, replay=None):
    spec = Spec()
    rc = pipeprops.run_property(spec, tier, seed, replay)
    if replay is None:
        annotate_evidence(spec, tier, seed)
    return rc


def annotate_evidence(spec, tier, seed):
    """C03-specific coverage figures, measured on the cases of this run (regenerated from the seed)"""
    import json
    import os
    from vp import core
    path = os.path.join(core.EVID, "C03.json")
    try:
        with open(path) as f:
            ev = json.load(f)
    except Exception:
        return
    cases = spec.gen_cases(tier, random.Random(seed))
    streams = collections.Counter(c["meta"]["stream"] for c in cases)
    strict = sum(1 for c in cases if strict_dom(c["runs"][0][0], c["runs"][0][1]))
    monitored = sum(1 for c in cases if cfg_in_domain(c["runs"][0][1]))
    graphs = len({pipe.nt_doc(c["runs"][0][0]) for c in cases})
    cov = ev["coverage"]
    cov["input_distribution"] = {"cases_by_stream": dict(streams), "cases_inside_strict_dom": strict,
                                 "cases_outside_strict_dom": len(cases) - strict, "distinct_graphs": graphs,
                                 "runs_per_case": 2, "switch_assignments": 16}
    cov["premises_monitored_cases"] = monitored
    cov["validator"] = "extracted Spec/ShexSem.valid_typingb / pair_ok / explain (entry c03_validate)"
    if tier == "thorough":
        cov["exhaustive"] = True
        cov["exhaustive_subspace"] = ("all graphs with class A of 1-3 IRI subjects, one property, every assignment of a "
                                      "subset of a 3-value pool to every subject, for 5 pools (literals of two datatypes; "
                                      "two IRI instances of a class B + a literal; two blank-node instances of B + a "
                                      "literal; two untyped IRIs + a literal; two untyped blank nodes + a literal) x all "
                                      "16 switch assignments: %d cases; the random streams are sampled" % streams["exhaustive"])
    with open(path, "w") as f:
        json.dump(ev, f, indent=1, default=str)
