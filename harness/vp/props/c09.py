"""C09 -- shapes do not depend on statement order or blank-node labels.

Oracle: metamorphic -- two real runs (original document; permuted and
blank-node-relabelled document) must report the same evidence; the chosen
constraints must be equal whenever no two candidates tie.

The renaming draws the new labels from the whole BLANK_NODE_LABEL grammar of
N-Triples (vp.bnlabels: inner '.', '-', ':', non-ASCII letters, combining
marks, labels that differ only after a '.', labels that are proper prefixes
of each other, labels of several hundred characters, labels differing in
case only) -- the label language of Spec/NtSyntax.valid_label, on which the
reader is proved right (C06) for the layout of these documents (' .' closes
every statement, no comments; the one excluded layout, C06-F7r `_:b2.#c`,
does not occur).  Every third document is made blank-node heavy (instances
and values turned into blank nodes), so that the labels occur as subject, as
object directly before the closing ' .', typed and untyped.  One case in
four reads the renamed document a second time from a FILE (graph_file_input;
kind "shexc_ntfile") and judges that run against the original as well."""
import itertools
import os
import random
import signal
import warnings

from vp import bnlabels, core, pipeprops, pipespec, pipe
from vp.props import c14


def blank_nodes(ts):
    return sorted({x[1] for s, p, o in ts for x in (s, o) if x[0] == "B"})


def relabel(ts, r, kind=None):
    """-> (renamed triples, family, labels): an injective renaming of the blank nodes into one label family"""
    bn = blank_nodes(ts)
    fam, names = bnlabels.family(r, len(bn), kind) if bn else ("none", [])
    r.shuffle(names)
    m = dict(zip(bn, names))
    f = lambda x: ("B", m[x[1]]) + tuple(x[2:]) if x[0] == "B" else x
    return [(f(s), p, f(o)) for s, p, o in ts], fam, names


def bnodify(ts, r, general, tau=pipe.RDF_TYPE):
    """turn IRI nodes (never classes or predicates) into blank nodes: node by node on general graphs, class by
    class on schema-consistent ones (the neighbours of a (class, property) stay of one kind)"""
    classes = {o[1] for s, p, o in ts if p == tau and o[0] != "L"}
    cls_of = {}
    for s, p, o in ts:
        if p == tau and o[0] != "L":
            cls_of.setdefault(s, []).append(o[1])
    nodes = sorted({x for s, p, o in ts for x in (s, o) if x[0] == "I" and x[1] not in classes})
    if general:
        chosen = [n for n in nodes if r.random() < 0.6]
    else:
        cs = [c for c in sorted(classes) if r.random() < 0.6]
        chosen = [n for n in nodes if (cls_of.get(n) and all(c in cs for c in cls_of[n]))
                  or (not cls_of.get(n) and r.random() < 0.5)]
    taken = set(blank_nodes(ts))
    m = {}
    for n in chosen:
        k = len(m)
        while "_:g%d" % k in taken:
            k += 1000
        m[n] = ("B", "_:g%d" % k)
        taken.add("_:g%d" % k)
    f = lambda x: m.get(tuple(x[:2]), x) if x[0] == "I" else x
    return [(f(s), p, f(o)) for s, p, o in ts]


_GUARD = {}


def bnode_guard_present():
    """Gen.Consts.c_min_iri_skips_bnode_prefix, asked from the model binary (entry c17_info): True iff the source tree
    the constants were generated from carries `if longest_common_prefix.startswith("_:"): return None` first in
    AnnotateMinIriStrategy._determine_suitable_iri_pattern (tools/gen_consts.py accepts exactly the two texts of
    the function).  With the test the root cause of C09-F3 is not in the source: a difference of stems is never
    excused (Props/C09.v: C09_stem_rename_invariant says there is none)."""
    pid = os.getpid()
    if pid not in _GUARD:
        _GUARD.clear()
        mb = core.ModelBin()
        try:
            _GUARD[pid] = mb.call("c17_info", [["x"]])[0][0] == "1"
        finally:
            mb.close()
    return _GUARD[pid]


def bnode_stem_classes(ts, cfg):
    """C09-F3, computed from the data: with detect_minimal_iri, the classes all of whose instances are blank nodes
    whose labels share a prefix that reaches a ':' and is at least three characters long ('_:' included) -- the
    longest-common-prefix fold of the profiler runs over blank-node labels as if they were IRIs and the cut at
    the last of ':', '/', '#' leaves a 'stem' (labels hold no '/' or '#').  Empty when the source refuses a
    common prefix that starts with '_:' (the repair): nothing is attributed to the finding then."""
    if not cfg.get("detect_minimal_iri") or bnode_guard_present():
        return {}
    by = {}
    for i, cs in pipespec.spec_instances(ts, cfg).items():
        for c in cs:
            by.setdefault(c, []).append(i)
    out = {}
    for c, ids in by.items():
        if all(i.startswith("_:") for i in ids):
            cut = os.path.commonprefix(ids)
            cut = cut[:cut.rfind(":") + 1]
            if len(cut) >= 3:
                out[c] = cut
    return out


# ---- the renamed document once more, from a file (the line reader of graph_file_input, same tokeniser)

_FILE_DIR = os.path.join(core.WORK, "c09")
_orig_impl_other = pipe.impl_other


def impl_ntfile(ts, cfg, timeout=10.0):
    from shexer.shaper import Shaper
    warnings.filterwarnings("ignore")
    os.makedirs(_FILE_DIR, exist_ok=True)
    path = os.path.join(_FILE_DIR, "doc_%d.nt" % os.getpid())
    with open(path, "w", encoding="utf-8", newline="") as f:
        f.write(pipe.nt_doc(ts))
    k, m = cfg["thr"]
    old = signal.signal(signal.SIGALRM, pipe._alarm)
    signal.setitimer(signal.ITIMER_REAL, timeout)
    try:
        sh = Shaper(graph_file_input=path, **pipe.shaper_kwargs(cfg))
        return ("ok", sh.shex_graph(string_output=True, acceptance_threshold=(k / m)))
    except pipe.Hang:
        return ("err", "Hang", "")
    except Exception as e:  # noqa: BLE001 - the observable is the exception class
        import traceback
        frames = [f for f in traceback.extract_tb(e.__traceback__) if "/shexer/" in f.filename]
        where = "%s:%d:%s" % (frames[-1].filename.split("/shexer/")[-1], frames[-1].lineno, frames[-1].name) if frames else ""
        return ("err", type(e).__name__, where)
    finally:
        signal.setitimer(signal.ITIMER_REAL, 0)
        signal.signal(signal.SIGALRM, old)
        try:
            os.remove(path)
        except OSError:
            pass


def _impl_other(ts, cfg, kind, timeout=10.0):
    if kind == "shexc_ntfile":
        return impl_ntfile(ts, cfg, timeout)
    return _orig_impl_other(ts, cfg, kind, timeout)


pipe.impl_other = _impl_other        # vp.pipeprops / vp.pipe are not edited (as vp.pipemap.install does)


def plant_class_as_node(r, ts, tau=pipe.RDF_TYPE):
    """a class of the graph becomes a node like any other: it gets a class itself (`<C> tau <C'>`) and is the value
    of an ordinary property of one or two typed nodes (`<n> p <C>`), so that one IRI occurs as the object of typing
    statements AND as an ordinary non-literal value (ontology-plus-data documents); seed C09-m5"""
    ts = list(ts)
    classes = list(dict.fromkeys(o for _, p, o in ts if p == tau and o[0] == "I"))
    typed = list(dict.fromkeys(s for s, p, o in ts if p == tau and o[0] != "L"))
    props = list(dict.fromkeys(p for _, p, _ in ts if p != tau)) or [c14.E + "p0"]
    if not classes or not typed:
        return ts
    have = set(ts)
    # a class with a blank-node instance is not given a class: with inverse_paths the key of an incoming typing
    # statement is the SUBJECT's id (`^ rdf:type [<_:b0>]`), which a renaming of the blank nodes renames with it
    # (C09_keys_rename_invariant states exactly that, through rvc); the harness compares keys literally
    free = [c for c in classes if not any(s[0] == "B" and p == tau and o == c for s, p, o in ts)]
    c = r.choice(free or classes)
    for t in ([(c, tau, r.choice(classes))] if free else []) + \
            [(r.choice(typed), r.choice(props), c) for _ in range(r.choice([1, 2]))]:
        if t not in have:
            have.add(t)
            ts.insert(r.randint(0, len(ts)), t)
    return ts


class Spec(pipeprops.PropSpec):
    pid = "C09"
    theorems = "C09_occ_permutation_invariant, C09_profile_counts_permutation_invariant (Props/C09.v)"
    projection = staticmethod(pipeprops.proj_figures)
    projection_name = "per shape label, instance count, constraints with cardinalities and all figures"
    rule = ("graphs as C01 (general and schema-consistent; every third one blank-node heavy: IRI nodes turned into "
            "blank nodes) x a random permutation of the statements composed with a random injective renaming of "
            "the blank nodes into one family of the BLANK_NODE_LABEL grammar (plain / siblings differing after a "
            "'.', '-', ':' or a non-ASCII character / proper-prefix chains / several hundred characters / case "
            "only / uniform over the grammar) x switch assignments round-robin; one document in five carries 1-4 "
            "literals spelled like the IRI / label of a node, a class or a property (c14.plant_iri_literals), one in "
            "ten a class that is itself a typed node and an ordinary value (plant_class_as_node): one string in "
            "object position under two node kinds; one case in four reads the renamed "
            "document from a file as well; exhaustive over all permutations for documents of <= 5 statements "
            "(thorough: <= 6); non-trivial = some class with >= 2 instances and some non-typing triple")

    def __init__(self):
        self.stats = {"families": {}, "features": {}, "cases_with_blank_nodes": 0, "blank_node_heavy": 0,
                      "file_runs": 0, "renamed_subjects": 0, "renamed_objects": 0, "planted": {},
                      "objects_spelled_alike_under_two_kinds": 0,
                      "detect_minimal_iri_runs_with_a_class_of_blank_nodes_only": 0}

    def _count(self, fam, names, ts2, heavy, with_file):
        st = self.stats
        st["families"][fam] = st["families"].get(fam, 0) + 1
        for t in bnlabels.feature_tags(names):
            st["features"][t] = st["features"].get(t, 0) + 1
        st["cases_with_blank_nodes"] += bool(names)
        st["blank_node_heavy"] += bool(heavy)
        st["file_runs"] += bool(with_file)
        st["renamed_subjects"] += sum(1 for s, p, o in ts2 if s[0] == "B")
        st["renamed_objects"] += sum(1 for s, p, o in ts2 if o[0] == "B")

    def domain_note(self):
        try:
            guard = bnode_guard_present()
        except Exception:  # noqa: BLE001 - the note is informative only
            guard = None
        return ("bnode_prefix_guard_in_source (no stem from a common prefix that starts with '_:'; C09-F3 is excused "
                "only without it): %r; " % guard) + self._domain_note()

    def _domain_note(self):
        return ("blank-node labels: Spec/NtSyntax.valid_label (C06's label language), statements closed by ' .', no "
                "comments (C06_dom_fx2 holds: C06-F7r needs a comment glued to the dot); renamings generated: %r"
                % (self.stats,))

    def gen_cases(self, tier, rnd):
        n = 20000 if tier == "thorough" else 1500
        cases = []
        for i in range(n):
            r = random.Random(rnd.getrandbits(48))
            general = (i % 2 == 0)
            ts = pipe.gen_graph(r, general=general)
            heavy = (i % 3 == 2)
            if heavy:
                ts = bnodify(ts, r, general)
            cfg = pipeprops.random_cfg(r, ts, i)
            cfg["cap"] = -1          # the cap keeps the first k instances in document order (C16): not order-invariant
            cfg["detect_minimal_iri"] = (i % 2 == 1)   # the stem is part of "the same shapes" (implementation side only)
            planted = None
            if i % 5 == 4:
                ts, planted = c14.plant_iri_literals(r, ts, tau=cfg["tau"]), "iri_spelled_literals"
            elif i % 10 == 7:
                ts, planted = plant_class_as_node(r, ts, cfg["tau"]), "class_as_node"
            if planted:
                self.stats["planted"][planted] = self.stats["planted"].get(planted, 0) + 1
            kinds = {}
            for _, p_, o_ in ts:
                kinds.setdefault(o_[1], set()).add("L" if o_[0] == "L" else ("T" if p_ == cfg["tau"] else "N"))
            self.stats["objects_spelled_alike_under_two_kinds"] += any(len(v) > 1 for v in kinds.values())
            ts2, fam, names = relabel(ts, r)
            r.shuffle(ts2)
            runs = [(ts, cfg), (ts2, cfg)]
            with_file = bool(names) and i % 4 == 3
            if with_file:
                runs.append((ts2, cfg, "shexc_ntfile"))
            self._count(fam, names, ts2, heavy, with_file)
            if cfg["detect_minimal_iri"]:
                by = {}
                for inst, cs in pipespec.spec_instances(ts2, cfg).items():
                    for c in cs:
                        by.setdefault(c, []).append(inst)
                self.stats["detect_minimal_iri_runs_with_a_class_of_blank_nodes_only"] += any(
                    all(x.startswith("_:") for x in ids) for ids in by.values())
            cases.append({"runs": runs, "meta": {"kind": "random", "family": fam, "blank_node_heavy": heavy}})
        # exhaustive permutations of tiny documents
        lim = 6 if tier == "thorough" else 5
        ntiny = 12 if tier == "thorough" else 3
        for j in range(ntiny):
            r = random.Random(rnd.getrandbits(48))
            ts = pipe.gen_graph(r, general=True, max_nodes=3)[:lim]
            cfg = pipeprops.random_cfg(r, ts, j, rich=False)
            for perm in itertools.permutations(ts):
                cases.append({"runs": [(ts, cfg), (list(perm), cfg)], "meta": {"kind": "exhaustive"}})
        return cases

    def oracle(self, case, impl):
        """every further run (renamed + permuted document; the same from a file) against the first one"""
        if impl[0][0] != "ok":
            # the original document is refused: so must be the others (nothing to compare otherwise)
            fails = [(None, "run %d ends %r, the original document ends %r" % (k, r[:2], impl[0][:2]))
                     for k, r in enumerate(impl) if k > 0 and r[:2] != impl[0][:2]]
            return fails, 0
        ts, cfg = case["runs"][0][:2]
        d1 = pipe.canon(impl[0][1])
        e1 = pipespec.evidence_of(d1, cfg["tau"])
        st1 = {sh["label"]: sh["stem"] for sh in d1["shapes"]}
        rcs = pipespec.tie_root_causes(ts, cfg)
        fails = []
        for k in range(1, len(impl)):
            tag = "" if k == 1 else " [run %d: %s]" % (k, (list(case["runs"][k][2:]) or ["shexc"])[0])
            if impl[k][0] != "ok":
                fails.append((None, "the renamed / permuted document ends %r, the original one is extracted%s"
                              % (impl[k][1:], tag)))
                continue
            d2 = pipe.canon(impl[k][1])
            e2 = pipespec.evidence_of(d2, cfg["tau"])
            st2 = {sh["label"]: sh["stem"] for sh in d2["shapes"]}
            if st1 != st2:
                # C09-F3: a "stem" cut out of blank-node labels (root cause computed from the two documents; the
                # stems that differ must all be label stems or absent, anything else stays unexplained)
                bst = dict(bnode_stem_classes(ts, cfg), **bnode_stem_classes(case["runs"][k][0], cfg))
                diff = [(st1.get(l), st2.get(l)) for l in set(st1) | set(st2) if st1.get(l) != st2.get(l)]
                only_labels = all(x is None or x.startswith("_:") for pair in diff for x in pair)
                rc = "rc_bnode_label_stem" if bst and only_labels and set(st1) == set(st2) else None
                fails.append((rc, "IRI stems differ: %r vs %r%s" % (st1, st2, tag)))
            if e1["labels"] != e2["labels"]:
                fails.append((None, "shapes / instance counts differ: %r vs %r%s" % (e1["labels"], e2["labels"], tag)))
            if e1["keys"] != e2["keys"]:
                fails.append((None, "constraint keys differ" + tag))
            if e1["facts"] != e2["facts"]:
                d = sorted(set(e1["facts"].items()) ^ set(e2["facts"].items()))[:2]
                rc = "rc_reference_tie" if "rc_reference_tie" in rcs else (
                    "rc_cardinality_tie" if "rc_cardinality_tie" in rcs and not cfg["keep_less_specific"] else None)
                fails.append((rc, "reported fact sets differ: %r%s" % (d, tag)))
            if e1["chosen"] != e2["chosen"]:
                if "rc_kind_tie" in rcs or "rc_reference_tie" in rcs:
                    pass          # the property requires equal choices only when no candidate kinds tie
                else:
                    d = [(c, sorted(e1["chosen"][c] ^ e2["chosen"].get(c, set()))[:2]) for c in e1["chosen"]
                         if e1["chosen"][c] != e2["chosen"].get(c)]
                    rc = "rc_cardinality_tie" if "rc_cardinality_tie" in rcs and not cfg["keep_less_specific"] else None
                    fails.append((rc, "chosen constraints differ without a kind tie: %r%s" % (d[:1], tag)))
        return fails, len(impl) - 1


def run(tier, seed, replay=None):
    return pipeprops.run_property(Spec(), tier, seed, replay)
