"""C09 -- shapes do not depend on statement order or blank-node labels.

Oracle: metamorphic -- two real runs (original document; permuted and
blank-node-relabelled document) must report the same evidence; the chosen
constraints must be equal whenever no two candidates tie."""
import itertools
import random

from vp import pipeprops, pipespec, pipe


def relabel(ts, r):
    bn = sorted({x[1] for s, p, o in ts for x in (s, o) if x[0] == "B"})
    names = ["_:z%d" % i for i in range(len(bn))]
    r.shuffle(names)
    m = dict(zip(bn, names))
    f = lambda x: ("B", m[x[1]]) + tuple(x[2:]) if x[0] == "B" else x
    return [(f(s), p, f(o)) for s, p, o in ts]


class Spec(pipeprops.PropSpec):
    pid = "C09"
    theorems = "C09_occ_permutation_invariant, C09_profile_counts_permutation_invariant (Props/C09.v)"
    projection = staticmethod(pipeprops.proj_figures)
    projection_name = "per shape label, instance count, constraints with cardinalities and all figures"
    rule = ("graphs as C01 (general and schema-consistent) x a random permutation of the statements composed with a "
            "random injective renaming of blank nodes x switch assignments round-robin; exhaustive over all "
            "permutations for documents of <= 5 statements (thorough: <= 6); non-trivial = some class with >= 2 "
            "instances and some non-typing triple")

    def gen_cases(self, tier, rnd):
        n = 20000 if tier == "thorough" else 1500
        cases = []
        for i in range(n):
            r = random.Random(rnd.getrandbits(48))
            ts = pipe.gen_graph(r, general=(i % 2 == 0))
            cfg = pipeprops.random_cfg(r, ts, i)
            cfg["cap"] = -1          # the cap keeps the first k instances in document order (C16): not order-invariant
            cfg["detect_minimal_iri"] = (i % 2 == 1)   # the stem is part of "the same shapes" (implementation side only)
            ts2 = relabel(ts, r)
            r.shuffle(ts2)
            cases.append({"runs": [(ts, cfg), (ts2, cfg)], "meta": {"kind": "random"}})
        # exhaustive permutations of tiny documents
        lim = 6 if tier == "thorough" else 5
        ntiny = 12 if tier == "thorough" else 3
        for j in range(ntiny):
            r = random.Random(rnd.getrandbits(48))
            ts = pipe.gen_graph(r, general=True, max_nodes=3)[:lim]
            cfg = pipeprops.random_cfg(r, ts, j, rich=False)
            for perm in itertools.permutations(ts):
                cases.append({"runs": [(ts, cfg), (list(perm), cfg)], "meta": {"kind": "exhaustive"}})
        return cases

    def oracle(self, case, impl):
        if any(r[0] != "ok" for r in impl):
            return [], 0
        ts, cfg = case["runs"][0][:2]
        e1 = pipespec.evidence_of(pipe.canon(impl[0][1]), cfg["tau"])
        e2 = pipespec.evidence_of(pipe.canon(impl[1][1]), cfg["tau"])
        rcs = pipespec.tie_root_causes(ts, cfg)
        fails = []
        st1 = {sh["label"]: sh["stem"] for sh in pipe.canon(impl[0][1])["shapes"]}
        st2 = {sh["label"]: sh["stem"] for sh in pipe.canon(impl[1][1])["shapes"]}
        if st1 != st2:
            fails.append((None, "IRI stems differ: %r vs %r" % (st1, st2)))
        if e1["labels"] != e2["labels"]:
            fails.append((None, "shapes / instance counts differ: %r vs %r" % (e1["labels"], e2["labels"])))
        if e1["keys"] != e2["keys"]:
            fails.append((None, "constraint keys differ"))
        if e1["facts"] != e2["facts"]:
            d = sorted(set(e1["facts"].items()) ^ set(e2["facts"].items()))[:2]
            rc = "rc_reference_tie" if "rc_reference_tie" in rcs else (
                "rc_cardinality_tie" if "rc_cardinality_tie" in rcs and not cfg["keep_less_specific"] else None)
            fails.append((rc, "reported fact sets differ: %r" % (d,)))
        if e1["chosen"] != e2["chosen"]:
            if "rc_kind_tie" in rcs or "rc_reference_tie" in rcs:
                pass          # the property requires equal choices only when no candidate kinds tie
            else:
                d = [(k, sorted(e1["chosen"][k] ^ e2["chosen"].get(k, set()))[:2]) for k in e1["chosen"]
                     if e1["chosen"][k] != e2["chosen"].get(k)]
                rc = "rc_cardinality_tie" if "rc_cardinality_tie" in rcs and not cfg["keep_less_specific"] else None
                fails.append((rc, "chosen constraints differ without a kind tie: %r" % (d[:1],)))
        return fails, 1


def run(tier, seed, replay=None):
    return pipeprops.run_property(Spec(), tier, seed, replay)
