"""C14 -- inverse paths add incoming-link constraints and leave the rest untouched.

Oracle, on three real runs (G with inverse_paths, G without, reverse(G) without):
  * the run with inverse_paths has the instance counts and the outgoing constraints of the run without;
  * its incoming ('^') constraints are the outgoing constraints of the reversed graph (strict when no blank node
    is involved): literal triples are never reversed, so a literal can never give an incoming constraint;
  * its incoming constraints are those of the DATA: keys (against the threshold) and every figure recomputed from
    the abstract triples (the Spec-level recount of C01 / C02 -- pipespec.check_figures / check_keys -- restricted
    to the '^' constraints), for every target, whatever way it was selected.

Streams: graphs as C01 (class targets); the same with literals whose lexical form is the IRI / blank-node label of
a tracked instance, of a class, of a property (plain, "..."^^xsd:string, xsd:anyURI, language-tagged); shape-map
runs (vp.pipemap: Model/RunMap.v is the corresponded model) in which some targets only ever occur as objects
(selected by node selectors or {_ p FOCUS}).
"""
import random
import re
from fractions import Fraction

from vp import core, pipeprops, pipespec, pipe, pipemap
from vp.props import c10

pipemap.install()      # shape-map runs (cfg["smap"]) go through Model.RunMap / Shaper(shape_map_raw=...)

E = pipemap.E
SH = pipemap.SH
XS = pipe.XSD + "string"
ANYURI = pipe.XSD + "anyURI"


def reverse_graph(ts, tau):
    out = []
    for s, p, o in ts:
        if p == tau:
            out.append((s, p, o))
        elif o[0] != "L":
            out.append((o, p, s))
    return out


def cons_list(doc, inv, tau, skip_tau):
    return {sh["label"]: [(c["pred"], tuple(c["values"]), c["card"], c["fig"],
                           tuple((k.get("obj"), k.get("card"), k.get("fig")) for k in c["comments"]))
                          for c in sh["constraints"] if c["inv"] == inv and not (skip_tau and c["pred"] == tau)]
            for sh in doc["shapes"]}


# --------------------------------------------------------------------------
# generators
# --------------------------------------------------------------------------

def plant_iri_literals(r, ts, tau=pipe.RDF_TYPE, extra_nodes=(), avoid_props=()):
    """adds 1..4 statements `s p "lex"` whose object is a LITERAL spelled like a term of the graph: the IRI (or the
    blank-node label) of a typed node / of a node named in extra_nodes / of any node, a class IRI, a property IRI;
    on a property of the graph (not one of avoid_props: those a {_ p FOCUS} selector of the case ranges over, whose
    answers must stay IRIs -- a literal answer is C10's finding C10-F1) or a fresh one; plain, written "..."^^xsd:string, xsd:anyURI or language-tagged.
    The literal is not a link: it must count as a literal value of s and as nothing for the node it spells."""
    ts = list(ts)
    subjects = list(dict.fromkeys(s for s, _, _ in ts)) or [("I", E + "n0")]
    typed = list(dict.fromkeys(s for s, p, o in ts if p == tau and o[0] != "L")) + [tuple(x) for x in extra_nodes]
    objects = list(dict.fromkeys(o for _, p, o in ts if p != tau and o[0] != "L"))
    classes = list(dict.fromkeys(o[1] for _, p, o in ts if p == tau and o[0] == "I"))
    props = list(dict.fromkeys(p for _, p, _ in ts if p != tau))
    own = [p for p in props if p not in avoid_props]
    have = {(s, p, o[1], o[2]) for s, p, o in ts if o[0] == "L"}
    for _ in range(r.choice([1, 2, 2, 3, 4])):
        k = r.random()
        if k < 0.6 and typed:
            lex = r.choice(typed)[1]
        elif k < 0.75 and objects:
            lex = r.choice(objects)[1]
        elif k < 0.88 and classes:
            lex = r.choice(classes)
        else:
            lex = r.choice(props + [tau])
        kd = r.random()
        if kd < 0.4:
            o = ("L", lex, XS)
        elif kd < 0.6:
            o = ("L", lex, XS, "^^")
        elif kd < 0.9:
            o = ("L", lex, ANYURI)
        else:
            o = ("L", lex, pipe.LANGSTRING, "en")
        p = r.choice(own) if (own and r.random() < 0.6) else E + r.choice(["about", "source"])
        s = r.choice(subjects)
        if (s, p, o[1], o[2]) in have:
            continue
        have.add((s, p, o[1], o[2]))
        ts.insert(r.randint(0, len(ts)), (s, p, o))
    return ts


def sink_graph(r, plant=False):
    """reviews r* pointing at works w*; some works have triples of their own, some (the sinks) only ever occur as
    objects; reviews may point at each other and at unlabelled nodes / blank nodes; a blank node may point at a
    work.  Returns (triples, items): the works are selected by node selectors and / or {_ ex:cites FOCUS}, the
    reviews by node selectors or {FOCUS ex:year _}."""
    nr, nw = r.randint(1, 4), r.randint(2, 5)
    R = [("I", E + "r%d" % k) for k in range(nr)]
    W = [("I", E + "w%d" % k) for k in range(nw)]
    sinks = set(r.sample(W, r.randint(1, nw)))
    ts = []
    for x in R:
        if r.random() < 0.8:
            ts.append((x, E + "year", ("L", "v%d" % r.randint(0, 3), XS)))
        for p in ("cites", "extends")[:r.randint(1, 2)]:
            for w in r.sample(W, r.randint(0, min(3, nw))):
                ts.append((x, E + p, w))
        if r.random() < 0.3:
            ts.append((x, E + "cites", r.choice(R + [("I", E + "u0"), ("B", "_:z0")])))
        if r.random() < 0.25:
            ts.append((x, pipe.RDF_TYPE, ("I", E + "Review")))
    for w in W:
        if w not in sinks:
            ts.append((w, E + "title", ("L", "v%d" % r.randint(0, 3), XS)))
            if r.random() < 0.3:
                ts.append((w, E + "cites", r.choice(W)))
    if r.random() < 0.3:
        ts.append((("B", "_:y0"), E + "cites", r.choice(W)))
    if r.random() < 0.3:
        ts.append((("I", E + "u1"), E + "extends", r.choice(W)))
    ts = list(dict.fromkeys(ts))
    r.shuffle(ts)
    if plant:
        ts = plant_iri_literals(r, ts, extra_nodes=list(sinks) + R, avoid_props=(E + "cites",))
    items = []
    lw = ["A", SH + "Work"] if r.random() < 0.7 else ["P", "sh", "Work"]
    lr = ["A", SH + "Review"] if r.random() < 0.7 else ["P", "sh", "Review"]
    mode = r.random()
    if mode < 0.6:
        for w in W:
            if r.random() < 0.9:
                items.append([["node", ["A", w[1]] if r.random() < 0.6 else ["P", "ex", w[1][len(E):]]], lw])
    if mode >= 0.45 and all(o[0] == "I" for _, p, o in ts if p == E + "cites"):
        items.append([["fo", ["W"], ["P", "ex", "cites"]], lw])
    if not items:
        items.append([["node", ["A", W[0][1]]], lw])
    if r.random() < 0.8:
        if r.random() < 0.5 and any(p == E + "year" for _, p, _ in ts):
            items.append([["fs", ["P", "ex", "year"], ["W"]], lr])
        else:
            for x in R:
                if r.random() < 0.85:
                    items.append([["node", ["A", x[1]]], lr])
    r.shuffle(items)
    return ts, items


def node_items(ts, cfg):
    """the oracle's own denotation of the run's shape map, written as node selectors (None if a selected node is
    not an IRI or nothing is selected): what the run on the reversed graph is given"""
    sm_keys = [(i, k) for i, ks in pipemap.spec_instances_map(ts, dict(cfg, all_classes=False)).items() for k in ks]
    if not sm_keys or any(i.startswith("_:") for i, _ in sm_keys):
        return None
    return [[["node", ["A", i]], ["A", k[1:-1]]] for i, k in sm_keys]


def fixed_map(cfg, items):
    cfg = dict(cfg)
    cfg["smap"] = {"fmt": "fsm", "text": c10.render_fixed(items, None), "pairs": None, "tau": cfg["smap"].get("tau"),
                   "items": items, "answers": {}}
    return cfg


def map_case(r, i):
    """one shape-map case: (G, on), (G, off) and -- when the selected nodes are IRIs -- (reverse(G), off) with the
    same nodes under the same labels"""
    base = pipe.switch_cfg(i)
    base["mode"] = r.choice(["mixed", "mixed", "mixed", "ratio", "abs"])
    base["remove_empty_shapes"] = r.random() < 0.6
    fam = i % 4
    if fam in (0, 1):
        cfg = dict(base)
        ns = [(E, "ex"), (SH, "sh")] + ([r.choice(pipemap.NS_POOL[2:])] if r.random() < 0.3 else [])
        r.shuffle(ns)
        cfg.update({"ns": ns, "targets": [], "cap": -1, "all_classes": r.random() < 0.2, "smap": {"tau": None}})
        plant = r.random() < 0.4
        for attempt in range(20):
            # every selector must answer IRIs (a blank node or a literal answered by a FOCUS pattern is C10-F1):
            # a planted statement may have given ex:year to a blank node
            ts, items = sink_graph(r, plant=plant and attempt < 19)
            if pipemap.iri_only(ts, cfg, items):
                break
        if pipemap.needs_grouping(items):
            ts = pipemap.group_po(ts)
        pipemap.render(cfg, items, r, layout=False)
        cfg["smap"]["answers"] = {}
        fname = "sinks"
    elif fam == 2:
        ts, cfg = pipemap.refs_run(r, base)
        fname = "references"
    else:
        ts = pipe.gen_graph(r, general=(i % 8 != 3))
        if r.random() < 0.5:
            ts = plant_iri_literals(r, ts)
        ts, cfg = pipemap.to_map_run(r, ts, base, only_iri=True, sparql=False)
        fname = "general"
    cfg["thr"] = r.choice(pipemap.thresholds_map(ts, cfg, r))
    on, off = dict(cfg), dict(cfg)
    on["inverse_paths"], off["inverse_paths"] = True, False
    runs = [(ts, on), (ts, off)]
    iri_only = all(t[0][0] != "B" and t[2][0] != "B" for t in ts)
    items3 = node_items(ts, cfg)
    if items3 is not None:
        runs.append((reverse_graph(ts, cfg["tau"]), fixed_map(off, items3)))
    pipemap.note_case(fname, cfg)
    note_inputs(ts, on, "map")
    if len(runs) == 3:
        pipemap.STATS["c14:map_cases_with_reversed_run"] += 1
    return {"runs": runs, "meta": {"stream": "shape-map", "family": fname, "iri_only": iri_only, "i": i}}


def note_inputs(ts, cfg, stream):
    """generation-time statistics (parent process; printed under coverage.shape_map_stream): what the inputs hold"""
    inst = pipespec.spec_instances(ts, cfg)
    subj = {s[1] for s, _, _ in ts}
    sinks = [i for i in inst if i not in subj]
    spelled = [o for _, p, o in ts if o[0] == "L" and p != cfg["tau"] and o[1] in inst]
    st = pipemap.STATS
    st["c14:%s_cases" % stream] += 1
    if sinks:
        st["c14:%s_cases_with_a_target_that_is_never_a_subject" % stream] += 1
        if any(o[0] != "L" and o[1] in sinks for _, p, o in ts if p != cfg["tau"]):
            st["c14:%s_cases_with_such_a_target_having_incoming_links" % stream] += 1
    if spelled:
        st["c14:%s_cases_with_a_literal_spelling_a_target" % stream] += 1
        st["c14:literals_spelling_a_target"] += len(spelled)


# --------------------------------------------------------------------------
# oracle
# --------------------------------------------------------------------------

_FOREIGN = None


def foreign_tags():
    """root-cause tags of the known findings of C01 / C02 (figures and keys in general: their checks own them);
    the recount below reports them with their tag, and they are not C14's to judge"""
    global _FOREIGN
    if _FOREIGN is None:
        _FOREIGN = {f["root_cause_tag"] for pid in ("C01", "C02") for f in core.load_findings(pid)
                    if f.get("status") == "known" and f.get("root_cause_tag")}
    return _FOREIGN


def inverse_only(doc):
    return {"prefixes": doc["prefixes"], "dup_prefixes": [], "unparsed": [],
            "shapes": [dict(sh, constraints=[c for c in sh["constraints"] if c["inv"]]) for sh in doc["shapes"]]}


_KEYMSG = re.compile(r"^class \S+ (?:lacks|has) key \(True, ")


def recount_incoming(ts, cfg, doc):
    """the '^' constraints of the run against the data: figures (pipespec.check_figures on the incoming constraints)
    and keys (pipespec.check_keys / pipemap.check_keys_map, failures that speak of an incoming key or of a missing
    shape)"""
    fails = []
    n = 0
    if not cfg["disable_comments"]:
        f, n = pipespec.check_figures(ts, cfg, inverse_only(doc))
        fails += f
    f, k = (pipemap.check_keys_map if pipemap.is_map(cfg) else pipespec.check_keys)(ts, cfg, doc)
    fails += [(rc, d) for rc, d in f if _KEYMSG.match(d) or d.endswith("instances and no shape")]
    return [(rc, d) for rc, d in fails if rc not in foreign_tags()], n + k


def instances_by_label(ts, cfg):
    out = {}
    for i, ks in pipespec.spec_instances(ts, cfg).items():
        for k in ks:
            out.setdefault(pipespec.shape_label(k, cfg["shapes_ns"]), set()).add(i)
    return out


def exempt_predicates(ts, cfg, labels_here, labels_there, incoming):
    """(label, predicate) pairs whose constraint may legitimately differ between two runs under
    remove_empty_shapes: some value (outgoing; subject, for incoming) is an instance of a label that has a shape in
    one run and none in the other -- a reference to it is printed in one and falls back to the plain kind in the
    other.  Computed from the abstract triples and the oracle's own instance sets."""
    if not cfg["remove_empty_shapes"]:
        return set()
    by = instances_by_label(ts, cfg)
    differ = {l for l in by if (l in labels_here) != (l in labels_there)}
    if not differ:
        return set()
    unstable = set().union(*[by[l] for l in differ])
    labels_of = {}
    for l, ins in by.items():
        for i in ins:
            labels_of.setdefault(i, set()).add(l)
    out = set()
    for s, p, o in ts:
        if o[0] == "L":
            continue
        a, b = (o, s) if incoming else (s, o)
        if a[1] in labels_of and b[1] in unstable:
            out |= {(l, p) for l in labels_of[a[1]]}
    return out


def three_runs(case, docs):
    cfg = case["runs"][0][1]
    ts = case["runs"][0][0]
    tau = cfg["tau"]
    is_map = pipemap.is_map(cfg)
    d1, d2 = docs[0], docs[1]
    d3 = docs[2] if len(docs) > 2 else None
    fails = []
    n1 = {s["label"]: s["n"] for s in d1["shapes"]}
    n2 = {s["label"]: s["n"] for s in d2["shapes"]}
    a, b = cons_list(d1, False, tau, False), cons_list(d2, False, tau, False)
    if not is_map:
        if n1 != n2:
            fails.append((None, "inverse_paths changes shapes / instance counts: %r vs %r" % (n1, n2)))
        if a != b:
            k = [x for x in a if a[x] != b.get(x)][:1]
            fails.append((None, "inverse_paths changes the outgoing constraints of %r" % k))
    else:
        # a label whose nodes have no outgoing feature has an empty shape without inverse_paths, which
        # remove_empty_shapes deletes: with inverse_paths the shape may exist, without any outgoing constraint
        ex = exempt_predicates(ts, cfg, set(n1), set(n2), incoming=False)
        for label in n2:
            if label not in n1:
                fails.append((None, "shape %s exists without inverse_paths and not with it" % label))
        for label in n1:
            if label not in n2:
                if not cfg["remove_empty_shapes"] or a[label]:
                    fails.append((None, "shape %s exists with inverse_paths only, outgoing constraints %r" % (label, a[label][:2])))
                continue
            if n1[label] != n2[label]:
                fails.append((None, "inverse_paths changes the instance count of %s: %r vs %r" % (label, n1[label], n2[label])))
            x = [c for c in a[label] if (label, c[0]) not in ex]
            y = [c for c in b[label] if (label, c[0]) not in ex]
            if x != y:
                fails.append((None, "inverse_paths changes the outgoing constraints of %s: %r vs %r" % (
                    label, [c for c in x if c not in y][:2], [c for c in y if c not in x][:2])))
    if d3 is not None and case["meta"].get("iri_only"):
        inv, rev = cons_list(d1, True, tau, True), cons_list(d3, False, tau, True)
        ex = exempt_predicates(ts, cfg, set(n1), {s["label"] for s in d3["shapes"]}, incoming=True) if is_map else set()
        for label in inv:
            x = sorted(c for c in inv[label] if (label, c[0]) not in ex)
            y = sorted(c for c in rev.get(label, []) if (label, c[0]) not in ex)
            if x != y:
                fails.append((None, "incoming constraints of %s differ from the outgoing constraints of the reversed "
                                    "graph: %r vs %r" % (label, [c for c in x if c not in y][:2], [c for c in y if c not in x][:2])))
    return fails


def reader_gives_back(ts, timeout=5.0):
    """the premise of the literal streams: the real N-Triples reader yields the abstract triples of pipe.nt_doc(ts),
    IRI-spelled literals included (kind, identifier / lexical form, datatype); returns a description of the first
    difference or None"""
    import signal
    from shexer.io.graph.yielder.nt_triples_yielder import NtTriplesYielder
    from shexer.model.IRI import IRI
    from shexer.model.bnode import BNode
    from shexer.model.Literal import Literal

    def abstract(x):
        if isinstance(x, Literal):
            return ("L", str(x), x.elem_type)
        if isinstance(x, BNode):
            return ("B", x.iri)
        if isinstance(x, IRI):
            return ("I", x.iri)
        return ("?", str(x))
    old = signal.signal(signal.SIGALRM, pipe._alarm)
    signal.setitimer(signal.ITIMER_REAL, timeout)
    try:
        got = [(abstract(s), str(p), abstract(o)) for s, p, o in NtTriplesYielder(raw_graph=pipe.nt_doc(ts)).yield_triples()]
    except pipe.Hang:
        return "the N-Triples reader does not terminate on the document"
    except Exception as e:  # noqa: BLE001
        return "the N-Triples reader raises %s" % type(e).__name__
    finally:
        signal.setitimer(signal.ITIMER_REAL, 0)
        signal.signal(signal.SIGALRM, old)
    want = [(tuple(s), p, tuple(o[:3])) for s, p, o in ts]
    if got != want:
        k = next((i for i, (a, b) in enumerate(zip(got, want)) if a != b), min(len(got), len(want)))
        return "the N-Triples reader yields %r for statement %d, written from %r" % (
            got[k] if k < len(got) else None, k, want[k] if k < len(want) else None)
    return None


class Spec(pipeprops.PropSpec):
    pid = "C14"
    theorems = "C14_direct_unchanged, C14_profile_direct_independent (Props/C14.v)"
    projection = staticmethod(pipeprops.proj_figures)
    projection_name = "per shape label, instance count, constraints with direction, cardinalities and all figures"
    literal_contents = ("literal contents are alphanumeric, or the IRI / blank-node label of a node, a class or a "
                        "property of the document (no character that N-Triples escapes; the real reader gives them "
                        "back as written, plain, ^^xsd:string, ^^xsd:anyURI and @en alike)")
    rule = ("graphs as C01; three fresh Shapers: (G, inverse_paths on), (G, off), (typing triples of G + every "
            "non-literal non-typing triple reversed, off); the reversed comparison is strict on graphs without blank "
            "nodes; the incoming constraints of the first run recounted from the triples (keys and figures); "
            "non-trivial = some class with >= 2 instances and some non-typing triple; plus the same with 1..4 "
            "literals spelled like a typed node / object / class / property of the graph (plain, ^^xsd:string, "
            "xsd:anyURI, @en); plus shape-map cases (families: works that only occur as objects selected by node "
            "selectors or {_ p FOCUS}; labelled nodes pointing at labelled nodes; C01's graphs with random selectors "
            "answering IRIs), third run = the oracle's denotation as node selectors on the reversed graph")

    def gen_cases(self, tier, rnd):
        n = 15000 if tier == "thorough" else 1000
        cases = []
        for i in range(n):
            r = random.Random(rnd.getrandbits(48))
            ts = pipe.gen_graph(r, general=(i % 3 != 0))
            if i % 2 == 0:
                ts = [t for t in ts if t[0][0] != "B" and t[2][0] != "B"]
            cfg = pipeprops.random_cfg(r, ts, i)
            on, off = dict(cfg), dict(cfg)
            on["inverse_paths"], off["inverse_paths"] = True, False
            cases.append({"runs": [(ts, on), (ts, off), (reverse_graph(ts, cfg["tau"]), off)],
                          "meta": {"iri_only": all(t[0][0] != "B" and t[2][0] != "B" for t in ts)}})
        n = 4000 if tier == "thorough" else 300
        for i in range(n):
            r = random.Random(rnd.getrandbits(48))
            ts = pipe.gen_graph(r, general=(i % 3 != 0))
            if i % 4 != 3:
                ts = [t for t in ts if t[0][0] != "B" and t[2][0] != "B"]
            ts = plant_iri_literals(r, ts)
            cfg = pipeprops.random_cfg(r, ts, i)
            on, off = dict(cfg), dict(cfg)
            on["inverse_paths"], off["inverse_paths"] = True, False
            note_inputs(ts, on, "iri_literal")
            cases.append({"runs": [(ts, on), (ts, off), (reverse_graph(ts, cfg["tau"]), off)],
                          "meta": {"stream": "iri-literals",
                                   "iri_only": all(t[0][0] != "B" and t[2][0] != "B" for t in ts)}})
        n = 4000 if tier == "thorough" else 300
        for i in range(n):
            cases.append(map_case(random.Random(rnd.getrandbits(48)), i))
        return cases

    def oracle(self, case, impl):
        if any(r[0] != "ok" for r in impl):
            return [], 0
        docs = [pipe.canon(r[1]) for r in impl]
        fails = three_runs(case, docs)
        ts, on = case["runs"][0][0], case["runs"][0][1]
        more, n = recount_incoming(ts, on, docs[0])
        if case["meta"].get("stream") in ("iri-literals", "shape-map"):
            bad = reader_gives_back(ts)
            if bad:
                more.append((None, bad))
        return fails + more, 2 + n


def run(tier, seed, replay=None):
    return pipeprops.run_property(Spec(), tier, seed, replay)
