"""C14 -- inverse paths add incoming-link constraints and leave the rest untouched.

Oracle: three real runs: G with inverse_paths, G without, reverse(G) without."""
import random

from vp import pipeprops, pipespec, pipe


def reverse_graph(ts, tau):
    out = []
    for s, p, o in ts:
        if p == tau:
            out.append((s, p, o))
        elif o[0] != "L":
            out.append((o, p, s))
    return out


def cons_list(doc, inv, tau, skip_tau):
    return {sh["label"]: [(c["pred"], tuple(c["values"]), c["card"], c["fig"],
                           tuple((k.get("obj"), k.get("card"), k.get("fig")) for k in c["comments"]))
                          for c in sh["constraints"] if c["inv"] == inv and not (skip_tau and c["pred"] == tau)]
            for sh in doc["shapes"]}


class Spec(pipeprops.PropSpec):
    pid = "C14"
    theorems = "C14_direct_unchanged, C14_profile_direct_independent (Props/C14.v)"
    projection = staticmethod(pipeprops.proj_figures)
    projection_name = "per shape label, instance count, constraints with direction, cardinalities and all figures"
    rule = ("graphs as C01; three fresh Shapers: (G, inverse_paths on), (G, off), (typing triples of G + every "
            "non-literal non-typing triple reversed, off); the reversed comparison is strict on graphs without blank "
            "nodes; non-trivial = some class with >= 2 instances and some non-typing triple")

    def gen_cases(self, tier, rnd):
        n = 15000 if tier == "thorough" else 1000
        cases = []
        for i in range(n):
            r = random.Random(rnd.getrandbits(48))
            ts = pipe.gen_graph(r, general=(i % 3 != 0))
            if i % 2 == 0:
                ts = [t for t in ts if t[0][0] != "B" and t[2][0] != "B"]
            cfg = pipeprops.random_cfg(r, ts, i)
            on, off = dict(cfg), dict(cfg)
            on["inverse_paths"], off["inverse_paths"] = True, False
            cases.append({"runs": [(ts, on), (ts, off), (reverse_graph(ts, cfg["tau"]), off)],
                          "meta": {"iri_only": all(t[0][0] != "B" and t[2][0] != "B" for t in ts)}})
        return cases

    def oracle(self, case, impl):
        if any(r[0] != "ok" for r in impl):
            return [], 0
        tau = case["runs"][0][1]["tau"]
        d1, d2, d3 = [pipe.canon(r[1]) for r in impl]
        fails = []
        n1 = {s["label"]: s["n"] for s in d1["shapes"]}
        n2 = {s["label"]: s["n"] for s in d2["shapes"]}
        if n1 != n2:
            fails.append((None, "inverse_paths changes shapes / instance counts: %r vs %r" % (n1, n2)))
        a, b = cons_list(d1, False, tau, False), cons_list(d2, False, tau, False)
        if a != b:
            k = [x for x in a if a[x] != b.get(x)][:1]
            fails.append((None, "inverse_paths changes the outgoing constraints of %r" % k))
        if case["meta"].get("iri_only"):
            inv, rev = cons_list(d1, True, tau, True), cons_list(d3, False, tau, True)
            for label in inv:
                if sorted(inv[label]) != sorted(rev.get(label, [])):
                    fails.append((None, "incoming constraints of %s differ from the outgoing constraints of the reversed "
                                        "graph: %r vs %r" % (label, sorted(inv[label])[:2], sorted(rev.get(label, []))[:2])))
        return fails, 2


def run(tier, seed, replay=None):
    return pipeprops.run_property(Spec(), tier, seed, replay)
